package csrf

// Request histories against the real CSRF middleware, judged by the specification state
// `live[token] -> deadline` of DESIGN 3.C16.

import (
	"fmt"
	"net"
	"strconv"
	"strings"
	"time"

	"github.com/gofiber/fiber/v3"
	fcsrf "github.com/gofiber/fiber/v3/middleware/csrf"
	"github.com/gofiber/fiber/v3/middleware/session"
	"github.com/valyala/fasthttp"

	"verifharness/internal/drive"
	"verifharness/internal/ev"
	"verifharness/internal/gen"
	"verifharness/internal/strict"
	"verifharness/internal/vstore"
	"verifharness/internal/vt"
)

const (
	margin      = 2 * time.Second // storage granularity is 1 s: only judge well before / well after
	sessCookie  = "session_id"
	hdrName     = "X-Csrf-Token"
	fieldName   = "_csrf"
	paramName   = "csrf"
	trustedPeer = "10.1.2.3"
)

// backends
const (
	bVstore    = "storage-vstore"        // injected storage that copies keys (like any serialising driver)
	bKeyRef    = "storage-vstore-keyref" // injected storage that keeps the key string it was given (like a Go map driver)
	bMemory    = "storage-memory"
	bSessMW    = "session-mw"        // session middleware in front, session data in a vstore
	bSessStore = "session-store"     // csrf.Config.Session only, session data in a vstore
	bSessMWMem = "session-mw-memory" // session middleware, default memory storage
)

func isSession(b string) bool { return strings.HasPrefix(b, "session") }

func (h *hcfg) cookieOpts() string {
	return fmt.Sprintf("{sessiononly=%v secure=%v httponly=%v samesite=%q domain=%q path=%q}",
		h.ckSessionOnly, h.ckSecure, h.ckHTTPOnly, h.ckSameSite, h.ckDomain, h.ckPath)
}

var ehNames = []string{"default", "custom-returns-error", "custom-writes-403-returns-nil", "custom-returns-nil"}

// scheme modes
const (
	smHTTP       = iota // plain http
	smTLS               // TLS flag of the connection
	smProxyHTTPS        // TrustProxy, trusted peer says X-Forwarded-Proto: https
	smProxySpoof        // TrustProxy, untrusted peer says X-Forwarded-Proto: https -> still http
)

var smNames = []string{"http", "https-tls", "https-trusted-proxy", "http-spoofed-xfp"}

func schemeOf(mode int) string {
	if mode == smTLS || mode == smProxyHTTPS {
		return "https"
	}
	return "http"
}

type hcfg struct {
	backend   string
	extractor string // header form query param cookie
	keyLookup bool   // configure through KeyLookup (true) or an Extractor func (false)
	// decoy: with an explicit Extractor, Config.KeyLookup is set to this string naming ANOTHER source.
	// Documented as ignored ("KeyLookup will be ignored if Extractor is explicitly set"): the
	// extractor in effect, and with it the cookie-comparison rule, is cfg.extractor.
	decoy      string
	singleUse  bool
	idle       time.Duration
	cookieName string
	trusted    []trustEntry
	trustedCfg []string // literal config strings (may carry harmless decoration)
	mode       int
	host       string // Host header
	req        otuple // request origin, by construction
	prefix     string // token prefix (fixed per case)
	// tokStyle: where the counter sits in the issued tokens, so that two live tokens of one rig are
	// near misses of each other: 0 "prefix-N"; 1..4 a fixed-width base-36 counter first / in the
	// middle / last but one / last (same length, all other bytes equal).
	tokStyle      int
	reuseCtx      bool // one fasthttp.RequestCtx for the whole history, as on a keep-alive connection
	customMethods bool // the app registers extension methods (Config.RequestMethods)
	// errHandler: Config.ErrorHandler — 0 default (returns 403 error), 1 custom returning an error,
	// 2 custom that writes its own 403 response and returns nil, 3 custom that returns nil without
	// writing anything. The verdict never depends on it: did the protected handler run.
	errHandler int
	// several middleware instances in one process: a route group of a shared app (sharedApp, under
	// pathPrefix) instead of an app of its own
	sharedApp  *fiber.App
	pathPrefix string
	// cookie options of the CSRF cookie: they shape the Set-Cookie line only; the server-side token
	// lifetime (IdleTimeout) and every verdict are independent of them
	ckSessionOnly, ckSecure, ckHTTPOnly bool
	ckSameSite, ckDomain, ckPath        string
}

func (h *hcfg) String() string {
	return fmt.Sprintf("backend=%s extractor=%s keylookup=%v decoy-keylookup=%q singleuse=%v idle=%s cookie=%s mode=%s host=%s trusted=%q reusectx=%v tokstyle=%d custom-methods=%v errorhandler=%s cookie-opts=%s",
		h.backend, h.extractor, h.keyLookup, h.decoy, h.singleUse, h.idle, h.cookieName, smNames[h.mode], h.host, h.trustedCfg, h.reuseCtx, h.tokStyle, h.customMethods, ehNames[h.errHandler], h.cookieOpts())
}

type entry struct {
	route  string
	method string
	ctxTok string
	delErr string
}

// world is one app under test plus what the harness observes at its boundaries.
type world struct {
	cfg        *hcfg
	app        *fiber.App
	d          *drive.Direct
	store      *vstore.Store // csrf storage, or the session storage for session backends; nil for memory
	ref        *refStore     // bKeyRef only
	opsAtEntry int           // journal length when the protected handler was entered (-1: not entered)
	fs         *faultStore   // journal + fault plan in front of store (not for bKeyRef / memory)
	nReq       int
	fctx       *fasthttp.RequestCtx // reused across requests when cfg.reuseCtx (keep-alive connection)
	nTok       int
	nSid       int
	genReq     []string // tokens generated during the current request
	entries    []entry  // protected-handler entries during the current request
}

const b36 = "0123456789abcdefghijklmnopqrstuvwxyz"

func (w *world) tokName(n int) string {
	p := w.cfg.prefix
	f := string([]byte{b36[(n/36)%36], b36[n%36]})
	switch w.cfg.tokStyle {
	case 1:
		return f + p
	case 2:
		return p[:len(p)/2] + f + p[len(p)/2:]
	case 3:
		return p + f + "x"
	case 4:
		return p + f
	}
	return p + "-" + strconv.Itoa(n)
}

// mutate changes exactly one byte of a token: which selects first / middle / last but one / last /
// some other position. The result keeps the length and the token alphabet.
func mutate(tok string, which int) string {
	if tok == "" {
		return ""
	}
	n := len(tok)
	pos := 0
	switch which {
	case 0:
		pos = 0
	case 1:
		pos = n / 2
	case 2:
		pos = n - 2
	case 3:
		pos = n - 1
	default:
		pos = (which*7 + 3) % n
	}
	if pos < 0 {
		pos = 0
	}
	b := []byte(tok)
	if b[pos] != 'q' {
		b[pos] = 'q'
	} else {
		b[pos] = 'r'
	}
	return string(b)
}

// appConfig is the fiber.Config an app needs for the scheme mode and the methods of cfg.
func appConfig(cfg *hcfg) fiber.Config {
	fc := fiber.Config{}
	if cfg.mode == smProxyHTTPS || cfg.mode == smProxySpoof {
		fc.TrustProxy = true
		fc.TrustProxyConfig = fiber.TrustProxyConfig{Proxies: []string{trustedPeer}}
	}
	if cfg.customMethods {
		// methods beyond fiber's defaults have to be registered with the app to be routable at all
		fc.RequestMethods = append(append([]string(nil), fiber.DefaultMethods...), customMethods...)
	}
	return fc
}

func newWorld(cfg *hcfg, plan *faultPlan) *world {
	w := &world{cfg: cfg}
	fc := appConfig(cfg)
	if cfg.sharedApp != nil {
		w.app = cfg.sharedApp
	} else {
		w.app = fiber.New(fc)
	}
	cc := fcsrf.Config{
		IdleTimeout:       cfg.idle,
		SingleUseToken:    cfg.singleUse,
		CookieName:        cfg.cookieName,
		CookieSessionOnly: cfg.ckSessionOnly,
		CookieSecure:      cfg.ckSecure,
		CookieHTTPOnly:    cfg.ckHTTPOnly,
		CookieSameSite:    cfg.ckSameSite,
		CookieDomain:      cfg.ckDomain,
		CookiePath:        cfg.ckPath,
		TrustedOrigins:    cfg.trustedCfg,
		KeyGenerator: func() string {
			w.nTok++
			t := w.tokName(w.nTok)
			w.genReq = append(w.genReq, t)
			return t
		},
	}
	switch cfg.errHandler {
	case 1:
		cc.ErrorHandler = func(_ fiber.Ctx, err error) error {
			return fiber.NewError(fiber.StatusTeapot, "csrf: "+err.Error())
		}
	case 2:
		cc.ErrorHandler = func(c fiber.Ctx, _ error) error {
			return c.Status(fiber.StatusForbidden).SendString("denied")
		}
	case 3:
		cc.ErrorHandler = func(fiber.Ctx, error) error { return nil }
	}
	if cfg.keyLookup {
		switch cfg.extractor {
		case "header":
			cc.KeyLookup = "header:" + hdrName
		case "form":
			cc.KeyLookup = "form:" + fieldName
		case "query":
			cc.KeyLookup = "query:" + fieldName
		case "param":
			cc.KeyLookup = "param:" + paramName
		case "cookie":
			cc.KeyLookup = "cookie:" + cfg.cookieName
		}
	} else {
		cc.KeyLookup = cfg.decoy
		switch cfg.extractor {
		case "header":
			cc.Extractor = fcsrf.FromHeader(hdrName)
		case "form":
			cc.Extractor = fcsrf.FromForm(fieldName)
		case "query":
			cc.Extractor = fcsrf.FromQuery(fieldName)
		case "param":
			cc.Extractor = fcsrf.FromParam(paramName)
		case "cookie":
			cc.Extractor = fcsrf.FromCookie(cfg.cookieName)
		}
	}
	sidGen := func() string {
		w.nSid++
		return "S" + cfg.prefix + "-" + strconv.Itoa(w.nSid)
	}
	switch cfg.backend {
	case bVstore:
		w.store = vstore.New()
		w.fs = &faultStore{s: w.store, plan: plan}
		cc.Storage = w.fs
	case bKeyRef:
		w.store = vstore.New()
		w.store.KeepKeyRef = true
		w.ref = &refStore{s: w.store}
		cc.Storage = w.ref
	case bMemory:
	case bSessMW, bSessMWMem, bSessStore:
		sc := session.Config{IdleTimeout: 200 * time.Hour, KeyGenerator: sidGen}
		if cfg.backend != bSessMWMem {
			w.store = vstore.New()
			w.fs = &faultStore{s: w.store, plan: plan}
			sc.Storage = w.fs
		}
		if cfg.backend == bSessStore {
			cc.Session = session.NewStore(sc)
		} else {
			mw, st := session.NewWithStore(sc)
			w.app.Use(mw)
			cc.Session = st
		}
	}
	mw := fcsrf.New(cc)
	h := func(c fiber.Ctx) error {
		w.entries = append(w.entries, entry{route: "r", method: c.Method(), ctxTok: fcsrf.TokenFromContext(c)})
		return c.SendString("ok")
	}
	hd := func(c fiber.Ctx) error {
		if w.fs != nil {
			w.opsAtEntry = len(w.fs.ops)
		}
		en := entry{route: "del", method: c.Method(), ctxTok: fcsrf.TokenFromContext(c)}
		if hh := fcsrf.HandlerFromContext(c); hh != nil {
			if err := hh.DeleteToken(c); err != nil {
				en.delErr = err.Error()
			}
		} else {
			en.delErr = "no handler in context"
		}
		w.entries = append(w.entries, en)
		return c.SendString("deleted")
	}
	switch {
	case cfg.extractor == "param":
		g := w.app.Group(cfg.pathPrefix+"/:"+paramName, mw)
		g.All("/r", h)
		g.All("/del", hd)
	case cfg.pathPrefix != "":
		g := w.app.Group(cfg.pathPrefix, mw)
		g.All("/r", h)
		g.All("/del", hd)
	default:
		w.app.Use(mw)
		w.app.All("/r", h)
		w.app.All("/del", hd)
	}
	w.d = drive.NewDirect(w.app) // with a shared app: rebuilt by the caller once every group is registered
	if cfg.reuseCtx {
		w.fctx = &fasthttp.RequestCtx{}
	}
	return w
}

// faultPlan says which storage calls of a history fail, by the global (1-based) index of the call:
//
//	pmRun:       calls k .. k+n-1 fail (n=1: the classic single fault; then the store has recovered)
//	pmOutageReq: call k and every later call fail until the request in which call k happened ends
type faultPlan struct {
	mode int
	k, n int
}

const (
	pmRun = iota
	pmOutageReq
)

func (p *faultPlan) String() string {
	if p == nil {
		return ""
	}
	if p.mode == pmOutageReq {
		return "outage from call #" + strconv.Itoa(p.k) + " to the end of that request"
	}
	if p.n == 1 {
		return "call #" + strconv.Itoa(p.k) + " fails"
	}
	return "calls #" + strconv.Itoa(p.k) + "..#" + strconv.Itoa(p.k+p.n-1) + " fail, then recovery"
}

// faultStore sits between the middleware and the instrumented store: private copies of keys (what a
// driver that serialises keys does), its own journal, and the fault plan. A failing call does not
// touch the store.
type faultStore struct {
	s        *vstore.Store
	plan     *faultPlan
	calls    int
	req      int // sequence number of the request being served (set by world.do)
	outageIn int // pmOutageReq: the request the outage belongs to (0 = not started)
	ops      []vstore.Op
}

func (f *faultStore) fails() bool {
	f.calls++
	p := f.plan
	if p == nil {
		return false
	}
	switch p.mode {
	case pmRun:
		return f.calls >= p.k && f.calls < p.k+p.n
	case pmOutageReq:
		if f.calls == p.k {
			f.outageIn = f.req
		}
		return f.outageIn != 0 && f.outageIn == f.req
	}
	return false
}

func (f *faultStore) Get(k string) ([]byte, error) {
	k = strings.Clone(k)
	if f.fails() {
		f.ops = append(f.ops, vstore.Op{Seq: f.calls, Kind: "get", Key: k, Err: true})
		return nil, vstore.ErrInjected
	}
	v, err := f.s.Get(k)
	f.ops = append(f.ops, vstore.Op{Seq: f.calls, Kind: "get", Key: k, Found: v != nil, Err: err != nil})
	return v, err
}

func (f *faultStore) Set(k string, v []byte, d time.Duration) error {
	k = strings.Clone(k)
	if f.fails() {
		f.ops = append(f.ops, vstore.Op{Seq: f.calls, Kind: "set", Key: k, Err: true})
		return vstore.ErrInjected
	}
	err := f.s.Set(k, v, d)
	f.ops = append(f.ops, vstore.Op{Seq: f.calls, Kind: "set", Key: k, Err: err != nil})
	return err
}

func (f *faultStore) Delete(k string) error {
	k = strings.Clone(k)
	if f.fails() {
		f.ops = append(f.ops, vstore.Op{Seq: f.calls, Kind: "delete", Key: k, Err: true})
		return vstore.ErrInjected
	}
	err := f.s.Delete(k)
	f.ops = append(f.ops, vstore.Op{Seq: f.calls, Kind: "delete", Key: k, Err: err != nil})
	return err
}
func (f *faultStore) Reset() error { return f.s.Reset() }
func (f *faultStore) Close() error { return f.s.Close() }

// refStore passes keys through untouched, so the store's map keeps the very string the
// middleware passed (as gofiber's map-based memory drivers, incl. /repo/internal/storage/memory,
// do), and remembers each key next to a private copy: a Go string whose bytes change after the
// call returned is memory the middleware did not own.
type refStore struct {
	s    *vstore.Store
	kept []keptKey
	seen *keptKey
}

type keptKey struct{ key, clone string }

func (c *refStore) Get(k string) ([]byte, error) { return c.s.Get(k) }
func (c *refStore) Set(k string, v []byte, d time.Duration) error {
	c.kept = append(c.kept, keptKey{k, strings.Clone(k)})
	return c.s.Set(k, v, d)
}
func (c *refStore) Delete(k string) error { return c.s.Delete(k) }
func (c *refStore) Reset() error          { return c.s.Reset() }
func (c *refStore) Close() error          { return c.s.Close() }

// mutated reports (and latches, with the text seen at that moment) a kept key whose bytes no
// longer read as they did when Set was called. Called after every request: the buffer may read
// the old text again later.
func (c *refStore) mutated() *keptKey {
	if c.seen != nil {
		return c.seen
	}
	for i := range c.kept {
		if c.kept[i].key != c.kept[i].clone {
			c.seen = &keptKey{key: strings.Clone(c.kept[i].key), clone: c.kept[i].clone}
			return c.seen
		}
	}
	return nil
}

// wire is one concrete request as the harness sends it.
type wire struct {
	method  string
	route   string // r | del
	ext     string // value offered through the configured extractor ("" = none)
	ck      string // CSRF cookie value ("" = none)
	sid     string // session cookie value ("" = none)
	origin  *hdrVal
	referer *hdrVal
	xhdr    int    // index into extraHeaders
	mode    int    // how this request arrives (scheme mode); the app may be reachable over both schemes
	req     otuple // the request's own origin: scheme of this request, host and port of the Host header
}

func (w *world) do(q *wire) *drive.Resp {
	cfg := w.cfg
	rq := &drive.Req{Method: q.method, Host: cfg.host}
	path := "/" + q.route
	ck := q.ck
	switch cfg.extractor {
	case "param":
		p := q.ext
		if p == "" {
			p = "none"
		}
		path = "/" + p + path
	case "query":
		if q.ext != "" {
			path += "?" + fieldName + "=" + q.ext
		}
	case "form":
		rq.Hdr = append(rq.Hdr, drive.H{K: "Content-Type", V: "application/x-www-form-urlencoded"})
		if q.ext != "" {
			rq.Body = []byte("a=1&" + fieldName + "=" + q.ext)
		} else {
			rq.Body = []byte("a=1")
		}
	case "header":
		if q.ext != "" {
			rq.Hdr = append(rq.Hdr, drive.H{K: hdrName, V: q.ext})
		}
	case "cookie":
		ck = q.ext
	}
	rq.URI = cfg.pathPrefix + path
	rq.Hdr = append(rq.Hdr, extraHeaders[q.xhdr]...)
	var cookies []string
	if ck != "" {
		cookies = append(cookies, cfg.cookieName+"="+ck)
	}
	if q.sid != "" {
		cookies = append(cookies, sessCookie+"="+q.sid)
	}
	if len(cookies) > 0 {
		rq.Hdr = append(rq.Hdr, drive.H{K: "Cookie", V: strings.Join(cookies, "; ")})
	}
	if q.origin != nil {
		rq.Hdr = append(rq.Hdr, drive.H{K: "Origin", V: q.origin.raw})
	}
	if q.referer != nil {
		rq.Hdr = append(rq.Hdr, drive.H{K: "Referer", V: q.referer.raw})
	}
	switch q.mode {
	case smTLS:
		rq.TLS = true
	case smProxyHTTPS:
		rq.Remote = &net.TCPAddr{IP: net.ParseIP(trustedPeer), Port: 5555}
		rq.Hdr = append(rq.Hdr, drive.H{K: "X-Forwarded-Proto", V: "https"})
	case smProxySpoof:
		rq.Hdr = append(rq.Hdr, drive.H{K: "X-Forwarded-Proto", V: "https"})
	}
	w.genReq = w.genReq[:0]
	w.entries = w.entries[:0]
	w.nReq++
	w.opsAtEntry = -1
	if w.fs != nil {
		w.fs.req = w.nReq
	}
	if w.fctx != nil {
		// what fasthttp's server loop does between requests of a connection
		w.fctx.Response.Reset()
		w.fctx.ResetUserValues()
		return w.d.DoCtx(w.fctx, rq)
	}
	return w.d.Do(rq)
}

// setCookies returns the final value of a cookie set by the response: ("", false, false) when not
// set; expired=true when the line tells the client to drop it.
func respCookie(resp *drive.Resp, name string, now time.Time) (val string, set, expired bool, bad string) {
	for _, line := range resp.All("Set-Cookie") {
		sc, cls := strict.ParseSetCookie(line)
		if sc == nil {
			if strings.HasPrefix(line, name+"=") {
				bad = cls
			}
			continue
		}
		if sc.Name != name {
			continue
		}
		// Expires is written in whole seconds: with a sub-second timeout it may already read as "now".
		// Only a clearly past date (or Max-Age<=0, or an empty value) tells the client to drop it.
		val, set, expired = sc.Value, true, sc.Expired(now.Add(-2*time.Second)) || sc.Value == ""
	}
	return
}

func isSafe(m string) bool {
	return m == "GET" || m == "HEAD" || m == "OPTIONS" || m == "TRACE"
}

// ---------------------------------------------------------------------------------------------
// specification state

const (
	stLive = iota
	stDead
	stUnknown   // generated but never handed to a client: the statement says nothing about it
	stUncertain // within the storage granularity of its deadline
)

type tokInfo struct {
	state        int
	reason       string        // why dead
	deadline     time.Duration // virtual instant (vt.Since) the idle timeout ends
	base         time.Duration // deadline if it had never been extended
	extBy        string        // "", safe, unsafe
	sid          string        // session the token lives in (session backends)
	unstored     bool          // fault runs: a storage Set failed in the request that handed it out
	consumeFault bool          // fault runs: the delete that consumed it (single use) failed
}

type client struct {
	tok   string   // CSRF cookie the client holds
	sid   string   // session cookie
	hist  []string // every token it was ever handed
	prevE string   // extractor / cookie value of its last unsafe request
	prevC string
}

type model struct {
	cfg     *hcfg
	tokens  map[string]*tokInfo
	clients []*client
	fault   bool // a storage fault has fired: only "must not reach" is judged from here on
}

// ttl is the idle timeout as the oracle reads it: rounded UP to whole seconds, so that together with
// the 2 s margin "expired" is only claimed at ceil(timeout)+2 s or later, whatever a backend does
// with fractions of a second (a sub-second token may well be dead at once: not judged).
func ttl(cfg *hcfg) time.Duration {
	return (cfg.idle + time.Second - 1) / time.Second * time.Second
}

func (m *model) status(tok, sid string, now time.Duration) (int, string) {
	ti := m.tokens[tok]
	if ti == nil {
		return stDead, "token-not-issued"
	}
	switch ti.state {
	case stUnknown, stUncertain:
		return ti.state, ""
	case stDead:
		return stDead, ti.reason
	}
	if isSession(m.cfg.backend) && ti.sid != sid {
		return stDead, "token-of-other-session"
	}
	if now >= ti.deadline+margin {
		return stDead, "expired-token"
	}
	if now > ti.deadline-margin {
		return stUncertain, ""
	}
	return stLive, ""
}

// deliver: the response handed `tok` to a client as its CSRF cookie.
func (m *model) deliver(cl *client, tok, sid string, fresh, stored bool, now time.Duration, by string) {
	cl.tok = tok
	if len(cl.hist) == 0 || cl.hist[len(cl.hist)-1] != tok {
		cl.hist = append(cl.hist, tok)
	}
	ti := m.tokens[tok]
	if ti == nil {
		return // a value the server never generated; status() says not-issued
	}
	if fresh {
		ti.state, ti.deadline, ti.base, ti.extBy, ti.sid = stLive, now+ttl(m.cfg), now+ttl(m.cfg), "", sid
		if isSession(m.cfg.backend) && stored {
			// a session holds one token: whatever it held before is replaced
			for k, o := range m.tokens {
				if k != tok && o.sid == sid && o.state == stLive {
					o.state, o.reason = stDead, "replaced-token"
				}
			}
		}
		return
	}
	st, _ := m.status(tok, sid, now)
	if st == stLive || st == stUncertain {
		// use extends the idle timeout (docs: "each subsequent request extends the expiration")
		ti.state, ti.deadline, ti.extBy = stLive, now+ttl(m.cfg), by
	}
}

func (m *model) kill(tok, reason string) {
	if ti := m.tokens[tok]; ti != nil && ti.state != stDead {
		ti.state, ti.reason = stDead, reason
	}
}

// ---------------------------------------------------------------------------------------------
// abstract histories (pure data generated up front, so that a history replays identically under
// every fault plan)

const (
	kFetch = iota
	kPost
	kAdvance
	kDel
)

// token selectors
const (
	selOwn = iota
	selOther
	selForged
	selFuture
	selStale
	selEmpty
	selPrev
	selMut  // the client's own token with one byte changed (position from step.idx)
	selPeer // a token held by a client of ANOTHER middleware instance of the same process
)

var selNames = []string{"own", "other", "forged", "future", "stale", "empty", "prev", "mutated", "peer-instance"}

// origin flavours inside histories
const (
	ofNone     = iota // honest default for the scheme (https: canonical same-origin Origin)
	ofSame            // canonical same-origin Origin
	ofEvil            // Origin of another site
	ofRefOK           // no Origin, same-origin Referer with a path
	ofRefBad          // no Origin, cross-site Referer
	ofExplicit        // headers given by the step (origins family, corpus)
)

type step struct {
	kind   int
	cl     int
	other  int
	method string
	ext    int // selector for the extractor value
	ck     int // selector for the cookie value
	idx    int
	sidSel int // selOwn, selOther, selEmpty
	orig   int
	adv    int
	label  string
	o, ref *hdrVal // ofExplicit
	xhdr   int     // extra request headers (extraHeaders), irrelevant to every clause
	modeOv int     // 0: the case's scheme mode; otherwise scheme mode + 1 for this request only
}

type histSpec struct {
	cfg      *hcfg
	nClients int
	steps    []step
}

// Safe methods are GET, HEAD, OPTIONS, TRACE (RFC 9110 9.2.1); every other method is unsafe: the
// usual four, CONNECT (one of fiber's default methods) and, when the app registers them through
// Config.RequestMethods, extension methods.
// extraHeaders: request headers that no clause of the statement mentions; a request is judged the
// same with or without them (CORS preflight headers, fetch metadata, AJAX marker).
var extraHeaders = [][]drive.H{
	nil,
	{{K: "Access-Control-Request-Method", V: "POST"}, {K: "Access-Control-Request-Headers", V: "x-csrf-token, content-type"}},
	{{K: "Access-Control-Request-Method", V: "DELETE"}},
	{{K: "X-Requested-With", V: "XMLHttpRequest"}},
	{{K: "Sec-Fetch-Site", V: "cross-site"}, {K: "Sec-Fetch-Mode", V: "cors"}, {K: "Sec-Fetch-Dest", V: "empty"}},
	{{K: "Sec-Fetch-Site", V: "same-origin"}, {K: "Sec-Fetch-Mode", V: "navigate"}, {K: "Sec-Fetch-Dest", V: "document"}, {K: "Sec-Fetch-User", V: "?1"}},
	{{K: "Access-Control-Request-Method", V: "PUT"}, {K: "X-Requested-With", V: "XMLHttpRequest"}, {K: "Sec-Fetch-Mode", V: "cors"}},
}

var unsafeMethods = []string{"POST", "POST", "POST", "PUT", "PATCH", "DELETE", "CONNECT"}
var customMethods = []string{"PURGE", "PROPPATCH", "LINK", "UNLINK", "MKCOL"}

func unsafeFor(r *gen.Rand, cfg *hcfg) string {
	if cfg.customMethods && r.Chance(2, 5) {
		return gen.Pick(r, customMethods)
	}
	return gen.Pick(r, unsafeMethods)
}

var safeMethods = []string{"GET", "GET", "GET", "HEAD", "OPTIONS", "TRACE"}

func genCfg(r *gen.Rand, backends []string) *hcfg {
	cfg := &hcfg{
		backend:       gen.Pick(r, backends),
		extractor:     gen.Pick(r, []string{"header", "header", "form", "query", "param", "cookie"}),
		keyLookup:     r.Bool(),
		singleUse:     r.Chance(2, 5),
		idle:          gen.Pick(r, []time.Duration{6 * time.Second, 10 * time.Second, 10 * time.Second, 60 * time.Second}),
		cookieName:    "csrf_",
		mode:          gen.Pick(r, []int{smHTTP, smHTTP, smTLS, smProxyHTTPS, smProxySpoof}),
		host:          gen.Pick(r, []string{"example.com", "app.example.com", "example.com:8080", "shop.test"}),
		prefix:        "t" + r.StringFrom(gen.Lower+gen.Digits, 6),
		reuseCtx:      r.Bool(),
		tokStyle:      r.Intn(5),
		customMethods: r.Chance(1, 3),
		errHandler:    r.PickW(5, 2, 3, 2),
	}
	if r.Chance(1, 40) {
		cfg.idle = 30 * time.Minute
	}
	if r.Chance(1, 6) {
		// timeouts that are not whole seconds
		cfg.idle = gen.Pick(r, []time.Duration{time.Millisecond, 500 * time.Millisecond, 999 * time.Millisecond, 1500 * time.Millisecond, 2500 * time.Millisecond})
	}
	if r.Chance(1, 4) {
		cfg.cookieName = r.Ident(3, 8)
	}
	genCookieOpts(r, cfg)
	if !cfg.keyLookup && r.Chance(3, 4) {
		cfg.decoy = gen.Pick(r, decoysFor(cfg.extractor, cfg.cookieName))
	}
	cfg.req = hostTuple(schemeOf(cfg.mode), cfg.host)
	return cfg
}

// hostSpellsDefaultPort: the Host header writes out the scheme's default port ("example.com:443" on
// https). The request origin is unchanged by that (RFC 6454), but a same-origin request is then
// only counted, not demanded to pass: rejecting it is over-strict, not a breach of the statement.
func hostSpellsDefaultPort(host, scheme string) bool {
	return strings.HasSuffix(host, ":"+strconv.Itoa(defPort(scheme)))
}

// genCookieOpts draws the CSRF cookie's attributes (about half of the cases keep the defaults).
func genCookieOpts(r *gen.Rand, cfg *hcfg) {
	if r.Bool() {
		return
	}
	cfg.ckSessionOnly = r.Chance(1, 2)
	cfg.ckSecure = r.Chance(1, 3)
	cfg.ckHTTPOnly = r.Chance(1, 3)
	cfg.ckSameSite = gen.Pick(r, []string{"", "Lax", "Strict", "None"})
	cfg.ckDomain = gen.Pick(r, []string{"", "", "example.com"})
	cfg.ckPath = gen.Pick(r, []string{"", "", "/", "/app"})
}

// decoysFor lists KeyLookup strings that name a source other than the explicit extractor's.
func decoysFor(extractor, cookieName string) []string {
	all := map[string][]string{
		"header": {"header:X-Other-Token", "header:" + hdrName},
		"form":   {"form:other", "form:" + fieldName},
		"query":  {"query:other", "query:" + fieldName},
		"param":  {"param:other", "param:" + paramName},
		"cookie": {"cookie:" + cookieName, "cookie:other_cookie"},
	}
	var out []string
	for _, src := range []string{"header", "form", "query", "param", "cookie"} {
		if src != extractor {
			out = append(out, all[src]...)
		}
	}
	return out
}

func hostTuple(scheme, hostHdr string) otuple {
	h, p := strings.ToLower(hostHdr), defPort(scheme)
	if i := strings.LastIndexByte(h, ':'); i >= 0 {
		p, _ = strconv.Atoi(h[i+1:])
		h = h[:i]
	}
	return otuple{scheme, h, p}
}

func genHistory(r *gen.Rand, backends []string, maxSteps int, noTime bool) *histSpec {
	return genSteps(r, genCfg(r, backends), maxSteps, noTime)
}

// genSteps generates the abstract steps of a history for a given configuration.
func genSteps(r *gen.Rand, cfg *hcfg, maxSteps int, noTime bool) *histSpec {
	hs := &histSpec{cfg: cfg, nClients: r.Range(1, 3)}
	n := r.Range(1, maxSteps)
	for i := 0; i < n; i++ {
		s := step{cl: r.Intn(hs.nClients), sidSel: selOwn}
		s.other = (s.cl + 1 + r.Intn(hs.nClients)) % hs.nClients // may equal cl when nClients==1
		s.idx = r.Intn(8)
		s.orig = ofNone
		if r.Chance(1, 4) {
			s.xhdr = r.Intn(len(extraHeaders))
		}
		if r.Chance(1, 6) {
			s.orig = gen.Pick(r, []int{ofSame, ofSame, ofEvil, ofRefOK, ofRefBad})
		}
		wFetch, wPost, wAdv, wDel := 22, 50, 20, 8
		if i == 0 {
			wFetch = 120
		}
		if noTime {
			wAdv = 0
		}
		switch r.PickW(wFetch, wPost, wAdv, wDel) {
		case 0:
			s.kind, s.method, s.label = kFetch, gen.Pick(r, safeMethods), "fetch"
			if r.Chance(1, 6) { // safe request carrying a token the client does not own, or none
				s.ck, s.label = gen.Pick(r, []int{selOther, selForged, selStale, selEmpty}), "fetch-with-foreign-cookie"
			}
			if r.Chance(1, 3) { // Origin / Referer on safe requests
				s.orig = gen.Pick(r, []int{ofSame, ofEvil, ofRefOK, ofRefBad})
			}
			if s.method == "OPTIONS" && r.Bool() {
				s.xhdr = gen.Pick(r, []int{1, 2, 6}) // a CORS preflight
			}
		case 1:
			s.kind, s.method = kPost, unsafeFor(r, cfg)
			switch r.PickW(34, 6, 8, 7, 5, 4, 4, 3, 10, 4, 4, 3, 10, 5, 4) {
			case 0:
				s.ext, s.ck, s.label = selOwn, selOwn, "own"
			case 1:
				s.ext, s.ck, s.label = selOther, selOther, "other-full"
				if r.Bool() {
					s.sidSel = selOther
					s.label = "other-full-with-session"
				}
			case 2:
				s.ext, s.ck, s.label = selOther, selOwn, "other-in-extractor"
			case 3:
				s.ext, s.ck, s.label = selOwn, selOther, "other-in-cookie"
			case 4:
				s.ext, s.ck, s.label = selForged, selForged, "forged"
			case 5:
				s.ext, s.ck, s.label = selForged, selOwn, "forged-in-extractor"
			case 6:
				s.ext, s.ck, s.label = selOwn, selForged, "forged-in-cookie"
			case 7:
				s.ext, s.ck, s.label = selFuture, selFuture, "predicted-next-token"
			case 8:
				s.ext, s.ck, s.label = selStale, selStale, "stale"
			case 9:
				s.ext, s.ck, s.label = selEmpty, selOwn, "no-extractor-value"
			case 10:
				s.ext, s.ck, s.label = selOwn, selEmpty, "no-cookie"
			case 11:
				s.ext, s.ck, s.sidSel, s.label = selOwn, selOwn, selEmpty, "own-without-session"
			case 13:
				s.ext, s.ck, s.label = selOwn, selMut, "one-byte-off-cookie"
			case 14:
				s.ext, s.ck, s.label = selMut, selOwn, "one-byte-off-extractor"
			default:
				s.ext, s.ck, s.label = selPrev, selPrev, "replay-previous"
			}
		case 2:
			s.kind, s.adv, s.label = kAdvance, r.Intn(6), "advance"
		default:
			s.kind, s.label = kDel, "delete-token"
			if r.Bool() {
				s.method = unsafeFor(r, cfg)
			} else {
				s.method = "GET"
			}
			s.ext, s.ck = selOwn, selOwn
		}
		hs.steps = append(hs.steps, s)
	}
	return hs
}

func advanceBy(idle time.Duration, choice int) time.Duration {
	switch choice {
	case 0:
		return time.Second
	case 1:
		return idle / 2
	case 2:
		return idle - 3*time.Second
	case 3:
		return idle + 3*time.Second
	case 4:
		return 2*idle + time.Second
	}
	return idle/2 + time.Second
}

// advance moves virtual time forward by d (whole seconds) and re-centres on k s + 500 ms (+1 ms for
// the tickers to settle), so that harness actions never coincide with a coarse-clock tick.
func advance(d time.Duration) {
	el := vt.Since() + d
	target := el.Truncate(time.Second) + 500*time.Millisecond
	if target+20*time.Millisecond < el {
		target += time.Second
	}
	if w := target - vt.Since(); w > 0 {
		time.Sleep(w)
	}
	time.Sleep(time.Millisecond)
}

// ---------------------------------------------------------------------------------------------
// running and judging

type runner struct {
	e          *ev.Env
	c          *ev.Case
	w          *world
	m          *model
	hs         *histSpec
	trace      []string
	plan       string // fault plan text ("" = none)
	nForge     int
	peers      []*runner // other middleware instances living in the same process
	nontrivial bool
}

func (rn *runner) detail(extra map[string]any) map[string]any {
	d := map[string]any{"config": rn.hs.cfg.String(), "history": append([]string(nil), rn.trace...)}
	if rn.plan != "" {
		d["fault_plan"] = rn.plan
	}
	for k, v := range extra {
		d[k] = v
	}
	return d
}

func (rn *runner) viol(sig, what string, extra map[string]any) {
	if rn.w.ref != nil {
		if k := rn.w.ref.mutated(); k != nil {
			// Root cause observed at the storage boundary: a key the middleware stored is a view of a
			// request buffer and has changed since. Every consequence maps to two signatures.
			if extra == nil {
				extra = map[string]any{}
			}
			extra["consequence"] = sig
			extra["mutated_key"] = fmt.Sprintf("stored as %q, the same string now reads %q", k.clone, strings.Clone(k.key))
			if strings.HasPrefix(sig, "reached|") {
				sig = "reached|storage-key-aliases-request-buffer"
			} else {
				sig = "rejected|storage-key-aliases-request-buffer"
			}
			what += " (the storage key handed to Storage.Set aliases a request buffer that was overwritten later)"
		}
	}
	rn.e.Violation(rn.c, sig, what, rn.detail(extra))
}

func (rn *runner) pick(sel int, s *step, cl *client) string {
	switch sel {
	case selOwn:
		return cl.tok
	case selOther:
		return rn.m.clients[s.other].tok
	case selForged:
		rn.nForge++
		return "forged-" + rn.hs.cfg.prefix + "-" + strconv.Itoa(rn.nForge)
	case selFuture:
		return rn.w.tokName(rn.w.nTok + 1)
	case selStale:
		if len(cl.hist) == 0 {
			return ""
		}
		// prefer a token that is not the current one
		for k := 0; k < len(cl.hist); k++ {
			t := cl.hist[(s.idx+k)%len(cl.hist)]
			if t != cl.tok {
				return t
			}
		}
		return cl.hist[s.idx%len(cl.hist)]
	case selMut:
		return mutate(cl.tok, s.idx)
	case selPeer:
		// any token a client of another instance currently holds (prefer a live one)
		for k := range rn.peers {
			pr := rn.peers[(s.idx+k)%len(rn.peers)]
			for j := range pr.m.clients {
				if t := pr.m.clients[(s.cl+j)%len(pr.m.clients)].tok; t != "" {
					return t
				}
			}
		}
		return ""
	case selPrev:
		return "" // resolved by caller
	}
	return ""
}

func (rn *runner) originFor(s *step, method string, req otuple) (o, ref *hdrVal) {
	same := &hdrVal{raw: req.canon(), tuple: req, tupleOK: true, relation: "same", deco: "canon"}
	evilT := otuple{req.scheme, "evil.com", defPort(req.scheme)}
	switch s.orig {
	case ofExplicit:
		return s.o, s.ref
	case ofNone:
		if req.scheme == "https" && !isSafe(method) {
			return same, nil
		}
		return nil, nil
	case ofSame:
		return same, nil
	case ofEvil:
		return &hdrVal{raw: evilT.canon(), tuple: evilT, tupleOK: true, relation: "cross", deco: "canon"}, nil
	case ofRefOK:
		return nil, &hdrVal{raw: req.canon() + "/form", tuple: req, tupleOK: true, relation: "same", deco: "path"}
	default:
		return nil, &hdrVal{raw: evilT.canon() + "/form", tuple: evilT, tupleOK: true, relation: "cross", deco: "path"}
	}
}

// storageFaults inspects the journal entries added by the last request.
func (rn *runner) opsSince(from int) (ops []vstore.Op) {
	if rn.w.fs == nil {
		return nil
	}
	all := rn.w.fs.ops
	if from < len(all) {
		return all[from:]
	}
	return nil
}

func newRunner(e *ev.Env, c *ev.Case, hs *histSpec, fp *faultPlan, plan string) *runner {
	rn := &runner{e: e, c: c, hs: hs, plan: plan}
	rn.w = newWorld(hs.cfg, fp)
	rn.m = &model{cfg: hs.cfg, tokens: map[string]*tokInfo{}}
	for i := 0; i < hs.nClients; i++ {
		rn.m.clients = append(rn.m.clients, &client{})
	}
	return rn
}

func runHistory(e *ev.Env, c *ev.Case, hs *histSpec, fp *faultPlan, plan string) (w *world, nontrivial bool) {
	rn := newRunner(e, c, hs, fp, plan)
	vt.AlignHalf(0)
	for i := range hs.steps {
		rn.step(&hs.steps[i])
	}
	return rn.w, rn.nontrivial
}

func (rn *runner) step(s *step) {
	cfg, m, w, e := rn.hs.cfg, rn.m, rn.w, rn.e
	if s.kind == kAdvance {
		d := advanceBy(cfg.idle, s.adv)
		advance(d)
		// stay clear of every live deadline by more than the storage granularity
		for try := 0; try < 12; try++ {
			now, near := vt.Since(), false
			for _, ti := range m.tokens {
				if ti.state == stLive && now > ti.deadline-margin-time.Second && now < ti.deadline+margin+time.Second {
					near = true
				}
			}
			if !near {
				break
			}
			advance(time.Second)
		}
		now := vt.Since()
		for _, ti := range m.tokens {
			if ti.state == stLive && now > ti.deadline-margin && now < ti.deadline+margin {
				ti.state = stUncertain
				e.Stat("tokens_left_uncertain", 1)
			}
		}
		rn.trace = append(rn.trace, fmt.Sprintf("advance to t=%s", now.Round(time.Millisecond)))
		return
	}
	cl := m.clients[s.cl]
	q := &wire{method: s.method, route: "r"}
	if s.kind == kDel {
		q.route = "del"
	}
	q.sid = cl.sid
	switch s.sidSel {
	case selOther:
		q.sid = m.clients[s.other].sid
	case selEmpty:
		q.sid = ""
	}
	if s.kind == kFetch {
		q.ck = cl.tok
		if s.ck != selOwn {
			q.ck = rn.pick(s.ck, s, cl)
		}
		if cfg.extractor == "cookie" {
			q.ext = q.ck
		}
	} else {
		if s.ext == selPrev {
			q.ext, q.ck = cl.prevE, cl.prevC
		} else {
			q.ext = rn.pick(s.ext, s, cl)
			if s.ck == s.ext {
				q.ck = q.ext
			} else {
				q.ck = rn.pick(s.ck, s, cl)
			}
		}
		if cfg.extractor == "cookie" {
			q.ck = q.ext
		}
		if cfg.extractor == "param" && q.ext == "" {
			q.ext = "none" // a path parameter cannot be empty; "none" is never issued
		}
	}
	q.xhdr = s.xhdr
	q.mode = cfg.mode
	if s.modeOv != 0 {
		q.mode = s.modeOv - 1
	}
	q.req = hostTuple(schemeOf(q.mode), cfg.host)
	q.origin, q.referer = rn.originFor(s, q.method, q.req)

	now := vt.Since()
	wall := time.Now()
	opsFrom := 0
	if w.fs != nil {
		opsFrom = len(w.fs.ops)
	}
	resp := w.do(q)
	e.Eval(1)
	if w.ref != nil {
		w.ref.mutated()
	}
	reached := len(w.entries) > 0
	made := append([]string(nil), w.genReq...)
	ents := append([]entry(nil), w.entries...)

	// storage faults that hit this request
	// Two phases: the middleware (everything before the protected handler is entered: lookup,
	// consumption, issue / extension) and the handler (only DeleteToken talks to the store there).
	// With the session middleware in front the session is saved after the handler returned, so the
	// whole request counts as the middleware phase.
	var lookupFault, setFault, delFault, anyFault, sawGet bool
	lastAnySetErr, sawSet := false, false // middleware phase: the Set that carries the issued token
	var hAnyFault, mAnyFault bool         // handler phase (DeleteToken) / middleware phase
	reqOps := rn.opsSince(opsFrom)
	split := len(reqOps)
	if w.opsAtEntry >= opsFrom && cfg.backend != bSessMW {
		split = w.opsAtEntry - opsFrom
	}
	for i, op := range reqOps {
		if op.Err {
			anyFault = true
		}
		if i >= split {
			hAnyFault = hAnyFault || op.Err
			continue
		}
		mAnyFault = mAnyFault || op.Err
		switch op.Kind {
		case "get":
			if !sawGet && op.Err {
				lookupFault = true // the first Get of a request is the token (or session) lookup
			}
			sawGet = true
		case "set":
			sawSet = true
			lastAnySetErr = op.Err
			setFault = setFault || op.Err
		case "delete":
			delFault = delFault || op.Err
		}
	}
	if anyFault {
		m.fault = true
	}
	// notStored: the response hands out a freshly issued token although the store did not take it.
	// Decided from the outcomes of the storage calls made while handling this request only — the
	// key layout is the middleware's business: stored = a Set was made and the last one succeeded
	// (the last Set of the middleware phase is the one that carries the issued token, in both backends).
	notStored := func() bool {
		if w.fs == nil || !anyFault {
			return false
		}
		return !sawSet || lastAnySetErr
	}

	ckVal, ckSet, ckExpired, ckBad := respCookie(resp, cfg.cookieName, wall)
	sidVal, sidSet, sidExpired, _ := respCookie(resp, sessCookie, wall)
	sidAfter := q.sid
	if sidSet && !sidExpired {
		sidAfter = sidVal
	}

	line := fmt.Sprintf("t=%s c%d %s %s /%s [%s] ext=%q cookie=%q sid=%q origin=%s referer=%s xhdr=%d -> %d reached=%v set-cookie=%q expired=%v generated=%v",
		now.Round(time.Millisecond), s.cl, smNames[q.mode], q.method, q.route, s.label, q.ext, q.ck, q.sid, hv(q.origin), hv(q.referer), q.xhdr, resp.Status, reached, ckVal, ckExpired, made)
	if q.route == "del" && reached {
		line += fmt.Sprintf(" DeleteToken()=%q", delErrOf(ents))
	}
	if anyFault {
		line += fmt.Sprintf(" STORAGE-FAULT(lookup=%v set=%v delete=%v)", lookupFault, setFault, delFault)
	}
	rn.trace = append(rn.trace, line)

	if len(ents) > 1 {
		rn.viol("handler|entered-more-than-once", "protected handler ran more than once for one request", nil)
	}
	if ckBad != "" {
		rn.viol("set-cookie|malformed|"+ckBad, "CSRF Set-Cookie line is not well-formed", map[string]any{"lines": resp.All("Set-Cookie")})
	}

	for _, t := range made {
		if m.tokens[t] == nil {
			m.tokens[t] = &tokInfo{state: stUnknown}
		}
	}

	extBefore, extReason := m.status(q.ext, q.sid, now)

	// handOut: the response's CSRF cookie reaches client `to`
	handOut := func(to *client, by string) {
		if ckSet && !ckExpired {
			fresh := contains(made, ckVal)
			uns := fresh && notStored()
			m.deliver(to, ckVal, sidAfter, fresh, !uns, now, by)
			if ti := m.tokens[ckVal]; ti != nil && fresh {
				ti.unstored = uns
			}
		} else if ckSet && ckExpired {
			to.tok = ""
		}
	}

	if isSafe(q.method) {
		// ---- safe request: always passes, leaves a valid token cookie
		if !reached {
			if !anyFault {
				rn.viol("safe-method|rejected|"+s.label, "a safe-method request did not reach the handler", map[string]any{"status": resp.Status})
			} else {
				e.Stat("fault_safe_request_rejected", 1)
			}
		} else if resp.Status != 200 && cfg.errHandler == 0 {
			rn.viol("status|safe-reached-not-200", "handler ran but status is not the handler's", map[string]any{"status": resp.Status})
		}
		ckBefore, _ := m.status(q.ck, q.sid, now)
		if q.route == "del" && reached {
			// the application deleted the token itself: no valid cookie is expected afterwards
			rn.applyDelete(q, delErrOf(ents), hAnyFault)
			cl.tok = ""
			if ckSet && !ckExpired {
				e.Stat("delete_token_left_cookie", 1)
			}
			handOut(cl, "safe")
			cl.sid = sidAfter
			return
		}
		if reached && !m.fault {
			why := ""
			fresh := contains(made, ckVal)
			switch {
			case !ckSet:
				why = "no-set-cookie"
			case ckExpired:
				why = "expired-cookie"
			case m.tokens[ckVal] == nil:
				why = "value-never-generated"
			case !fresh && !(ckVal == q.ck && ckBefore != stDead):
				why = "stale-or-foreign-token"
			}
			if why == "" && fresh && w.fs != nil && (!sawSet || lastAnySetErr) {
				// a token the store was never (successfully) asked to keep cannot be valid
				why = "issued-token-never-stored"
			}
			if why != "" {
				rn.viol("safe-method|no-valid-cookie|"+why, "a safe request did not leave a valid token cookie",
					map[string]any{"set_cookie": resp.All("Set-Cookie")})
			}
		}
		handOut(cl, "safe")
		cl.sid = sidAfter
		return
	}

	// ---- unsafe request
	cl.prevE, cl.prevC = q.ext, q.ck
	present := q.ext != "" && !(cfg.extractor == "param" && q.ext == "none")
	match := cfg.extractor == "cookie" || q.ext == q.ck
	ov, oclass, gov, ohdr := judgeOrigin(q.req.scheme, q.req, cfg.trusted, q.origin, q.referer, hostSpellsDefaultPort(cfg.host, q.req.scheme))
	sigClass := oclass

	if m.tokens[q.ext] != nil || q.origin != nil || q.referer != nil {
		rn.nontrivial = true
	}

	// reasons that forbid reaching the handler, most specific first
	ti := m.tokens[q.ext]
	deny := ""
	switch {
	case !present:
		deny = "reached|no-token-presented"
	case !match:
		deny = "reached|cookie-mismatch"
	case extBefore == stDead:
		deny = "reached|" + extReason
	case ov == vMustNotReach:
		if gov.wildTrick {
			deny = "reached|" + ohdr + "-wildcard-matches-path-suffix"
		} else {
			deny = "reached|origin-not-allowed|" + sigClass
		}
	case m.fault && lookupFault:
		deny = "fault|storage-get-error-passes"
	case m.fault && ti != nil && ti.unstored:
		deny = "fault|unstored-token-passes"
	}
	if reached {
		e.Stat("unsafe_reached", 1)
	} else {
		e.Stat("unsafe_rejected", 1)
	}
	// what the oracle demanded of this request (observed coverage of the clauses)
	switch {
	case deny != "":
		e.Stat("demanded|not-reach|"+strings.TrimPrefix(deny, "reached|"), 1)
	case !m.fault && present && match && extBefore == stLive && ov == vMustReach:
		cls := "fresh-token"
		if ti != nil && now > ti.base-margin {
			cls = "extended-by-" + ti.extBy
		}
		e.Stat("expected-to-pass(not demanded)|"+cls+"|"+sigClass, 1)
	default:
		e.Stat("demanded|nothing", 1)
	}
	switch {
	case deny != "" && reached:
		switch {
		case ti != nil && ti.consumeFault && extReason == "consumed-single-use":
			if isSession(cfg.backend) {
				// the session that holds the token could not be loaded / saved while the token was consumed
				rn.viol("fault|session-store-error|single-use-token-reusable",
					"a single-use token was accepted a second time: the request that used it ran while the session store was failing and the token was never removed",
					map[string]any{"status": resp.Status})
			} else {
				rn.viol("fault|storage-delete-error|single-use-token-reusable",
					"a single-use token was accepted a second time after the storage delete that should have consumed it failed",
					map[string]any{"status": resp.Status})
			}
		default:
			extra := map[string]any{"status": resp.Status, "token_state": extReason, "origin_class": oclass}
			if gov != nil {
				extra["governing_header"] = ohdr + ": " + gov.raw
				extra["governing_origin"] = fmt.Sprintf("%v", gov.tuple)
				extra["component"] = gov.deco
			}
			rn.viol(deny, "an unsafe request reached the protected handler although the statement forbids it", extra)
		}
	case deny == "" && !reached && !m.fault:
		if present && match && extBefore == stLive && ov == vMustReach {
			cls := "fresh-token"
			if ti != nil && now > ti.base-margin {
				cls = "extended-by-" + ti.extBy
			}
			// The statement is one-sided for unsafe methods ("reaches the handler only if …"): a
			// middleware that rejects more than it has to still satisfies it. Counted with a sample,
			// never a verdict.
			e.Stat("info_rejected_although_valid|"+cls+"|"+sigClass, 1)
			e.Sample("info_rejected_although_valid|"+cls+"|"+sigClass, rn.detail(map[string]any{"status": resp.Status}))
		} else {
			e.Stat("unasserted_rejections", 1)
		}
	case deny == "" && reached && (extBefore == stUnknown || extBefore == stUncertain):
		e.Stat("unasserted_accepts_unknown_state", 1)
	}
	if reached && anyFault && !lookupFault {
		e.Stat("fault_nonlookup_store_error_request_passed", 1)
	}
	if !reached {
		if ov == vNoAssert && present && match && extBefore == stLive {
			e.Stat("origin_unasserted_rejected|"+sigClass, 1)
		}
		// documented: a default 403
		if resp.Status != 403 && cfg.errHandler == 0 {
			rn.viol("status|rejected-not-403", "rejected unsafe request did not get the documented 403", map[string]any{"status": resp.Status})
		}
		if present && match && extBefore == stDead && ov != vMustNotReach {
			if ckSet && ckExpired {
				e.Stat("expired_cookie_on_unknown_token", 1)
			} else {
				e.Stat("no_expired_cookie_on_unknown_token", 1)
			}
		}
		if ckSet && ckExpired && cl.tok == q.ck {
			cl.tok = ""
		}
		if sidSet && s.sidSel == selOwn {
			cl.sid = sidAfter
		}
		return
	}
	if ov == vNoAssert && present && match && extBefore == stLive {
		e.Stat("origin_unasserted_accepted|"+sigClass, 1)
	}
	if resp.Status != 200 && cfg.errHandler == 0 {
		rn.viol("status|unsafe-reached-not-200", "handler ran but status is not the handler's", map[string]any{"status": resp.Status})
	}
	// reached: consumption / extension, then whatever the response handed out
	if ti != nil {
		if cfg.singleUse {
			if ti.state != stDead {
				ti.consumeFault = delFault || (isSession(cfg.backend) && mAnyFault)
			}
			m.kill(q.ext, "consumed-single-use")
		} else if extBefore == stLive || extBefore == stUncertain {
			ti.state, ti.deadline, ti.extBy = stLive, now+ttl(cfg), "unsafe"
		}
	}
	foreignSession := isSession(cfg.backend) && s.sidSel == selOther
	if q.route == "del" {
		rn.applyDelete(q, delErrOf(ents), hAnyFault)
		if !foreignSession {
			cl.tok = ""
			handOut(cl, "unsafe")
			cl.sid = sidAfter
		}
		return
	}
	if foreignSession {
		// the request ran on another client's session: a fresh token lives there, held by nobody
		handOut(&client{}, "unsafe")
		return
	}
	handOut(cl, "unsafe")
	cl.sid = sidAfter
}

// applyDelete: the handler called DeleteToken. What the model concludes follows from what the call
// reported and from what it was given to go by, never from the mere fact that it was called:
//
//   - it returned an error and no storage call failed in the handler: nothing was deleted (e.g. the
//     request carried no CSRF cookie, ErrTokenNotFound) -> no change;
//   - a storage call failed while it ran: the effect on the store is not known -> the tokens it
//     could have removed become "unknown" (no verdict either way from here on);
//   - it returned nil: the token named by the request's CSRF cookie (storage backends) or the
//     session's token (session backends) is deleted.
func (rn *runner) applyDelete(q *wire, delErr string, handlerFault bool) {
	m := rn.m
	var hit []*tokInfo
	if isSession(rn.hs.cfg.backend) {
		for _, ti := range m.tokens {
			if ti.sid == q.sid && q.sid != "" && ti.state != stDead && ti.state != stUnknown {
				hit = append(hit, ti)
			}
		}
	} else if ti := m.tokens[q.ck]; ti != nil && ti.state != stUnknown && ti.state != stDead {
		hit = append(hit, ti)
	}
	switch {
	case q.ck == "":
		// no CSRF cookie in the request: DeleteToken has nothing to go by and only calls the
		// ErrorHandler (whose result, possibly nil, it returns) — nothing is deleted
		rn.e.Stat("delete_token_without_cookie_nothing_deleted", 1)
	case handlerFault:
		rn.e.Stat("delete_token_under_store_fault_state_unknown", 1)
		for _, ti := range hit {
			ti.state = stUnknown
		}
	case delErr != "":
		rn.e.Stat("delete_token_reported_error_nothing_deleted", 1)
	default:
		for _, ti := range hit {
			ti.state, ti.reason = stDead, "after-delete"
		}
	}
}

func delErrOf(ents []entry) string {
	for _, en := range ents {
		if en.route == "del" {
			return en.delErr
		}
	}
	return ""
}

func hv(h *hdrVal) string {
	if h == nil {
		return "-"
	}
	return strconv.Quote(h.raw)
}

func contains(xs []string, s string) bool {
	for _, x := range xs {
		if x == s {
			return true
		}
	}
	return false
}
