package csrf

// Origin rule of property C16, evaluated on (scheme, host, port) tuples that the generator
// keeps (self-describing workload, DESIGN 2.10) and cross-checked against an independent
// hand-written parser of the serialised header value. Nothing here calls net/url or any fiber
// code.

import (
	"strconv"
	"strings"

	"verifharness/internal/gen"
)

// otuple is an origin: scheme and host lower-case, port always filled in (default per scheme).
type otuple struct {
	scheme string
	host   string
	port   int
}

func defPort(scheme string) int {
	if scheme == "https" {
		return 443
	}
	return 80
}

// canon is the RFC 6454 serialisation: no default port, lower case, nothing after the authority.
func (o otuple) canon() string {
	s := o.scheme + "://" + o.host
	if o.port != defPort(o.scheme) {
		s += ":" + strconv.Itoa(o.port)
	}
	return s
}

// trustEntry is one TrustedOrigins entry: an exact origin, or `scheme://*.host[:port]`.
type trustEntry struct {
	o    otuple
	wild bool
}

func (t trustEntry) cfg() string {
	if !t.wild {
		return t.o.canon()
	}
	s := t.o.scheme + "://*." + t.o.host
	if t.o.port != defPort(t.o.scheme) {
		s += ":" + strconv.Itoa(t.o.port)
	}
	return s
}

// suffix is what a sub-domain origin of a wildcard entry ends with when serialised canonically.
func (t trustEntry) suffix() string {
	s := "." + t.o.host
	if t.o.port != defPort(t.o.scheme) {
		s += ":" + strconv.Itoa(t.o.port)
	}
	return s
}

// allowed is the origin rule of the property: same origin as the request, equal to a trusted
// origin, or a proper sub-domain (same scheme and port) of a `*.` entry.
func allowed(o, req otuple, trusted []trustEntry) (bool, string) {
	if o == req {
		return true, "same"
	}
	for _, t := range trusted {
		if !t.wild {
			if o == t.o {
				return true, "trusted"
			}
			continue
		}
		if o.scheme == t.o.scheme && o.port == t.o.port &&
			len(o.host) > len(t.o.host)+1 && strings.HasSuffix(o.host, "."+t.o.host) {
			return true, "wildcard"
		}
	}
	return false, ""
}

// parseOrigin extracts the origin of an absolute http(s) URL / serialised origin by hand:
// scheme "://" [userinfo "@"] host [":" port] then "/", "?", "#" or end.
func parseOrigin(s string) (otuple, bool) {
	i := strings.Index(s, "://")
	if i <= 0 {
		return otuple{}, false
	}
	scheme := strings.ToLower(s[:i])
	if scheme != "http" && scheme != "https" {
		return otuple{}, false
	}
	rest := s[i+3:]
	if j := strings.IndexAny(rest, "/?#"); j >= 0 {
		rest = rest[:j]
	}
	if j := strings.LastIndexByte(rest, '@'); j >= 0 {
		rest = rest[j+1:]
	}
	host, port := rest, defPort(scheme)
	if j := strings.LastIndexByte(rest, ':'); j >= 0 {
		host = rest[:j]
		p, err := strconv.Atoi(rest[j+1:])
		if err != nil || p <= 0 || p > 65535 {
			return otuple{}, false
		}
		port = p
	}
	host = strings.ToLower(host)
	if host == "" || host[0] == '.' || host[0] == '-' {
		return otuple{}, false
	}
	for k := 0; k < len(host); k++ {
		ch := host[k]
		if !(ch >= 'a' && ch <= 'z' || ch >= '0' && ch <= '9' || ch == '.' || ch == '-') {
			return otuple{}, false
		}
	}
	return otuple{scheme, host, port}, true
}

// hdrVal is a generated Origin or Referer header value together with what the generator knows
// about it.
type hdrVal struct {
	raw      string
	tuple    otuple // origin of raw, by construction
	tupleOK  bool   // false: raw is not an http(s) URL with a host (garbage)
	isNull   bool   // the literal "null"
	relation string // how the tuple was derived (same, trusted, wild-sub, cross, lookalike-…)
	deco     string // how it was serialised (canon, case, path, trick-path, …)
	// wildTrick: the tuple is outside every rule but the serialised string ends in the suffix of
	// a `*.` entry of the same scheme, placed after the authority (path, query or fragment).
	wildTrick bool
}

func (h *hdrVal) class() string {
	if h == nil {
		return "absent"
	}
	if h.isNull {
		return "null"
	}
	return h.relation + ":" + h.deco
}

func upperSome(r *gen.Rand, s string) string {
	b := []byte(s)
	n := 0
	for i := range b {
		if b[i] >= 'a' && b[i] <= 'z' && r.Bool() {
			b[i] -= 32
			n++
		}
	}
	if n == 0 {
		return strings.ToUpper(s)
	}
	return string(b)
}

var crossHosts = []string{"evil.com", "attacker.net", "evil.example.org", "xn--80ak6aa92e.com", "192.0.2.66", "localhost"}

// genTuple derives an origin tuple related in a chosen way to the request origin / trusted list.
func genTuple(r *gen.Rand, req otuple, trusted []trustEntry) (otuple, string) {
	var exact, wild []trustEntry
	for _, t := range trusted {
		if t.wild {
			wild = append(wild, t)
		} else {
			exact = append(exact, t)
		}
	}
	// an allowed tuple to start from
	good := func() (otuple, string) {
		switch k := r.Intn(3); {
		case k == 1 && len(exact) > 0:
			return gen.Pick(r, exact).o, "trusted"
		case k == 2 && len(wild) > 0:
			w := gen.Pick(r, wild)
			n := r.Range(1, 3)
			labels := make([]string, n)
			for i := range labels {
				labels[i] = r.Ident(1, 6)
			}
			return otuple{w.o.scheme, strings.Join(labels, ".") + "." + w.o.host, w.o.port}, "wild-sub"
		}
		return req, "same"
	}
	switch r.PickW(30, 8, 8, 8, 10, 10, 6, 14, 6) {
	case 0:
		return good()
	case 1: // scheme flipped, port kept if explicit
		g, rel := good()
		o := g
		if g.scheme == "https" {
			o.scheme = "http"
		} else {
			o.scheme = "https"
		}
		if g.port == defPort(g.scheme) {
			o.port = defPort(o.scheme)
		}
		return o, rel + "-scheme-flip"
	case 2: // other port
		g, rel := good()
		o := g
		o.port = gen.Pick(r, []int{8080, 8443, 81, 444, 3000})
		if r.Chance(1, 2) {
			// the OTHER scheme's default port on this scheme: https://host:80, http://host:443
			o.port = defPort("http")
			if g.scheme == "http" {
				o.port = defPort("https")
			}
		}
		if o.port == g.port {
			o.port++
		}
		return o, rel + "-port-diff"
	case 3: // apex of a wildcard entry
		if len(wild) > 0 {
			w := gen.Pick(r, wild)
			return w.o, "wild-apex"
		}
		return otuple{"https", gen.Pick(r, crossHosts), 443}, "cross"
	case 4: // evilexample.com
		g, rel := good()
		base := g.host
		if rel == "wild-sub" && len(wild) > 0 {
			base = gen.Pick(r, wild).o.host
		}
		o := g
		o.host = gen.Pick(r, []string{"evil", "evil-", "x", "not"}) + base
		return o, "lookalike-prefix"
	case 5: // example.com.evil.com
		g, _ := good()
		o := g
		o.host = g.host + "." + gen.Pick(r, []string{"evil.com", "attacker.net", "com", "co"})
		return o, "lookalike-suffix"
	case 6: // sub-domain of the request host or of an exact entry (not trusted by any rule unless a wildcard says so)
		g := req
		if len(exact) > 0 && r.Bool() {
			g = gen.Pick(r, exact).o
		}
		o := g
		o.host = r.Ident(1, 5) + "." + g.host
		return o, "subdomain-of-exact"
	case 7:
		sch := gen.Pick(r, []string{"http", "https"})
		o := otuple{sch, gen.Pick(r, crossHosts), defPort(sch)}
		if r.Chance(1, 5) {
			o.port = 8443
		}
		return o, "cross"
	default:
		sch := gen.Pick(r, []string{"http", "https"})
		return otuple{sch, r.Ident(3, 8) + "." + gen.Pick(r, []string{"com", "io", "example.com.io", "org"}), defPort(sch)}, "cross"
	}
}

// trickSuffixes returns strings an attacker would append after the authority so that the whole
// value ends like a trusted origin: suffixes of wildcard entries, hosts of exact entries, the
// request host.
func trickSuffixes(req otuple, trusted []trustEntry) (wildSuf []trustEntry, other []string) {
	for _, t := range trusted {
		if t.wild {
			wildSuf = append(wildSuf, t)
		} else {
			other = append(other, t.o.canon(), "."+t.o.host)
		}
	}
	other = append(other, "."+req.host, req.canon())
	return wildSuf, other
}

// serialise renders a tuple with a chosen decoration. forOrigin restricts nothing: malformed
// Origin values are part of the matrix.
func serialise(r *gen.Rand, o otuple, relation string, req otuple, trusted []trustEntry, tricky bool) *hdrVal {
	h := &hdrVal{tuple: o, tupleOK: true, relation: relation}
	canon := o.canon()
	w := []int{40, 8, 5, 5, 8, 5, 4, 4, 0, 0}
	if tricky {
		w = []int{10, 3, 2, 3, 6, 4, 3, 3, 50, 8}
	}
	switch r.PickW(w...) {
	case 0:
		h.raw, h.deco = canon, "canon"
	case 1:
		i := strings.Index(canon, "://")
		switch r.Intn(3) {
		case 0:
			h.raw = strings.ToUpper(canon[:i]) + canon[i:]
		case 1:
			h.raw = canon[:i+3] + upperSome(r, canon[i+3:])
		default:
			h.raw = upperSome(r, canon)
		}
		h.deco = "case"
	case 2:
		if o.port == defPort(o.scheme) {
			h.raw, h.deco = canon+":"+strconv.Itoa(o.port), "explicit-default-port"
		} else {
			h.raw, h.deco = canon, "canon"
		}
	case 3:
		h.raw, h.deco = canon+"/", "slash"
	case 4:
		h.raw, h.deco = canon+"/"+r.Ident(1, 6)+gen.Pick(r, []string{"", "/", "/" + r.Ident(1, 4) + ".html"}), "path"
	case 5:
		h.raw, h.deco = canon+gen.Pick(r, []string{"/?", "?", "/p?"})+r.Ident(1, 3)+"="+r.Ident(1, 4), "query"
	case 6:
		h.raw, h.deco = canon+gen.Pick(r, []string{"/#", "#"})+r.Ident(1, 5), "fragment"
	case 7:
		h.raw, h.deco = o.scheme+"://"+r.Ident(1, 5)+gen.Pick(r, []string{"", ":pw"})+"@"+canon[len(o.scheme)+3:], "userinfo"
	case 8: // value ends like something trusted, after the authority
		ws, other := trickSuffixes(req, trusted)
		sep := gen.Pick(r, []string{"/", "/x", "/a/b", "#", "/#", "?", "/?", "/?q=", "/x?y=z#"})
		comp := "path"
		switch {
		case strings.Contains(sep, "#"):
			comp = "fragment"
		case strings.Contains(sep, "?"):
			comp = "query"
		}
		if len(ws) > 0 && r.Chance(3, 4) {
			t := gen.Pick(r, ws)
			h.raw = canon + sep + gen.Pick(r, []string{"", "x", "a.b"}) + t.suffix()
			h.deco = "trick-wildcard-suffix-in-" + comp
		} else {
			h.raw = canon + sep + gen.Pick(r, other)
			h.deco = "trick-trusted-text-in-" + comp
		}
	case 9: // trusted-looking userinfo: https://a.example.com@evil.com
		ws, _ := trickSuffixes(req, trusted)
		ui := req.host
		if len(ws) > 0 {
			ui = "a." + gen.Pick(r, ws).o.host
		}
		h.raw, h.deco = o.scheme+"://"+ui+"@"+canon[len(o.scheme)+3:], "trick-userinfo"
	}
	// Input class for the hypothesis of DESIGN 3.C16: computed from the generated structure only.
	if ok, _ := allowed(o, req, trusted); !ok {
		lower := strings.ToLower(h.raw)
		auth := len(canon)
		for _, t := range trusted {
			if t.wild && t.o.scheme == o.scheme && len(lower) > auth && strings.HasSuffix(lower[auth:], t.suffix()) &&
				strings.IndexAny(lower[auth:], "/?#") == 0 {
				h.wildTrick = true
			}
		}
	}
	return h
}

var garbageOrigins = []string{
	"example.com", "//example.com", "https://", "https:/example.com", "https:example.com",
	"ftp://example.com", "javascript:alert(1)", "://example.com", "file:///etc/passwd", "about:blank",
	"https//example.com", "example.com:443", "/", "?", "x",
}

// genHeader makes one Origin/Referer value.
func genHeader(r *gen.Rand, req otuple, trusted []trustEntry) *hdrVal {
	switch r.PickW(3, 3, 94) {
	case 0:
		return &hdrVal{raw: gen.Pick(r, []string{"null", "NULL", "Null"}), isNull: true}
	case 1:
		g := gen.Pick(r, garbageOrigins)
		if r.Bool() {
			g = strings.Replace(g, "example.com", req.host, 1)
		}
		return &hdrVal{raw: g, relation: "garbage", deco: "raw"}
	}
	o, rel := genTuple(r, req, trusted)
	ok, _ := allowed(o, req, trusted)
	return serialise(r, o, rel, req, trusted, !ok && r.Chance(2, 5))
}

// coarse maps the generator's relation labels to a handful of stable classes.
func coarse(rel string) string {
	switch {
	case strings.HasSuffix(rel, "-scheme-flip"):
		return "scheme-mismatch"
	case strings.HasSuffix(rel, "-port-diff"):
		return "port-mismatch"
	case strings.HasPrefix(rel, "lookalike"):
		return "lookalike-host"
	case rel == "wild-apex":
		return "wildcard-apex"
	case rel == "subdomain-of-exact":
		return "subdomain-of-exact-entry"
	case rel == "garbage":
		return "garbage"
	}
	return "cross-site"
}

// verdicts of the origin clause for an unsafe request
const (
	vNoAssert = iota
	vMustReach
	vMustNotReach
)

// judgeOrigin applies the origin clause of the statement. class is stable text for signatures.
//
//	Origin present (not "null")           -> Origin governs
//	else scheme https and Referer present -> Referer governs (by its origin)
//	else                                   -> the statement puts no origin condition
//
// mustReach is only claimed for canonical serialisations (what a conforming browser sends);
// everything allowed-but-oddly-written is left unasserted.
func judgeOrigin(reqScheme string, req otuple, trusted []trustEntry, origin, referer *hdrVal, hostNonCanon bool) (verdict int, class string, gov *hdrVal, hdr string) {
	if origin != nil && !origin.isNull {
		gov, hdr = origin, "origin"
	} else if reqScheme == "https" {
		if referer == nil {
			// no Origin, no Referer on https: the statement demands nothing; fiber rejects (documented
			// "strict referer checking").
			return vNoAssert, "https-no-origin-no-referer", nil, ""
		}
		gov, hdr = referer, "referer"
	} else {
		// http without a (non-null) Origin: the statement puts no origin condition. A valid request is
		// only *demanded* to pass when nothing about it looks foreign.
		if origin != nil {
			return vNoAssert, "http-null-origin", nil, ""
		}
		if referer != nil {
			if ok, why := allowed(referer.tuple, req, trusted); !referer.tupleOK || !ok || why != "same" {
				return vNoAssert, "http-no-origin-foreign-referer", nil, ""
			}
		}
		return vMustReach, "http-no-origin", nil, ""
	}
	// signature class: which header governed and how its origin relates to the request, not how
	// the value was spelled (the spelling goes into the detail)
	rel := ""
	allowedOK, why := false, ""
	switch {
	case gov.isNull:
		rel = "null"
	case !gov.tupleOK:
		rel = "garbage"
	default:
		allowedOK, why = allowed(gov.tuple, req, trusted)
		switch {
		case allowedOK:
			rel = why
		case gov.tuple.host == req.host && gov.tuple.scheme != req.scheme:
			rel = "scheme-mismatch" // the site's own host on the other scheme
		case gov.tuple.host == req.host:
			rel = "port-mismatch"
		default:
			rel = coarse(gov.relation)
		}
	}
	class = hdr + ":" + rel
	if origin != nil && origin.isNull {
		class = "null-origin+" + class
	}
	if gov.isNull { // Referer: null – not a URL
		return vMustNotReach, class, gov, hdr
	}
	if !gov.tupleOK {
		return vMustNotReach, class, gov, hdr
	}
	if !allowedOK {
		return vMustNotReach, class, gov, hdr
	}
	if why == "same" && hostNonCanon {
		return vNoAssert, class + "(host-spells-default-port)", gov, hdr
	}
	if hdr == "origin" && gov.deco == "canon" {
		return vMustReach, class, gov, hdr
	}
	if hdr == "referer" && why == "same" {
		switch gov.deco {
		case "canon", "slash", "path", "query":
			return vMustReach, class, gov, hdr
		}
	}
	return vNoAssert, class, gov, hdr
}
