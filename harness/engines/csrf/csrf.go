// Package csrf is the runtime monitor for property C16 (DESIGN 3.C16): unsafe requests reach the
// protected handler only with a live, issued, matching token from an allowed origin; safe
// requests always pass and leave a valid token cookie; a failing token store rejects.
//
// vt build only (virtual time), direct drive, GOMAXPROCS=1.
package csrf

import (
	"fmt"
	"io"
	"strconv"
	"strings"
	"time"

	"github.com/gofiber/fiber/v3"
	flog "github.com/gofiber/fiber/v3/log"

	"verifharness/internal/drive"
	"verifharness/internal/ev"
	"verifharness/internal/gen"
	"verifharness/internal/reg"
	"verifharness/internal/vt"
)

func init() { reg.Register("csrf", run) }

func run(e *ev.Env) {
	vt.Require()
	vt.Start()
	flog.SetOutput(io.Discard) // config warnings ("cookie extractor is not recommended …") per app

	e.Note("oracle", "unsafe methods are judged one-sidedly (the statement says 'only if'): a valid request that is rejected is "+
		"only counted (info_rejected_although_valid|…); safe methods must pass and leave a valid token cookie; "+
		"non-reach is demanded for: no token, cookie mismatch, never-issued / expired (>=2 s past) / consumed / deleted / "+
		"replaced / other-session token, governing Origin or (https) Referer outside the origin rule, failed token lookup")
	e.Note("not-asserted", "Origin: null is read as absent; https without Origin and Referer; allowed origins in non-canonical spelling; "+
		"trusted/wildcard Referer (fiber compares the whole URL and rejects them when a path is present); Set-Cookie contents of "+
		"rejected requests; store errors other than the token lookup and the single-use delete")

	corpus(e)

	nh := e.N(4000, 300000)
	nmem := e.N(400, 12000) // default memory backends leak one GC goroutine per app: bounded, run last
	vsBackends := []string{bVstore, bVstore, bVstore, bSessMW, bSessStore}
	e.Cases("hist", nh-nmem, func(c *ev.Case) {
		hs := genHistory(c.R, vsBackends, 20, false)
		_, nt := runHistory(e, c, hs, nil, "")
		noteHistory(e, hs, nt)
	})
	e.Cases("origins", e.N(20000, 2000000), func(c *ev.Case) { originsCase(e, c) })
	scripts := faultScripts()
	e.Cases("faults", len(scripts), func(c *ev.Case) {
		idx, _ := strconv.Atoi(c.ID[strings.IndexByte(c.ID, ':')+1:])
		enumerateFaults(e, c, scripts[idx])
	})
	e.Cases("faultgen", e.N(160, 8000), func(c *ev.Case) {
		hs := genHistory(c.R, []string{bVstore, bVstore, bSessStore}, 6, c.R.Chance(2, 3))
		if c.R.Chance(1, 2) {
			hs.cfg.singleUse = true
		}
		enumerateFaults(e, c, hs)
	})
	// Injected storage that keeps the key string (Go map drivers). At most 8 requests => at most 8
	// keys => the store's map stays a single bucket and the outcome is deterministic.
	e.Cases("keyref", e.N(1600, 60000), func(c *ev.Case) {
		hs := genHistory(c.R, []string{bKeyRef}, 8, c.R.Bool())
		w, nt := runHistory(e, c, hs, nil, "")
		noteHistory(e, hs, nt)
		if w.ref.mutated() != nil {
			e.Stat("keyref_histories_with_mutated_key", 1)
			e.Stat("keyref_histories_with_mutated_key|"+hs.cfg.extractor+fmt.Sprintf("|reusectx=%v", hs.cfg.reuseCtx), 1)
		}
	})
	// Several middleware instances on the DEFAULT storage in one process (apps of their own, or route
	// groups of one app): a token is only good for the instance that issued it.
	e.Cases("instances", e.N(240, 6000), func(c *ev.Case) { instancesCase(e, c) })
	e.Cases("hist-mem", nmem, func(c *ev.Case) {
		hs := genHistory(c.R, []string{bMemory, bMemory, bSessMWMem}, 14, false)
		if hs.cfg.idle > 10*time.Second {
			hs.cfg.idle = 10 * time.Second // every leaked GC goroutine wakes each virtual second
		}
		_, nt := runHistory(e, c, hs, nil, "")
		noteHistory(e, hs, nt)
	})
}

// runInstances runs several histories, one per middleware instance, interleaved on one clock.
// order lists which instance takes its next step.
func runInstances(e *ev.Env, c *ev.Case, specs []*histSpec, shared *fiber.App, order []int) {
	var rns []*runner
	for i, hs := range specs {
		if shared != nil {
			hs.cfg.sharedApp, hs.cfg.pathPrefix = shared, "/g"+strconv.Itoa(i+1)
		}
		rns = append(rns, newRunner(e, c, hs, nil, ""))
	}
	for i, rn := range rns {
		if shared != nil {
			rn.w.d = drive.NewDirect(shared) // every group is registered now
		}
		for j, o := range rns {
			if j != i {
				rn.peers = append(rn.peers, o)
			}
		}
	}
	vt.AlignHalf(0)
	next := make([]int, len(rns))
	for _, i := range order {
		if next[i] < len(specs[i].steps) {
			rns[i].trace = append(rns[i].trace, "-- instance "+strconv.Itoa(i+1)+" ("+specs[i].cfg.cookieName+")")
			rns[i].step(&specs[i].steps[next[i]])
			next[i]++
		}
	}
	for i, rn := range rns {
		noteHistory(e, specs[i], rn.nontrivial)
	}
	e.Stat("instance_groups", 1)
}

func instancesCase(e *ev.Env, c *ev.Case) {
	r := c.R
	n := r.Range(2, 3)
	var shared *fiber.App
	base := genCfg(r, []string{bMemory})
	if r.Bool() {
		shared = fiber.New(appConfig(base))
	}
	var specs []*histSpec
	var order []int
	for i := 0; i < n; i++ {
		cfg := genCfg(r, []string{bMemory})
		cfg.mode, cfg.host, cfg.req, cfg.customMethods = base.mode, base.host, base.req, base.customMethods
		if cfg.idle > 10*time.Second {
			cfg.idle = 10 * time.Second
		}
		if r.Bool() {
			cfg.cookieName = "csrf_" // the same cookie name in every instance is the common set-up
		}
		hs := genSteps(r, cfg, 8, false)
		hs.steps = append(mkSteps("fetch"), hs.steps...)
		for k := range hs.steps {
			st := &hs.steps[k]
			switch {
			case st.kind == kPost && r.Chance(2, 5):
				st.ext, st.ck, st.label = selPeer, selPeer, "token-of-another-instance"
			case st.kind == kFetch && k > 0 && r.Chance(1, 6):
				st.ck, st.label = selPeer, "fetch-with-cookie-of-another-instance"
			}
			order = append(order, i)
		}
		specs = append(specs, hs)
	}
	gen.Shuffle(r, order)
	runInstances(e, c, specs, shared, order)
}

func noteHistory(e *ev.Env, hs *histSpec, nontrivial bool) {
	if nontrivial && len(hs.steps) >= 4 {
		var st []string
		for _, s := range hs.steps {
			st = append(st, fmt.Sprintf("c%d:%s %s", s.cl, s.label, s.method))
		}
		e.Sample("history|"+hs.cfg.backend, map[string]any{"config": hs.cfg.String(), "steps": st})
	}
	e.Stat("histories", 1)
	e.Stat("histories|"+hs.cfg.backend, 1)
	e.Stat("histories|extractor="+hs.cfg.extractor, 1)
	if nontrivial {
		var sb strings.Builder
		sb.WriteString(hs.cfg.String())
		for _, s := range hs.steps {
			fmt.Fprintf(&sb, "|%d.%d.%s.%s.%d.%d", s.kind, s.cl, s.method, s.label, s.orig, s.adv)
		}
		e.Nontrivial("hist", sb.String())
	}
}

// ---------------------------------------------------------------------------------------------
// fault enumeration: every single failing Get / Set / Delete, by call index, over a history

func enumerateFaults(e *ev.Env, c *ev.Case, hs *histSpec) {
	w, nt := runHistory(e, c, hs, nil, "")
	noteHistory(e, hs, nt)
	if w.fs == nil {
		e.Inconclusive("fault enumeration on a backend without an instrumented store")
		return
	}
	ref := w.fs.ops // the fault-free journal: call #k is ref[k-1]
	run := func(p *faultPlan, class string) {
		w2, _ := runHistory(e, c, hs, p, p.String())
		e.Stat("fault_plans", 1)
		e.Stat("fault_plans|"+class, 1)
		failed := 0
		for _, op := range w2.fs.ops {
			if op.Err {
				failed++
			}
		}
		if failed > 0 {
			e.Stat("fault_plans_fired", 1)
		} else {
			e.Stat("fault_plans_not_reached", 1) // cannot happen: the prefix before call k is the same
		}
		if failed > 1 {
			e.Stat("fault_plans_with_several_failed_calls", 1)
		}
	}
	for k := 1; k <= len(ref); k++ {
		kind := ref[k-1].Kind
		run(&faultPlan{mode: pmRun, k: k, n: 1}, kind)                               // one call fails
		run(&faultPlan{mode: pmRun, k: k, n: 2}, "two-calls-from-"+kind)             // calls k and k+1 fail
		run(&faultPlan{mode: pmRun, k: k, n: 3}, "three-calls-from-"+kind)           // a short outage, then recovery
		run(&faultPlan{mode: pmOutageReq, k: k}, "outage-to-request-end-from-"+kind) // outage until the request ends
	}
}

func mkSteps(spec ...string) []step {
	var out []step
	for _, sp := range spec {
		f := strings.Split(sp, ":")
		s := step{cl: 0, other: 1, sidSel: selOwn, label: f[0]}
		if len(f) > 1 {
			s.cl, _ = strconv.Atoi(f[1])
			s.other = 1 - s.cl
		}
		if len(f) > 2 {
			s.idx, _ = strconv.Atoi(f[2]) // position selector of the one-byte-off steps
		}
		switch f[0] {
		case "fetch":
			s.kind, s.method = kFetch, "GET"
		case "own":
			s.kind, s.method, s.ext, s.ck = kPost, "POST", selOwn, selOwn
		case "replay-previous":
			s.kind, s.method, s.ext, s.ck = kPost, "POST", selPrev, selPrev
		case "stale":
			s.kind, s.method, s.ext, s.ck = kPost, "POST", selStale, selStale
		case "forged":
			s.kind, s.method, s.ext, s.ck = kPost, "POST", selForged, selForged
		case "other-full":
			s.kind, s.method, s.ext, s.ck = kPost, "POST", selOther, selOther
		case "other-in-extractor":
			s.kind, s.method, s.ext, s.ck = kPost, "POST", selOther, selOwn
		case "no-extractor-value":
			s.kind, s.method, s.ext, s.ck = kPost, "POST", selEmpty, selOwn
		case "no-cookie":
			s.kind, s.method, s.ext, s.ck = kPost, "POST", selOwn, selEmpty
		case "other-in-cookie":
			s.kind, s.method, s.ext, s.ck = kPost, "POST", selOwn, selOther
		case "one-byte-off-cookie":
			s.kind, s.method, s.ext, s.ck = kPost, "POST", selOwn, selMut
		case "one-byte-off-extractor":
			s.kind, s.method, s.ext, s.ck = kPost, "POST", selMut, selOwn
		case "peer-token":
			s.kind, s.method, s.ext, s.ck = kPost, "POST", selPeer, selPeer
		case "fetch-peer-cookie":
			s.kind, s.method, s.ck = kFetch, "GET", selPeer
		case "preflight":
			s.kind, s.method, s.xhdr = kFetch, "OPTIONS", 1
		case "preflight-stale-cookie":
			s.kind, s.method, s.xhdr, s.ck = kFetch, "OPTIONS", 2, selStale
		case "preflight-forged-cookie":
			s.kind, s.method, s.xhdr, s.ck = kFetch, "OPTIONS", 6, selForged
		case "delete-token-post":
			s.kind, s.method, s.ext, s.ck = kDel, "POST", selOwn, selOwn
		case "delete-token-get":
			s.kind, s.method, s.ext, s.ck = kDel, "GET", selOwn, selOwn
		case "advance-past":
			s.kind, s.adv = kAdvance, 3
		case "advance-near-end":
			s.kind, s.adv = kAdvance, 2
		default:
			panic("bad step " + sp)
		}
		out = append(out, s)
	}
	return out
}

func fixedCfg(backend, extractor string, singleUse bool) *hcfg {
	cfg := &hcfg{backend: backend, extractor: extractor, keyLookup: true, singleUse: singleUse,
		idle: 10 * time.Second, cookieName: "csrf_", mode: smHTTP, host: "example.com", prefix: "tok"}
	cfg.req = hostTuple("http", cfg.host)
	return cfg
}

func faultScripts() []*histSpec {
	shapes := [][]string{
		{"fetch", "own", "replay-previous"},
		{"fetch", "own", "fetch", "own"},
		{"fetch", "delete-token-post", "replay-previous"},
		{"fetch", "delete-token-get", "stale"},
		{"fetch:0", "fetch:1", "other-full:1", "own:0"},
		{"fetch", "advance-past", "own", "fetch", "own"},
		{"fetch", "forged", "own", "own"},
		{"fetch:0", "fetch:1", "other-in-extractor:1", "own:1"},
	}
	var out []*histSpec
	for _, sh := range shapes {
		for _, be := range []string{bVstore, bSessStore} {
			for _, su := range []bool{false, true} {
				for _, ex := range []string{"header", "cookie", "form"} {
					out = append(out, &histSpec{cfg: fixedCfg(be, ex, su), nClients: 2, steps: mkSteps(sh...)})
				}
			}
		}
	}
	return out
}

// ---------------------------------------------------------------------------------------------
// origins family: Origin / Referer / Host / scheme matrix with a valid token

var exactPool = []otuple{
	{"https", "trusted.com", 443}, {"http", "trusted.com", 80}, {"https", "trusted.com", 8443},
	{"https", "partner.example.org", 443}, {"http", "localhost", 3000}, {"https", "api.example.com", 443},
}

var wildPool = []otuple{
	{"https", "example.com", 443}, {"http", "example.com", 80}, {"https", "example.com", 8443},
	{"https", "apps.example.org", 443}, {"https", "trusted.com", 443}, {"http", "shop.test", 80},
}

var originHosts = []string{"example.com", "example.com", "app.example.com", "example.com:8080", "EXAMPLE.com",
	"shop.test", "localhost:3000", "10.0.0.5:8443", "trusted.com", "a.example.com",
	// explicit ports on the Host side that are a default port of one of the two schemes
	"example.com:80", "example.com:443", "app.example.com:443", "shop.test:80"}

func genTrusted(r *gen.Rand) (ts []trustEntry, cfgs []string) {
	n := r.PickW(2, 4, 3, 1)
	for i := 0; i < n; i++ {
		var t trustEntry
		if r.Chance(3, 5) {
			t = trustEntry{o: gen.Pick(r, wildPool), wild: true}
		} else {
			t = trustEntry{o: gen.Pick(r, exactPool)}
		}
		s := t.cfg()
		if r.Chance(1, 6) {
			s += "/" // documented: trailing slashes are removed
		}
		ts = append(ts, t)
		cfgs = append(cfgs, s)
	}
	return
}

func originsCase(e *ev.Env, c *ev.Case) {
	r := c.R
	cfg := &hcfg{backend: bVstore, extractor: "header", keyLookup: true, idle: 10 * time.Minute, cookieName: "csrf_",
		mode: r.PickW(3, 4, 3, 2), host: gen.Pick(r, originHosts), prefix: "t" + r.StringFrom(gen.Lower+gen.Digits, 5)}
	cfg.req = hostTuple(schemeOf(cfg.mode), cfg.host)
	cfg.trusted, cfg.trustedCfg = genTrusted(r)
	cfg.customMethods = r.Chance(1, 3)
	cfg.errHandler = r.PickW(5, 2, 3, 2)
	genCookieOpts(r, cfg)
	hs := &histSpec{cfg: cfg, nClients: 1, steps: mkSteps("fetch")}
	n := r.Range(2, 5)
	for i := 0; i < n; i++ {
		s := step{kind: kPost, method: unsafeFor(r, cfg), sidSel: selOwn, ext: selOwn, ck: selOwn, label: "own", orig: ofExplicit}
		switch r.PickW(92, 4, 4) {
		case 1:
			s.ext, s.ck, s.label = selForged, selForged, "forged"
		case 2:
			s.ext, s.label = selForged, "forged-in-extractor"
		}
		switch r.PickW(48, 30, 6, 12, 4) {
		case 0:
			s.o = genHeader(r, cfg.req, cfg.trusted)
		case 1:
			s.ref = genHeader(r, cfg.req, cfg.trusted)
		case 2:
			s.o = &hdrVal{raw: gen.Pick(r, []string{"null", "null", "NULL"}), isNull: true}
			s.ref = genHeader(r, cfg.req, cfg.trusted)
		case 3:
			s.o = genHeader(r, cfg.req, cfg.trusted)
			s.ref = genHeader(r, cfg.req, cfg.trusted)
		}
		for _, h := range []*hdrVal{s.o, s.ref} {
			if h == nil || h.isNull {
				continue
			}
			// harness self-check: the independent parser must agree with the generator
			pt, ok := parseOrigin(h.raw)
			if ok != h.tupleOK || (ok && pt != h.tuple) {
				e.Inconclusive(fmt.Sprintf("harness self-check: parseOrigin(%q)=%v,%v generator says %v,%v", h.raw, pt, ok, h.tuple, h.tupleOK))
				return
			}
			e.Nontrivial("origin", smNames[cfg.mode], cfg.host, strings.Join(cfg.trustedCfg, ","), h.raw)
			e.Sample("origin-value|"+h.deco, map[string]any{"scheme": smNames[cfg.mode], "host": cfg.host, "trusted": cfg.trustedCfg, "value": h.raw, "relation": h.relation})
			e.Stat("origin_values|"+h.relation+":"+h.deco, 1)
		}
		// the app may be reachable over both schemes: some probes arrive on another scheme mode, and
		// some repeat the previous probe's headers (same Origin / Referer, other request scheme)
		if r.Chance(1, 4) {
			s.modeOv = gen.Pick(r, modesOf(cfg)) + 1
			if i > 0 && r.Bool() {
				prev := hs.steps[len(hs.steps)-1]
				s.o, s.ref = prev.o, prev.ref
			}
		}
		hs.steps = append(hs.steps, s)
	}
	if r.Chance(1, 4) {
		hs.steps = append(hs.steps, schemeAlternation(r, cfg)...)
		e.Stat("origin_cases_with_scheme_alternation", 1)
	}
	runHistory(e, c, hs, nil, "")
	e.Stat("origin_cases", 1)
}

// modesOf lists the ways a request can arrive at this app: plain or TLS always; through the trusted
// proxy (https) or with a spoofed X-Forwarded-Proto from an untrusted peer (http) only when the app
// was built with TrustProxy.
func modesOf(cfg *hcfg) []int {
	if cfg.mode == smProxyHTTPS || cfg.mode == smProxySpoof {
		return []int{smHTTP, smTLS, smProxyHTTPS, smProxySpoof}
	}
	return []int{smHTTP, smTLS}
}

// schemeAlternation: one Origin (or Referer) value — the site's own origin on scheme A — sent with
// a valid token in requests that alternate between scheme A (same origin) and scheme B (cross
// origin: the scheme differs), in either order. Each request is judged on its own.
func schemeAlternation(r *gen.Rand, cfg *hcfg) []step {
	var mA, mB []int
	a := gen.Pick(r, []string{"http", "https"})
	for _, m := range modesOf(cfg) {
		if schemeOf(m) == a {
			mA = append(mA, m)
		} else {
			mB = append(mB, m)
		}
	}
	t := hostTuple(a, cfg.host)
	val := &hdrVal{raw: t.canon(), tuple: t, tupleOK: true, relation: "own-host", deco: "canon"}
	var o, ref *hdrVal
	switch r.PickW(6, 3, 1) {
	case 0:
		o = val
	case 1:
		ref = &hdrVal{raw: t.canon() + "/form", tuple: t, tupleOK: true, relation: "own-host", deco: "path"}
	default:
		o, ref = &hdrVal{raw: "null", isNull: true}, &hdrVal{raw: t.canon() + "/", tuple: t, tupleOK: true, relation: "own-host", deco: "slash"}
	}
	n := r.Range(2, 6)
	first := r.Intn(2) // 0: the legitimate scheme first, 1: the other scheme first
	var out []step
	for i := 0; i < n; i++ {
		m := gen.Pick(r, mA)
		label := "own-origin-on-its-scheme"
		if (i+first)%2 == 1 {
			m, label = gen.Pick(r, mB), "own-origin-on-the-other-scheme"
		}
		out = append(out, step{kind: kPost, method: unsafeFor(r, cfg), sidSel: selOwn, ext: selOwn, ck: selOwn,
			label: label, orig: ofExplicit, o: o, ref: ref, modeOv: m + 1})
	}
	return out
}

// ---------------------------------------------------------------------------------------------
// fixed regression corpus (shard 0, independent of the seed)

func lit(raw string) *hdrVal {
	if raw == "null" {
		return &hdrVal{raw: raw, isNull: true}
	}
	t, ok := parseOrigin(raw)
	h := &hdrVal{raw: raw, tuple: t, tupleOK: ok, relation: "literal", deco: "literal"}
	return h
}

// litFor classifies a literal header value against a configuration the way the generator would.
func litFor(cfg *hcfg, raw string) *hdrVal {
	h := lit(raw)
	if h.isNull || !h.tupleOK {
		if !h.isNull {
			h.relation, h.deco = "garbage", "raw"
		}
		return h
	}
	canon := h.tuple.canon()
	ok, why := allowed(h.tuple, cfg.req, cfg.trusted)
	h.relation = "cross"
	switch {
	case ok:
		h.relation = why
	case h.tuple.host == cfg.req.host && h.tuple.scheme == cfg.req.scheme:
		h.relation = "same-port-diff"
	case h.tuple.host == cfg.req.host && h.tuple.port == cfg.req.port:
		h.relation = "same-scheme-flip"
	}
	switch {
	case raw == canon:
		h.deco = "canon"
	case strings.HasPrefix(raw, canon) && len(raw) > len(canon) && strings.ContainsRune("/?#", rune(raw[len(canon)])):
		h.deco = "path"
		if !ok {
			for _, t := range cfg.trusted {
				if t.wild && t.o.scheme == h.tuple.scheme && strings.HasSuffix(strings.ToLower(raw[len(canon):]), t.suffix()) {
					h.wildTrick = true
					h.deco = "trick-wildcard-suffix-in-" + map[byte]string{'/': "path", '?': "query", '#': "fragment"}[raw[len(canon)]]
				}
			}
		}
	default:
		h.deco = "other"
	}
	return h
}

func originCorpusCfg(mode int, host string, trusted ...trustEntry) *hcfg {
	cfg := &hcfg{backend: bVstore, extractor: "header", keyLookup: true, idle: 10 * time.Minute, cookieName: "csrf_",
		mode: mode, host: host, prefix: "tok", trusted: trusted}
	for _, t := range trusted {
		cfg.trustedCfg = append(cfg.trustedCfg, t.cfg())
	}
	cfg.req = hostTuple(schemeOf(mode), host)
	return cfg
}

func probe(cfg *hcfg, origin, referer string) step {
	s := step{kind: kPost, method: "POST", sidSel: selOwn, ext: selOwn, ck: selOwn, label: "own", orig: ofExplicit}
	if origin != "" {
		s.o = litFor(cfg, origin)
	}
	if referer != "" {
		s.ref = litFor(cfg, referer)
	}
	return s
}

func corpus(e *ev.Env) {
	wildEx := trustEntry{o: otuple{"https", "example.com", 443}, wild: true}
	trusted := trustEntry{o: otuple{"https", "trusted.com", 443}}

	// The hypothesis of DESIGN 3.C16, smallest form: one wildcard entry, https, no Origin, a Referer
	// whose *path* ends in the wildcard's suffix.
	e.Corpus("referer-wildcard-path-suffix", func(c *ev.Case) {
		cfg := originCorpusCfg(smTLS, "app.test", wildEx)
		hs := &histSpec{cfg: cfg, nClients: 1, steps: append(mkSteps("fetch"), probe(cfg, "", "https://evil.com/x.example.com"))}
		runHistory(e, c, hs, nil, "")
	})
	e.Corpus("origin-wildcard-path-suffix", func(c *ev.Case) {
		cfg := originCorpusCfg(smHTTP, "app.test", wildEx)
		hs := &histSpec{cfg: cfg, nClients: 1, steps: append(mkSteps("fetch"), probe(cfg, "https://evil.com/x.example.com", ""))}
		runHistory(e, c, hs, nil, "")
	})
	// Look-alikes and the other fixed points of the matrix, each in Origin and (https) Referer.
	e.Corpus("origin-matrix", func(c *ev.Case) {
		for _, mode := range []int{smHTTP, smTLS, smProxyHTTPS, smProxySpoof} {
			cfg := originCorpusCfg(mode, "example.com", wildEx, trusted)
			sch := schemeOf(mode)
			vals := []string{
				sch + "://example.com", sch + "://example.com/", sch + "://example.com/page?x=1",
				"https://trusted.com", "https://trusted.com/", "https://trusted.com/page", "https://a.example.com", "https://a.b.example.com",
				"https://a.example.com/page", "http://a.example.com", "https://a.example.com:8443",
				"https://evilexample.com", "https://example.com.evil.com", "https://evil.com/.example.com",
				"https://evil.com#.example.com", "https://evil.com/x.example.com", "https://evil.com?.example.com",
				"https://a.example.com@evil.com", "https://evil.com/https://trusted.com", "https://trusted.com.evil.com",
				"https://eviltrusted.com", "http://trusted.com", "https://trusted.com:8443",
				"null", "example.com", "//example.com", "https://", "ftp://example.com",
				"HTTPS://EXAMPLE.COM", "https://A.Example.Com",
			}
			hs := &histSpec{cfg: cfg, nClients: 1, steps: mkSteps("fetch")}
			for _, v := range vals {
				hs.steps = append(hs.steps, probe(cfg, v, ""), probe(cfg, "", v), probe(cfg, "null", v))
			}
			hs.steps = append(hs.steps, probe(cfg, "", ""))
			runHistory(e, c, hs, nil, "")
		}
	})
	// Token life cycle, one fixed history per clause, over backends and extractors.
	shapes := map[string][]string{
		"single-use-replay":  {"fetch", "own", "replay-previous", "own"},
		"cookie-mismatch":    {"fetch:0", "fetch:1", "other-in-extractor:1", "other-full:1", "own:0"},
		"extend-by-safe":     {"fetch", "advance-near-end", "fetch", "advance-near-end", "own", "advance-near-end", "own", "advance-past", "own"},
		"expiry":             {"fetch", "advance-past", "own", "fetch", "own"},
		"delete-token-post":  {"fetch", "own", "delete-token-post", "stale", "fetch", "own"},
		"delete-token-get":   {"fetch", "own", "delete-token-get", "stale", "fetch", "own"},
		"forged-and-unknown": {"forged", "fetch", "forged", "own"},
	}
	names := []string{"single-use-replay", "cookie-mismatch", "extend-by-safe", "expiry", "delete-token-post", "delete-token-get", "forged-and-unknown"}
	for _, name := range names {
		name := name
		e.Corpus("lifecycle-"+name, func(c *ev.Case) {
			for _, be := range []string{bVstore, bMemory, bSessMW, bSessStore} {
				for _, ex := range []string{"header", "form", "query", "param", "cookie"} {
					if be == bMemory && ex != "header" {
						continue // every default memory store leaks a 1 s GC ticker goroutine
					}
					for _, su := range []bool{false, true} {
						hs := &histSpec{cfg: fixedCfg(be, ex, su), nClients: 2, steps: mkSteps(shapes[name]...)}
						_, nt := runHistory(e, c, hs, nil, "")
						noteHistory(e, hs, nt)
					}
				}
			}
		})
	}
	// Explicit Extractor together with a KeyLookup that names ANOTHER source (documented as ignored):
	// every (extractor, decoy) pair; the double-submit comparison must follow the extractor in effect.
	e.Corpus("explicit-extractor-decoy-keylookup", func(c *ev.Case) {
		for _, ex := range []string{"header", "form", "query", "param", "cookie"} {
			for _, decoy := range decoysFor(ex, "csrf_") {
				for _, be := range []string{bVstore, bSessStore} {
					for _, su := range []bool{false, true} {
						cfg := fixedCfg(be, ex, su)
						cfg.keyLookup, cfg.decoy = false, decoy
						hs := &histSpec{cfg: cfg, nClients: 2, steps: mkSteps("fetch:0", "fetch:1", "other-in-extractor:1",
							"no-cookie:1", "other-in-cookie:1", "own:1", "no-cookie:0", "own:0", "other-full:1")}
						_, nt := runHistory(e, c, hs, nil, "")
						noteHistory(e, hs, nt)
						e.Stat("decoy_keylookup_configs", 1)
					}
				}
			}
		}
	})
	// Near misses of the double-submit comparison: two live tokens of equal length that differ in one
	// position only (first / middle / last but one / last), and the own token with one byte changed
	// in the cookie or in the extractor.
	e.Corpus("near-miss-tokens", func(c *ev.Case) {
		for style := 0; style <= 4; style++ {
			for _, ex := range []string{"header", "form", "query", "param"} {
				for _, be := range []string{bVstore, bSessStore} {
					cfg := fixedCfg(be, ex, false)
					cfg.tokStyle, cfg.prefix = style, "tokenab"
					hs := &histSpec{cfg: cfg, nClients: 2, steps: mkSteps("fetch:0", "fetch:1", "other-in-extractor:1", "other-in-cookie:1",
						"one-byte-off-cookie:1:0", "one-byte-off-cookie:1:1", "one-byte-off-cookie:1:2", "one-byte-off-cookie:1:3",
						"one-byte-off-extractor:1:0", "one-byte-off-extractor:1:1", "one-byte-off-extractor:1:2", "one-byte-off-extractor:1:3",
						"own:1", "other-in-extractor:0", "own:0")}
					_, nt := runHistory(e, c, hs, nil, "")
					noteHistory(e, hs, nt)
				}
			}
		}
	})
	// Ports: the other scheme's default port is a different origin, on the header side and on the Host side.
	e.Corpus("origin-other-default-port", func(c *ev.Case) {
		for _, mode := range []int{smHTTP, smTLS} {
			sch, other := schemeOf(mode), 80
			if sch == "http" {
				other = 443
			}
			own := defPort(sch)
			for _, host := range []string{"example.com", "example.com:" + strconv.Itoa(other), "example.com:" + strconv.Itoa(own), "example.com:8080"} {
				cfg := originCorpusCfg(mode, host)
				hs := &histSpec{cfg: cfg, nClients: 1, steps: mkSteps("fetch")}
				for _, v := range []string{sch + "://example.com", sch + "://example.com:" + strconv.Itoa(other), sch + "://example.com:" + strconv.Itoa(own),
					sch + "://example.com:8080", sch + "://example.com:" + strconv.Itoa(other) + "/form"} {
					hs.steps = append(hs.steps, probe(cfg, v, ""), probe(cfg, "", v))
				}
				runHistory(e, c, hs, nil, "")
			}
		}
	})
	// Every method other than GET/HEAD/OPTIONS/TRACE is unsafe: each of them without a token, with a
	// forged one, with another client's token in the extractor, and with the own live token.
	e.Corpus("unsafe-methods", func(c *ev.Case) {
		for _, be := range []string{bVstore, bSessStore} {
			for _, ex := range []string{"header", "query", "cookie"} {
				cfg := fixedCfg(be, ex, false)
				cfg.customMethods = true
				hs := &histSpec{cfg: cfg, nClients: 2, steps: mkSteps("fetch:0", "fetch:1")}
				for _, m := range append(append([]string{"POST", "PUT", "PATCH", "DELETE", "CONNECT"}, customMethods...), "POST") {
					st := mkSteps("no-extractor-value:0", "forged:0", "other-in-extractor:0", "no-cookie:0", "own:0")
					for i := range st {
						st[i].method = m
					}
					hs.steps = append(hs.steps, st...)
				}
				_, nt := runHistory(e, c, hs, nil, "")
				noteHistory(e, hs, nt)
			}
		}
	})
	// One app reachable over http and https: the site's own origin of one scheme is same-origin only
	// for requests on that scheme — in every order, through Origin and through Referer.
	e.Corpus("scheme-alternation", func(c *ev.Case) {
		for _, base := range []int{smHTTP, smProxyHTTPS} {
			for _, host := range []string{"example.com", "example.com:8080"} {
				for _, a := range []string{"http", "https"} {
					for _, useRef := range []bool{false, true} {
						for first := 0; first < 2; first++ {
							cfg := originCorpusCfg(base, host)
							var mA, mB []int
							for _, m := range modesOf(cfg) {
								if schemeOf(m) == a {
									mA = append(mA, m)
								} else {
									mB = append(mB, m)
								}
							}
							t := hostTuple(a, host)
							hs := &histSpec{cfg: cfg, nClients: 1, steps: mkSteps("fetch")}
							for i := 0; i < 2*len(mA)*len(mB); i++ {
								m := mA[(i/2)%len(mA)]
								if (i+first)%2 == 1 {
									m = mB[(i/2)%len(mB)]
								}
								s := step{kind: kPost, method: "POST", sidSel: selOwn, ext: selOwn, ck: selOwn, label: "own-origin", orig: ofExplicit, modeOv: m + 1}
								if useRef {
									s.ref = &hdrVal{raw: t.canon() + "/form", tuple: t, tupleOK: true, relation: "own-host", deco: "path"}
								} else {
									s.o = &hdrVal{raw: t.canon(), tuple: t, tupleOK: true, relation: "own-host", deco: "canon"}
								}
								hs.steps = append(hs.steps, s)
							}
							runHistory(e, c, hs, nil, "")
						}
					}
				}
			}
		}
	})
	// Idle timeouts that are not whole seconds: clearly after the timeout the token must be refused
	// (what happens before ceil(timeout)+2 s is not judged).
	e.Corpus("fractional-idle-timeout", func(c *ev.Case) {
		for _, idle := range []time.Duration{time.Millisecond, 500 * time.Millisecond, 999 * time.Millisecond, 1500 * time.Millisecond, 2500 * time.Millisecond} {
			for _, be := range []string{bMemory, bVstore, bSessStore, bSessMW} {
				for _, su := range []bool{false, true} {
					cfg := fixedCfg(be, "header", su)
					cfg.idle = idle
					hs := &histSpec{cfg: cfg, nClients: 1, steps: mkSteps("fetch", "own", "advance-past", "own", "fetch", "fetch", "advance-past", "stale", "own")}
					_, nt := runHistory(e, c, hs, nil, "")
					noteHistory(e, hs, nt)
				}
			}
		}
	})
	// Config.ErrorHandler variants: whatever the handler answers or returns, a refused request must
	// not run the protected handler (consumed, deleted, expired, forged-in-both, mismatching tokens).
	e.Corpus("error-handler-variants", func(c *ev.Case) {
		shapesEH := [][]string{
			{"fetch", "own", "replay-previous", "own"},
			{"fetch", "own", "delete-token-post", "stale", "fetch", "own"},
			{"fetch", "advance-past", "own", "fetch", "own"},
			{"forged", "fetch", "forged", "other-in-extractor:0", "no-cookie", "no-extractor-value", "own"},
		}
		for eh := 0; eh <= 3; eh++ {
			for _, sh := range shapesEH {
				for _, be := range []string{bVstore, bSessStore, bSessMW} {
					for _, ex := range []string{"header", "cookie"} {
						for _, su := range []bool{false, true} {
							cfg := fixedCfg(be, ex, su)
							cfg.errHandler = eh
							hs := &histSpec{cfg: cfg, nClients: 2, steps: mkSteps(sh...)}
							_, nt := runHistory(e, c, hs, nil, "")
							noteHistory(e, hs, nt)
						}
					}
				}
			}
		}
	})
	// Cookie options (session-only, Secure, HttpOnly, SameSite, Domain, Path) change the Set-Cookie line,
	// not the life of the server-side token: expiry, extension, consumption and deletion as always.
	e.Corpus("cookie-options", func(c *ev.Case) {
		type co struct {
			so, sec, ho   bool
			ss, dom, path string
		}
		opts := []co{{so: true}, {sec: true, ho: true, ss: "Strict"}, {so: true, sec: true, ho: true, ss: "None", dom: "example.com", path: "/"},
			{ss: "Lax", path: "/app"}, {so: true, ss: "Strict", dom: "example.com"}}
		shapesCO := [][]string{
			{"fetch", "advance-near-end", "own", "advance-past", "own", "fetch", "own"},
			{"fetch", "advance-near-end", "fetch", "advance-past", "stale", "replay-previous"},
			{"fetch", "own", "replay-previous", "delete-token-post", "stale"},
		}
		for _, o := range opts {
			for _, sh := range shapesCO {
				for _, be := range []string{bVstore, bSessStore, bSessMW, bMemory} {
					for _, su := range []bool{false, true} {
						if be == bMemory && (su || !o.so) {
							continue // each default memory store leaks a ticker goroutine: keep few
						}
						cfg := fixedCfg(be, "header", su)
						cfg.ckSessionOnly, cfg.ckSecure, cfg.ckHTTPOnly, cfg.ckSameSite, cfg.ckDomain, cfg.ckPath = o.so, o.sec, o.ho, o.ss, o.dom, o.path
						hs := &histSpec{cfg: cfg, nClients: 1, steps: mkSteps(sh...)}
						_, nt := runHistory(e, c, hs, nil, "")
						noteHistory(e, hs, nt)
					}
				}
			}
		}
	})
	// Safe requests with request headers no clause mentions (CORS preflight, fetch metadata, AJAX marker,
	// Origin/Referer of any kind), without a cookie and with stale / forged ones: they pass and leave a
	// valid token cookie like any other safe request.
	e.Corpus("safe-requests-extra-headers", func(c *ev.Case) {
		for _, be := range []string{bVstore, bSessStore, bSessMW} {
			for _, ex := range []string{"header", "cookie"} {
				cfg := fixedCfg(be, ex, false)
				hs := &histSpec{cfg: cfg, nClients: 1, steps: mkSteps("preflight", "own", "fetch", "own", "delete-token-post",
					"preflight-stale-cookie", "own", "preflight-forged-cookie", "own")}
				for x := range extraHeaders {
					for _, m := range safeMethods[2:] {
						for _, og := range []int{ofNone, ofSame, ofEvil, ofRefOK, ofRefBad} {
							hs.steps = append(hs.steps, step{kind: kFetch, method: m, sidSel: selOwn, xhdr: x, orig: og, label: "fetch"})
						}
					}
				}
				hs.steps = append(hs.steps, mkSteps("own")...)
				_, nt := runHistory(e, c, hs, nil, "")
				noteHistory(e, hs, nt)
			}
		}
	})
	// Two middleware instances on the default storage, as apps of their own and as route groups of one
	// app, with equal and with different cookie names: a token of one is never good for the other.
	e.Corpus("two-instances-default-storage", func(c *ev.Case) {
		for _, grouped := range []bool{false, true} {
			for _, sameName := range []bool{true, false} {
				for _, ex := range []string{"header", "cookie", "form"} {
					a, b := fixedCfg(bMemory, ex, false), fixedCfg(bMemory, ex, true)
					a.prefix, b.prefix = "insta", "instb"
					b.idle = 6 * time.Second
					if !sameName {
						b.cookieName = "csrf_b"
					}
					var shared *fiber.App
					if grouped {
						shared = fiber.New(appConfig(a))
					}
					sa := &histSpec{cfg: a, nClients: 1, steps: mkSteps("fetch", "peer-token", "own", "fetch-peer-cookie", "own", "peer-token")}
					sb := &histSpec{cfg: b, nClients: 1, steps: mkSteps("fetch", "peer-token", "own", "fetch-peer-cookie", "own", "peer-token")}
					runInstances(e, c, []*histSpec{sa, sb}, shared, []int{0, 1, 1, 0, 0, 1, 1, 0, 0, 1, 0, 1})
				}
			}
		}
	})
	// https + "Origin: null" falls back to the Referer, which must still be judged.
	e.Corpus("null-origin-cross-referer", func(c *ev.Case) {
		cfg := originCorpusCfg(smTLS, "example.com")
		hs := &histSpec{cfg: cfg, nClients: 1, steps: append(mkSteps("fetch"),
			probe(cfg, "null", "https://evil.com/attack"), probe(cfg, "null", "https://example.com/form"), probe(cfg, "https://example.com", ""))}
		runHistory(e, c, hs, nil, "")
	})
	// Storage that keeps the key string it is given (Go map drivers) + a reused RequestCtx (keep-alive):
	// the key stored while extending the token is a view of the request header buffer.
	e.Corpus("keyref-header-predicted-token", func(c *ev.Case) {
		cfg := fixedCfg(bKeyRef, "header", false)
		cfg.reuseCtx = true
		st := mkSteps("fetch", "own", "forged")
		st[2].ext, st[2].ck, st[2].label = selFuture, selFuture, "predicted-next-token"
		runHistory(e, c, &histSpec{cfg: cfg, nClients: 1, steps: st}, nil, "")
	})
	// Same root cause, other direction: the header slot that held the token is overwritten in place by
	// a shorter header value of another request ("https"), then re-allocated for a longer one; the
	// stored key keeps pointing at the abandoned bytes and the valid token is lost.
	e.Corpus("keyref-header-valid-token-lost", func(c *ev.Case) {
		cfg := fixedCfg(bKeyRef, "header", false)
		cfg.reuseCtx, cfg.mode = true, smProxyHTTPS
		cfg.req = hostTuple("https", cfg.host)
		runHistory(e, c, &histSpec{cfg: cfg, nClients: 2, steps: mkSteps("fetch:0", "own:0", "fetch:1", "no-extractor-value:1", "own:0")}, nil, "")
	})
	// Session-store backend, single use, a two-call outage right after the token lookup: neither the
	// removal nor the re-issue reaches the session, the used token stays in it.
	e.Corpus("fault-session-single-use-outage", func(c *ev.Case) {
		hs := &histSpec{cfg: fixedCfg(bSessStore, "header", true), nClients: 1, steps: mkSteps("fetch", "own", "replay-previous")}
		// calls: #1 Set (session saved with the token), #2 Get (lookup), #3 Get (delRaw), #4 Get (setRaw)
		for _, p := range []*faultPlan{{mode: pmRun, k: 3, n: 2}, {mode: pmOutageReq, k: 3}, {mode: pmRun, k: 3, n: 1}} {
			runHistory(e, c, hs, p, p.String())
		}
	})
	// Smallest fault witness: single-use token, the consuming Delete fails, the token is replayed.
	e.Corpus("fault-single-use-delete", func(c *ev.Case) {
		hs := &histSpec{cfg: fixedCfg(bVstore, "header", true), nClients: 1, steps: mkSteps("fetch", "own", "replay-previous")}
		// calls: #1 Set (issue), #2 Get (lookup), #3 Delete (consume)
		for _, p := range []*faultPlan{{mode: pmRun, k: 3, n: 1}, {mode: pmRun, k: 3, n: 2}, {mode: pmOutageReq, k: 3}} {
			runHistory(e, c, hs, p, p.String())
		}
	})
}
