package wire

import (
	"bytes"
	"embed"
	"errors"
	"io/fs"
	"runtime"
	"strconv"
	"strings"
	"testing/fstest"
	"time"

	"github.com/gofiber/fiber/v3"
	"github.com/valyala/fasthttp"

	"verifharness/internal/drive"
	"verifharness/internal/ev"
	"verifharness/internal/gen"
	"verifharness/internal/strict"
)

// ---------------------------------------------------------------------------------------------
// configurations

const (
	cfgDefault = iota
	cfgCustomCtx
	cfgMethods
	cfgImmutable
	cfgUnescape
	cfgBodyLimit
	cfgReadBuf
	cfgErrSink
	cfgBodyNeg
	cfgErrHelpers
	nCfg
)

// what the error handler of the errhandler-helpers configuration does with a 404 / 405
const (
	errRestart  = iota // c.Path("/errpage"); c.RestartRouting()  (serve the error page by an internal redirect)
	errMethod          // c.Method("GET") as well, then the same
	errRedirect        // c.Redirect().To("/errpage")
	errSendFile        // c.SendFile from an in-memory file system
	errRoute           // c.Route(), c.Params(...), then the plain reply
	nErrModes
)

var cfgNames = [nCfg]string{"default", "customctx", "methods", "immutable", "unescape", "bodylimit1k", "readbuf512", "errhandler-accessors", "bodylimit-neg1", "errhandler-helpers"}

type appOpts struct {
	kind         int
	ipValidation bool
	trustProxy   bool
	errMode      int // errhandler-helpers only
	// a global pass-through middleware (with one every request has a matched route; without, the
	// state "no route matched" is reached): both kinds of app are built
	globalUse bool
}

var (
	defaultMethods = []string{"GET", "POST", "PUT", "HEAD", "DELETE", "PATCH", "OPTIONS", "TRACE", "CONNECT"}
	customMethods  = []string{"GET", "POST", "PURGE", "HEAD", "LOCK", "PUT"}
)

func (o appOpts) methods() []string {
	if o.kind == cfgMethods {
		return customMethods
	}
	return defaultMethods
}

func (o appOpts) readBuf() int {
	if o.kind == cfgReadBuf {
		return 512
	}
	return 4096
}

func (o appOpts) bodyLimit() int {
	if o.kind == cfgBodyLimit {
		return 1024
	}
	return 4 << 20
}

// customCtx is the documented way to extend the context (docs/api/app.md, NewCtxFunc).
type customCtx struct {
	fiber.DefaultCtx
}

func (c *customCtx) Params(key string, defaultValue ...string) string {
	return "p_" + c.DefaultCtx.Params(key, defaultValue...)
}

func buildSinkApp(o appOpts) *fiber.App {
	cfg := fiber.Config{ErrorHandler: sinkErrorHandler(o), EnableIPValidation: o.ipValidation}
	switch o.kind {
	case cfgMethods:
		cfg.RequestMethods = append([]string(nil), customMethods...)
	case cfgImmutable:
		cfg.Immutable = true
	case cfgUnescape:
		cfg.UnescapePath = true
	case cfgBodyLimit:
		cfg.BodyLimit = 1024
	case cfgReadBuf:
		cfg.ReadBufferSize = 512
	case cfgBodyNeg:
		cfg.BodyLimit = -1
	}
	if o.trustProxy {
		cfg.TrustProxy = true
		cfg.TrustProxyConfig = fiber.TrustProxyConfig{Proxies: []string{"203.0.113.7"}}
		cfg.ProxyHeader = fiber.HeaderXForwardedFor
	}
	app := fiber.New(cfg)
	if o.kind == cfgCustomCtx {
		app.NewCtxFunc(func(app *fiber.App) fiber.CustomCtx {
			return &customCtx{DefaultCtx: *fiber.NewDefaultCtx(app)}
		})
	}
	// (no global middleware: with one, every request has a matched route, and what a context does
	// when NO route matched - the state an error handler sees on a 404 - is never reached)
	if o.globalUse {
		app.Use(func(c fiber.Ctx) error { return c.Next() })
	}
	app.All("/errpage", func(c fiber.Ctx) error {
		if c.Request().Header.IsHead() {
			c.Set("X-Is-Head", "1")
		}
		return c.Status(fiber.StatusNotFound).SendString("error page")
	})
	app.All("/warm", func(c fiber.Ctx) error { return c.SendString("warm") })
	app.All("/ks", sink)
	app.All("/ks/:a/:b?", sink)
	app.All("/w/*", sink)
	app.All("/c/:id<int>", sink)
	return app
}

func sinkErrorHandler(o appOpts) fiber.ErrorHandler {
	accessors := o.kind == cfgErrSink
	return func(c fiber.Ctx, err error) error {
		code := fiber.StatusInternalServerError
		var fe *fiber.Error
		if errors.As(err, &fe) {
			code = fe.Code
		}
		if c.Request().Header.IsHead() {
			c.Set("X-Is-Head", "1")
		}
		if o.kind == cfgErrHelpers && (code == fiber.StatusNotFound || code == fiber.StatusMethodNotAllowed) && c.Path() != "/errpage" {
			// an error handler that uses the context's helpers for the "not found" replies
			switch o.errMode {
			case errRestart:
				c.Path("/errpage")
				return c.RestartRouting()
			case errMethod:
				c.Method(fiber.MethodGet)
				c.Path("/errpage")
				return c.RestartRouting()
			case errRedirect:
				return c.Redirect().To("/errpage")
			case errSendFile:
				e2 := c.SendFile("hello.txt", fiber.SendFile{FS: sinkMapFS, CacheDuration: -1})
				if c.Request().Header.IsHead() {
					c.Set("X-Is-Head", "1") // SendFile starts the response header afresh
				}
				if e2 != nil {
					return c.Status(code).SendString(e2.Error())
				}
				return nil
			case errRoute:
				_ = c.Route().Path
				_ = c.Params("a")
				_ = c.Params("*")
			}
		}
		if accessors {
			// what a logging error handler does
			_ = c.Method()
			_ = c.Path()
			_ = c.OriginalURL()
			_ = c.IP()
			_ = c.IPs()
			_ = c.Host()
			_ = c.Hostname()
			_ = c.Protocol()
			_ = c.Scheme()
			_ = c.Get(fiber.HeaderUserAgent)
			_ = c.Subdomains()
			_ = c.Queries()
			_ = c.Body()
			_ = c.Redirect().Messages()
			_ = c.String()
		}
		c.Set(fiber.HeaderContentType, fiber.MIMETextPlainCharsetUTF8)
		return c.Status(code).SendString(err.Error())
	}
}

// ---------------------------------------------------------------------------------------------
// the kitchen-sink handler

type sinkBind struct {
	Name string   `query:"name" form:"name" json:"name" xml:"name" header:"X-Name" cookie:"name" uri:"a" respHeader:"X-Name"`
	N    int      `query:"n" form:"n" json:"n" xml:"n" header:"X-N" cookie:"n"`
	Tags []string `query:"tags" form:"tags" json:"tags" xml:"tags"`
	OK   bool     `query:"ok" json:"ok"`
	F    float64  `query:"f" json:"f"`
	// a slice of structs: the binders address its elements with index keys (items.0.name,
	// items[0][name]) taken from the request
	Items []sinkItem `query:"items" form:"items" json:"items" xml:"items" header:"items" cookie:"items"`
	Sub   sinkItem   `query:"sub" form:"sub" json:"sub" header:"sub" cookie:"sub"`
}

type sinkItem struct {
	Name string   `query:"name" form:"name" json:"name" xml:"name" header:"name" cookie:"name"`
	Qty  int      `query:"qty" form:"qty" json:"qty" xml:"qty" header:"qty" cookie:"qty"`
	Tags []string `query:"tags" form:"tags" json:"tags" header:"tags" cookie:"tags"`
}

const nOps = 18

// in-memory file systems for SendFile: a map type (not comparable with ==) and an embedded one
var sinkMapFS = fstest.MapFS{
	"hello.txt":    {Data: []byte("hello from the map file system\n")},
	"dir/data.bin": {Data: bytes.Repeat([]byte("0123456789abcdef"), 64)},
}

//go:embed testdata
var sinkEmbedFS embed.FS

// file systems that cannot be compared with ==: a func type (two closures from one call site) and
// a struct that wraps a map; each serves its own content and must do so on every request
type fsFunc func(name string) (fs.File, error)

func (f fsFunc) Open(name string) (fs.File, error) { return f(name) }

type wrapFS struct{ m fstest.MapFS }

func (w wrapFS) Open(name string) (fs.File, error) { return w.m.Open(name) }

// ifaceFS is comparable as a TYPE (a struct with an interface field) but not as a value when the
// field holds a map
type ifaceFS struct{ inner fs.FS }

func (w ifaceFS) Open(name string) (fs.File, error) { return w.inner.Open(name) }

func ownContent(kind string, v int) string {
	return "content of " + kind + " file system " + itoa(v) + "\n"
}

func mkFuncFS(v int) fs.FS {
	m := fstest.MapFS{"own.txt": {Data: []byte(ownContent("func", v))}}
	return fsFunc(func(name string) (fs.File, error) { return m.Open(name) })
}

var (
	sinkFuncFS  = [2]fs.FS{mkFuncFS(0), mkFuncFS(1)}
	sinkIfaceFS = [2]fs.FS{
		ifaceFS{fstest.MapFS{"own.txt": {Data: []byte(ownContent("iface-struct", 0))}}},
		ifaceFS{fstest.MapFS{"own.txt": {Data: []byte(ownContent("iface-struct", 1))}}},
	}
	sinkWrapFS = [2]fs.FS{
		wrapFS{fstest.MapFS{"own.txt": {Data: []byte(ownContent("struct", 0))}}},
		wrapFS{fstest.MapFS{"own.txt": {Data: []byte(ownContent("struct", 1))}}},
	}
)

func validRid(s string) bool {
	if len(s) == 0 || len(s) > 32 {
		return false
	}
	for i := 0; i < len(s); i++ {
		c := s[i]
		if !(c >= 'a' && c <= 'z' || c >= '0' && c <= '9' || c == '-') {
			return false
		}
	}
	return true
}

func capN(n, m int) string {
	if n > m {
		n = m
	}
	return strconv.Itoa(n)
}

func errBit(err error) string {
	if err != nil {
		return "e"
	}
	return "k"
}

func sizeClass(n int) string {
	switch {
	case n == 0:
		return "0"
	case n < 1024:
		return "s"
	case n < 65536:
		return "m"
	}
	return "L"
}

func sink(c fiber.Ctx) error {
	rid := c.Query("rid")
	if !validRid(rid) {
		rid = ""
	}
	op := fiber.Query[int](c, "op", 0)
	size := fiber.Query[int](c, "size", 1000)
	if size < 0 || size > 1<<20 {
		size = 1000
	}
	var o strings.Builder

	// Range(size)
	rg, err := c.Range(size)
	o.WriteString("R")
	switch {
	case err == nil:
		o.WriteString(capN(len(rg.Ranges), 3))
		for _, x := range rg.Ranges {
			if x.Start < 0 || x.Start > x.End || x.End > size-1 {
				o.WriteString("!RANGE-OUTSIDE-RESOURCE!")
				break
			}
		}
	case errors.Is(err, fiber.ErrRangeMalformed):
		o.WriteString("m")
	case errors.Is(err, fiber.ErrRangeUnsatisfiable):
		o.WriteString("u")
	default:
		o.WriteString("?")
	}

	o.WriteString("I" + capN(len(c.IPs()), 3))
	_ = c.IP()
	o.WriteString("S")
	for off := 0; off <= 3; off++ {
		o.WriteString(capN(len(c.Subdomains(off)), 4))
	}
	_ = c.Subdomains()

	body := c.Body()
	_ = c.BodyRaw()
	o.WriteString("B" + sizeClass(len(body)))

	c.Set(fiber.HeaderETag, `"sink-etag"`)
	c.Set(fiber.HeaderLastModified, "Mon, 01 Jan 2024 00:00:00 GMT")
	if c.Fresh() {
		o.WriteString("F1")
	} else {
		o.WriteString("F0")
	}
	_ = c.Stale()

	o.WriteString("T")
	for _, ext := range []string{"json", "html", "xml", "txt", "png", "form"} {
		if c.Is(ext) {
			o.WriteString(ext[:1])
		}
	}
	o.WriteString("A")
	o.WriteString(capN(len(c.Accepts("html", "json")), 1))
	o.WriteString(capN(len(c.Accepts("text/html", "application/json", "image/png", "text/html;level=1")), 1))
	o.WriteString(capN(len(c.Accepts("png")), 1))
	o.WriteString(capN(len(c.AcceptsCharsets("utf-8", "iso-8859-1")), 1))
	o.WriteString(capN(len(c.AcceptsEncodings("gzip", "br", "identity")), 1))
	o.WriteString(capN(len(c.AcceptsLanguages("en", "fr", "de-CH")), 1))

	mf, err := c.MultipartForm()
	o.WriteString("M" + errBit(err))
	if err == nil && mf != nil {
		o.WriteString(capN(len(mf.Value), 3) + capN(len(mf.File), 3))
	}
	fh, err := c.FormFile("file")
	o.WriteString(errBit(err))
	if err == nil && fh != nil {
		_ = fh.Filename
		_ = fh.Size
	}
	_ = c.FormValue("name")
	_ = c.FormValue("nope", "dflt")

	qs := c.Queries()
	o.WriteString("Q" + capN(len(qs), 4))
	_ = c.Query("name")
	_ = fiber.Query[int](c, "n")
	_ = fiber.Query[float64](c, "f")
	_ = fiber.Query[bool](c, "ok")
	_ = fiber.Query[uint8](c, "n", 7)

	o.WriteString("b")
	var b sinkBind
	o.WriteString(errBit(c.Bind().Query(&b)))
	o.WriteString(errBit(c.Bind().Header(&b)))
	o.WriteString(errBit(c.Bind().Cookie(&b)))
	o.WriteString(errBit(c.Bind().URI(&b)))
	o.WriteString(errBit(c.Bind().Body(&b)))
	o.WriteString(errBit(c.Bind().RespHeader(&b)))
	switch {
	case c.Is("json"):
		o.WriteString(errBit(c.Bind().JSON(&b)))
	case c.Is("xml"):
		o.WriteString(errBit(c.Bind().XML(&b)))
	case c.Is("form"), strings.HasPrefix(c.Get(fiber.HeaderContentType), fiber.MIMEMultipartForm):
		o.WriteString(errBit(c.Bind().Form(&b)))
	}
	ms := map[string]string{}
	_ = c.Bind().Query(ms)
	mss := map[string][]string{}
	_ = c.Bind().Query(mss)
	_ = c.Bind().Header(mss)
	_ = c.Bind().Cookie(ms)

	rd := c.Redirect()
	fm := rd.Messages()
	o.WriteString("f" + capN(len(fm), 3) + capN(len(rd.OldInputs()), 3))
	_ = rd.Message("status")
	_ = rd.OldInput("name")

	_ = c.Cookies("name")
	_ = c.Cookies(fiber.FlashCookieName)
	_ = c.Cookies("nope", "dflt")
	_ = c.Params("a")
	_ = c.Params("b", "dflt")
	_ = c.Params("*")
	_ = c.Params("id")
	_ = fiber.Params[int](c, "id")
	_ = c.Host()
	_ = c.Hostname()
	_ = c.Port()
	_ = c.Scheme()
	_ = c.Protocol()
	_ = c.BaseURL()
	_ = c.OriginalURL()
	_ = c.Path()
	_ = c.Method()
	_ = c.XHR()
	_ = c.Secure()
	_ = c.IsProxyTrusted()
	_ = c.IsFromLocal()
	_ = c.GetReqHeaders()
	_ = c.Get("X-Name")
	_ = c.Get("X-Nope", "dflt")
	_ = c.Route().Path
	_ = c.String()

	if rid != "" {
		c.Set("X-Rid", rid)
	}
	if c.Request().Header.IsHead() {
		c.Set("X-Is-Head", "1")
	}
	summary := "rid=" + rid + ";o=" + o.String()
	c.Set("X-Outcome", o.String())

	switch op {
	case 1:
		return c.JSON(fiber.Map{"rid": rid, "o": o.String()})
	case 2:
		return c.JSONP(fiber.Map{"rid": rid, "o": o.String()}, "cb")
	case 3:
		return c.Format(
			fiber.ResFmt{MediaType: "text/plain", Handler: func(c fiber.Ctx) error { return c.SendString(summary) }},
			fiber.ResFmt{MediaType: "application/json", Handler: func(c fiber.Ctx) error { return c.JSON(fiber.Map{"s": summary}) }},
			fiber.ResFmt{MediaType: "default", Handler: func(c fiber.Ctx) error { return c.SendString(summary) }},
		)
	case 4:
		return c.AutoFormat(summary)
	case 5:
		return c.Redirect().With("status", "saved").With("rid", rid, 65).To("/ks")
	case 6:
		c.Cookie(&fiber.Cookie{Name: "sid", Value: "v-" + rid, Path: "/", HTTPOnly: true, SameSite: "lax"})
		c.ClearCookie("old")
		return c.SendString(summary)
	case 7:
		c.Attachment("report.pdf")
		c.Links("http://api.example.com/users?page=2", "next", "http://api.example.com/users?page=5", "last")
		c.Vary("Origin", "Accept")
		c.Append("X-Multi", "a", "b")
		c.Type("txt", "utf-8")
		return c.SendString(summary)
	case 8:
		return c.SendStatus(fiber.StatusNoContent)
	case 9:
		return c.Redirect().Back("/fallback")
	case 10:
		return c.Redirect().WithInput().To("/ks")
	case 12, 13, 14, 15, 16, 17:
		var err error
		want := ""
		v := 0
		if rid != "" {
			v = int(rid[len(rid)-1]) & 1 // pipelined requests alternate between the two file systems
		}
		switch op {
		case 16:
			err = c.SendFile("own.txt", fiber.SendFile{FS: sinkFuncFS[v], CacheDuration: -1})
			want = ownContent("func", v)
		case 17:
			if rid != "" && (rid[len(rid)-1]>>1)&1 == 1 {
				err = c.SendFile("own.txt", fiber.SendFile{FS: sinkIfaceFS[v], CacheDuration: -1})
				want = ownContent("iface-struct", v)
			} else {
				err = c.SendFile("own.txt", fiber.SendFile{FS: sinkWrapFS[v], CacheDuration: -1})
				want = ownContent("struct", v)
			}
		case 12:
			err = c.SendFile("hello.txt", fiber.SendFile{FS: sinkMapFS, CacheDuration: -1})
		case 13:
			// names at the edge of the domain: missing, empty, the root, directories, absolute and
			// parent paths - inside a file system and (odd k) relative to the process directory
			k := 0
			for i := 0; i < len(rid); i++ {
				k += int(rid[i])
			}
			names := []string{"missing.txt", "", ".", "dir/", "dir", "/hello.txt", "../hello.txt", "hello.txt/"}
			cfg := fiber.SendFile{CacheDuration: -1}
			if (k/len(names))%2 == 0 {
				cfg.FS = sinkMapFS
			}
			err = c.SendFile(names[k%len(names)], cfg)
		case 14:
			err = c.SendFile("dir/data.bin", fiber.SendFile{FS: sinkMapFS, Compress: true, ByteRange: true, Download: true, MaxAge: 60, CacheDuration: 10 * time.Second})
		default:
			err = c.SendFile("testdata/hello.txt", fiber.SendFile{FS: sinkEmbedFS, ByteRange: true, CacheDuration: -1})
		}
		// SendFile starts the response header afresh: mark again what the oracles read
		if c.Request().Header.IsHead() {
			c.Set("X-Is-Head", "1")
		}
		if rid != "" {
			c.Set("X-Rid", rid)
		}
		c.Set("X-Outcome", o.String())
		if want != "" && err == nil {
			c.Set("X-Want-Body", strings.TrimSpace(want))
		}
		return err
	case 11:
		c.Location("/created/1")
		return c.Status(fiber.StatusCreated).SendString(summary)
	}
	return c.SendString(summary)
}

// ---------------------------------------------------------------------------------------------

// declaredBody is the largest body size announced anywhere in the bytes: a Content-Length value or
// a chunk-size line.
func declaredBody(raw []byte) uint64 {
	var worst uint64
	chunked := bytes.Contains(raw, []byte("chunked"))
	for i := 0; i < len(raw); i++ {
		if i > 0 && raw[i-1] != '\n' && raw[i-1] != ' ' {
			continue
		}
		// decimal after "content-length: ", hex on a line of its own
		if isDigit(raw[i]) && hasSuffixFold(raw[:i], "content-length: ") {
			var v uint64
			for j := i; j < len(raw) && v < 1<<40; j++ {
				if raw[j] == '\r' && j+1 < len(raw) && raw[j+1] != '\n' {
					continue // a bare CR inside the number is skipped by the server's parser
				}
				if !isDigit(raw[j]) {
					break
				}
				v = v*10 + uint64(raw[j]-'0')
			}
			if v > worst {
				worst = v
			}
		} else if isHexDigit(raw[i]) && i > 1 && raw[i-1] == '\n' {
			var v uint64
			j := i
			for ; j < len(raw) && isHexDigit(raw[j]) && v < 1<<40; j++ {
				c := raw[j]
				switch {
				case c <= '9':
					v = v<<4 | uint64(c-'0')
				case c >= 'a':
					v = v<<4 | uint64(c-'a'+10)
				default:
					v = v<<4 | uint64(c-'A'+10)
				}
			}
			// the server reads the leading hex digits of a chunk-size line whatever follows
			if v > worst && v < 1<<32 && chunked {
				worst = v
			}
		}
	}
	return worst
}

// neutralise rewrites every occurrence of a marker (case-insensitive for header names) by a
// same-length non-marker so that the request keeps its framing but loses the feature.
func neutralise(in []byte, marker string) ([]byte, bool) {
	low := append([]byte(nil), in...) // ASCII lower-casing (bytes.ToLower re-encodes invalid UTF-8)
	for i, ch := range low {
		if ch >= 'A' && ch <= 'Z' {
			low[i] = ch + 32
		}
	}
	m := []byte(strings.ToLower(marker))
	out := append([]byte(nil), in...)
	found := false
	for off := 0; ; {
		i := bytes.Index(low[off:], m)
		if i < 0 {
			break
		}
		out[off+i+len(m)-1] = 'x'
		found = true
		off += i + len(m)
	}
	return out, found
}

// coldAlloc serves input once on a fresh app after the process-wide pools were emptied (two
// collections: sync.Pool keeps a victim generation), so that every variant of a request is
// measured in the same state: whether a pooled decoder happened to survive does not decide.
func coldAlloc(e *ev.Env, c *ev.Case, mk func() *fiber.App, input []byte) (uint64, bool) {
	runtime.GC()
	runtime.GC()
	app := mk()
	w := drive.NewWire(app)
	_, _ = w.Serve(warmReq, nil)
	var d uint64
	p := guard(e, c, "survive", hexOf(input), func() { d = allocOf(func() { _, _ = w.Serve(input, nil) }) })
	return d, p
}

// realContentLength rewrites the Content-Length of the first request in raw to the number of
// body bytes that actually follow its head (false: no such header, or chunked).
func realContentLength(raw []byte) ([]byte, bool) {
	end, sep := headEnd(raw)
	if end < 0 || indexFold(raw[:end], "chunked") >= 0 {
		return nil, false
	}
	real := " " + itoa(len(raw)-(end+sep))
	out := append([]byte(nil), raw[:end]...)
	found := false
	for off := 0; ; { // every Content-Length field of the head
		i := indexFold(out[off:], "content-length:")
		if i < 0 {
			break
		}
		j := off + i + len("content-length:")
		k := j
		for k < len(out) && out[k] != '\n' && !(out[k] == '\r' && (k+1 == len(out) || out[k+1] == '\n')) {
			k++ // a bare CR inside the value does not end the line
		}
		out = append(out[:j], append([]byte(real), out[k:]...)...)
		off = j + len(real)
		found = true
	}
	if !found {
		return nil, false
	}
	return append(out, raw[end:]...), true
}

// headEnd finds the empty line that ends the first request head the way fasthttp reads it (lines
// end at LF, a CR before it is optional): offset of the line break that ends the last header line
// and the length of the break + empty line.
func headEnd(raw []byte) (int, int) {
	best, sep := -1, 0
	for _, m := range []string{"\r\n\r\n", "\n\r\n", "\n\n"} {
		if i := bytes.Index(raw, []byte(m)); i >= 0 && (best < 0 || i < best) {
			best, sep = i, len(m)
		}
	}
	return best, sep
}

// dechunk rewrites the first request in raw from chunked transfer coding to Content-Length framing
// with the body bytes that are really there (a chunk that announces more than follows contributes
// what follows): the body stays, the announcements go.
func dechunk(raw []byte) ([]byte, bool) {
	end := bytes.Index(raw, []byte("\r\n\r\n"))
	if end < 0 {
		return nil, false
	}
	head := raw[:end+2]
	i := indexFold(head, "transfer-encoding:")
	if i < 0 || indexFold(head[i:], "chunked") < 0 {
		return nil, false
	}
	j := i
	for j < len(head) && head[j] != '\n' {
		j++
	}
	var body []byte
	rest := raw[end+4:]
	for len(rest) > 0 {
		k := 0
		var n int
		for k < len(rest) && isHexDigit(rest[k]) && n < 1<<28 {
			c := rest[k]
			switch {
			case c <= '9':
				n = n<<4 | int(c-'0')
			case c >= 'a':
				n = n<<4 | int(c-'a'+10)
			default:
				n = n<<4 | int(c-'A'+10)
			}
			k++
		}
		nl := bytes.Index(rest, []byte("\r\n"))
		if k == 0 || nl < 0 || n == 0 {
			break
		}
		rest = rest[nl+2:]
		if n > len(rest) {
			n = len(rest)
		}
		body = append(body, rest[:n]...)
		rest = rest[n:]
		if bytes.HasPrefix(rest, []byte("\r\n")) {
			rest = rest[2:]
		}
	}
	out := append([]byte(nil), head[:i]...)
	out = append(out, "Content-Length: "+itoa(len(body))+"\r\n"...)
	out = append(out, head[j+1:]...)
	out = append(out, "\r\n"...)
	return append(out, body...), true
}

// recordedSites are allocation sites already recorded as bounded findings (known_findings.json,
// KF-C07-2/5/6/7); only they may name a combination of several contributing components.
var recordedSites = map[string]bool{"compressed-body-inflate": true, "announced-content-length": true, "announced-chunk-size": true, "bind-slice-index": true}

// allocSite attributes the allocation of an over-budget request by evidence: the request is
// measured again (cold pools, fresh app) with one component neutralised at a time; the component
// whose removal alone brings the request under the limit (plus the cost of refilling cold pools,
// measured on the benign warm-up request) is the site. Several or none: "unattributed".
func allocSite(e *ev.Env, c *ev.Case, mk func() *fiber.App, input []byte, limit, total uint64) string {
	type comp struct {
		name string
		alt  func(in []byte) ([]byte, bool)
	}
	rename := func(marker string) func([]byte) ([]byte, bool) {
		return func(in []byte) ([]byte, bool) { return neutralise(in, marker) }
	}
	comps := []comp{
		{"flash-cookie", rename(fiber.FlashCookieName)},
		{"compressed-body-inflate", rename("content-encoding")},
		{"announced-content-length", realContentLength},
		{"announced-chunk-size", dechunk},
		{"response-compression", rename("accept-encoding")}, // the handler's SendFile(Compress) compresses for a client that accepts it
		{"bind-slice-index", rename("items")},               // index keys (items.N.f, items[N][f]) for the slice of structs the handler binds
		{"multipart-form", rename("multipart/form-data")},
		{"typed-body", rename("content-type")},
		{"range-header", func(in []byte) ([]byte, bool) {
			// rename the header field (not its colon): "\nRange:" -> "\nRangx:"
			i := indexFold(in, "\nrange:")
			if i < 0 {
				return nil, false
			}
			out := append([]byte(nil), in...)
			out[i+len("\nrange")-1] = 'x'
			return out, true
		}},
	}
	// what the same request costs with cold pools once every component is switched off: the
	// kitchen-sink handler itself refills a good many pools (encoders, binders, decoders)
	bare := input
	for _, f := range comps {
		if alt, ok := f.alt(bare); ok {
			bare = alt
		}
	}
	_, _ = coldAlloc(e, c, mk, bare) // one-time initialisations of the handler's path, not pools
	base, _ := coldAlloc(e, c, mk, bare)
	threshold := max(limit, base+base/8) + 64<<10
	if e.Verbose {
		println("allocSite: all components off ->", base, "threshold", threshold)
	}
	announcedFits := func() bool { // the allocation is about the size a Content-Length / chunk line announces
		a := declaredBody(input)
		return a >= 64<<10 && total+total/8 >= a && total <= 2*a+limit
	}
	if base > limit+64<<10 {
		// the request is over budget with every known component switched off: removal of a
		// component proves nothing here; only the size of the allocation is evidence
		if announcedFits() {
			if indexFold(input, "chunked") >= 0 {
				return "announced-chunk-size"
			}
			return "announced-content-length"
		}
		return "unattributed"
	}
	var explains, full []string
	var present, irrelevant []comp
	for _, f := range comps {
		alt, ok := f.alt(input)
		if !ok {
			continue
		}
		present = append(present, f)
		d, p := coldAlloc(e, c, mk, alt)
		if e.Verbose {
			println("allocSite: without", f.name, "->", d)
		}
		if !p && d <= threshold {
			explains = append(explains, f.name)
		}
		// removal leaves (about) what the bare request costs: the component accounts for all of it
		if !p && d <= base+base/2+32<<10 {
			full = append(full, f.name)
		}
		// removal changes nothing: the component has no part in this allocation
		if !p && d+d/10 >= total && d <= total+total/10 {
			irrelevant = append(irrelevant, f)
		}
	}
	if len(explains) == 0 && len(irrelevant) > 0 {
		// no single removal helps: a component may be masked by one that has no part in the
		// allocation as observed but takes over once the first is gone (a body that becomes
		// complete when de-chunked and is then inflated). Remove the irrelevant ones as well.
		for _, f := range present {
			skip := false
			for _, g := range irrelevant {
				skip = skip || g.name == f.name
			}
			if skip {
				continue
			}
			alt, ok := f.alt(input)
			for _, g := range irrelevant {
				if a2, ok2 := g.alt(alt); ok && ok2 {
					alt = a2
				}
			}
			if !ok {
				continue
			}
			d, p := coldAlloc(e, c, mk, alt)
			if e.Verbose {
				println("allocSite: without", f.name, "and the components without a part ->", d)
			}
			if !p && d <= threshold {
				explains = append(explains, f.name)
			}
		}
	}
	// the size of the allocation is evidence too: a buffer of about the announced size is the
	// announcement's, even if switching off another component makes the server take a path
	// that does not buffer (multipart bodies are streamed unless they are content-encoded)
	if announced := declaredBody(input); len(explains) > 1 && announced >= 64<<10 && total+total/8 >= announced && total <= 2*announced+limit {
		var only []string
		for _, x := range explains {
			if strings.HasPrefix(x, "announced-") {
				only = append(only, x)
			}
		}
		if len(only) == 1 {
			explains, full = only, only
		}
	}
	// an announced size can only account for a buffer of about that size: when far more was
	// allocated, rewriting the announcement merely changed how much of the body the server saw
	if announced := declaredBody(input); total > 2*announced+limit {
		drop := func(xs []string) []string {
			var out []string
			for _, x := range xs {
				if !strings.HasPrefix(x, "announced-") {
					out = append(out, x)
				}
			}
			return out
		}
		if len(drop(explains)) > 0 {
			explains, full = drop(explains), drop(full)
		}
	}
	if len(full) == 1 {
		// another component may merely multiply the cost (a typed body is read several times)
		explains = full
	}
	if len(explains) == 0 && len(present) > 1 {
		// Several components may contribute at once (an inflated request body AND the working
		// memory of a compressed response): neutralise them pairwise, finally all together. The
		// first set that brings the request within the threshold explains it.
		without := func(set []comp) (uint64, bool) {
			alt := input
			for _, g := range set {
				if a2, ok := g.alt(alt); ok {
					alt = a2
				}
			}
			d, p := coldAlloc(e, c, mk, alt)
			if e.Verbose {
				var ns []string
				for _, g := range set {
					ns = append(ns, g.name)
				}
				println("allocSite: without", strings.Join(ns, "+"), "->", d)
			}
			return d, !p && d <= threshold
		}
		var set []comp
	search:
		for i := range present {
			for j := i + 1; j < len(present); j++ {
				if _, ok := without([]comp{present[i], present[j]}); ok {
					set = []comp{present[i], present[j]}
					break search
				}
			}
		}
		if set == nil && len(present) > 2 {
			if _, ok := without(present); ok {
				set = present
			}
		}
		// Of the set, components whose cost is allowed for (response compression) do not name the
		// site. One other component: that is the site. Several: only if all of them are sites
		// already recorded as bounded findings the first (in the fixed order) names it - a set
		// with a component that is not, stays unattributed and is reported as such.
		var sites []string
		allRecorded := true
		for _, g := range set {
			if g.name == "response-compression" {
				continue
			}
			sites = append(sites, g.name)
			allRecorded = allRecorded && recordedSites[g.name]
		}
		switch {
		case set != nil && len(sites) == 0:
			explains = []string{"response-compression"}
		case len(sites) == 1, len(sites) > 1 && allRecorded:
			explains = sites[:1]
		}
	}
	// size evidence takes precedence: a buffer of the announced size is the announcement's
	if announcedFits() {
		for _, f := range present {
			if strings.HasPrefix(f.name, "announced-") {
				if alt, ok := f.alt(input); ok {
					if d, p := coldAlloc(e, c, mk, alt); !p && d <= threshold {
						return f.name
					}
				}
			}
		}
	}
	// "typed-body" is implied by the more specific multipart component
	if len(explains) == 2 && explains[0] == "multipart-form" && explains[1] == "typed-body" {
		explains = explains[:1]
	}
	if len(explains) != 1 {
		if e.Verbose {
			println("allocSite: explained by", strings.Join(explains, "+"))
		}
		return "unattributed"
	}
	best := explains[0]
	if best == "flash-cookie" {
		best = "flash-cookie-other"
		name := []byte(fiber.FlashCookieName + "=")
		for off := 0; ; {
			i := bytes.Index(input[off:], name)
			if i < 0 {
				break
			}
			off += i + len(name)
			for off < len(input) && (input[off] == ' ' || input[off] == '\r' || input[off] == '"' || input[off] == '\t') {
				off++
			}
			if off < len(input) {
				if b := input[off]; b == 0xdc || b == 0xdd || b&0xf0 == 0x90 {
					best = "flash-cookie-array-header"
					break
				}
			}
		}
	}
	return best
}

// sigFlashRaw: the flash cookie on the wire is the raw MessagePack encoding (known finding); every
// ill-formedness caused by its bytes maps to this one signature.
const sigFlashRaw = "wellformed|flash-cookie-raw-msgpack-bytes"

// flashCause maps a byte class to the cause vocabulary shared with the C12 signature.
func flashCause(byteCls string) string {
	switch byteCls {
	case "CRLF", "CR", "LF":
		return "line-break"
	case "NUL":
		return "nul"
	}
	return "control-byte"
}

// judgeStream applies the well-formedness oracle to everything a connection wrote back.
func judgeStream(e *ev.Env, c *ev.Case, cfg string, input, out []byte) ([]*strict.Response, bool) {
	rs, perr := parseWithHead(out)
	if perr != nil {
		site := headerAt(out, perr.Off)
		if perr.Class == "bytes-after-close" && len(rs) > 0 && rs[len(rs)-1].Get("X-Is-Head") == "1" {
			// the answer to a HEAD request is followed by body bytes
			e.Stat("head_response_has_body_status_"+itoa(rs[len(rs)-1].Status), 1)
			e.Violation(c, "wellformed|head-response-has-body|fasthttp-error-path", "the response to a HEAD request carries a body: "+perr.Error(),
				map[string]any{"config": cfg, "status": rs[len(rs)-1].Status, "input_hex": hexOf(input), "input": show(input), "output": show(out)})
			return rs, false
		}
		off0 := 0
		for _, r := range rs {
			off0 += len(r.Raw)
		}
		sig := "wellformed|" + perr.Class + "|" + site
		// look at the failing block and at the response before it: a cookie value with an empty
		// line in it ends that response early for the parser, which then fails on the rest
		scan := off0
		if len(rs) > 0 {
			scan -= len(rs[len(rs)-1].Raw)
		}
		if cls := flashCookieBytes(out[scan:]); cls != "" {
			// the flash cookie is raw MessagePack: name the worst byte class it carries rather
			// than the first one met (old-input entries come in map order)
			// one signature for the known root cause; the class is detail
			sig = sigFlashRaw + "|" + flashCause(cls)
			site = "flash-cookie:" + cls
			e.Stat("flash_cookie_raw_"+cls, 1)
		}
		e.Violation(c, sig, "response stream rejected by the strict parser: "+perr.Error(),
			map[string]any{"config": cfg, "class": site, "input_hex": hexOf(input), "input": show(input), "output": show(out), "parsed_before": len(rs)})
		// independent of where the strict parser stopped: a line-splitting client sees these
		// header lines in the failing response
		off := 0
		for _, r := range rs {
			off += len(r.Raw)
		}
		if name, after := injectedLine(out[off:], append(append([]byte(nil), input...), fasthttp.AppendUnquotedArg(nil, input)...)); name != "" {
			e.Violation(c, "wellformed|injected-header-line|after:"+after, "a line-splitting client sees the header line "+name+" which the application never set",
				map[string]any{"config": cfg, "input_hex": hexOf(input), "input": show(input), "output": show(out), "header": name})
		}
		return rs, false
	}
	return rs, true
}

// flashCookieBytes classifies the bytes of the flash cookie values in b: the worst class over all
// flash Set-Cookie lines ("" when there is none or none carries a control byte).
func flashCookieBytes(b []byte) string {
	rank := map[string]int{"": 0, "none": 0, "other-CTL": 1, "NUL": 2, "CR": 3, "LF": 4, "CRLF": 5}
	worst := ""
	for off := 0; ; {
		v, _, next := flashCookieAt(b, off)
		if next < 0 {
			return worst
		}
		off = next
		if cls := byteClass(string(v)); rank[cls] > rank[worst] {
			worst = cls
		}
	}
}

func finals(rs []*strict.Response) []*strict.Response {
	var f []*strict.Response
	for _, r := range rs {
		if r.Status/100 != 1 {
			f = append(f, r)
		}
	}
	return f
}

// svSeen counts what the oracles actually got to see (one engine run per process).
var svSeen struct{ handler, class, repeat int }

func runSurvive(e *ev.Env) {
	setup(e)
	defer stopProfile()
	if e.Only == isoCase {
		// child of isolated(): the input comes through the environment
		e.Corpus("isolated-input", func(c *ev.Case) {
			raw, meta := isoInput()
			f := strings.Split(meta, ",")
			if len(raw) == 0 || len(f) != 4 {
				e.Inconclusive("isolated child without input")
				return
			}
			kind, _ := strconv.Atoi(f[0])
			n, _ := strconv.Atoi(f[3])
			reqs := make([]*rq, max(n, 1))
			for i := range reqs {
				reqs[i] = &rq{}
			}
			// judged like a mutated stream: no request structure to compare counts with
			surviveCase(e, c, appOpts{kind: kind % nCfg, ipValidation: f[1] == "true", trustProxy: f[2] == "true"}, reqs, raw, true, nil)
		})
		return
	}

	// -------- fixed corpus --------------------------------------------------------------
	one := func(name string, o appOpts, raw []byte, wantStatus int) {
		e.Corpus(name, func(c *ev.Case) {
			surviveOne(e, c, o, raw, wantStatus)
		})
	}
	get := func(path string, hdr ...string) []byte {
		return []byte("GET " + path + " HTTP/1.1\r\nHost: a.b.example.com\r\n" + strings.Join(hdr, "") + "\r\n")
	}
	one("benign-get", appOpts{}, get("/ks/x/y?rid=c0&op=0"), 200)
	one("benign-range", appOpts{}, get("/ks?rid=c1&op=0", "Range: bytes=500-700, 700-900\r\n"), 200)
	one("unknown-method", appOpts{}, []byte("BREW /ks HTTP/1.1\r\nHost: x\r\n\r\n"), 501)
	one("unknown-method-custom-set", appOpts{kind: cfgMethods}, []byte("DELETE /ks HTTP/1.1\r\nHost: x\r\n\r\n"), 501)
	one("bad-request-line", appOpts{}, []byte("GET /ks HTTX/1.1\r\nHost: x\r\n\r\n"), 400)
	one("header-too-large-512", appOpts{kind: cfgReadBuf}, get("/ks?rid=c2", "X-Pad: "+strings.Repeat("p", 700)+"\r\n"), 431)
	one("body-too-large-1k", appOpts{kind: cfgBodyLimit}, []byte("POST /ks HTTP/1.1\r\nHost: x\r\nContent-Length: 1500\r\n\r\n"+strings.Repeat("b", 1500)), 413)
	// smallest witnesses of what the generated families found
	one("flash-redirect-default-level", appOpts{}, get("/ks?rid=c3&op=5"), 0)
	one("flash-withinput-crlf-from-query", appOpts{}, get("/ks?rid=c4&op=10&a=%0d%0aX-Injected:%201"), 0)
	one("errhandler-accessors-bad-request", appOpts{kind: cfgErrSink}, []byte("GARBAGE\r\n\r\n"), 400)
	// an error handler that calls c.Method() (say, to log) on a request with an unknown method
	// that fasthttp itself rejects (body over the limit): index out of range [-1] in App.method
	one("errhandler-method-unknown-method-body-too-large", appOpts{kind: cfgErrSink}, []byte("BREW /ks HTTP/1.1\r\nHost: x\r\nContent-Length: 99999999\r\n\r\n"), 0)
	one("malformed-request-line-with-word-timeout", appOpts{}, []byte("GET /ks/timeout HTTX/1.1\r\nHost: x\r\n\r\n"), 400)
	one("malformed-header-after-keep-alive-timeout", appOpts{}, []byte("GET /ks HTTP/1.1\r\nHost: x\r\nKeep-Alive: timeout=5, max=100\r\nX(A): v\r\n\r\n"), 400)
	one("oversized-head-after-keep-alive-timeout", appOpts{kind: cfgReadBuf}, get("/ks?rid=c9", "Keep-Alive: timeout=5, max=100\r\n", "Cookie: pad="+strings.Repeat("p", 700)+"\r\n"), 431)
	one("announced-content-length-999999-no-body", appOpts{}, []byte("POST /ks?rid=c10 HTTP/1.1\r\nHost: x\r\nContent-Length: 999999\r\n\r\n"), 0)
	one("announced-content-length-above-1k-limit", appOpts{kind: cfgBodyLimit}, []byte("POST /ks?rid=c11 HTTP/1.1\r\nHost: x\r\nContent-Length: 999999\r\n\r\n"), 413)
	one("announced-chunk-size-f0000-no-data", appOpts{}, []byte("POST /ks?rid=c12 HTTP/1.1\r\nHost: x\r\nTransfer-Encoding: chunked\r\n\r\nf0000\r\n"), 0)
	one("bind-negative-slice-index-query", appOpts{}, get("/ks?rid=c13&items.-1.name=x"), 200)
	one("bind-negative-slice-index-brackets", appOpts{}, get("/ks?rid=c14&items[-1][name]=x&items[99999999999][qty]=1"), 200)
	one("bind-negative-slice-index-cookie", appOpts{}, get("/ks?rid=c15", "Cookie: items.-1.name=x\r\n"), 200)
	one("bind-slice-index-15999", appOpts{}, get("/ks?rid=c16&items.15999.name=x"), 200)
	one("bind-slice-index-above-schema-limit", appOpts{}, get("/ks?rid=c17&items.16001.name=x&items.1000000.qty=1"), 200)
	for m := 0; m < nErrModes; m++ {
		one("errhandler-helpers-404-mode-"+itoa(m), appOpts{kind: cfgErrHelpers, errMode: m}, get("/c/notint?rid=c18"), 0)
		one("errhandler-helpers-404-shared-prefix-mode-"+itoa(m), appOpts{kind: cfgErrHelpers, errMode: m}, get("/ksx/y?rid=c19"), 0)
	}
	for op := 12; op < nOps; op++ {
		req := get("/ks?rid=sf&op=" + itoa(op))
		e.Corpus("sendfile-twice-op-"+itoa(op), func(c *ev.Case) {
			// the same file twice on one connection: the second request finds the stored handler
			surviveCase(e, c, appOpts{}, []*rq{{Rid: "sf"}, {Rid: "sf"}}, append(append([]byte(nil), req...), req...), false, nil)
		})
		one("sendfile-range-op-"+itoa(op), appOpts{}, get("/ks?rid=sf&op="+itoa(op), "Range: bytes=2-5\r\n"), 0)
		one("sendfile-head-op-"+itoa(op), appOpts{}, []byte("HEAD /ks?rid=sf&op="+itoa(op)+" HTTP/1.1\r\nHost: x\r\n\r\n"), 0)
	}
	for _, op := range []int{16, 17} {
		op := op
		e.Corpus("sendfile-own-content-op-"+itoa(op), func(c *ev.Case) {
			var raw []byte
			var reqs []*rq
			for i := 0; i < 4; i++ {
				rid := "own-" + itoa(i)
				raw = append(raw, get("/ks?rid="+rid+"&op="+itoa(op))...)
				reqs = append(reqs, &rq{Rid: rid})
			}
			surviveCase(e, c, appOpts{}, reqs, raw, false, nil)
		})
	}
	for i := 0; i < 16; i++ {
		one("sendfile-edge-names-"+itoa(i), appOpts{}, get("/ks?rid=sfn"+string(rune('a'+i))+"&op=13"), 0)
	}
	one("global-use-empty-path", appOpts{globalUse: true}, []byte("GET  HTTP/1.1\r\nHost: x\r\n\r\n"), 0)
	one("global-use-star-target", appOpts{globalUse: true}, []byte("OPTIONS * HTTP/1.1\r\nHost: x\r\n\r\n"), 0)
	one("global-use-absolute-uri-no-path", appOpts{globalUse: true}, []byte("GET http://abs.example.org HTTP/1.1\r\nHost: x\r\n\r\n"), 0)
	one("accept-type-without-subtype", appOpts{}, get("/ks?rid=c20&op=4", "Accept: text\r\n"), 200)
	one("accept-type-empty-subtype", appOpts{}, get("/ks?rid=c21&op=3", "Accept: text/, /html, application\r\n"), 200)
	one("head-body-too-large", appOpts{}, []byte("HEAD /ks HTTP/1.1\r\nHost: x\r\nContent-Length: 99999999\r\n\r\n"), 0)
	flashReq := func(v []byte) []byte {
		return append(append([]byte("GET /ks?rid=c5 HTTP/1.1\r\nHost: x\r\nCookie: fiber_flash="), v...), "\r\n\r\n"...)
	}
	one("flash-array16-max", appOpts{}, flashReq([]byte{0xdc, 0xff, 0xff}), 200)
	one("flash-array16-8481", appOpts{}, flashReq([]byte{0xdc, 0x21, 0x21}), 200)
	bomb := encodeBody("gzip", make([]byte, 1<<20))
	one("gzip-1k-to-1m", appOpts{}, []byte("POST /ks?rid=c6 HTTP/1.1\r\nHost: x\r\nContent-Encoding: gzip\r\nContent-Length: "+itoa(len(bomb))+"\r\n\r\n"+string(bomb)), 200)

	zreq := func(log uint) []byte {
		return []byte("POST /ks?rid=c7 HTTP/1.1\r\nHost: x\r\nContent-Encoding: zstd\r\nContent-Length: 10\r\n\r\n" + string(zstdWindowFrame(log)))
	}
	// (a smaller declared window is not judged by the budget oracle: fasthttp keeps the decoder,
	// history buffer included, in a process-wide pool, so the repetition does not allocate again;
	// the 512 MiB case is among the isolated ones at the end)
	brbomb := brotliStream(bytes.Repeat([]byte{'z'}, 1<<20))
	one("brotli-13-bytes-to-1m", appOpts{}, []byte("POST /ks?rid=c8 HTTP/1.1\r\nHost: x\r\nContent-Encoding: br\r\nContent-Length: "+itoa(len(brbomb))+"\r\n\r\n"+string(brbomb)), 200)

	// -------- generated pipelines --------------------------------------------------------
	nPipe := e.N(60000, 5000000)
	if raceBuild {
		// the race detector costs about 6x: the thorough race sub-check (4 shards) gets a share
		// of the family that fits its time limit; the case list is a prefix of the plain one
		nPipe = e.N(60000, 400000)
	}
	e.Cases("pipe", nPipe, func(c *ev.Case) {
		r := c.R
		o := appOpts{kind: r.Intn(nCfg), ipValidation: r.Bool(), trustProxy: r.Bool(), errMode: r.Intn(nErrModes), globalUse: r.Bool()}
		g := &genCtx{r: r, methods: o.methods(), rbuf: o.readBuf(), blimit: o.bodyLimit()}
		g.maxHdr = o.readBuf() - 120
		g.maxBody = 0
		if o.kind == cfgBodyLimit {
			g.maxBody = 900
		}
		nreq := 1 + r.PickW(10, 4, 3, 3)
		var reqs []*rq
		var raw []byte
		for i := 0; i < nreq; i++ {
			rid := "r" + strings.ReplaceAll(c.ID[strings.IndexByte(c.ID, ':')+1:], ":", "-") + "-" + itoa(i)
			var q *rq
			if r.Chance(1, 8) {
				q = g.classRequest(rid)
			} else {
				q = g.request(rid)
			}
			reqs = append(reqs, q)
			raw = append(raw, q.bytes(r)...)
		}
		mutated := r.Chance(11, 20)
		var ops []string
		if mutated {
			other := g.request("zz").bytes(r)
			for i, n := 0, 1+r.PickW(6, 3, 1); i < n; i++ {
				var op string
				raw, op = mutate(r, raw, other)
				ops = append(ops, op)
			}
		}
		surviveCase(e, c, o, reqs, raw, mutated, ops)
	})

	// -------- the same request again after many others --------------------------------------
	// What the server writes (and allocates) for a request is a matter of that request, not of
	// how many requests it served before: serve one request, then the same request 200 times on
	// the same server, then once more - the last answer must be as long as the first.
	repeat := func(c *ev.Case, o appOpts, raw []byte) {
		app := buildSinkApp(o)
		w := drive.NewWire(app)
		var first, last []byte
		many := bytes.Repeat(raw, 200)
		if guard(e, c, "survive", hexOf(raw), func() {
			first, _ = w.Serve(raw, nil)
			_, _ = w.Serve(many, nil)
			last, _ = w.Serve(raw, nil)
		}) {
			return
		}
		e.Eval(1)
		e.Stat("repeat_cases", 1)
		if len(first) == 0 || bytes.Contains(first, []byte("Connection: close")) {
			return // the pipelined copies were not served: nothing to compare
		}
		svSeen.repeat++
		if len(first) != len(last) {
			e.Violation(c, "history|response-size-changes-with-requests-served", "the answer to the same request is "+itoa(len(first))+" bytes on a fresh server and "+
				itoa(len(last))+" bytes after 200 more requests", map[string]any{"config": cfgNames[o.kind], "input": show(raw), "first": show(first), "last": show(last)})
		}
	}
	for op := 0; op < nOps; op++ {
		op := op
		e.Corpus("repeat-op-"+itoa(op), func(c *ev.Case) {
			repeat(c, appOpts{}, get("/ks?rid=rep&op="+itoa(op)+"&name=x"))
		})
	}
	e.Cases("repeat", e.N(320, 8000), func(c *ev.Case) {
		r := c.R
		o := appOpts{kind: r.Intn(nCfg), ipValidation: r.Bool(), trustProxy: r.Bool(), errMode: r.Intn(nErrModes), globalUse: r.Bool()}
		g := &genCtx{r: r, methods: o.methods(), rbuf: o.readBuf(), blimit: o.bodyLimit(), maxHdr: o.readBuf() - 120}
		if o.kind == cfgBodyLimit {
			g.maxBody = 900
		}
		q := g.request("rep")
		q.Hdr = append(q.Hdr, hf{"Connection", "keep-alive"})
		for i := range q.Hdr {
			if strings.EqualFold(q.Hdr[i].K, "Connection") {
				q.Hdr[i].V = "keep-alive"
			}
			if strings.EqualFold(q.Hdr[i].K, "Expect") {
				q.Hdr[i].K = "X-Expect"
			}
		}
		q.Proto = "HTTP/1.1"
		raw := q.bytes(r)
		if q.has("inflate-bomb") || fatalCandidate(raw) {
			return // 200 copies of an expensive request only cost time
		}
		repeat(c, o, raw)
	})

	if e.Only == "" {
		if svSeen.repeat == 0 {
			e.Inconclusive("no request was compared with itself after 200 more requests")
		}
		if svSeen.handler == 0 {
			e.Inconclusive("no generated request reached the kitchen-sink handler in this shard")
		}
		if svSeen.class == 0 {
			e.Inconclusive("no status-class request was judged in this shard")
		}
	}

	// -------- expected-fatal inputs, each in its own child process -------------------------
	// (last, so that a replay of one of them is the only thing that dies)
	e.Corpus("fatal-flash-array32-max", func(c *ev.Case) {
		raw := flashReq([]byte{0xdd, 0xff, 0xff, 0xff, 0xff})
		if !isolated(e, c, "wire.survive", raw, "0,false,false,1") {
			return
		}
		surviveOne(e, c, appOpts{}, raw, 200)
	})
	e.Corpus("fatal-zstd-10-bytes-declare-512m-window", func(c *ev.Case) {
		raw := zreq(29)
		if !isolated(e, c, "wire.survive", raw, "0,false,false,1") {
			return
		}
		surviveOne(e, c, appOpts{}, raw, 200)
	})
	e.Corpus("fatal-flash-array32-min-printable", func(c *ev.Case) {
		raw := flashReq([]byte{0xdd, 0x21, 0x21, 0x21, 0x21})
		if !isolated(e, c, "wire.survive", raw, "0,false,false,1") {
			return
		}
		surviveOne(e, c, appOpts{}, raw, 200)
	})
}

var mappedStatus = map[int]bool{400: true, 405: true, 408: true, 413: true, 431: true, 500: true, 502: true}

// vocabularyToken returns the first word of the error vocabulary (fixed order) found in raw.
func vocabularyToken(raw []byte) string {
	for _, t := range []string{"timeout", "Timeout", "exceeds", "too large", "unsupported", "cannot find", "error when reading", "small read buffer", "EOF", "reset by peer", "broken pipe", "GetOnly", "non-GET"} {
		if bytes.Contains(raw, []byte(t)) {
			return t
		}
	}
	return ""
}

// surviveOne judges one raw single request (corpus).
func surviveOne(e *ev.Env, c *ev.Case, o appOpts, raw []byte, wantStatus int) {
	q := &rq{Expect: wantStatus}
	if wantStatus != 0 {
		q.Class = map[int]string{400: "bad-request-line", 431: "header-too-large", 413: "body-too-large", 501: "unknown-method"}[wantStatus]
		if q.Class == "" {
			q.Class = "corpus"
		}
	}
	surviveCase(e, c, o, []*rq{q}, raw, false, nil)
}

func surviveCase(e *ev.Env, c *ev.Case, o appOpts, reqs []*rq, raw []byte, mutated bool, ops []string) {
	cfg := cfgNames[o.kind]
	mk := func() *fiber.App { return buildSinkApp(o) }
	journalInput(e, cfg, raw)
	if c.ID[:6] != "corpus" && fatalCandidate(raw) {
		// a flash cookie with an array32 header (announces >= 2^29 elements whenever it passes
		// fasthttp's header check) or a zstd frame declaring a window >= 16 MiB: run it in a
		// child so that this shard survives.
		e.Stat("fatal_candidates", 1)
		if zstdDeclared(raw) >= 16<<20 || zstdDeclared(stripChunkLines(raw)) >= 16<<20 {
			e.Stat("fatal_candidates_zstd_window", 1)
		}
		if !isolated(e, c, "wire.survive", raw, itoa(o.kind)+","+strconv.FormatBool(o.ipValidation)+","+strconv.FormatBool(o.trustProxy)+","+itoa(len(reqs))) {
			return
		}
	}
	detail := map[string]any{"config": cfg, "input_hex": hexOf(raw), "input": show(raw), "mutations": strings.Join(ops, ",")}

	var out []byte
	if len(reqs) == 1 {
		// (1) + (3): single request, measured
		// (what the client merely announces as body size is no allowance: fasthttp sizes its body
		// buffer from Content-Length / chunk sizes up to BodyLimit, attributed below)
		limit := budget(len(raw))
		d, o2, panicked := measure(e, c, "survive", mk, raw, limit, 5)
		e.Eval(1)
		if panicked {
			return
		}
		out = o2
		e.StatMax("max_alloc_single_request", int64(d))
		if d > limit && indexFold(out, "\r\ncontent-encoding:") >= 0 {
			// the handler asked for a compressed response (SendFile with Compress): the
			// compressor's working memory is a fixed cost of that helper, independent of the
			// request (brotli: a few MiB per stream) - counted, and allowed for
			e.Stat("response_compressed_over_plain_budget", 1)
			limit += 8 << 20
		}
		if d > limit {
			// attribution works on the plain budget: the response compressor is one of its
			// components, so its allowance must not blur which removals bring the cost down
			site := allocSite(e, c, mk, raw, budget(len(raw)), d)
			if site == "response-compression" {
				// the compressor's working memory (brotli: MiBs per stream, also when the answer
				// ends up a 304): a fixed cost of the helper the handler chose, not of the request
				e.Stat("response_compressed_over_plain_budget", 1)
			} else {
				e.Violation(c, "alloc|"+site, "one request of "+itoa(len(raw))+" bytes made the server allocate "+strconv.FormatUint(d, 10)+
					" bytes (budget "+strconv.FormatUint(limit, 10)+")", map[string]any{"config": cfg, "input_hex": hexOf(raw), "input": show(raw),
					"allocated": d, "budget": limit, "request_len": len(raw)})
			}
		}
	} else {
		w := drive.NewWire(mk())
		if guard(e, c, "survive", detail, func() { out, _ = w.Serve(raw, nil) }) {
			e.Eval(1)
			return
		}
		e.Eval(1)
	}

	// (2) well-formed stream
	rs, ok := judgeStream(e, c, cfg, raw, out)
	fin := finals(rs)
	for _, r := range fin {
		if name, after := injectedLine(r.Raw, append(append([]byte(nil), raw...), fasthttp.AppendUnquotedArg(nil, raw)...)); name != "" {
			// parsed, but with a header line the application never set
			e.Violation(c, "wellformed|injected-header-line|after:"+after, "response carries the header line "+name+" which the application never set",
				map[string]any{"config": cfg, "input_hex": hexOf(raw), "input": show(raw), "output": show(out), "header": name})
		}
		if want := r.Get("X-Want-Body"); want != "" && r.Status == 200 && r.Get("X-Is-Head") == "" && strings.TrimSpace(string(r.Body)) != want {
			e.Violation(c, "sendfile|serves-content-of-another-file-system", "SendFile from a file system answered with "+strconv.Quote(string(r.Body))+", that file system holds "+strconv.Quote(want),
				map[string]any{"config": cfg, "input": show(raw), "output": show(out)})
		}
		oc := r.Get("X-Outcome")
		e.Nontrivial(cfg, itoa(r.Status), oc)
		if oc != "" {
			e.Stat("handler_ran", 1)
			svSeen.handler++
			e.Sample("reached-handler", map[string]any{"config": cfg, "status": r.Status, "outcome": oc, "input": show(raw[:min(len(raw), 300)])})
			if strings.Contains(oc, "!RANGE-OUTSIDE-RESOURCE!") {
				e.Violation(c, "accessor|Range|range-outside-0..size-1", "Range(size) returned a range with start > end or outside the resource", detail)
			}
		} else {
			e.Stat("status_"+itoa(r.Status), 1)
			e.Sample("error-answer", map[string]any{"config": cfg, "status": r.Status, "body": show(r.Body[:min(len(r.Body), 120)]), "input": show(raw[:min(len(raw), 200)])})
		}
	}
	e.Stat("responses", int64(len(fin)))
	if mutated {
		e.Stat("mutated_cases", 1)
		return
	}
	e.Stat("clean_cases", 1)
	if !ok {
		return
	}
	// count and order (clean pipelines only: mutation may change how many requests there are)
	if len(fin) > len(reqs) {
		e.Violation(c, "pipeline|more-responses-than-requests", itoa(len(fin))+" final responses to "+itoa(len(reqs))+" requests", detail)
		return
	}
	closed := false
	for i, q := range reqs {
		if i >= len(fin) {
			if !closed && q.Class != "" {
				e.Violation(c, "status|no-response|"+q.Class, "request "+itoa(i)+" of class "+q.Class+" got no response although the connection was open", detail)
			} else if !closed {
				e.Violation(c, "pipeline|response-missing", "request "+itoa(i)+" got no response although no earlier response closed the connection", detail)
			}
			break
		}
		r := fin[i]
		if got := r.Get("X-Rid"); got != "" && q.Rid != "" && got != q.Rid {
			e.Violation(c, "pipeline|response-order", "response "+itoa(i)+" echoes request id "+got+", expected "+q.Rid, detail)
		}
		// (5) status classes
		if q.Class != "" && q.Expect != 0 {
			e.Stat("class_"+q.Class, 1)
			svSeen.class++
			// (only statuses the error mapping hands out: a handler that ran is another matter)
			if tok := vocabularyToken(raw); r.Status != q.Expect && tok != "" && mappedStatus[r.Status] {
				// the connection's bytes (fasthttp's error text quotes the read buffer) contain a
				// word of the error vocabulary and the class is not answered as mapped: own
				// signature, named after the first such word in a fixed order
				cls := q.Class
				if q.Expect == 400 {
					cls = "malformed-request"
				}
				e.Violation(c, "mapped-status|"+cls+"-answered-"+itoa(r.Status)+"|request-bytes-contain-"+strings.ToLower(wordSlug(tok)),
					"request of class "+q.Class+" must be answered "+itoa(q.Expect)+", got "+itoa(r.Status)+"; the bytes sent contain "+strconv.Quote(tok),
					map[string]any{"config": cfg, "input": show(raw), "input_hex": hexOf(raw), "index": i, "body": show(r.Body), "word": tok})
			} else if r.Status != q.Expect {
				e.Violation(c, "status|"+q.Class+"|got-"+itoa(r.Status), "request of class "+q.Class+" must be answered "+itoa(q.Expect)+", got "+itoa(r.Status),
					map[string]any{"config": cfg, "input": show(raw), "input_hex": hexOf(raw), "index": i, "body": show(r.Body)})
			}
		}
		if r.Close {
			closed = true
		}
	}
}

var _ = gen.Lower
