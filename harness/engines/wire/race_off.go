//go:build !race

package wire

const raceBuild = false
