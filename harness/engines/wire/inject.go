package wire

import (
	"bytes"
	"encoding/hex"
	"encoding/json"
	"encoding/xml"
	"regexp"
	"sort"
	"strconv"
	"strings"

	"github.com/gofiber/fiber/v3"

	"verifharness/internal/drive"
	"verifharness/internal/ev"
	"verifharness/internal/gen"
	"verifharness/internal/strict"
)

// C07 clause 4: no value a handler passes to a response helper adds a header line or moves the
// start of the body. One helper per request; the attacker-chosen strings arrive hex-encoded in
// the query (so every byte value is possible) and go to that helper unchanged.

type injArgs struct {
	V, W   string
	Level  uint8
	Status int
	Accept string // AutoFormat only: which representation the client asks for
}

type helper struct {
	name   string
	own    []string // header names the helper itself may emit ...
	ownMax int      // ... at most this many times each
	nargs  int
	call   func(c fiber.Ctx, a injArgs) error
	// body returns the body the helper must produce for these arguments ("" + false: same as
	// the benign baseline)
	body   func(a injArgs) (string, bool)
	benign injArgs
	noBody bool // the helper's response has no body of its own; the handler adds none
}

const dlFile = "/repo/LICENSE"

var jsonData = fiber.Map{"k": "v"}

func sendAfter(name string, f func(c fiber.Ctx, a injArgs)) func(c fiber.Ctx, a injArgs) error {
	return func(c fiber.Ctx, a injArgs) error {
		f(c, a)
		return c.SendString("body:" + name)
	}
}

var helpers = []*helper{
	{name: "Set", own: []string{"x-inj"}, ownMax: 1, nargs: 1,
		call: sendAfter("Set", func(c fiber.Ctx, a injArgs) { c.Set("X-Inj", a.V) })},
	{name: "Append", own: []string{"x-inj"}, ownMax: 1, nargs: 2,
		call: sendAfter("Append", func(c fiber.Ctx, a injArgs) { c.Append("X-Inj", a.V, a.W) })},
	{name: "Vary", own: []string{"vary"}, ownMax: 1, nargs: 2,
		call: sendAfter("Vary", func(c fiber.Ctx, a injArgs) { c.Vary(a.V, a.W) })},
	{name: "Location", own: []string{"location"}, ownMax: 1, nargs: 1,
		call: sendAfter("Location", func(c fiber.Ctx, a injArgs) { c.Location(a.V) })},
	{name: "Redirect.To", own: []string{"location"}, ownMax: 1, nargs: 1, noBody: true,
		call: func(c fiber.Ctx, a injArgs) error { return c.Redirect().To(a.V) }},
	{name: "Redirect.Route", own: []string{"location"}, ownMax: 1, nargs: 2, noBody: true,
		call: func(c fiber.Ctx, a injArgs) error {
			return c.Redirect().Route("named", fiber.RedirectConfig{Params: fiber.Map{"name": a.V}, Queries: map[string]string{"q": a.W}})
		}},
	{name: "Redirect.Back", own: []string{"location"}, ownMax: 1, nargs: 1, noBody: true,
		call: func(c fiber.Ctx, a injArgs) error { return c.Redirect().Back(a.V) }},
	{name: "Cookie.Name", own: []string{"set-cookie"}, ownMax: 1, nargs: 1,
		call: sendAfter("Cookie.Name", func(c fiber.Ctx, a injArgs) { c.Cookie(&fiber.Cookie{Name: a.V, Value: "val", Path: "/"}) })},
	{name: "Cookie.Value", own: []string{"set-cookie"}, ownMax: 1, nargs: 1,
		call: sendAfter("Cookie.Value", func(c fiber.Ctx, a injArgs) { c.Cookie(&fiber.Cookie{Name: "sid", Value: a.V, Path: "/"}) })},
	{name: "Cookie.Path", own: []string{"set-cookie"}, ownMax: 1, nargs: 1,
		call: sendAfter("Cookie.Path", func(c fiber.Ctx, a injArgs) { c.Cookie(&fiber.Cookie{Name: "sid", Value: "val", Path: a.V}) })},
	{name: "Cookie.Domain", own: []string{"set-cookie"}, ownMax: 1, nargs: 1,
		call: sendAfter("Cookie.Domain", func(c fiber.Ctx, a injArgs) {
			c.Cookie(&fiber.Cookie{Name: "sid", Value: "val", Path: "/", Domain: a.V})
		})},
	{name: "Cookie.SameSite", own: []string{"set-cookie"}, ownMax: 1, nargs: 1,
		call: sendAfter("Cookie.SameSite", func(c fiber.Ctx, a injArgs) {
			c.Cookie(&fiber.Cookie{Name: "sid", Value: "val", Path: "/", SameSite: a.V})
		})},
	{name: "ClearCookie", own: []string{"set-cookie"}, ownMax: 2, nargs: 2,
		call: sendAfter("ClearCookie", func(c fiber.Ctx, a injArgs) { c.ClearCookie(a.V, a.W) })},
	{name: "Links", own: []string{"link"}, ownMax: 1, nargs: 2,
		call: sendAfter("Links", func(c fiber.Ctx, a injArgs) { c.Links(a.V, a.W) })},
	{name: "Attachment", own: []string{"content-disposition"}, ownMax: 1, nargs: 1,
		call: sendAfter("Attachment", func(c fiber.Ctx, a injArgs) { c.Attachment(a.V) })},
	{name: "Download.name", own: []string{"content-disposition"}, ownMax: 1, nargs: 1,
		call: func(c fiber.Ctx, a injArgs) error { return c.Download(dlFile, a.V) }},
	{name: "Type.charset", nargs: 1,
		call: sendAfter("Type.charset", func(c fiber.Ctx, a injArgs) { c.Type("html", a.V) })},
	{name: "Type.ext", nargs: 1,
		call: sendAfter("Type.ext", func(c fiber.Ctx, a injArgs) { c.Type(a.V) })},
	{name: "JSON.ctype", nargs: 1,
		call: func(c fiber.Ctx, a injArgs) error { return c.JSON(jsonData, a.V) }},
	{name: "JSONP.callback", nargs: 1,
		call: func(c fiber.Ctx, a injArgs) error { return c.JSONP(jsonData, a.V) },
		body: func(a injArgs) (string, bool) { return a.V + `({"k":"v"});`, true }},
	{name: "Format.MediaType", own: []string{"vary"}, ownMax: 1, nargs: 1,
		call: func(c fiber.Ctx, a injArgs) error {
			return c.Format(fiber.ResFmt{MediaType: a.V, Handler: func(c fiber.Ctx) error { return c.SendString("body:Format") }})
		}},
	{name: "AutoFormat", nargs: 1,
		call: func(c fiber.Ctx, a injArgs) error { return c.AutoFormat(a.V) },
		body: func(a injArgs) (string, bool) {
			switch a.Accept {
			case "":
				return "", false // without Accept the representation is not the documented one; not judged here
			case "text/html":
				return "<p>" + a.V + "</p>", true
			case "application/json":
				b, err := json.Marshal(a.V)
				return string(b), err == nil
			case "application/xml":
				b, err := xml.Marshal(a.V)
				return string(b), err == nil
			}
			return a.V, true
		}},
	{name: "SendStatus", nargs: 0,
		call: func(c fiber.Ctx, a injArgs) error { return c.SendStatus(a.Status) }},
	{name: "Flash.With", own: []string{"set-cookie", "location"}, ownMax: 1, nargs: 2, noBody: true,
		call: func(c fiber.Ctx, a injArgs) error { return c.Redirect().With(a.V, a.W, a.Level).To("/b") }},
	{name: "Flash.WithInput", own: []string{"set-cookie", "location"}, ownMax: 1, nargs: 2, noBody: true,
		call: func(c fiber.Ctx, a injArgs) error { return c.Redirect().WithInput().To("/b") }},
}

func helperByName(n string) *helper {
	for _, h := range helpers {
		if h.name == n {
			return h
		}
	}
	return nil
}

func buildInjectApp() *fiber.App {
	app := fiber.New()
	app.Get("/named/:name", func(c fiber.Ctx) error { return c.SendString("named") }).Name("named")
	app.Get("/warm", func(c fiber.Ctx) error { return c.SendString("warm") })
	app.Get("/i/:h", func(c fiber.Ctx) error {
		h := helperByName(c.Params("h"))
		if h == nil {
			return fiber.ErrNotFound
		}
		var a injArgs
		v, err1 := hex.DecodeString(c.Query("v"))
		w, err2 := hex.DecodeString(c.Query("w"))
		if err1 != nil || err2 != nil {
			return fiber.ErrBadRequest
		}
		a.V, a.W = string(v), string(w)
		a.Level = uint8(fiber.Query[int](c, "l", 0))
		a.Status = fiber.Query[int](c, "s", 200)
		return h.call(c, a)
	})
	return app
}

// injRequest renders the request for a helper call. Flash.WithInput reads the old input from the
// query itself, so there the attacker strings are percent-encoded query data.
func injRequest(h *helper, a injArgs) []byte {
	var sb strings.Builder
	sb.WriteString("GET /i/" + h.name + "?v=" + hex.EncodeToString([]byte(a.V)) + "&w=" + hex.EncodeToString([]byte(a.W)) +
		"&l=" + itoa(int(a.Level)) + "&s=" + itoa(a.Status))
	if h.name == "Flash.WithInput" {
		sb.WriteString("&" + pctAll(a.V) + "=" + pctAll(a.W))
	}
	sb.WriteString(" HTTP/1.1\r\nHost: inj.example.com\r\n")
	if a.Accept != "" {
		sb.WriteString("Accept: " + a.Accept + "\r\n")
	}
	sb.WriteString("\r\n")
	return []byte(sb.String())
}

func pctAll(s string) string {
	const hx = "0123456789ABCDEF"
	b := make([]byte, 0, 3*len(s))
	for i := 0; i < len(s); i++ {
		b = append(b, '%', hx[s[i]>>4], hx[s[i]&15])
	}
	return string(b)
}

// ---------------------------------------------------------------------------------------------
// hostile strings: exactly one class of dangerous byte per case

// "LF-then-CR": line-break bytes in the other order and mixed (a scrubber that starts at the first
// CR, or handles only the pair, leaves some of them)
var injClasses = []string{"CRLF", "LF", "CR", "LF-then-CR", "NUL", "other-CTL", "none"}

const injSafe = gen.AlphaNum + ` ;",=:%\/<>()[]{}'-_.~!*+&?#@^|` + "\t"

func safeString(r *gen.Rand, n int) string {
	var sb strings.Builder
	for sb.Len() < n {
		switch r.Intn(12) {
		case 0:
			sb.WriteString(gen.Pick(r, []string{"é", "✓", "日本", "\xff", "\x80", "\xc3"}))
		case 1:
			// printable escapes of dangerous bytes: harmless unless a helper decodes them
			if r.Chance(1, 3) {
				sb.WriteString(gen.Pick(r, []string{"%0d%0a", "%0A", "%0D", "%00", "%0e", "%7F", "%25", "\\r\\n", "&#13;&#10;", "\\u000a"}))
			} else if r.Bool() {
				// CR LF percent-encoded one to three times, each byte at its own depth, with a
				// header line behind it: harmless unless some layer decodes once too often
				sb.WriteString(pctNest(r, "0d") + pctNest(r, "0a") + gen.Pick(r, []string{"X-Evil:%201", "Set-Cookie:x=y", "X-Evil: 1", ""}))
			}
		default:
			sb.WriteByte(injSafe[r.Intn(len(injSafe))])
		}
	}
	return sb.String()
}

var pctCRLF = regexp.MustCompile(`(?i)%(25)*0[da]`)

// pctNest percent-encodes the byte with hex digits hx at depth 1..3 ("%0d", "%250d", "%25250d").
func pctNest(r *gen.Rand, hx string) string {
	return "%" + strings.Repeat("25", r.Intn(3)) + hx
}

func otherCTL(r *gen.Rand) byte {
	for {
		b := byte(r.Intn(0x21))
		if b == 0x20 {
			b = 0x7f
		}
		if b != 0 && b != '\t' && b != '\r' && b != '\n' {
			return b
		}
	}
}

func payload(r *gen.Rand, class string) string {
	switch class {
	case "CRLF":
		return gen.Pick(r, []string{"\r\n", "\r\nX-Evil: 1", "\r\n\r\n<b>early</b>", "\r\nSet-Cookie: evil=1", "\r\n x", "\r\nContent-Length: 0\r\n\r\nHTTP/1.1 200 OK\r\nContent-Length: 1\r\n\r\nX"})
	case "LF":
		return gen.Pick(r, []string{"\n", "\nX-Evil: 1", "\n\n<b>early</b>", "\n x"})
	case "CR":
		return gen.Pick(r, []string{"\r", "\rX-Evil: 1", "\r\r"})
	case "LF-then-CR":
		return gen.Pick(r, []string{"\nX-Evil: 1\r", "\n\r", "\nX-Evil: 1\r\n", "\n\nearly\r\n", "\nSet-Cookie: evil=1\rx", "\n x\r\r\n"})
	case "NUL":
		return "\x00"
	case "other-CTL":
		return string([]byte{otherCTL(r)})
	}
	return ""
}

func hostileString(r *gen.Rand, class string, maxLen int) string {
	s := safeString(r, r.Range(0, maxLen))
	if class == "none" {
		return s
	}
	for i, n := 0, 1+r.Intn(2); i < n; i++ {
		p := r.Intn(len(s) + 1)
		s = s[:p] + payload(r, class) + s[p:]
	}
	return s
}

// ---------------------------------------------------------------------------------------------

// maskCTL replaces, in the header block only, control bytes other than CR, LF and HTAB by '?'.
func maskCTL(out []byte) []byte {
	b := append([]byte(nil), out...)
	end := bytes.Index(b, []byte("\r\n\r\n"))
	if end < 0 {
		end = len(b)
	}
	for i := 0; i < end; i++ {
		if c := b[i]; (c < 0x20 && c != '\r' && c != '\n' && c != '\t') || c == 0x7f {
			b[i] = '?'
		}
	}
	return b
}

func names(r *strict.Response) map[string]int {
	m := map[string]int{}
	for _, n := range r.Names() {
		m[n]++
	}
	return m
}

func fmtNames(m map[string]int) string {
	var ks []string
	for k, n := range m {
		ks = append(ks, k+"×"+itoa(n))
	}
	sort.Strings(ks)
	return strings.Join(ks, ",")
}

var dlApp *fiber.App // Download keeps an open file handle and a cleaner goroutine per app: share one

func runInject(e *ev.Env) {
	setup(e)
	defer stopProfile()

	type fixed struct {
		name, helper, v, w string
		level              uint8
	}
	// smallest witnesses, one per root cause / helper family
	for _, f := range []fixed{
		{"location-crlf", "Location", "/x\r\nX-Evil: 1", "", 0},
		{"redirect-to-crlf", "Redirect.To", "/x\r\nX-Evil: 1", "", 0},
		{"redirect-back-lf", "Redirect.Back", "/x\nX-Evil: 1", "", 0},
		{"redirect-route-query-crlf", "Redirect.Route", "u", "1\r\nX-Evil: 1", 0},
		{"links-crlf", "Links", "http://a/\r\nX-Evil: 1", "next", 0},
		{"type-charset-crlf", "Type.charset", "utf-8\r\nX-Evil: 1", "", 0},
		{"json-ctype-crlf", "JSON.ctype", "application/json\r\nX-Evil: 1", "", 0},
		{"format-mediatype-crlf", "Format.MediaType", "text/plain\r\nX-Evil: 1", "", 0},
		{"cookie-value-crlf", "Cookie.Value", "v\r\nX-Evil: 1", "", 0},
		{"cookie-name-crlf", "Cookie.Name", "n\r\nX-Evil: 1", "", 0},
		{"cookie-path-crlf", "Cookie.Path", "/\r\nX-Evil: 1", "", 0},
		{"cookie-path-percent-encoded-crlf", "Cookie.Path", "/x%0d%0aX-Evil:%201", "", 0},                // printable input, decoded by fasthttp's path normalisation
		{"cookie-path-twice-percent-encoded-crlf", "Cookie.Path", "/%0d%250d%250aSet-Cookie:x=y", "", 0}, // decoded again after the scrubbing
		{"cookie-path-double-encoded-only", "Cookie.Path", "/x%250d%250aX-Evil:%201", "", 0},
		{"location-percent-encoded-crlf-stays-encoded", "Location", "/x%0d%0aX-Evil:%201", "", 0},
		{"location-lf-before-cr", "Location", "/x\nX-Evil: 1\r", "", 0},
		{"cookie-domain-crlf", "Cookie.Domain", "d\r\nX-Evil: 1", "", 0},
		{"clearcookie-crlf", "ClearCookie", "k\r\nX-Evil: 1", "k2", 0},
		{"set-nul", "Set", "a\x00b", "", 0},
		{"set-crlf-is-scrubbed", "Set", "a\r\nX-Evil: 1", "", 0},
		{"attachment-crlf-is-escaped", "Attachment", "a\r\nX-Evil: 1.txt", "", 0},
		{"flash-with-default-level", "Flash.With", "status", "saved", 0},
		{"flash-with-level-10", "Flash.With", "status", "saved", 10},
		{"flash-with-value-crlf", "Flash.With", "status", "x\r\nX-Evil: 1", 65},
		{"flash-with-printable", "Flash.With", "status", "saved", 65},
		{"flash-with-127-byte-value", "Flash.With", "status", strings.Repeat("a", 127), 65}, // str8 length byte 0x7f
		{"flash-withinput-crlf", "Flash.WithInput", "a", "x\r\nX-Evil: 1", 0},
	} {
		f := f
		e.Corpus(f.name, func(c *ev.Case) {
			h := helperByName(f.helper)
			a := injArgs{V: f.v, W: f.w, Level: f.level, Status: 200}
			injectCase(e, c, h, a, byteClass(f.v+f.w+levelBytes(h, f.level)))
		})
	}

	e.Cases("helper", e.N(6000, 400000), func(c *ev.Case) {
		r := c.R
		h := helpers[r.Intn(len(helpers))]
		class := gen.Pick(r, injClasses)
		a := injArgs{Status: 200, Level: 65}
		switch h.name {
		case "SendStatus":
			class = "none"
			a.Status = r.Range(200, 599)
		case "Flash.With":
			a.V, a.W = safeString(r, r.Range(0, 40)), safeString(r, r.Range(0, 90))
			switch r.Intn(3) {
			case 0: // the level carries the byte
				switch class {
				case "CRLF", "CR":
					class, a.Level = "CR", 13
				case "LF":
					a.Level = 10
				case "NUL":
					a.Level = 0
				case "other-CTL":
					a.Level = otherCTL(r)
				default:
					a.Level = uint8(r.Range(0x20, 0xff))
					if a.Level == 0x7f {
						a.Level = 0x41
					}
				}
			case 1:
				a.V = hostileString(r, class, 40)
				if class == "none" {
					a.Level = 0x42
				}
			default:
				a.W = hostileString(r, class, 90)
			}
			class = byteClass(a.V + a.W + levelBytes(h, a.Level))
		case "AutoFormat":
			a.Accept = gen.Pick(r, []string{"", "text/html", "application/json", "text/plain", "application/xml"})
			a.V = hostileString(r, class, 80)
		default:
			switch {
			case h.nargs == 2 && r.Bool():
				a.V, a.W = safeString(r, r.Range(0, 40)), hostileString(r, class, 80)
			case h.nargs == 2:
				a.V, a.W = hostileString(r, class, 80), safeString(r, r.Range(0, 40))
			default:
				a.V = hostileString(r, class, 100)
			}
		}
		if h.name == "Flash.WithInput" {
			// WithInput writes level 0 itself: the NUL is not the attacker's. Judge the
			// attacker's bytes only, but remember that the baseline has the same NUL.
			class = byteClass(a.V + a.W)
		}
		injectCase(e, c, h, a, class)
	})
}

// levelBytes is the part of the attacker's choice that the level argument contributes to the
// cookie bytes.
func levelBytes(h *helper, l uint8) string {
	if h.name != "Flash.With" {
		return ""
	}
	return string([]byte{l})
}

func benignArgs(h *helper, a injArgs) injArgs {
	b := injArgs{V: "benign", W: "value", Level: 65, Status: a.Status, Accept: a.Accept}
	switch h.name {
	case "Attachment", "Download.name":
		b.V = "report.pdf"
	case "Type.ext":
		b.V = "html"
	case "JSON.ctype", "Format.MediaType":
		b.V = "application/problem+json"
	case "Type.charset":
		b.V = "utf-8"
	case "Cookie.SameSite":
		b.V = "strict"
	case "JSONP.callback":
		b.V = "cb"
	}
	return b
}

func injectCase(e *ev.Env, c *ev.Case, h *helper, a injArgs, class string) {
	var app *fiber.App
	if h.name == "Download.name" {
		if dlApp == nil {
			dlApp = buildInjectApp()
		}
		app = dlApp
	} else {
		app = buildInjectApp()
	}
	w := drive.NewWire(app)
	if pctCRLF.MatchString(a.V) || pctCRLF.MatchString(a.W) {
		// CR or LF percent-encoded (at any depth) in the value: if anything goes wrong, some
		// layer decoded it - one class whatever other bytes the value has
		class = "pct-encoded-CRLF"
	}
	sig := "inject|" + h.name + "|" + class
	ben := benignArgs(h, a)
	breq := injRequest(h, ben)
	hreq := injRequest(h, a)
	detail := map[string]any{"helper": h.name, "v": show([]byte(a.V)), "w": show([]byte(a.W)), "level": int(a.Level), "status": a.Status,
		"accept": a.Accept, "request": show(hreq)}
	journalInput(e, h.name, hreq)

	// baseline: the same helper with a benign value teaches the header names
	var bout []byte
	if guard(e, c, "inject|"+h.name, detail, func() { bout, _ = w.Serve(breq, nil) }) {
		return
	}
	brs, berr := strict.ParseAll(bout, nil)
	if berr != nil || len(brs) != 1 {
		if h.name == "Flash.WithInput" || h.name == "Flash.With" {
			// cannot happen for With (level 65); WithInput always writes level 0 = NUL
			e.Stat("baseline_malformed_"+h.name, 1)
		} else {
			e.Inconclusive("baseline of " + h.name + " is not a single well-formed response")
			return
		}
	}

	var out []byte
	if guard(e, c, "inject|"+h.name, detail, func() { out, _ = w.Serve(hreq, nil) }) {
		e.Eval(1)
		return
	}
	e.Eval(1)
	e.Nontrivial(h.name, class, itoa(len(a.V)/16), itoa(len(a.W)/16))
	e.Stat("class_"+class, 1)
	e.Stat("helper_"+h.name, 1)
	e.Sample("helper-call", map[string]any{"helper": h.name, "class": class, "v": show([]byte(a.V)), "w": show([]byte(a.W))})
	detail["output"] = show(out)

	violated := false
	report := func(c *ev.Case, sig, what string, d any) {
		violated = true
		e.Violation(c, sig, what, d)
	}
	isFlash := strings.HasPrefix(h.name, "Flash.")
	rs, perr := strict.ParseAll(out, nil)
	if perr != nil && (perr.Class == "header-value-nul" || perr.Class == "header-value-ctl") && !isFlash {
		// A control byte other than CR/LF that the handler itself put into the value breaks no
		// line structure (clause 4 is about an added header line or a moved body start): look
		// at the same bytes with those control bytes masked; if nothing else is wrong, count.
		if rs2, perr2 := strict.ParseAll(maskCTL(out), nil); perr2 == nil {
			rs, perr = rs2, nil
			detail["ctl_masked"] = true
			defer func() {
				if !violated {
					e.Stat("ctl_byte_in_own_value_only", 1)
					e.Stat("ctl_byte_in_own_value_only_"+h.name, 1)
				}
			}()
		}
	}
	if perr != nil {
		detail["parse_error"] = perr.Error()
		detail["at_header"] = headerAt(out, perr.Off)
		if isFlash {
			if name, after := injectedLine(out, []byte(a.V+"\n"+a.W)); name != "" {
				detail["header"] = name
				report(c, "wellformed|injected-header-line|after:"+after, "a header line named by the value appears after "+h.name, detail)
				return
			}
			// known root cause: the flash cookie is the raw MessagePack encoding
			detail["class"] = perr.Class + "/" + class
			e.Stat("flash_cookie_raw_"+perr.Class, 1)
			cause := flashCookieBytes(out)
			if cause == "" {
				cause = map[string]string{"header-value-nul": "NUL", "header-value-crlf": "CRLF"}[perr.Class]
			}
			report(c, sigFlashRaw+"|"+flashCause(cause), "response rejected by the strict parser ("+perr.Class+") after "+h.name+" got the value", detail)
			return
		}
		report(c, sig, "response rejected by the strict parser ("+perr.Class+") after "+h.name+" got the value", detail)
		return
	}
	if len(rs) != 1 {
		detail["responses"] = len(rs)
		report(c, sig, itoa(len(rs))+" responses to one request after "+h.name+" got the value", detail)
		return
	}
	if berr != nil || len(brs) != 1 {
		return // no baseline to compare names with (Flash.WithInput)
	}
	r, b := rs[0], brs[0]
	// header names: exactly the baseline's, the helper's own header at most ownMax times
	got, want := names(r), names(b)
	for _, o := range h.own {
		if got[o] > h.ownMax {
			detail["names"], detail["baseline_names"] = fmtNames(got), fmtNames(want)
			report(c, sig, "header "+o+" appears "+itoa(got[o])+" times after one call of "+h.name, detail)
			return
		}
		delete(got, o)
		delete(want, o)
	}
	if len(r.Body) == 0 || len(b.Body) == 0 {
		// fasthttp omits the default Content-Type of an empty body
		delete(got, "content-type")
		delete(want, "content-type")
	}
	if fmtNames(got) != fmtNames(want) {
		detail["names"], detail["baseline_names"] = fmtNames(got), fmtNames(want)
		report(c, sig, "header lines differ from the benign call of "+h.name+": got {"+fmtNames(got)+"} want {"+fmtNames(want)+"}", detail)
		return
	}
	wantStatus := b.Status
	if r.Status != wantStatus {
		detail["status_got"], detail["status_want"] = r.Status, wantStatus
		report(c, sig, "status "+strconv.Itoa(r.Status)+" instead of "+strconv.Itoa(wantStatus)+" after "+h.name+" got the value", detail)
		return
	}
	if h.name == "SendStatus" {
		if r.Status != a.Status {
			report(c, "inject|SendStatus|status", "SendStatus("+itoa(a.Status)+") answered "+itoa(r.Status), detail)
		}
		return
	}
	// The statement forbids that the value adds a header line or starts the body early; it does
	// not say how a helper that carries the value in the BODY (JSONP callback, AutoFormat) renders
	// it. For those the strict parse above already fixes where the body starts (Content-Length
	// matches, one response, nothing left over); whether the value appears verbatim is counted.
	if h.body != nil {
		if s, ok := h.body(a); ok && string(r.Body) != s {
			e.Stat("body_carried_value_not_verbatim_"+h.name, 1)
		}
		return
	}
	// header-only helpers: the body does not depend on the value, so it must be the benign one
	wantBody := string(b.Body)
	if string(r.Body) != wantBody {
		detail["body"], detail["body_want"] = show(r.Body), show([]byte(wantBody))
		report(c, sig, "body differs from what "+h.name+" must produce", detail)
	}
}
