package wire

import (
	"bufio"
	"bytes"
	"errors"
	"net/http"
	"sort"
	"strconv"
	"strings"
	"time"

	"github.com/gofiber/fiber/v3"
	recovermw "github.com/gofiber/fiber/v3/middleware/recover"
	"github.com/valyala/fasthttp"

	"verifharness/internal/drive"
	"verifharness/internal/ev"
	"verifharness/internal/gen"
	"verifharness/internal/strict"
)

// C12: flash messages and old input survive the redirect round trip intact, once.

type flashSpec struct {
	msgs      []fmsg // in With() order (duplicates allowed: the later call overrides)
	noLevel   []bool // call With(k, v) without the level argument (level must then be 0)
	withInput bool
	// inputFirst: WithInput() is called before the With() calls (otherwise after them)
	inputFirst bool
	// request paths of the redirecting handler and of the redirect target ("" = /a, /b); nested
	// paths matter for the path a client gives to a Set-Cookie without Path attribute
	pathA, pathB string
	// status given to Redirect().Status() (0 = not called, 302) and the redirect call used:
	// "" = To(pathB), "route" = Route(name of pathB), "back-referer" = Back(..) with a Referer
	// header naming pathB, "back-fallback" = Back(pathB) without Referer
	status int
	kind   string
	// chained redirects: each intermediate hop consumes what arrives, attaches hops[i] and
	// redirects on (the last one to pathB); the redirecting handler A targets the first hop
	hops [][]fmsg
	// how the consuming handler ends after it was handed the messages: "" = 200, "error" = returns
	// an error the app's error handler turns into a response, "error-handler-fails" = returns an
	// error and the app's ErrorHandler itself returns an error (fiber's fallback 500),
	// "panic-recovered" = panics under the recover middleware
	bMode string
	// app configured with EnableSplittingOnParsers (comma-separated values are split when they
	// are bound into slices; an old-input value is a string and must stay whole)
	splitting bool
}

const routeParamTarget = "/users/42/list?sort=asc&tab=1"

var flashPathsMid = []string{"/confirm", "/users/confirm", "/x/y/confirm", "/step/two/of/three"}

func (sp *flashSpec) wantStatus() int {
	if sp.status == 0 {
		return 302
	}
	return sp.status
}

var (
	flashPathsA = []string{"/a", "/users/new", "/x/y/z", "/a/", "/users/new/", "/x/y/z/"}
	flashPathsB = []string{"/b", "/users/list", "/x/y/w", "/b/", "/users/list/", "/x/y/w/"}
)

func (sp *flashSpec) a() string {
	if sp.pathA == "" {
		return "/a"
	}
	return sp.pathA
}

func (sp *flashSpec) b() string {
	if sp.pathB == "" {
		return "/b"
	}
	return sp.pathB
}

// bReport is what handler B observed.
type bReport struct {
	ran       bool
	nMsg      int // len(Messages()), len(OldInputs()); only the first maxKeep are copied
	nOld      int
	messages  []fiber.FlashMessage
	oldInputs []fiber.OldInputData
	byKey     map[string]fiber.FlashMessage
	oldByKey  map[string]fiber.OldInputData
}

// maxKeep bounds what handler B copies out of the context (the harness's own allocation inside
// the measured window); scripts attach far fewer items.
const maxKeep = 64

type flashApp struct {
	app      *fiber.App
	w        *drive.Wire
	rep      *bReport
	aInput   map[string]string // what handler A's own Bind saw (the data WithInput attaches)
	lookKeys []string
	pathB    string
	// method of the requests that follow a redirect: GET, or - after 307/308 - the method of the
	// request that was redirected, repeated with a body
	followMethod string
}

func buildFlashApp(spec *flashSpec, lookKeys []string) *flashApp {
	fa := &flashApp{rep: &bReport{}, lookKeys: lookKeys}
	cfg := fiber.Config{ReadBufferSize: 16384, EnableSplittingOnParsers: spec.splitting}
	if spec.bMode == "error-handler-fails" {
		cfg.ErrorHandler = func(fiber.Ctx, error) error { return errors.New("the error handler failed too") }
	}
	app := fiber.New(cfg)
	if spec.bMode == "panic-recovered" {
		app.Use(recovermw.New())
	}
	a := func(c fiber.Ctx) error {
		r := c.Redirect()
		if spec.status != 0 {
			r.Status(spec.status)
		}
		withs := func() {
			for i, m := range spec.msgs {
				if spec.noLevel[i] {
					r.With(m.Key, m.Value)
				} else {
					r.With(m.Key, m.Value, m.Level)
				}
			}
		}
		if !(spec.withInput && spec.inputFirst) {
			withs()
		}
		if spec.withInput {
			// observe the binder alone on the same request: this is the data that
			// WithInput attaches (binding itself is C11's business)
			in := map[string]string{}
			// media types are case-insensitive and may carry parameters
			ct := strings.ToLower(c.Get(fiber.HeaderContentType))
			if i := strings.IndexByte(ct, ';'); i >= 0 {
				ct = ct[:i]
			}
			ct = strings.TrimSpace(ct)
			if ct == fiber.MIMEApplicationForm || ct == fiber.MIMEMultipartForm {
				_ = c.Bind().Form(in)
			} else {
				_ = c.Bind().Query(in)
			}
			fa.aInput = in
			r.WithInput()
			if spec.inputFirst {
				withs()
			}
		}
		switch spec.kind {
		case "route":
			return r.Route("target:" + spec.b())
		case "route-params":
			return r.Route("target-param", fiber.RedirectConfig{Params: fiber.Map{"id": "42"}, Queries: map[string]string{"tab": "1", "sort": "asc"}})
		case "back-referer":
			return r.Back("/fallback-not-used")
		case "back-fallback":
			return r.Back(spec.b())
		}
		if len(spec.hops) > 0 {
			return r.To(flashPathsMid[0])
		}
		return r.To(spec.b())
	}
	for _, p := range flashPathsA[:3] {
		app.All(p, a)
	}
	app.Get("/warm", func(c fiber.Ctx) error { return c.SendString("warm") })
	observe := func(c fiber.Ctx) {
		rd := c.Redirect()
		rep := &bReport{ran: true, byKey: map[string]fiber.FlashMessage{}, oldByKey: map[string]fiber.OldInputData{}}
		msgs, olds := rd.Messages(), rd.OldInputs()
		rep.nMsg, rep.nOld = len(msgs), len(olds)
		for i, m := range msgs {
			if i == maxKeep {
				break
			}
			rep.messages = append(rep.messages, fiber.FlashMessage{Key: strings.Clone(m.Key), Value: strings.Clone(m.Value), Level: m.Level})
		}
		for i, m := range olds {
			if i == maxKeep {
				break
			}
			rep.oldInputs = append(rep.oldInputs, fiber.OldInputData{Key: strings.Clone(m.Key), Value: strings.Clone(m.Value)})
		}
		for _, k := range fa.lookKeys {
			m := rd.Message(k)
			rep.byKey[k] = fiber.FlashMessage{Key: strings.Clone(m.Key), Value: strings.Clone(m.Value), Level: m.Level}
			o := rd.OldInput(k)
			rep.oldByKey[k] = fiber.OldInputData{Key: strings.Clone(o.Key), Value: strings.Clone(o.Value)}
		}
		*fa.rep = *rep
	}
	b := func(c fiber.Ctx) error {
		observe(c)
		switch spec.bMode {
		case "error", "error-handler-fails":
			return fiber.NewError(fiber.StatusTeapot, "the consuming handler failed")
		case "panic-recovered":
			panic("the consuming handler panicked")
		}
		return c.SendString("b")
	}
	app.All("/users/:id/list", b).Name("target-param")
	for _, p := range flashPathsB[:3] {
		app.All(p, b).Name("target:" + p)
	}
	for i, p := range flashPathsMid {
		i := i
		app.Get(p, func(c fiber.Ctx) error {
			observe(c)
			r := c.Redirect()
			if i < len(spec.hops) {
				for _, m := range spec.hops[i] {
					r.With(m.Key, m.Value, m.Level)
				}
			}
			if i+1 < len(spec.hops) {
				return r.To(flashPathsMid[i+1])
			}
			return r.To(spec.b())
		})
	}
	fa.pathB = spec.b()
	fa.app = app
	fa.w = drive.NewWire(app)
	return fa
}

func (fa *flashApp) serveB(e *ev.Env, c *ev.Case, cookie []byte, hasCookie bool) (rs []*strict.Response, perr *strict.ParseError, out []byte, panicked bool) {
	return fa.serveAt(e, c, fa.pathB, cookie, hasCookie)
}

// deliverInProcess runs the real request handler on a request for path that carries cookie as the
// flash cookie. The request head is parsed from wire bytes (so the raw header bytes name the
// cookie, as fiber requires), the value is then set on the parsed request: the only thing skipped
// is fasthttp's refusal of control bytes in header values.
func (fa *flashApp) deliverInProcess(e *ev.Env, c *ev.Case, path string, cookie []byte) (ran, panicked bool) {
	*fa.rep = bReport{}
	var req fasthttp.Request
	method := fa.followMethod
	if method == "" {
		method = "GET"
	}
	head := method + " " + path + " HTTP/1.1\r\nHost: flash.example.com\r\nX-Carries: " + fiber.FlashCookieName + "\r\n\r\n"
	if err := req.Read(bufio.NewReader(strings.NewReader(head))); err != nil {
		return false, false
	}
	req.Header.SetCookieBytesKV([]byte(fiber.FlashCookieName), cookie)
	var fctx fasthttp.RequestCtx
	fctx.Init(&req, drive.DefaultRemote, nil)
	h := fa.app.Handler()
	panicked = guard(e, c, "flash", hexOf(cookie), func() { h(&fctx) })
	return fa.rep.ran, panicked
}

func (fa *flashApp) serveAt(e *ev.Env, c *ev.Case, path string, cookie []byte, hasCookie bool) (rs []*strict.Response, perr *strict.ParseError, out []byte, panicked bool) {
	*fa.rep = bReport{}
	method := fa.followMethod
	if method == "" {
		method = "GET"
	}
	req := []byte(method + " " + path + " HTTP/1.1\r\nHost: flash.example.com\r\n")
	if hasCookie {
		req = append(req, "Cookie: "+fiber.FlashCookieName+"="...)
		req = append(req, cookie...)
		req = append(req, "\r\n"...)
	}
	if method != "GET" && method != "HEAD" {
		req = append(req, "Content-Type: text/plain\r\nContent-Length: 8\r\n\r\nrepeated"...)
	} else {
		req = append(req, "\r\n"...)
	}
	if e.Quick() || e.Only != "" || (len(cookie) > 0 && cookie[0] >= 0xdc) {
		e.Journal("B " + hexOf(req))
	}
	panicked = guard(e, c, "flash", hexOf(req), func() { out, _ = fa.w.Serve(req, nil) })
	if panicked {
		return
	}
	rs, perr = strict.ParseAll(out, nil)
	return
}

// serverView is the cookie value as RFC 6265 §5.2 / fasthttp's cookie parser hands it to the
// application: cut at the first ';', surrounding spaces and one pair of quotes removed.
func serverView(v []byte) []byte {
	if i := bytes.IndexByte(v, ';'); i >= 0 {
		v = v[:i]
	}
	v = bytes.Trim(v, " ")
	if len(v) > 1 && v[0] == '"' && v[len(v)-1] == '"' {
		v = v[1 : len(v)-1]
	}
	return v
}

func hasCTL(b []byte) bool {
	for _, c := range b {
		if (c < 0x20 && c != '\t') || c == 0x7f {
			return true
		}
	}
	return false
}

// expected applies the documented override rule of With.
func expected(spec *flashSpec) []fmsg {
	var out []fmsg
	for i, m := range spec.msgs {
		if spec.noLevel[i] {
			m.Level = 0
		}
		done := false
		for j := range out {
			if out[j].Key == m.Key {
				out[j].Value, out[j].Level = m.Value, m.Level
				done = true
				break
			}
		}
		if !done {
			out = append(out, m)
		}
	}
	return out
}

func msgKey(k, v string, l uint8) string {
	return strconv.Quote(k) + "=" + strconv.Quote(v) + "@" + itoa(int(l))
}

// diffMessages names the first way in which B's view differs from what was attached.
func diffMessages(spec *flashSpec, want []fmsg, wantOld map[string]string, rep *bReport) (what, why string) {
	var g, w []string
	for _, m := range rep.messages {
		g = append(g, msgKey(m.Key, m.Value, m.Level))
	}
	for _, m := range want {
		w = append(w, msgKey(m.Key, m.Value, m.Level))
	}
	sort.Strings(g)
	sort.Strings(w)
	if strings.Join(g, "\x00") != strings.Join(w, "\x00") {
		if len(g) > len(w) && len(spec.msgs) > len(want) {
			return "duplicate-key-not-overridden", "Messages() has " + itoa(len(g)) + " entries for " + itoa(len(w)) + " distinct keys"
		}
		if len(g) != len(w) {
			return "message-count", itoa(len(g)) + " messages instead of " + itoa(len(w))
		}
		// same count: which field
		gk, wk := map[string]fiber.FlashMessage{}, map[string]bool{}
		for _, m := range rep.messages {
			gk[m.Key] = m
		}
		for _, m := range want {
			wk[m.Key] = true
			o, ok := gk[m.Key]
			switch {
			case !ok:
				return "message-key", "key " + strconv.Quote(m.Key) + " missing"
			case o.Value != m.Value:
				return "message-value", "value of " + strconv.Quote(m.Key) + " is " + strconv.Quote(o.Value) + ", attached " + strconv.Quote(m.Value)
			case o.Level != m.Level:
				return "message-level", "level of " + strconv.Quote(m.Key) + " is " + itoa(int(o.Level)) + ", attached " + itoa(int(m.Level))
			}
		}
		return "message-key", "keys differ"
	}
	for _, m := range want {
		o := rep.byKey[m.Key]
		if o.Key != m.Key || o.Value != m.Value || o.Level != m.Level {
			return "message-lookup", "Message(" + strconv.Quote(m.Key) + ") = " + msgKey(o.Key, o.Value, o.Level) + ", attached " + msgKey(m.Key, m.Value, m.Level)
		}
	}
	g, w = nil, nil
	for _, m := range rep.oldInputs {
		g = append(g, msgKey(m.Key, m.Value, 0))
	}
	for k, v := range wantOld {
		w = append(w, msgKey(k, v, 0))
	}
	sort.Strings(g)
	sort.Strings(w)
	if strings.Join(g, "\x00") != strings.Join(w, "\x00") {
		return "old-input", "OldInputs() = " + strings.Join(g, ",") + " attached " + strings.Join(w, ",")
	}
	for k, v := range wantOld {
		o := rep.oldByKey[k]
		if o.Key != k || o.Value != v {
			return "old-input-lookup", "OldInput(" + strconv.Quote(k) + ") = " + strconv.Quote(o.Value) + ", attached " + strconv.Quote(v)
		}
	}
	return "", ""
}

// flashLines returns the Set-Cookie lines for the flash cookie of a parsed response.
func flashLines(r *strict.Response) []string {
	var out []string
	for _, v := range r.All("Set-Cookie") {
		if strings.HasPrefix(v, fiber.FlashCookieName+"=") {
			out = append(out, v)
		}
	}
	return out
}

// lenientFlash extracts the flash cookie the way a line-splitting, non-validating client does:
// header lines end at LF, the value ends at the first ';'.
func lenientFlash(out []byte) ([]byte, bool) {
	v, _, ok := lenientFlashLine(out)
	return v, ok
}

// cookiePathAttr returns the Path attribute in the attribute part of a Set-Cookie line ("" if none).
func cookiePathAttr(attrs string) string {
	for _, a := range strings.Split(attrs, ";") {
		a = strings.TrimSpace(a)
		if len(a) >= 5 && strings.EqualFold(a[:5], "path=") {
			return a[5:]
		}
	}
	return ""
}

// track records in the jar that the client holds the flash cookie, under the path the issuing
// line gives it (attribute, else the default-path of the request): only the identity matters
// here, the value the client presents is kept by the caller.
func track(j *strict.Jar, attrs, reqPath string, now time.Time) {
	line := fiber.FlashCookieName + "=x"
	if p := cookiePathAttr(attrs); p != "" {
		if j.StoreFrom(line+"; Path="+p, now, reqPath) == "" {
			return
		}
	}
	j.StoreFrom(line, now, reqPath)
}

func holdsFlash(j *strict.Jar, reqPath string) bool {
	return strings.Contains(j.Header(reqPath), fiber.FlashCookieName+"=")
}

func lenientFlashLine(out []byte) (value []byte, attrs string, ok bool) {
	end := bytes.Index(out, []byte("\r\n\r\n"))
	if end < 0 {
		end = len(out)
	}
	for _, l := range bytes.Split(out[:end], []byte("\n")) {
		l = bytes.TrimRight(l, "\r")
		p := []byte("Set-Cookie: " + fiber.FlashCookieName + "=")
		if len(l) >= len(p) && strings.EqualFold(string(l[:len(p)]), string(p)) {
			v := l[len(p):]
			if i := bytes.IndexByte(v, ';'); i >= 0 {
				return v[:i], string(v[i+1:]), true
			}
			return v, "", true
		}
	}
	return nil, "", false
}

// rawFlashValue cuts the flash cookie value out of the raw response: the Set-Cookie line for the
// flash cookie minus whatever attributes follow the value (the value itself may contain any byte).
func rawFlashValue(out []byte) ([]byte, bool) {
	v, _, next := flashCookieAt(out, 0)
	return v, next >= 0
}

func diffEncoded(got, want []fmsg) string {
	key := func(m fmsg, flag bool) string {
		s := msgKey(m.Key, m.Value, m.Level)
		if flag && m.Old {
			s += "/old"
		}
		return s
	}
	cmp := func(flag bool) bool {
		var g, w []string
		for _, m := range got {
			g = append(g, key(m, flag))
		}
		for _, m := range want {
			w = append(w, key(m, flag))
		}
		sort.Strings(g)
		sort.Strings(w)
		return strings.Join(g, "\x00") == strings.Join(w, "\x00")
	}
	switch {
	case cmp(true):
		return ""
	case len(got) != len(want):
		return "count"
	case cmp(false):
		return "old-input-flag"
	}
	return "content"
}

// serverNow is the instant of the response by the server's own clock (its Date header, any of the
// HTTP date formats). Without one, an instant that lies behind every date a server would use to
// expire a cookie and before any real future expiry: no wall clock is read.
// flashSrc is everything the client and the handler put into a script: request bytes (raw and
// percent-decoded) and message texts.
func flashSrc(spec *flashSpec, reqA []byte) []byte {
	b := append([]byte(nil), reqA...)
	b = append(b, '\n')
	b = append(b, fasthttp.AppendUnquotedArg(nil, reqA)...)
	for _, m := range spec.msgs {
		b = append(b, '\n')
		b = append(b, m.Key...)
		b = append(b, '\n')
		b = append(b, m.Value...)
	}
	return b
}

// sameTarget: the Location names the target path, as a path or as an absolute URL of this host.
func sameTarget(loc, path string) bool {
	if loc == path {
		return true
	}
	if lp, lq, ok := strings.Cut(loc, "?"); ok {
		// query pairs come from a map: any order
		if pp, pq, ok2 := strings.Cut(path, "?"); ok2 {
			a, b := strings.Split(lq, "&"), strings.Split(pq, "&")
			sort.Strings(a)
			sort.Strings(b)
			return strings.Join(a, "&") == strings.Join(b, "&") && sameTarget(lp, pp)
		}
		return false
	}
	for _, pre := range []string{"http://flash.example.com", "https://flash.example.com", "//flash.example.com"} {
		if loc == pre+path {
			return true
		}
	}
	return false
}

func serverNow(r *strict.Response) time.Time {
	if t, err := http.ParseTime(r.Get("Date")); err == nil {
		return t
	}
	return time.Date(2020, 1, 1, 0, 0, 0, 0, time.UTC)
}

// storeFrom is Jar.StoreFrom for a line whose Expires attribute may be written in any of the HTTP
// date formats (the strict parser knows only the preferred one).
func storeFrom(j *strict.Jar, line string, now time.Time, reqPath string) string {
	bad := j.StoreFrom(line, now, reqPath)
	if bad != "expires-syntax" {
		return bad
	}
	parts := strings.Split(line, ";")
	for i, a := range parts {
		t := strings.TrimSpace(a)
		if len(t) > 8 && strings.EqualFold(t[:8], "expires=") {
			if d, err := http.ParseTime(t[8:]); err == nil {
				parts[i] = " Expires=" + d.UTC().Format("Mon, 02 Jan 2006 15:04:05 GMT")
			}
		}
	}
	return j.StoreFrom(strings.Join(parts, ";"), now, reqPath)
}

func safeByte(r *gen.Rand) byte {
	for {
		b := byte(0x21 + r.Intn(0xdf))
		if b != ';' && b != 0x7f {
			return b
		}
	}
}

func safeBytes(r *gen.Rand, n int) string {
	b := make([]byte, n)
	for i := range b {
		b[i] = safeByte(r)
	}
	return string(b)
}

func anyString(r *gen.Rand, n int) string {
	switch r.Intn(4) {
	case 0:
		return string(r.Bytes(n))
	case 1:
		return r.StringFrom(gen.AlphaNum+" ,:;\"=\\%", n)
	case 2:
		var sb strings.Builder
		for sb.Len() < n {
			sb.WriteString(gen.Pick(r, []string{"é", "✓", "日本", ",", ":", ";", "\"", " ", "\r", "\n", "\x00", "a", "Z", "7"}))
		}
		return sb.String()
	default:
		return r.StringFrom(gen.AlphaNum, n)
	}
}

var flSeen struct{ complete, hostile, stale, chain, overlap int }

func runFlash(e *ev.Env) {
	setup(e)
	defer stopProfile()
	if e.Only == isoCase {
		// child of isolated(): the cookie comes through the environment
		e.Corpus("isolated-input", func(c *ev.Case) {
			cookie, _ := isoInput()
			if len(cookie) == 0 {
				e.Inconclusive("isolated child without input")
				return
			}
			hostileCookie(e, c, "", cookie)
		})
		return
	}

	script := func(name string, spec *flashSpec, reqA []byte) {
		e.Corpus(name, func(c *ev.Case) { flashScript(e, c, spec, reqA) })
	}
	getA := []byte("GET /a HTTP/1.1\r\nHost: flash.example.com\r\n\r\n")
	script("docs-example-default-level", &flashSpec{msgs: []fmsg{{Key: "status", Value: "Logged in successfully"}}, noLevel: []bool{true}}, getA)
	script("printable-level", &flashSpec{msgs: []fmsg{{Key: "status", Value: "saved", Level: 'A'}}, noLevel: []bool{false}}, getA)
	script("value-with-semicolon", &flashSpec{msgs: []fmsg{{Key: "status", Value: "a;b", Level: 'A'}}, noLevel: []bool{false}}, getA)
	script("value-59-bytes", &flashSpec{msgs: []fmsg{{Key: "status", Value: strings.Repeat("v", 59), Level: 'A'}}, noLevel: []bool{false}}, getA)
	script("last-message-level-32", &flashSpec{msgs: []fmsg{{Key: "warn", Value: "quota", Level: '@'}, {Key: "notice", Value: "saved", Level: 32}}, noLevel: []bool{false, false}}, getA)
	script("last-message-ends-in-blank", &flashSpec{msgs: []fmsg{{Key: "notice", Value: "Saved.", Level: 'A'}, {Key: "hint", Value: "Type a name: ", Level: 'B'}}, noLevel: []bool{false, false}}, getA)
	script("last-message-ends-in-blank-default-level", &flashSpec{msgs: []fmsg{{Key: "hint", Value: "Type a name: "}}, noLevel: []bool{true}}, getA)
	script("level-10", &flashSpec{msgs: []fmsg{{Key: "status", Value: "saved", Level: 10}}, noLevel: []bool{false}}, getA)
	script("duplicate-key", &flashSpec{msgs: []fmsg{{Key: "k", Value: "first", Level: 'A'}, {Key: "k", Value: "second", Level: 'B'}}, noLevel: []bool{false, false}}, getA)
	script("with-input-query", &flashSpec{withInput: true}, []byte("GET /a?name=John HTTP/1.1\r\nHost: flash.example.com\r\n\r\n"))
	script("no-messages", &flashSpec{}, getA)
	// the follow-up request is on a nested path: an expiry without Path attribute would address
	// the cookie (fiber_flash, /users), not the issued (fiber_flash, /)
	script("nested-target-path", &flashSpec{msgs: []fmsg{{Key: "status", Value: "saved", Level: 'A'}}, noLevel: []bool{false}, pathA: "/users/new", pathB: "/users/list"},
		[]byte("GET /users/new HTTP/1.1\r\nHost: flash.example.com\r\n\r\n"))
	for _, st := range []int{301, 303, 307, 308} {
		script("status-"+itoa(st), &flashSpec{msgs: []fmsg{{Key: "notice", Value: "saved", Level: 'A'}}, noLevel: []bool{false}, status: st}, getA)
	}
	script("redirect-route-params-queries", &flashSpec{msgs: []fmsg{{Key: "notice", Value: "saved", Level: 'A'}}, noLevel: []bool{false}, kind: "route-params", pathB: routeParamTarget}, getA)
	script("consumer-error-handler-fails", &flashSpec{msgs: []fmsg{{Key: "notice", Value: "saved", Level: 'A'}}, noLevel: []bool{false}, bMode: "error-handler-fails"}, getA)
	script("consumer-returns-error", &flashSpec{msgs: []fmsg{{Key: "notice", Value: "saved", Level: 'A'}}, noLevel: []bool{false}, bMode: "error"}, getA)
	script("consumer-panics-recovered", &flashSpec{msgs: []fmsg{{Key: "notice", Value: "saved", Level: 'A'}}, noLevel: []bool{false}, bMode: "panic-recovered"}, getA)
	script("old-input-with-commas-splitting-on", &flashSpec{withInput: true, splitting: true},
		[]byte("GET /a?tags=go,fiber,web&name=John HTTP/1.1\r\nHost: flash.example.com\r\n\r\n"))
	script("old-input-form-with-commas-splitting-on", &flashSpec{withInput: true, splitting: true},
		[]byte("POST /a HTTP/1.1\r\nHost: flash.example.com\r\nContent-Type: application/x-www-form-urlencoded\r\nContent-Length: 17\r\n\r\ntags=go,fiber,web"))
	script("old-input-form-with-charset", &flashSpec{withInput: true},
		[]byte("POST /a HTTP/1.1\r\nHost: flash.example.com\r\nContent-Type: application/x-www-form-urlencoded; charset=UTF-8\r\nContent-Length: 9\r\n\r\nname=John"))
	script("status-307-post-followed-by-post", &flashSpec{msgs: []fmsg{{Key: "notice", Value: "saved", Level: 'A'}}, noLevel: []bool{false}, status: 307},
		[]byte("POST /a HTTP/1.1\r\nHost: flash.example.com\r\nContent-Length: 0\r\n\r\n"))
	script("status-308-put-followed-by-put", &flashSpec{msgs: []fmsg{{Key: "notice", Value: "saved", Level: 'A'}}, noLevel: []bool{false}, status: 308},
		[]byte("PUT /a HTTP/1.1\r\nHost: flash.example.com\r\nContent-Length: 0\r\n\r\n"))
	script("redirect-route", &flashSpec{msgs: []fmsg{{Key: "notice", Value: "saved", Level: 'A'}}, noLevel: []bool{false}, kind: "route"}, getA)
	script("redirect-back-referer", &flashSpec{msgs: []fmsg{{Key: "notice", Value: "saved", Level: 'A'}}, noLevel: []bool{false}, kind: "back-referer"}, getA)
	e.Corpus("chained-redirect-two-hops", func(c *ev.Case) {
		chainScript(e, c, &flashSpec{msgs: []fmsg{{Key: "notice", Value: "submitted", Level: 'A'}}, noLevel: []bool{false},
			hops: [][]fmsg{{{Key: "notice", Value: "confirmed", Level: 'B'}}}})
	})
	e.Corpus("chained-redirect-middle-hop-attaches-nothing", func(c *ev.Case) {
		chainScript(e, c, &flashSpec{msgs: []fmsg{{Key: "notice", Value: "submitted", Level: 'A'}}, noLevel: []bool{false}, hops: [][]fmsg{nil}})
	})
	e.Corpus("overlapping-requests", func(c *ev.Case) {
		overlapCase(e, c, []fmsg{{Key: "for", Value: "alice", Level: 'A'}}, []fmsg{{Key: "for", Value: "bob", Level: 'B'}, {Key: "more", Value: "for bob", Level: 'C'}})
	})
	// a message key that is also a submitted field, in both call orders
	script("message-key-equals-field-input-first", &flashSpec{msgs: []fmsg{{Key: "email", Value: "is taken", Level: 'A'}}, noLevel: []bool{false}, withInput: true, inputFirst: true},
		[]byte("GET /a?email=john%40example.com HTTP/1.1\r\nHost: flash.example.com\r\n\r\n"))
	script("message-key-equals-field-with-first", &flashSpec{msgs: []fmsg{{Key: "email", Value: "is taken", Level: 'A'}}, noLevel: []bool{false}, withInput: true},
		[]byte("GET /a?email=john%40example.com HTTP/1.1\r\nHost: flash.example.com\r\n\r\n"))

	host := func(name, kind string, cookie []byte) {
		e.Corpus(name, func(c *ev.Case) { hostileCookie(e, c, kind, cookie) })
	}
	host("hostile-empty-map", "nonconforming", []byte{0x91, 0x80})
	host("hostile-truncated-after-first", "invalid", append(mpFlash([]fmsg{{Key: "k", Value: "v", Level: 'A'}, {Key: "k2", Value: "v2", Level: 'B'}})[:30], 'x'))
	host("hostile-array16-announce", "invalid", []byte{0xdc, 0xff, 0xff})
	host("hostile-array-header-only", "invalid", []byte{0x93})
	host("hostile-trailing-bytes", "nonconforming", append(mpFlash([]fmsg{{Key: "k", Value: "v", Level: 'A'}}), 0xc0))
	e.Corpus("hostile-previous-request-messages", func(c *ev.Case) { staleCookie(e, c, 3, 2) })

	// -------- generated scripts ------------------------------------------------------------
	e.Cases("script", e.N(5000, 300000), func(c *ev.Case) {
		r := c.R
		spec := &flashSpec{}
		wireSafe := r.Bool()
		n := r.Range(0, 8)
		for i := 0; i < n; i++ {
			var m fmsg
			if wireSafe {
				m = fmsg{Key: safeBytes(r, r.Range(0, 12)), Value: safeBytes(r, r.Range(0, 40)), Level: safeByte(r)}
			} else {
				m = fmsg{Key: anyString(r, r.Range(0, 12)), Value: anyString(r, valLen(r)), Level: r.Byte()}
			}
			if i > 0 && r.Chance(1, 8) {
				m.Key = spec.msgs[r.Intn(i)].Key
			}
			spec.msgs = append(spec.msgs, m)
			spec.noLevel = append(spec.noLevel, !wireSafe && r.Chance(1, 4))
		}
		if n > 0 && r.Chance(1, 4) {
			// the message attached last has a text ending in SP / HTAB, or level 32 / 9, the
			// default level given or omitted: whatever the layout, these are the bytes most
			// likely to end the cookie value
			m := &spec.msgs[n-1]
			for used := true; used; { // a key of its own: it must stay the last one
				m.Key = safeBytes(r, r.Range(1, 10))
				used = false
				for _, o := range spec.msgs[:n-1] {
					used = used || o.Key == m.Key
				}
			}
			switch r.Intn(4) {
			case 0:
				m.Value, m.Level, spec.noLevel[n-1] = safeBytes(r, r.Range(0, 20))+gen.Pick(r, []string{" ", "\t", "  ", " \t"}), 0, true
			case 1:
				m.Value, m.Level, spec.noLevel[n-1] = safeBytes(r, r.Range(0, 20))+gen.Pick(r, []string{" ", "\t"}), 0, false
			case 2:
				m.Value, m.Level, spec.noLevel[n-1] = safeBytes(r, r.Range(0, 20)), 32, false
			default:
				m.Value, m.Level, spec.noLevel[n-1] = safeBytes(r, r.Range(0, 20)), 9, false
			}
		}
		spec.pathA, spec.pathB = gen.Pick(r, flashPathsA), gen.Pick(r, flashPathsB)
		spec.status = gen.Pick(r, []int{0, 0, 301, 302, 303, 307, 308})
		spec.kind = gen.Pick(r, []string{"", "", "route", "route-params", "back-referer", "back-fallback"})
		switch spec.kind {
		case "route":
			spec.pathB = gen.Pick(r, flashPathsB[:3]) // Route() yields the registered path
		case "route-params":
			spec.pathB = routeParamTarget
		}
		spec.bMode = gen.Pick(r, []string{"", "", "", "error", "error-handler-fails", "panic-recovered"})
		spec.splitting = r.Chance(1, 3)
		reqA := []byte("GET " + spec.pathA + " HTTP/1.1\r\nHost: flash.example.com\r\n\r\n")
		if (!wireSafe && r.Chance(1, 2)) || (wireSafe && r.Chance(1, 8)) {
			spec.withInput = true
			spec.inputFirst = r.Bool()
			// in a share of the scripts a submitted field has the name of a message key
			var same []string
			if len(spec.msgs) > 0 && r.Chance(1, 2) {
				if k := spec.msgs[r.Intn(len(spec.msgs))].Key; plainName(k) {
					same = append(same, k)
				} else {
					i := r.Intn(len(spec.msgs))
					spec.msgs[i].Key = r.Ident(1, 8)
					same = append(same, spec.msgs[i].Key)
				}
			}
			reqA = inputRequest(r, spec.pathA, same)
		}
		// the redirected request is not always a GET (forms are PUT/PATCH too; an API call with
		// its data in the query may be any method)
		switch {
		case bytes.HasPrefix(reqA, []byte("POST ")):
			reqA = append([]byte(gen.Pick(r, []string{"POST", "POST", "PUT", "PATCH"})), reqA[4:]...)
		case bytes.HasPrefix(reqA, []byte("GET ")) && r.Chance(1, 2):
			m := gen.Pick(r, []string{"POST", "PUT", "PATCH", "DELETE"})
			reqA = append([]byte(m), reqA[3:]...)
			reqA = bytes.Replace(reqA, []byte("\r\n\r\n"), []byte("\r\nContent-Length: 0\r\n\r\n"), 1)
		}
		flashScript(e, c, spec, reqA)
	})

	// -------- chained redirects ---------------------------------------------------------------
	e.Cases("chain", e.N(1500, 60000), func(c *ev.Case) {
		r := c.R
		set := func(lo int) []fmsg {
			ms := make([]fmsg, r.Range(lo, 3))
			seen := map[string]bool{}
			for i := range ms {
				k := safeBytes(r, r.Range(1, 10))
				for seen[k] {
					k += "x"
				}
				seen[k] = true
				ms[i] = fmsg{Key: k, Value: safeBytes(r, r.Range(0, 30)), Level: safeByte(r)}
			}
			return ms
		}
		spec := &flashSpec{msgs: set(1), pathA: gen.Pick(r, flashPathsA), pathB: gen.Pick(r, flashPathsB)}
		spec.noLevel = make([]bool, len(spec.msgs))
		for i, n := 0, r.Range(1, 3); i < n; i++ {
			if r.Chance(1, 3) {
				spec.hops = append(spec.hops, nil) // consumes and forwards without new messages
			} else {
				spec.hops = append(spec.hops, set(1))
			}
		}
		chainScript(e, c, spec)
	})

	// -------- overlapping requests ------------------------------------------------------------
	e.Cases("overlap", e.N(600, 20000), func(c *ev.Case) {
		r := c.R
		set := func() []fmsg {
			ms := make([]fmsg, r.Range(1, 8))
			for i := range ms {
				ms[i] = fmsg{Key: safeBytes(r, r.Range(1, 8)) + itoa(i), Value: safeBytes(r, r.Range(0, 20)), Level: safeByte(r)}
			}
			return ms
		}
		overlapCase(e, c, set(), set())
	})

	// -------- hostile cookies ----------------------------------------------------------------
	e.Cases("hostile", e.N(20000, 2000000), func(c *ev.Case) {
		r := c.R
		mk := func(n int) []fmsg {
			ms := make([]fmsg, n)
			for i := range ms {
				ms[i] = fmsg{Key: safeBytes(r, r.Range(1, 8)), Value: safeBytes(r, r.Range(0, 20)), Level: safeByte(r), Old: r.Chance(1, 3)}
			}
			return ms
		}
		switch r.Intn(13) {
		case 0:
			b := make([]byte, r.Range(1, 60))
			for i := range b {
				b[i] = byte(0x20 + r.Intn(0xe0))
			}
			hostileCookie(e, c, "", b)
		case 2, 3:
			b := mpFlash(mk(r.Range(1, 4)))
			hostileCookie(e, c, "invalid", b[:r.Intn(len(b))])
		case 4:
			b := []byte{0xdc, safeByte(r), safeByte(r)}
			if r.Bool() {
				b = append(b, mpFlash(mk(r.Range(1, 2)))[1:]...)
			}
			hostileCookie(e, c, "invalid", b)
		case 5:
			// array header larger than the number of elements (fixarray)
			ms := mk(r.Range(0, 3))
			b := mpFlash(ms)
			b[0] = 0x90 | byte(len(ms)+1+r.Intn(15-len(ms)))
			hostileCookie(e, c, "invalid", b)
		case 6:
			// maps with missing fields
			b := mpArrayHdr(nil, 1, 0)
			fields := []string{"key", "value", "level", "isOldInput"}
			gen.Shuffle(r, fields)
			fields = fields[:r.Intn(4)]
			b = mpMapHdr(b, uint32(len(fields)), 0)
			for _, f := range fields {
				b = appendField(b, r, f)
			}
			hostileCookie(e, c, "nonconforming", b)
		case 7:
			// extra / duplicate fields
			b := mpArrayHdr(nil, 1, 0)
			fields := []string{"key", "value", "level", "isOldInput", gen.Pick(r, []string{"zz", "Key", "key", "level", ""})}
			gen.Shuffle(r, fields)
			b = mpMapHdr(b, 5, 0)
			for _, f := range fields {
				b = appendField(b, r, f)
			}
			hostileCookie(e, c, "nonconforming", b)
		case 8:
			// a field of the wrong type after some good ones
			b := mpArrayHdr(nil, uint32(r.Range(1, 3)), 0)
			b = mpMapHdr(b, 4, 0)
			b = mpStr(mpStr(b, "key"), safeBytes(r, 3))
			b = mpStr(mpStr(b, "value"), safeBytes(r, 5))
			b = mpStr(mpStr(b, "level"), "notanumber")
			b = mpBool(mpStr(b, "isOldInput"), false)
			hostileCookie(e, c, "invalid", b)
		case 9, 1:
			// a valid encoding (0..3 messages) followed by more bytes: junk, one stray byte, nil,
			// another complete list
			b := mpFlash(mk(r.Range(0, 3)))
			var tail []byte
			switch r.Intn(5) {
			case 0:
				tail = []byte{safeByte(r)}
			case 1:
				tail = []byte{0xc0}
			case 2:
				tail = mpFlash(mk(r.Range(0, 2)))
			case 3:
				tail = append(mpFlash(mk(1)), safeByte(r))
			default:
				tail = make([]byte, r.Range(1, 12))
				for i := range tail {
					tail[i] = safeByte(r)
				}
			}
			hostileCookie(e, c, "", append(b, tail...))
		case 10:
			// huge announced map / string sizes, deep nesting behind an unknown field
			switch r.Intn(4) {
			case 3:
				// a complete MessagePack object that is no array: a message map alone, a string
				hostileCookie(e, c, "", gen.Pick(r, [][]byte{mpMsg(nil, mk(1)[0]), mpStr(nil, safeBytes(r, 8)), {0xc3}, {0x2a}}))
			case 0:
				b := mpArrayHdr(nil, 1, 0)
				b = mpMapHdr(b, 0xffffffff, 32)
				hostileCookie(e, c, "invalid", mpStr(mpStr(b, "key"), "k"))
			case 1:
				b := mpMapHdr(mpArrayHdr(nil, 1, 0), 4, 0)
				b = append(mpStr(b, "key"), 0xdb, 0xff, 0xff, 0xff, 0xff, 'a', 'b')
				hostileCookie(e, c, "invalid", b)
			default:
				b := mpStr(mpMapHdr(mpArrayHdr(nil, 1, 0), 1, 0), "zz")
				for i, n := 0, r.Range(1, 2000); i < n; i++ {
					b = append(b, 0x91)
				}
				hostileCookie(e, c, "invalid", b)
			}
		default:
			staleCookie(e, c, r.Range(1, 4), r.Range(1, 5))
		}
	})

	// truncation of valid encodings at every offset
	e.Cases("truncate-every-offset", e.N(100, 4000), func(c *ev.Case) {
		r := c.R
		ms := make([]fmsg, r.Range(1, 3))
		for i := range ms {
			ms[i] = fmsg{Key: safeBytes(r, r.Range(1, 6)), Value: safeBytes(r, r.Range(0, 40)), Level: safeByte(r), Old: r.Bool()}
		}
		b := mpFlash(ms)
		for off := 0; off < len(b); off++ {
			hostileCookie(e, c, "invalid", b[:off])
		}
	})

	if e.Only == "" {
		if flSeen.complete == 0 {
			e.Inconclusive("no script with messages reached handler B in this shard")
		}
		if flSeen.hostile == 0 {
			e.Inconclusive("no hostile cookie reached handler B in this shard")
		}
		if flSeen.overlap == 0 {
			e.Inconclusive("no pair of overlapping cookie-carrying requests was served")
		}
		if flSeen.chain == 0 {
			e.Inconclusive("no chained redirect completed in this shard")
		}
		if flSeen.stale == 0 {
			e.Inconclusive("no cookie was presented on a context that had just delivered real messages")
		}
	}

	// expected-fatal announcements, each in a child process (last: see survive.go)
	for _, f := range []struct {
		name string
		b    []byte
	}{
		{"fatal-array32-max", []byte{0xdd, 0xff, 0xff, 0xff, 0xff}},
		{"fatal-array32-min-printable", []byte{0xdd, 0x21, 0x21, 0x21, 0x21}},
	} {
		f := f
		e.Corpus(f.name, func(c *ev.Case) {
			if !isolated(e, c, "wire.flash", f.b, "") {
				return
			}
			hostileCookie(e, c, "invalid", f.b)
		})
	}
}

// valLen favours short values and visits the lengths whose MessagePack header bytes are special.
func valLen(r *gen.Rand) int {
	if r.Chance(1, 8) {
		return gen.Pick(r, []int{31, 32, 59, 127, 255, 256, 300, 2570})
	}
	return r.Range(0, 40)
}

func appendField(b []byte, r *gen.Rand, f string) []byte {
	b = mpStr(b, f)
	switch f {
	case "level":
		return mpUint8(b, safeByte(r))
	case "isOldInput":
		return mpBool(b, r.Bool())
	}
	return mpStr(b, safeBytes(r, r.Range(1, 6)))
}

// inputRequest builds request A with old input in the query, a urlencoded form or a multipart
// form; keys are plain names (binding of exotic keys is C11's business), values any bytes.
func plainName(k string) bool {
	if k == "" || len(k) > 12 {
		return false
	}
	for i := 0; i < len(k); i++ {
		if k[i] < 'a' || k[i] > 'z' {
			return false
		}
	}
	return true
}

func inputRequest(r *gen.Rand, path string, must []string) []byte {
	n := r.Range(0, 4) + len(must)
	keys := map[string]bool{}
	var ks, vs []string
	for _, k := range must {
		keys[k] = true
		ks = append(ks, k)
		vs = append(vs, anyString(r, r.Range(0, 20)))
	}
	commaValue := func() string {
		if r.Chance(1, 3) {
			return gen.Pick(r, []string{"go,fiber,web", "a,b", ",", "x,", ",y", "1,2,3", "a, b", "\"q,z\""})
		}
		return anyString(r, r.Range(0, 20))
	}
	for len(ks) < n {
		k := r.Ident(1, 8)
		if keys[k] {
			continue
		}
		keys[k] = true
		ks = append(ks, k)
		vs = append(vs, commaValue())
	}
	switch r.Intn(3) {
	case 0:
		var p []string
		for i := range ks {
			p = append(p, ks[i]+"="+pctAll(vs[i]))
		}
		q := ""
		if len(p) > 0 {
			q = "?" + strings.Join(p, "&")
		}
		return []byte("GET " + path + q + " HTTP/1.1\r\nHost: flash.example.com\r\n\r\n")
	case 1:
		var p []string
		for i := range ks {
			p = append(p, ks[i]+"="+pctAll(vs[i]))
		}
		body := strings.Join(p, "&")
		return []byte("POST " + path + " HTTP/1.1\r\nHost: flash.example.com\r\nContent-Type: " + gen.Pick(r, []string{"application/x-www-form-urlencoded", "application/x-www-form-urlencoded; charset=UTF-8",
			"application/x-www-form-urlencoded;charset=utf-8", "application/x-www-form-urlencoded ; charset=utf-8", "Application/X-WWW-Form-Urlencoded"}) + "\r\nContent-Length: " + itoa(len(body)) + "\r\n\r\n" + body)
	default:
		var b strings.Builder
		for i := range ks {
			v := strings.ReplaceAll(vs[i], "\r\n--XbOuNdArY", "")
			b.WriteString("--XbOuNdArY\r\nContent-Disposition: form-data; name=\"" + ks[i] + "\"\r\n\r\n" + v + "\r\n")
		}
		b.WriteString("--XbOuNdArY--\r\n")
		return []byte("POST " + path + " HTTP/1.1\r\nHost: flash.example.com\r\nContent-Type: " + gen.Pick(r, []string{"multipart/form-data; boundary=XbOuNdArY", "multipart/form-data;boundary=XbOuNdArY",
			"multipart/form-data; charset=utf-8; boundary=XbOuNdArY", "Multipart/Form-Data; boundary=XbOuNdArY", "multipart/form-data; boundary=\"XbOuNdArY\""}) + "\r\nContent-Length: " + itoa(b.Len()) + "\r\n\r\n" + b.String())
	}
}

// ---------------------------------------------------------------------------------------------

// sigK1 is the one signature of the known root cause "the flash cookie on the wire is the raw
// MessagePack encoding": control bytes, ';', spaces at the ends, CR/LF replaced by the header
// scrubbing - whatever byte of the encoding shows it. The concrete class goes into the detail.
const sigK1 = "flash|not-delivered|cookie-is-raw-msgpack"

func k1(e *ev.Env, c *ev.Case, detail map[string]any, class, what string) {
	d := map[string]any{"class": class}
	for k, v := range detail {
		d[k] = v
	}
	cause, step, _ := strings.Cut(class, "@")
	if cause == "" {
		cause = "unclassified"
	}
	d["class"], d["step"] = cause, step
	e.Stat("k1_"+cause, 1)
	if step != "" {
		e.Stat("k1_step_"+step, 1)
	}
	e.Violation(c, sigK1+"|"+cause, what, d)
}

// rawBytesClass names what in the bytes of an encoding keeps it from travelling as a cookie value
// ("" when nothing does).
// scrubRisk: what was attached contains CR or LF - in a text, as a level, or in the bytes of a
// text's length - which the header scrubbing replaces in any MessagePack layout.
func scrubRisk(want []fmsg, old map[string]string) bool {
	lb := func(s string) bool {
		if strings.ContainsAny(s, "\r\n") {
			return true
		}
		for n := len(s); n >= 256; n >>= 8 {
			if b := n & 0xff; b == '\r' || b == '\n' {
				return true
			}
		}
		return len(s) >= 256 && (len(s)>>8 == '\r' || len(s)>>8 == '\n')
	}
	for _, m := range want {
		if lb(m.Key) || lb(m.Value) || m.Level == '\r' || m.Level == '\n' {
			return true
		}
	}
	for k, v := range old {
		if lb(k) || lb(v) {
			return true
		}
	}
	return false
}

// rawBytesClass names the obstacle in the issued bytes that keeps them from travelling as a cookie
// value and coming back unchanged ("" when there is none). Fixed priority order; bytes >= 0x80 and
// ',' are no obstacle for a user agent (RFC 6265 5.2) nor for fasthttp.
func rawBytesClass(enc []byte) string {
	n := len(enc)
	switch {
	case bytes.IndexByte(enc, '\n') >= 0 || bytes.IndexByte(enc, '\r') >= 0:
		return "line-break" // (only a tree without the header scrubbing lets them through)
	case bytes.IndexByte(enc, 0) >= 0:
		return "nul"
	case hasCTL(enc):
		return "control-byte"
	case bytes.IndexByte(enc, ';') >= 0:
		return "semicolon"
	case n > 0 && (enc[0] == ' ' || enc[0] == '\t'):
		return "leading-whitespace"
	case n > 0 && (enc[n-1] == ' ' || enc[n-1] == '\t'):
		return "trailing-whitespace"
	case n > 1 && enc[0] == '"' && enc[n-1] == '"':
		return "dquote-wrapped"
	}
	return ""
}

func flashScript(e *ev.Env, c *ev.Case, spec *flashSpec, reqA []byte) {
	want := expected(spec)
	var look []string
	for _, m := range want {
		look = append(look, m.Key)
	}
	fa := buildFlashApp(spec, look)
	// a client follows 301/302/303 with GET, 307/308 with the method it was redirected on
	if st := spec.wantStatus(); st == 307 || st == 308 {
		if i := bytes.IndexByte(reqA, ' '); i > 0 {
			fa.followMethod = string(reqA[:i])
		}
	}
	if spec.kind == "back-referer" {
		host := []byte("Host: flash.example.com\r\n")
		reqA = bytes.Replace(reqA, host, append(append([]byte(nil), host...), "Referer: "+spec.b()+"\r\n"...), 1)
	}
	detail := map[string]any{"request_a": show(reqA), "with_input": spec.withInput, "input_first": spec.inputFirst, "status": spec.wantStatus(), "kind": spec.kind}
	var ml []string
	for i, m := range spec.msgs {
		s := msgKey(m.Key, m.Value, m.Level)
		if spec.noLevel[i] {
			s += "(level omitted)"
		}
		ml = append(ml, s)
	}
	detail["with"] = ml

	// ---- (1) handler A ---------------------------------------------------------------
	if e.Quick() || e.Only != "" {
		e.Journal("A " + hexOf(reqA))
	}
	var out1 []byte
	if guard(e, c, "flash", detail, func() { out1, _ = fa.w.Serve(reqA, nil) }) {
		return
	}
	e.Eval(1)
	detail["response_a"] = show(out1)
	wantOld := fa.aInput
	for k := range wantOld {
		fa.lookKeys = append(fa.lookKeys, k)
	}
	sort.Strings(fa.lookKeys)
	attached := len(want) + len(wantOld)
	e.Stat("scripts", 1)
	if attached == 0 {
		e.Stat("scripts_nothing_attached", 1)
	}

	// The bytes of the issued cookie are no verdict by themselves (the statement does not fix the
	// encoding): the reference decoder only classifies and counts. What is judged is the round
	// trip through the real server, against what handler A attached.
	issued, haveIssued := rawFlashValue(out1)
	scrub := scrubRisk(want, wantOld)
	if attached > 0 {
		switch got, wf := mpWellFormed(issued); {
		case !haveIssued:
			e.Violation(c, "flash|cookie-not-set", "no flash cookie in the response of the redirecting handler although "+itoa(attached)+" items were attached", detail)
		case scrub:
			// CR/LF bytes of the encoding are replaced by SP on the way into the header
			e.Stat("issued_cookie_has_scrubbed_bytes", 1)
		case !wf:
			e.Stat("issued_format_unrecognised", 1)
		case diffEncoded(got, wantList(want, wantOld)) != "":
			e.Stat("issued_format_recognised_but_differs", 1)
		default:
			e.Stat("issued_format_recognised", 1)
		}
	}
	// k1Class: what in the bytes actually issued keeps the cookie from travelling as it is
	k1Class := func() string {
		if scrub {
			return "line-break"
		}
		if haveIssued {
			return rawBytesClass(issued)
		}
		return ""
	}
	roundTripJudged := false

	jar := &strict.Jar{}
	strictOK := false
	var lenient []byte
	haveLenient := false
	client := "strict"
	rs1, perr := strict.ParseAll(out1, nil)
	switch {
	case perr != nil:
		site := headerAt(out1, perr.Off)
		if name, after := injectedLine(out1, flashSrc(spec, reqA)); name != "" {
			// an attacker-named header line: its own signature
			detail["header"] = name
			e.Violation(c, "flash|injected-header-line|after:"+after, "a header line named by message bytes appears in the response of the redirecting handler: "+name, detail)
		} else if strings.HasPrefix(site, "set-cookie") || k1Class() != "" {
			cls := k1Class()
			if cls == "" {
				cls = "unclassified-" + perr.Class
			}
			k1(e, c, detail, cls+"@set-cookie-rejected-by-strict-client", "response of the redirecting handler is rejected by a strict client: "+perr.Error())
		} else {
			e.Violation(c, "flash|response-malformed|"+perr.Class, "response of the redirecting handler is rejected by a strict client: "+perr.Error(), detail)
		}
		var attrs string
		lenient, attrs, haveLenient = lenientFlashLine(out1)
		if haveLenient {
			track(jar, attrs, spec.a(), time.Unix(0, 0))
		}
		client = "lenient"
	case len(rs1) != 1 || rs1[0].Status != spec.wantStatus() || !sameTarget(rs1[0].Get("Location"), spec.b()):
		e.Violation(c, "flash|redirect-response", "handler A did not answer "+itoa(spec.wantStatus())+" to "+spec.b(), detail)
		return
	default:
		if name, after := injectedLine(rs1[0].Raw, flashSrc(spec, reqA)); name != "" {
			detail["header"] = name
			e.Violation(c, "flash|injected-header-line|after:"+after, "a header line named by message bytes appears in the response of the redirecting handler: "+name, detail)
		}
		lines := flashLines(rs1[0])
		switch {
		case attached == 0 && len(lines) == 0:
		case len(lines) != 1:
			e.Violation(c, "flash|cookie-count", itoa(len(lines))+" flash cookies set for "+itoa(attached)+" attached items", detail)
		default:
			_, attrs := splitCookieAttrs([]byte(lines[0]))
			switch bad := storeFrom(jar, lines[0], serverNow(rs1[0]), spec.a()); bad {
			case "":
				strictOK = true
				e.Stat("strict_client_stored_cookie", 1)
			case "value-not-cookie-octets":
				// RFC 6265 §4.1.1 (SHOULD) is not met, but a §5.2 user agent stores the cookie:
				// counted, and the script goes on with such a client (value up to the first ';',
				// surrounding white space removed)
				e.Stat("set_cookie_value_not_cookie_octets", 1)
				client = "ua-5.2"
				v := strings.TrimPrefix(lines[0], fiber.FlashCookieName+"=")
				if i := strings.IndexByte(v, ';'); i >= 0 {
					v = v[:i]
				}
				lenient, haveLenient = []byte(strings.Trim(v, " \t")), true
				track(jar, attrs, spec.a(), serverNow(rs1[0]))
			default:
				k1(e, c, detail, k1Class()+"@set-cookie-"+bad, "a user agent does not accept the Set-Cookie line: the messages are not presented")
				lenient, haveLenient = lenientFlash(out1)
				if haveLenient {
					track(jar, attrs, spec.a(), serverNow(rs1[0]))
				}
				client = "lenient"
			}
		}
	}
	if attached > 0 && !strictOK && !haveLenient {
		e.Stat("no_cookie_even_for_lenient_client", 1)
	}

	// ---- (2) handler B with the cookie ---------------------------------------------
	var cookie []byte
	present := false
	if strictOK {
		if v, ok := jar.Get(fiber.FlashCookieName); ok {
			cookie, present = []byte(v), true
		}
	} else if haveLenient {
		cookie, present = lenient, true
		e.Stat("continuations_"+client, 1)
	}
	if present && !holdsFlash(jar, fa.pathB) {
		// the cookie's path does not cover the redirect target: nothing is presented
		present = false
		e.Violation(c, "flash|cookie-path-does-not-cover-target", "the flash cookie is not presented to the redirect target "+fa.pathB, detail)
	}
	detail["client"] = client
	detail["cookie_presented"] = show(cookie)
	secondDelivery := false
	if present {
		rs2, perr2, out2, p := fa.serveB(e, c, cookie, true)
		if p {
			return
		}
		e.Eval(1)
		detail["response_b"] = show(out2)
		rep := *fa.rep
		switch {
		case perr2 != nil:
			e.Violation(c, "flash|response-malformed|"+perr2.Class, "response of handler B rejected by the strict parser: "+perr2.Error(), detail)
			return
		case len(rs2) == 1 && !rep.ran && (rs2[0].Status == 400 || (rs2[0].Status == 500 && spec.bMode == "error-handler-fails")):
			// fasthttp refused the request head (with a failing ErrorHandler that 400 comes out
			// as fiber's fallback 500)
			e.Stat("refused_by_server", 1)
			if hasCTL(cookie) {
				e.Stat("refused_cookie_has_ctl", 1)
			}
			if hasCTL(cookie) || k1Class() != "" {
				cls := k1Class()
				if cls == "" {
					cls = "control-byte"
				}
				k1(e, c, detail, cls+"@request-refused-by-server", "the server answers 400 to the request that presents the cookie it issued itself")
			} else {
				e.Violation(c, "flash|request-refused-by-server", "the server answers 400 to the request that presents the cookie it issued itself (no control byte in it)", detail)
			}
		case len(rs2) != 1 || !rep.ran:
			e.Violation(c, "flash|follow-up-not-served", "handler B did not run for the follow-up request", detail)
			return
		default:
			what, why := diffMessages(spec, want, wantOld, &rep)
			if what != "" {
				// the bytes of the encoding explain it: the known raw-MessagePack finding
				detail["why"] = why
				if cls := k1Class(); cls != "" && client != "strict" {
					k1(e, c, detail, cls+"@messages-differ", "handler B does not see what was attached ("+client+" client): "+why)
					what = "raw-bytes"
				} else {
					e.Violation(c, "flash|messages-differ|"+what, "handler B does not see what was attached ("+client+" client): "+why, detail)
				}
			} else if attached > 0 {
				e.Stat("delivered_intact_"+client, 1)
			}
			roundTripJudged = what != "raw-bytes"
			// the response must expire the cookie the client holds: a Set-Cookie line replaces or
			// deletes the stored cookie with the same name and path only (RFC 6265 §5.3), and a
			// line without Path attribute gets the default-path of this request (§5.1.4)
			now := serverNow(rs2[0])
			for _, l := range rs2[0].All("Set-Cookie") {
				storeFrom(jar, l, now, fa.pathB)
			}
			stillThere := holdsFlash(jar, fa.pathB)
			if stillThere {
				detail["set_cookie_b"] = rs2[0].All("Set-Cookie")
				e.Violation(c, "flash|cookie-not-expired", "the response of the handler that consumed the messages does not expire the flash cookie the client holds (same name and path)", detail)
			}
			// ---- (3) the same client again -----------------------------------------
			if stillThere {
				rs3, perr3, _, p := fa.serveB(e, c, cookie, true)
				if p {
					return
				}
				e.Eval(1)
				rep3 := *fa.rep
				if perr3 == nil && len(rs3) == 1 && rep3.ran && rep3.nMsg+rep3.nOld > 0 {
					secondDelivery = true
					e.Violation(c, "flash|delivered-twice", "the client still holds the cookie and the next request sees the messages again", detail)
				}
			}
			if attached > 0 && len(want) > 0 {
				flSeen.complete++
				e.Stat("complete_scripts_with_messages", 1)
				e.Sample("script", map[string]any{"with": ml, "client": client, "differs": what, "second_delivery": secondDelivery})
				e.Nontrivial("script", itoa(len(want)), itoa(len(wantOld)), client, what, strconv.FormatBool(secondDelivery))
			}
		}
	}

	// ---- the cookie could not travel as it is (control bytes, ';', white space at an end): hand
	// the very bytes that were issued to the real server in process, past fasthttp's header
	// validation, so that what was attached is still compared with what the next handler sees
	if attached > 0 && haveIssued && !scrub && !roundTripJudged {
		if ran, p := fa.deliverInProcess(e, c, fa.pathB, issued); p {
			return
		} else if ran {
			e.Eval(1)
			e.Stat("delivered_in_process", 1)
			rep := *fa.rep
			if what, why := diffMessages(spec, want, wantOld, &rep); what != "" {
				detail["why"], detail["delivery"] = why, "in-process: issued bytes handed to the server past the header validation"
				e.Violation(c, "flash|messages-differ|"+what, "handler B does not see what was attached (issued cookie delivered in process): "+why, detail)
			} else {
				e.Stat("delivered_intact_in_process", 1)
			}
		}
	}

	// ---- a request without the cookie sees none ----------------------------------------
	rs4, perr4, _, p := fa.serveB(e, c, nil, false)
	if p {
		return
	}
	e.Eval(1)
	rep4 := *fa.rep
	if perr4 == nil && len(rs4) == 1 && rep4.ran && rep4.nMsg+rep4.nOld > 0 {
		e.Violation(c, "flash|messages-without-cookie", "a request without the flash cookie sees messages", detail)
	}
}

func wantList(want []fmsg, old map[string]string) []fmsg {
	out := append([]fmsg(nil), want...)
	var ks []string
	for k := range old {
		ks = append(ks, k)
	}
	sort.Strings(ks)
	for _, k := range ks {
		out = append(out, fmsg{Key: k, Value: old[k], Old: true})
	}
	return out
}

// ---------------------------------------------------------------------------------------------
// hostile cookies

// mpValidStream reports whether b is exactly one well-formed MessagePack object.
func mpValidStream(b []byte) bool {
	rest, ok := mpSkip(b, 0)
	return ok && len(rest) == 0
}

func mpSkip(b []byte, depth int) ([]byte, bool) {
	if len(b) == 0 || depth > 10000 {
		return b, false
	}
	c := b[0]
	need := func(n int) ([]byte, bool) {
		if len(b) < 1+n {
			return b, false
		}
		return b[1+n:], true
	}
	be := func(n int) uint64 {
		var v uint64
		for i := 0; i < n; i++ {
			v = v<<8 | uint64(b[1+i])
		}
		return v
	}
	seq := func(rest []byte, n uint64) ([]byte, bool) {
		ok := true
		for i := uint64(0); i < n && ok; i++ {
			if len(rest) == 0 {
				return rest, false
			}
			rest, ok = mpSkip(rest, depth+1)
		}
		return rest, ok
	}
	blob := func(hdr int) ([]byte, bool) {
		if len(b) < 1+hdr {
			return b, false
		}
		n := be(hdr)
		if uint64(len(b)-1-hdr) < n {
			return b, false
		}
		return b[1+hdr+int(n):], true
	}
	switch {
	case c < 0x80 || c >= 0xe0 || c == 0xc0 || c == 0xc2 || c == 0xc3:
		return b[1:], true
	case c&0xf0 == 0x80:
		return seq(b[1:], 2*uint64(c&0x0f))
	case c&0xf0 == 0x90:
		return seq(b[1:], uint64(c&0x0f))
	case c&0xe0 == 0xa0:
		return need(int(c & 0x1f))
	case c == 0xc4 || c == 0xd9:
		return blob(1)
	case c == 0xc5 || c == 0xda:
		return blob(2)
	case c == 0xc6 || c == 0xdb:
		return blob(4)
	case c == 0xcc || c == 0xd0:
		return need(1)
	case c == 0xcd || c == 0xd1:
		return need(2)
	case c == 0xca || c == 0xce || c == 0xd2:
		return need(4)
	case c == 0xcb || c == 0xcf || c == 0xd3:
		return need(8)
	case c == 0xd4:
		return need(2)
	case c == 0xd5:
		return need(3)
	case c == 0xd6:
		return need(5)
	case c == 0xd7:
		return need(9)
	case c == 0xd8:
		return need(17)
	case c == 0xdc || c == 0xde:
		if len(b) < 3 {
			return b, false
		}
		n := be(2)
		if c == 0xde {
			n *= 2
		}
		return seq(b[3:], n)
	case c == 0xdd || c == 0xdf:
		if len(b) < 5 {
			return b, false
		}
		n := be(4)
		if c == 0xdf {
			n *= 2
		}
		return seq(b[5:], n)
	}
	return b, false // 0xc1, ext8/16/32 (0xc7-0xc9) are not used by the format
}

func hostileCookie(e *ev.Env, c *ev.Case, kind string, cookie []byte) {
	view := serverView(cookie)
	_, wellFormed := mpWellFormed(view)
	if kind == "" || kind == "invalid" || kind == "nonconforming" {
		// Judged are only the classes that are ill-formed under any MessagePack list-of-maps
		// layout: not (complete) MessagePack, bytes after the complete object, a top-level object
		// that is no array. A complete array whose elements are not what fiber writes (missing,
		// extra, differently typed fields) is counted, not judged.
		if rest, ok := mpSkip(view, 0); ok && len(rest) > 0 {
			kind = "trailing-bytes"
		} else if ok && len(view) > 0 && view[0]&0xf0 != 0x90 && view[0] != 0xdc && view[0] != 0xdd {
			kind = "invalid" // top-level object is no array
		} else if ok {
			kind = "nonconforming"
		} else {
			kind = "invalid"
		}
	}
	spec := &flashSpec{}
	var fa *flashApp
	mkApp := func() *fiber.App { fa = buildFlashApp(spec, nil); return fa.app }
	req := append(append([]byte("GET /b HTTP/1.1\r\nHost: flash.example.com\r\nCookie: "+fiber.FlashCookieName+"="), cookie...), "\r\n\r\n"...)
	if e.Quick() || e.Only != "" || (len(cookie) > 0 && cookie[0] >= 0xdc) {
		e.Journal("H " + hexOf(req))
	}
	detail := map[string]any{"cookie_hex": hexOf(cookie), "cookie": show(cookie), "kind": kind}
	if c.ID[:6] != "corpus" && len(view) >= 5 && view[0] == 0xdd {
		// array32 header as the server will see it: at least 2^29 announced elements
		e.Stat("fatal_candidates", 1)
		if !isolated(e, c, "wire.flash", cookie, "") {
			return
		}
	}

	// allocation on a fresh app (fresh context pool), at least twice; the last run also tells
	// what the handler saw
	limit := budget(len(cookie))
	d, out, panicked := measure(e, c, "flash", mkApp, req, limit, 4)
	if panicked {
		return
	}
	e.Eval(1)
	e.Stat("hostile_cookies", 1)
	e.StatMax("max_alloc_hostile_cookie", int64(d))
	if d > limit {
		detail["allocated"], detail["budget"] = d, limit
		e.Violation(c, "flash|decode-alloc", "a cookie of "+itoa(len(cookie))+" bytes made the server allocate "+strconv.FormatUint(d, 10)+" bytes (budget "+
			strconv.FormatUint(limit, 10)+")", detail)
	}
	rs, perr := strict.ParseAll(out, nil)
	rep := *fa.rep
	detail["response"] = show(out)
	switch {
	case perr != nil:
		e.Violation(c, "flash|response-malformed|"+perr.Class, "response rejected by the strict parser: "+perr.Error(), detail)
	case len(rs) == 1 && rs[0].Status == 400 && !rep.ran:
		// fasthttp refuses header values with control bytes; counted, not judged
		e.Stat("hostile_refused_400", 1)
		if !hasCTL(cookie) {
			e.Stat("hostile_refused_400_without_ctl", 1)
		}
	case len(rs) != 1 || !rep.ran:
		e.Violation(c, "flash|follow-up-not-served", "handler B did not run", detail)
	case wellFormed:
		e.Stat("hostile_accidentally_well_formed", 1)
	default:
		flSeen.hostile++
		e.Sample("hostile-"+kind, map[string]any{"cookie": show(cookie), "messages_seen": rep.nMsg, "old_inputs_seen": rep.nOld})
		e.Nontrivial("hostile", kind, itoa(len(view)/4), itoa(min(rep.nMsg, 99)), itoa(min(rep.nOld, 99)))
		if n := rep.nMsg + rep.nOld; n > 0 {
			if kind == "nonconforming" {
				// valid MessagePack that is not an encoding fiber writes (missing / extra /
				// duplicate fields): the statement does not clearly forbid reading it; counted
				e.Stat("hostile_nonconforming_yields_messages", 1)
				return
			}
			cls := "decode-error-keeps-partial-list"
			if kind == "trailing-bytes" {
				cls = "bytes-after-the-encoding-ignored"
			}
			detail["messages_seen"] = n
			if len(rep.messages) > 0 {
				detail["first_message"] = msgKey(rep.messages[0].Key, rep.messages[0].Value, rep.messages[0].Level)
			}
			e.Violation(c, "flash|malformed-cookie-yields-messages|"+cls, "a cookie that is not a well-formed encoding of a message list yields "+itoa(n)+" messages/inputs", detail)
		} else {
			e.Stat("hostile_yields_nothing", 1)
		}
	}
}

// staleCookie: one client's real flash cookie is delivered (N messages with unique marker texts
// and marker levels), then - same server, same pooled context (one P, sequential connections) -
// other clients present cookies that are only an array header, or well-formed lists whose
// elements leave fields out, announcing 1..N+1 elements. Whatever these cookies yield, handler B
// must see none of the first client's texts or levels.
func staleCookie(e *ev.Env, c *ev.Case, first, announce int) {
	r := c.R
	spec := &flashSpec{}
	fa := buildFlashApp(spec, nil)
	marker := "mk" + strings.ReplaceAll(strings.ReplaceAll(c.ID, ":", "x"), "-", "x")
	var ms []fmsg
	for i := 0; i < first; i++ {
		ms = append(ms, fmsg{Key: marker + "-key-" + itoa(i), Value: marker + "-value-of-another-user-" + itoa(i), Level: uint8(200 + i), Old: i%3 == 2})
	}
	_, _, _, p := fa.serveB(e, c, mpFlash(ms), true)
	if p {
		return
	}
	if fa.rep.nMsg+fa.rep.nOld != first {
		e.Stat("stale_first_delivery_incomplete", 1)
		return
	}
	// the probes of the other clients
	var probes [][]byte
	if announce >= 1 && announce <= 15 {
		probes = append(probes, []byte{0x90 | byte(announce)})
	}
	for n := 1; n <= first+1 && n <= 15; n++ {
		b := mpArrayHdr(nil, uint32(n), 0)
		for i := 0; i < n; i++ {
			fields := []string{"key", "value", "level", "isOldInput"}
			gen.Shuffle(r, fields)
			fields = fields[:r.Intn(4)] // 0..3 of the four fields
			b = mpMapHdr(b, uint32(len(fields)), 0)
			for _, f := range fields {
				if f == "level" {
					b = mpUint8(mpStr(b, f), uint8(0x21+r.Intn(0x40))) // never a marker level
				} else {
					b = appendField(b, r, f)
				}
			}
		}
		probes = append(probes, b)
	}
	for _, cookie := range probes {
		rs, perr, out, p := fa.serveB(e, c, cookie, true)
		if p {
			return
		}
		e.Eval(1)
		e.Stat("stale_probes", 1)
		rep := *fa.rep
		if perr != nil || len(rs) != 1 || !rep.ran {
			continue
		}
		flSeen.stale++
		e.Nontrivial("stale", itoa(first), itoa(len(cookie)/4), itoa(min(rep.nMsg, 9)), itoa(min(rep.nOld, 9)))
		leak := ""
		for _, m := range rep.messages {
			if strings.Contains(m.Key, marker) || strings.Contains(m.Value, marker) || m.Level >= 200 {
				leak = msgKey(m.Key, m.Value, m.Level)
			}
		}
		for _, m := range rep.oldInputs {
			if strings.Contains(m.Key, marker) || strings.Contains(m.Value, marker) {
				leak = msgKey(m.Key, m.Value, 0)
			}
		}
		if leak != "" {
			e.Violation(c, "flash|malformed-cookie-yields-messages|previous-request-messages", "a cookie that carries none of it makes the handler see texts or levels of the previous request's messages (pooled context)",
				map[string]any{"first_request_messages": first, "cookie_hex": hexOf(cookie), "cookie": show(cookie), "seen": leak, "response": show(out)})
			return
		}
	}
}

// ---------------------------------------------------------------------------------------------
// chained redirects

// uaClient is a §5.2 user agent for the flash cookie: Set-Cookie lines are applied in order, a
// line replaces or deletes the stored cookie with the same name and path, the value runs to the
// first ';'.
type uaClient struct {
	jar *strict.Jar
	val []byte
}

func (u *uaClient) apply(r *strict.Response, reqPath string) {
	now := serverNow(r)
	for _, l := range r.All("Set-Cookie") {
		if !strings.HasPrefix(l, fiber.FlashCookieName+"=") {
			continue
		}
		_, attrs := splitCookieAttrs([]byte(l))
		synth := fiber.FlashCookieName + "=x"
		if attrs != "" {
			synth += "; " + attrs
		}
		probe := &strict.Jar{}
		storeFrom(probe, synth, now, reqPath)
		storeFrom(u.jar, synth, now, reqPath)
		if probe.Len() > 0 { // not an expiry: this is the value now held
			v := strings.TrimPrefix(l, fiber.FlashCookieName+"=")
			if i := strings.IndexByte(v, ';'); i >= 0 {
				v = v[:i]
			}
			u.val = []byte(strings.Trim(v, " \t"))
		}
	}
}

func (u *uaClient) cookieFor(path string) ([]byte, bool) {
	if holdsFlash(u.jar, path) {
		return u.val, true
	}
	return nil, false
}

// chainScript: A attaches first and redirects to hop 1; every hop must see exactly what the
// handler before it attached, attaches its own messages and redirects on; the final target sees
// the last hop's messages once. All message sets are made of bytes that travel in a cookie.
func chainScript(e *ev.Env, c *ev.Case, spec *flashSpec) {
	var look []string
	sets := append([][]fmsg{spec.msgs}, spec.hops...)
	for _, set := range sets {
		for _, m := range set {
			look = append(look, m.Key)
		}
	}
	fa := buildFlashApp(spec, look)
	ua := &uaClient{jar: &strict.Jar{}}
	detail := map[string]any{"hops": len(spec.hops), "path_a": spec.a(), "path_b": spec.b()}
	for i, set := range sets {
		var ml []string
		for _, m := range set {
			ml = append(ml, msgKey(m.Key, m.Value, m.Level))
		}
		detail["attached_"+itoa(i)] = ml
	}
	e.Stat("chain_scripts", 1)

	path := spec.a()
	for step := 0; step <= len(spec.hops)+1; step++ {
		cookie, has := ua.cookieFor(path)
		if step > 0 && len(sets[step-1]) == 0 && has {
			// the hop before consumed the messages and redirected on without new ones: its
			// response had to expire the cookie
			e.Violation(c, "flash|cookie-not-expired", "hop "+itoa(step-1)+" consumed the messages and redirected without new ones, but the client still holds the flash cookie", detail)
			_, _, _, p := fa.serveAt(e, c, path, cookie, true)
			if !p && fa.rep.ran && fa.rep.nMsg+fa.rep.nOld > 0 {
				e.Violation(c, "flash|delivered-twice", "the target of a redirect that attached nothing sees the messages of the hop before it again", detail)
			}
			return
		}
		if step > 0 && len(sets[step-1]) > 0 && !has {
			e.Violation(c, "flash|chained-redirect|cookie-of-hop-lost", "after hop "+itoa(step-1)+" the client holds no flash cookie for "+path+": the messages that hop attached are not delivered", detail)
			return
		}
		rs, perr, out, p := fa.serveAt(e, c, path, cookie, has)
		if p {
			return
		}
		e.Eval(1)
		detail["response_"+itoa(step)] = show(out)
		if perr != nil || len(rs) != 1 {
			// raw bytes in the cookie: the known finding, judged by the plain scripts
			e.Stat("chain_aborted_unparseable", 1)
			return
		}
		rep := *fa.rep
		if step > 0 {
			if !rep.ran {
				e.Stat("chain_aborted_refused", 1)
				return
			}
			prev := &flashSpec{msgs: sets[step-1], noLevel: make([]bool, len(sets[step-1]))}
			if what, why := diffMessages(prev, expected(prev), nil, &rep); what != "" {
				detail["why"] = why
				e.Violation(c, "flash|chained-redirect|messages-differ-"+what, "hop "+itoa(step)+" does not see what hop "+itoa(step-1)+" attached: "+why, detail)
				return
			}
		}
		ua.apply(rs[0], path)
		if step == len(spec.hops)+1 {
			break
		}
		if rs[0].Status/100 != 3 {
			e.Violation(c, "flash|redirect-response", "hop "+itoa(step)+" did not redirect", detail)
			return
		}
		path = rs[0].Get("Location")
	}
	// the final target consumed the last set: nothing may be left
	if cookie, has := ua.cookieFor(path); has {
		e.Violation(c, "flash|cookie-not-expired", "after the final target the client still holds the flash cookie", detail)
		_, _, _, p := fa.serveAt(e, c, path, cookie, true)
		if !p && fa.rep.ran && fa.rep.nMsg+fa.rep.nOld > 0 {
			e.Violation(c, "flash|delivered-twice", "the final target sees the messages again", detail)
		}
		return
	}
	flSeen.chain++
	e.Stat("chain_scripts_complete", 1)
	e.Nontrivial("chain", itoa(len(spec.hops)), itoa(len(sets[0])), itoa(len(sets[len(sets)-1])), spec.a(), spec.b())
}

// ---------------------------------------------------------------------------------------------
// overlapping requests

// overlapCase: request A (cookie msgsA) is parked in its handler before it reads the messages;
// request B (cookie msgsB) is served completely on another connection meanwhile; then A goes on.
// Each handler must see its own request's messages. Parking is by channels, so the interleaving is
// the same on every run (one P; the second Serve runs on this goroutine).
func overlapCase(e *ev.Env, c *ev.Case, msgsA, msgsB []fmsg) {
	if hungAbort {
		return
	}
	entered, release := make(chan struct{}), make(chan struct{})
	type seen struct {
		ran  bool
		msgs []fiber.FlashMessage
	}
	var sa, sb seen
	read := func(c fiber.Ctx, s *seen) {
		s.ran = true
		for _, m := range c.Redirect().Messages() {
			s.msgs = append(s.msgs, fiber.FlashMessage{Key: strings.Clone(m.Key), Value: strings.Clone(m.Value), Level: m.Level})
		}
	}
	app := fiber.New(fiber.Config{ReadBufferSize: 16384})
	app.Get("/issue/:who", func(c fiber.Ctx) error {
		ms := msgsA
		if c.Params("who") == "b" {
			ms = msgsB
		}
		r := c.Redirect()
		for _, m := range ms {
			r.With(m.Key, m.Value, m.Level)
		}
		return r.To("/b")
	})
	app.Get("/park", func(c fiber.Ctx) error {
		close(entered)
		<-release
		read(c, &sa)
		return c.SendString("a")
	})
	app.Get("/b", func(c fiber.Ctx) error {
		read(c, &sb)
		return c.SendString("b")
	})
	w := drive.NewWire(app)
	// the cookies are the ones the server itself issues for the two sets (whatever its encoding)
	issued := func(who string) ([]byte, bool) {
		var out []byte
		if guard(e, c, "flash", "overlap issue "+who, func() {
			out, _ = w.Serve([]byte("GET /issue/"+who+" HTTP/1.1\r\nHost: flash.example.com\r\n\r\n"), nil)
		}) {
			return nil, false
		}
		v, ok := rawFlashValue(out)
		return v, ok && rawBytesClass(v) == ""
	}
	cookieA, okA := issued("a")
	cookieB, okB := issued("b")
	if !okA || !okB {
		e.Stat("overlap_cookie_cannot_travel", 1)
		return
	}
	req := func(path string, cookie []byte) []byte {
		return append(append([]byte("GET "+path+" HTTP/1.1\r\nHost: flash.example.com\r\nCookie: "+fiber.FlashCookieName+"="), cookie...), "\r\n\r\n"...)
	}
	doneA := make(chan bool, 1)
	go func() {
		doneA <- e.Guard(c, "flash", "overlap A", func() { _, _ = w.Serve(req("/park", cookieA), nil) })
	}()
	select {
	case <-entered:
	case p := <-doneA:
		// the request never reached the handler (refused): nothing to observe
		_ = p
		e.Stat("overlap_a_not_parked", 1)
		return
	}
	pB := e.Guard(c, "flash", "overlap B", func() { _, _ = w.Serve(req("/b", cookieB), nil) })
	close(release)
	pA := <-doneA
	e.Eval(2)
	if pA || pB || !sa.ran || !sb.ran {
		return
	}
	flSeen.overlap++
	e.Stat("overlap_pairs", 1)
	e.Nontrivial("overlap", itoa(len(msgsA)), itoa(len(msgsB)))
	same := func(got []fiber.FlashMessage, want []fmsg) bool {
		if len(got) != len(want) {
			return false
		}
		for i := range want {
			if got[i].Key != want[i].Key || got[i].Value != want[i].Value || got[i].Level != want[i].Level {
				return false
			}
		}
		return true
	}
	list := func(ms []fiber.FlashMessage) []string {
		var out []string
		for _, m := range ms {
			out = append(out, msgKey(m.Key, m.Value, m.Level))
		}
		return out
	}
	var wa, wb []string
	for _, m := range msgsA {
		wa = append(wa, msgKey(m.Key, m.Value, m.Level))
	}
	for _, m := range msgsB {
		wb = append(wb, msgKey(m.Key, m.Value, m.Level))
	}
	detail := map[string]any{"a_carried": wa, "a_saw": list(sa.msgs), "b_carried": wb, "b_saw": list(sb.msgs)}
	if !same(sa.msgs, msgsA) {
		e.Violation(c, "flash|overlapping-requests|handler-sees-messages-of-another-request", "the handler of a request that was under way while another cookie-carrying request was served does not see its own messages", detail)
	} else if !same(sb.msgs, msgsB) {
		e.Violation(c, "flash|overlapping-requests|handler-sees-messages-of-another-request", "the handler of the request served in between does not see its own messages", detail)
	}
}
