package wire

import (
	"bytes"
	"encoding/binary"
	"encoding/hex"
)

// Hand-made zstd and brotli streams. The harness process lives in a small address space
// (ulimit -v), and the real brotli/zstd *encoders* want 8-16 MiB blocks each time their pools
// are emptied by a GC; the generator therefore writes the containers itself: zstd frames of
// RLE/raw blocks (RFC 8878) and brotli streams of uncompressed meta-blocks (RFC 7932), plus
// pre-computed brotli streams for the long runs of one byte.

// zstdFrame encodes b as a single-segment frame; runs of one byte become RLE blocks.
func zstdFrame(b []byte) []byte {
	out := []byte{0x28, 0xb5, 0x2f, 0xfd, 0xa0}
	out = binary.LittleEndian.AppendUint32(out, uint32(len(b)))
	const maxBlock = 128 << 10
	if len(b) == 0 {
		return append(out, 0x01, 0x00, 0x00) // last, raw, size 0
	}
	uniform := true
	for _, c := range b {
		if c != b[0] {
			uniform = false
			break
		}
	}
	for len(b) > 0 {
		n := len(b)
		if n > maxBlock {
			n = maxBlock
		}
		last := uint32(0)
		if n == len(b) {
			last = 1
		}
		typ := uint32(0)
		if uniform {
			typ = 1
		}
		h := last | typ<<1 | uint32(n)<<3
		out = append(out, byte(h), byte(h>>8), byte(h>>16))
		if uniform {
			out = append(out, b[0])
		} else {
			out = append(out, b[:n]...)
		}
		b = b[n:]
	}
	return out
}

var brotliRuns = map[string]string{
	"0:4096":    "1bff0f002400e2b140720f0000",
	"a:16384":   "1bff3f0024c2e2b140726f0000",
	"0:65536":   "1bffff002400e2b14072ef0100",
	"j:262144":  "5bffff0340422d1e0b24f77e00",
	"0:524288":  "5bffff074002201e0b24f7fe00",
	"z:1048576": "5bffff0f40422f1e0b24f7fe01",
}

// brotliStream encodes b: a known long run from the table, anything else uncompressed.
func brotliStream(b []byte) []byte {
	if len(b) >= 4096 {
		uniform := true
		for _, c := range b {
			if c != b[0] {
				uniform = false
				break
			}
		}
		if uniform {
			k := "0"
			if b[0] != 0 {
				k = string(b[:1])
			}
			if h, ok := brotliRuns[k+":"+itoa(len(b))]; ok {
				out, _ := hex.DecodeString(h)
				return out
			}
		}
	}
	if len(b) == 0 {
		return []byte{0x06} // WBITS=16, ISLAST, ISLASTEMPTY
	}
	var out []byte
	first := true
	for len(b) > 0 {
		n := len(b)
		if n > 65536 {
			n = 65536
		}
		// bits, LSB first: [WBITS=0] ISLAST=0 MNIBBLES=00 MLEN-1 (16 bits) ISUNCOMPRESSED=1, pad
		var v uint32
		sh := uint(0)
		if first {
			sh = 1 // the WBITS bit (0 = window 2^16)
		}
		v |= uint32(n-1) << (sh + 3)
		v |= 1 << (sh + 19)
		out = append(out, byte(v), byte(v>>8), byte(v>>16))
		out = append(out, b[:n]...)
		b = b[n:]
		first = false
	}
	return append(out, 0x03) // ISLAST=1, ISLASTEMPTY=1
}

// zstdDeclared returns the largest window a zstd frame header found anywhere in raw announces
// (the decoder allocates its history buffer from this figure before it reads any block).
func zstdDeclared(raw []byte) uint64 {
	var worst uint64
	magic := []byte{0x28, 0xb5, 0x2f, 0xfd}
	for off := 0; ; {
		i := bytes.Index(raw[off:], magic)
		if i < 0 {
			return worst
		}
		p := off + i + 4
		off = p
		if p >= len(raw) {
			return worst
		}
		fhd := raw[p]
		p++
		single := fhd&0x20 != 0
		var window uint64
		if !single {
			if p >= len(raw) {
				continue
			}
			wd := raw[p]
			p++
			base := uint64(1) << (10 + uint(wd>>3))
			window = base + (base/8)*uint64(wd&7)
		}
		p += []int{0, 1, 2, 4}[fhd&3]
		fcsLen := []int{0, 2, 4, 8}[fhd>>6]
		if fhd>>6 == 0 && single {
			fcsLen = 1
		}
		if single {
			if p+fcsLen > len(raw) {
				continue
			}
			var v uint64
			for k := fcsLen - 1; k >= 0; k-- {
				v = v<<8 | uint64(raw[p+k])
			}
			if fcsLen == 2 {
				v += 256
			}
			window = v
		}
		if window > worst {
			worst = window
		}
	}
}

// zstdWindowFrame is a 10-byte frame that declares a window of 2^log bytes and carries one byte.
func zstdWindowFrame(log uint) []byte {
	return []byte{0x28, 0xb5, 0x2f, 0xfd, 0x00, byte((log - 10) << 3), 0x09, 0x00, 0x00, 'x'}
}

// stripChunkLines removes what looks like chunk-size lines (CRLF hex [;ext] CRLF) so that a
// compressed body sent with chunked transfer coding can be scanned as one piece.
func stripChunkLines(raw []byte) []byte {
	out := make([]byte, 0, len(raw))
	for i := 0; i < len(raw); {
		if raw[i] == '\r' && i+1 < len(raw) && raw[i+1] == '\n' {
			j := i + 2
			for j < len(raw) && j < i+2+16 && isHexDigit(raw[j]) {
				j++
			}
			if j > i+2 {
				k := j
				if k < len(raw) && raw[k] == ';' {
					for k < len(raw) && k < j+64 && raw[k] != '\r' {
						k++
					}
				}
				if k+1 < len(raw) && raw[k] == '\r' && raw[k+1] == '\n' {
					i = k + 2
					continue
				}
			}
		}
		out = append(out, raw[i])
		i++
	}
	return out
}

func isHexDigit(c byte) bool {
	return c >= '0' && c <= '9' || c >= 'a' && c <= 'f' || c >= 'A' && c <= 'F'
}
