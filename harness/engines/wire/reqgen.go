package wire

import (
	"bytes"
	"compress/flate"
	"compress/gzip"
	"compress/zlib"
	"fmt"
	"strings"

	"verifharness/internal/gen"
)

// hf is one request header field; a slice keeps the order.
type hf struct{ K, V string }

// rq is a generated request before serialisation. The generator keeps the structure, so the
// oracles know the shape of what was sent without parsing it back.
type rq struct {
	Method string
	Target string
	Proto  string
	Hdr    []hf
	Body   []byte // entity body before transfer framing
	Chunk  bool   // send chunked
	NoLen  bool   // omit Content-Length (bodyless)
	Rid    string
	Op     int
	// Class is set for requests built to fall into exactly one unambiguous status class.
	Class  string // "", unknown-method, header-too-large, body-too-large, bad-request-line
	Line   string // raw request line override (bad-request-line)
	Expect int    // status the class maps to
	Word   string // a word of fasthttp's / fiber's error vocabulary planted in the request bytes
	Shape  []string
	chunks []int
}

func (q *rq) has(s string) bool {
	for _, x := range q.Shape {
		if x == s {
			return true
		}
	}
	return false
}

func (q *rq) bytes(r *gen.Rand) []byte {
	var b bytes.Buffer
	if q.Line != "" {
		b.WriteString(q.Line)
	} else {
		b.WriteString(q.Method + " " + q.Target + " " + q.Proto)
	}
	b.WriteString("\r\n")
	for _, h := range q.Hdr {
		b.WriteString(h.K + ": " + h.V + "\r\n")
	}
	switch {
	case q.Chunk:
		b.WriteString("Transfer-Encoding: chunked\r\n\r\n")
		body := q.Body
		for len(body) > 0 {
			n := r.Range(1, 1+len(body))
			if n > len(body) {
				n = len(body)
			}
			ext := ""
			if r.Chance(1, 10) {
				ext = ";x=" + r.Ident(1, 3)
			}
			fmt.Fprintf(&b, "%x%s\r\n", n, ext)
			b.Write(body[:n])
			b.WriteString("\r\n")
			body = body[n:]
		}
		b.WriteString("0\r\n")
		if r.Chance(1, 10) {
			b.WriteString("X-Trailer: t\r\n")
		}
		b.WriteString("\r\n")
	case q.NoLen && len(q.Body) == 0:
		b.WriteString("\r\n")
	default:
		fmt.Fprintf(&b, "Content-Length: %d\r\n\r\n", len(q.Body))
		b.Write(q.Body)
	}
	return b.Bytes()
}

// ---------------------------------------------------------------------------------------------

type genCtx struct {
	r       *gen.Rand
	methods []string // configured method set
	maxHdr  int      // soft cap for the header block of ordinary requests
	maxBody int      // soft cap for ordinary bodies
	rbuf    int      // ReadBufferSize of the app
	blimit  int      // BodyLimit of the app
}

var pathPool = []string{"/ks", "/ks/alpha/beta", "/ks/al%20pha", "/ks/%E2%9C%93/x", "/w/a/b/c", "/w/", "/c/42", "/c/notint",
	"/c/-7", "/ks/a%2Fb/c", "/ks/%zz", "/ks/" + strings.Repeat("p", 70), "/nope", "/", "*", "/ks/..%2f..", "/KS", "/ks/",
	"/ks/a/b/", "//ks", "/w/%00", "/ks/%", "/ks/a%"}

func (g *genCtx) path() string {
	r := g.r
	switch r.Intn(10) {
	case 0:
		return "http://abs.example.org:8080" + gen.Pick(r, pathPool[:8])
	case 1:
		return "/ks/" + pctString(r, r.Range(0, 12)) + "/" + pctString(r, r.Range(0, 6))
	case 2:
		return "/w/" + pctString(r, r.Range(0, 40))
	default:
		return gen.Pick(r, pathPool)
	}
}

const urlSafe = gen.AlphaNum + "-._~"

// indexKey yields a key that addresses a field of an element of a slice of structs, in dot or
// bracket notation, with indices that are fine, negative, huge, not numbers, missing or nested.
func indexKey(r *gen.Rand) string {
	idx := func() string {
		return gen.Pick(r, []string{"0", "1", "2", "7", "-1", "-0", "-99999999999999999999", "99999999999", "4294967296", "9223372036854775807", "x", "",
			"1e3", "0x1", " 1", "1.5", "00", "+1", itoa(r.Intn(40))})
	}
	field := gen.Pick(r, []string{"name", "qty", "tags", "nope", ""})
	root := gen.Pick(r, []string{"items", "items", "items", "sub", "tags", "name"})
	depth := 1 + r.PickW(6, 2, 1)
	var sb strings.Builder
	sb.WriteString(root)
	dots := r.Bool()
	for i := 0; i < depth; i++ {
		if dots {
			sb.WriteString("." + idx())
		} else {
			sb.WriteString("[" + idx() + "]")
		}
	}
	switch {
	case dots:
		sb.WriteString("." + field)
	case r.Chance(1, 8):
		sb.WriteString("[" + field) // unbalanced
	default:
		sb.WriteString("[" + field + "]")
	}
	return sb.String()
}

// pctString yields a path/query component with literal, escaped, UTF-8 and broken escapes.
func pctString(r *gen.Rand, n int) string {
	var sb strings.Builder
	for i := 0; i < n; i++ {
		switch r.Intn(12) {
		case 0:
			fmt.Fprintf(&sb, "%%%02X", r.Byte())
		case 1:
			sb.WriteString(gen.Pick(r, []string{"%00", "%0d%0a", "%2F", "%25", "%C3%A9", "%ff", "%", "%4", "%zz", "+", "%20"}))
		case 2:
			sb.WriteString(gen.Pick(r, []string{"é", "✓", "日本", ",", ":", "'", "(", ")", "!", "$", "@"}))
		default:
			sb.WriteByte(urlSafe[r.Intn(len(urlSafe))])
		}
	}
	return sb.String()
}

func (g *genCtx) query(rid string, op int) string {
	r := g.r
	parts := []string{"rid=" + rid, "op=" + itoa(op)}
	n := r.Range(0, 6)
	for i := 0; i < n; i++ {
		switch r.Intn(12) {
		case 0:
			parts = append(parts, "name="+pctString(r, r.Range(0, 16)))
		case 1:
			parts = append(parts, "n="+gen.Pick(r, []string{"1", "-5", "99999999999999999999", "abc", "", "1e3", "0x10"}))
		case 2:
			parts = append(parts, "tags="+r.Ident(1, 4)+","+r.Ident(1, 4))
		case 3:
			parts = append(parts, "tags[]="+r.Ident(1, 4), "tags[]="+r.Ident(1, 4))
		case 4:
			parts = append(parts, "f.a="+pctString(r, 4), "f[b]="+pctString(r, 4))
			if r.Bool() {
				parts = append(parts, indexKey(r)+"="+r.Ident(0, 4), indexKey(r)+"="+itoa(r.Intn(9)))
			}
		case 5:
			parts = append(parts, "size="+gen.Pick(r, []string{"0", "1", "100", "1000", "1048576"}))
		case 6:
			parts = append(parts, pctString(r, r.Range(0, 8))+"="+pctString(r, r.Range(0, 8)))
		case 7:
			parts = append(parts, "ok="+gen.Pick(r, []string{"true", "false", "1", "x"}))
		case 8:
			parts = append(parts, gen.Pick(r, []string{"&&", "=", "a", "a=b=c", "%", "a[", "a[]]=1", "a[0][b]=1", "a.b.c.d=1"}))
		case 9:
			parts = append(parts, "f="+gen.Pick(r, []string{"1.5", "nan", "inf", "-0", "1e400"}))
		default:
			parts = append(parts, r.Ident(1, 5)+"="+r.Ident(0, 8))
		}
	}
	// rid and op stay first so that a later duplicate does not hide them from the handler
	rest := parts[2:]
	gen.Shuffle(r, rest)
	return strings.Join(parts, "&")
}

var hostPool = []string{"example.com", "a.b.example.com", "tobi.ferrets.example.com:8080", "localhost", "[::1]:80", "[2001:db8::1]",
	"a..b", ".", "...", "x", "a.b.c.d.e.f.g.h.i.j", "example.com.", "127.0.0.1:3000", "UPPER.Example.COM", "xn--bcher-kva.example",
	":80", "a:b:c", "host name", "a.b.c:", "é.example"}

func (g *genCtx) rangeHdr() string {
	r := g.r
	switch r.Intn(14) {
	case 0:
		return "bytes=0-499"
	case 1:
		return "bytes=-5"
	case 2:
		return "bytes=5-"
	case 3:
		return "bytes=500-700, 700-900"
	case 4:
		return "bytes=5-2"
	case 5:
		return "bytes=99999999999999999999-"
	case 6:
		return "bytes=-99999999999999999999"
	case 7:
		return gen.Pick(r, []string{"bytes", "bytes=", "=", "bytes=a-b", "bytes=1", "bytes=-", "bytes=--1", "bytes=1-2-3", "bytes=1-2=3",
			"items=0-5", "bytes= 0 - 5", "bytes=0-0,-1", "bytes=,", "bytes=,,0-1,,", "-", "bytes=9223372036854775807-", "bytes=-9223372036854775807",
			"bytes=0-9223372036854775807", "bytes=-0", "bytes=0-0"})
	case 8:
		var p []string
		for i, n := 0, r.Range(1, 30); i < n; i++ {
			a, b := r.Intn(2000), r.Intn(2000)
			p = append(p, fmt.Sprintf("%d-%d", a, b))
		}
		return "bytes=" + strings.Join(p, ",")
	default:
		a := r.Intn(1200)
		return fmt.Sprintf("bytes=%d-%d", a, a+r.Intn(300))
	}
}

var mediaPool = []string{"text/html", "application/json", "text/plain", "application/xml", "*/*", "text/*", "image/png",
	"application/vnd.api+json", "application/*", "text/html;level=1", "*", "application/problem+json", "a/b",
	// ranges without a subtype, with an empty one, and look-alikes of the offers' types
	"text", "application", "image", "text/", "/html", "texthtml", "textual/plain", "tex/html", "text/htm"}

func (g *genCtx) acceptHdr(pool []string) string {
	r := g.r
	if r.Chance(1, 8) {
		return gen.Pick(r, []string{"", ",", ",,,", ";", ";q=", "*/*;q=", "text/html;q=abc", "text/html;q=1.5", "text/html;q=-1", "q=0.5",
			"text/html; charset=\"a,b\"; q=0.1, */*", "text/html;;;;", "text/html;q=0.5;q=0.9", "a/b;c=\"", "text/html , , application/json",
			strings.Repeat("a/b,", 60), "text/html;" + strings.Repeat("p=v;", 40), "text/html;q=0.0000000001", "text/html;q=0", " \t "})
	}
	n := r.Range(1, 6)
	var p []string
	for i := 0; i < n; i++ {
		s := gen.Pick(r, pool)
		if r.Chance(1, 4) {
			s += ";" + r.Ident(1, 3) + "=" + gen.Pick(r, []string{"1", "x", "\"q,z\"", "\"a;b\"", ""})
		}
		if r.Chance(1, 2) {
			s += gen.Pick(r, []string{";q=", "; q=", " ;q=", ";Q="}) + gen.Pick(r, []string{"0", "0.1", "0.5", "0.9", "1", "1.0", "0.001", "0.55"})
		}
		p = append(p, s)
	}
	return strings.Join(p, gen.Pick(r, []string{",", ", ", " , "}))
}

func (g *genCtx) xff() string {
	r := g.r
	if r.Chance(1, 6) {
		return gen.Pick(r, []string{"", ",", ",,", " ", " , ", "1.1.1.1,", ",1.1.1.1", "1.1.1.1,,2.2.2.2", "::", ":", ".", "1.1.1", "256.1.1.1",
			"1.1.1.1:80", "[::1]", "unknown", strings.Repeat("1.1.1.1, ", 50), strings.Repeat(",", 200), "::ffff:1.2.3.4", "1::2::3"})
	}
	n := r.Range(1, 5)
	var p []string
	for i := 0; i < n; i++ {
		switch r.Intn(4) {
		case 0:
			p = append(p, fmt.Sprintf("%d.%d.%d.%d", r.Intn(300), r.Intn(256), r.Intn(256), r.Intn(256)))
		case 1:
			p = append(p, gen.Pick(r, []string{"::1", "2001:db8::1", "fe80::1%eth0", "::ffff:10.0.0.1", "2001:db8:0:0:0:0:0:1"}))
		case 2:
			p = append(p, r.Ident(1, 6))
		default:
			p = append(p, fmt.Sprintf("10.0.%d.%d", r.Intn(256), r.Intn(256)))
		}
	}
	return strings.Join(p, gen.Pick(r, []string{",", ", ", " ,  "}))
}

func (g *genCtx) etagHdr() string {
	r := g.r
	return gen.Pick(r, []string{`"abc"`, `W/"abc"`, `"abc", "def"`, `*`, `"sink-etag"`, `W/"sink-etag"`, `"x", W/"sink-etag" , "y"`, `"`, `W/`,
		`,`, ` , , `, `"unterminated`, `"a","b",`, `W/"a" W/"b"`, strings.Repeat(`"e",`, 50), `""`, ` "sink-etag" `, `abc`, "\t", `"sink-etag`})
}

// cacheControl yields a directive list: repeated directives, quoted arguments, look-alikes of
// no-cache as a substring of other tokens and inside quoted strings.
func (g *genCtx) cacheControl() string {
	r := g.r
	if r.Chance(1, 6) {
		return gen.Pick(r, []string{"no-cache", "max-age=0", "xno-cache", "no-cachex", "NO-CACHE", "", ",", "no-cache,", ",no-cache", "no-cache no-cache"})
	}
	pool := []string{"no-cache", "no-cache=\"set-cookie\"", "no-cache=\"x\"", "x-no-cache", "no-cache-extension", "private=\"no-cache\"", "private=\"x-no-cache\"",
		"max-age=0", "no-store", "must-revalidate", "public", "private", "ext=\"a, no-cache, b\"", "no-cache=", "s-maxage=0", "xno-cache", "no-cachex"}
	var p []string
	for i, n := 0, r.Range(1, 5); i < n; i++ {
		p = append(p, gen.Pick(r, pool))
	}
	return strings.Join(p, gen.Pick(r, []string{", ", ",", " , ", ";"}))
}

func (g *genCtx) dateHdr() string {
	return gen.Pick(g.r, []string{"Wed, 21 Oct 2015 07:28:00 GMT", "Mon, 01 Jan 2024 00:00:00 GMT", "Monday, 01-Jan-24 00:00:00 GMT",
		"Mon Jan  1 00:00:00 2024", "garbage", "", "0", "Wed, 21 Oct 2015 07:28:00", "Tue, 01 Jan 2030 00:00:00 GMT", "Thu, 01 Jan 1970 00:00:00 GMT"})
}

// flashCookie returns a fiber_flash cookie value (bytes >= 0x20 unless ctl is true) and its kind.
func (g *genCtx) flashCookie() (val []byte, kind string) {
	r := g.r
	safe := func(n int) string {
		b := make([]byte, n)
		for i := range b {
			b[i] = byte(0x21 + r.Intn(0x7e-0x21))
			if b[i] == ';' {
				b[i] = 'x'
			}
		}
		return string(b)
	}
	mk := func(n int) []fmsg {
		ms := make([]fmsg, n)
		for i := range ms {
			ms[i] = fmsg{Key: safe(r.Range(1, 6)), Value: safe(r.Range(0, 12)), Level: uint8(0x21 + r.Intn(0x5d)), Old: r.Chance(1, 3)}
			if ms[i].Level == ';' {
				ms[i].Level = 'x'
			}
		}
		return ms
	}
	switch r.Intn(9) {
	case 0, 1:
		return mpFlash(mk(r.Range(0, 4))), "valid"
	case 2:
		b := mpFlash(mk(r.Range(1, 3)))
		return b[:r.Intn(len(b))], "truncated"
	case 3:
		// array16 header announcing more than there is; every byte stays >= 0x21 so that
		// fasthttp's header-value check lets it through (8481..65535 elements). array32 with
		// printable bytes announces >= 2^29 elements and is left to the isolated families.
		hb := func() byte {
			b := byte(0x21 + r.Intn(0xdf))
			if b == ';' {
				b = 0xff
			}
			return b
		}
		b := []byte{0xdc, hb(), hb()}
		if r.Bool() {
			b = append(b, mpMsg(nil, mk(1)[0])...)
		}
		return b, "array-announce"
	case 4:
		// map header announcing a huge number of fields
		b := mpArrayHdr(nil, 1, 0)
		b = mpMapHdr(b, 0xffffffff, 32)
		b = mpStr(mpStr(b, "key"), "k")
		return b, "map-announce"
	case 5:
		// string header announcing a huge length
		b := mpArrayHdr(nil, 1, 0)
		b = mpMapHdr(b, 4, 0)
		b = mpStr(b, "key")
		b = append(b, 0xdb, 0xff, 0xff, 0xff, 0xff, 'a', 'b')
		return b, "str-announce"
	case 6:
		// unknown field whose value is deeply nested (msgp.Skip recursion)
		b := mpArrayHdr(nil, 1, 0)
		b = mpMapHdr(b, 1, 0)
		b = mpStr(b, "zz")
		for i, n := 0, r.Range(1, 300); i < n; i++ {
			b = append(b, 0x91)
		}
		b = append(b, 0xc0)
		return b, "nested-skip"
	case 7:
		b := make([]byte, r.Range(1, 40))
		for i := range b {
			b[i] = byte(0x20 + r.Intn(0xe0))
		}
		return b, "random"
	default:
		ms := mk(r.Range(1, 3))
		b := mpFlash(ms)
		if len(b) > 3 {
			b[r.Intn(len(b))] = byte(0x20 + r.Intn(0xe0))
		}
		return b, "corrupted"
	}
}

func (g *genCtx) cookieHdr(q *rq) string {
	r := g.r
	var p []string
	n := r.Range(0, 4)
	for i := 0; i < n; i++ {
		switch r.Intn(6) {
		case 0:
			p = append(p, "name="+r.Ident(0, 8), gen.Pick(r, []string{"n=1", indexKey(r) + "=x"}))
		case 1:
			p = append(p, r.Ident(1, 5)+"=\""+r.Ident(0, 6)+"\"")
		case 2:
			p = append(p, gen.Pick(r, []string{"", "=", "a", "=b", "a==b", " ", "a=b=c", "\"", "a=\"", "n=1;;n=2"}))
		default:
			p = append(p, r.Ident(1, 6)+"="+r.StringFrom(gen.AlphaNum+"-_.%", r.Range(0, 16)))
		}
	}
	if r.Chance(2, 5) {
		v, kind := g.flashCookie()
		q.Shape = append(q.Shape, "flash", "flash-"+kind)
		p = append(p, "fiber_flash="+string(v))
		gen.Shuffle(r, p)
	}
	return strings.Join(p, gen.Pick(r, []string{"; ", ";", " ; "}))
}

// ---------------------------------------------------------------------------------------------
// bodies

// ceKinds are the fixed payloads that are sent compressed.
var ceKinds = []struct {
	ctype string
	data  func() []byte
}{
	{"application/json", func() []byte { return []byte(`{"name":"compressed","n":7,"tags":["a","b"],"ok":true,"f":1.5}`) }},
	{"application/xml", func() []byte { return []byte(`<sinkBind><name>compressed</name><n>7</n><tags>a</tags></sinkBind>`) }},
	{"application/x-www-form-urlencoded", func() []byte { return []byte(`name=compressed&n=7&tags=a&tags=b`) }},
	{"multipart/form-data; boundary=XbOuNdArY", func() []byte {
		return []byte("--XbOuNdArY\r\nContent-Disposition: form-data; name=\"name\"\r\n\r\ncompressed\r\n--XbOuNdArY\r\nContent-Disposition: form-data; name=\"file\"; filename=\"a.txt\"\r\nContent-Type: text/plain\r\n\r\nhello\r\n--XbOuNdArY--\r\n")
	}},
	{"", func() []byte { return []byte("plain bytes") }},
	{"", func() []byte { return nil }},
	// highly compressible payloads (the inflate hazard): 4 KiB .. 1 MiB
	{"", func() []byte { return make([]byte, 4<<10) }},
	{"", func() []byte { return bytes.Repeat([]byte{'a'}, 16<<10) }},
	{"", func() []byte { return make([]byte, 64<<10) }},
	{"", func() []byte { return bytes.Repeat([]byte{'j'}, 256<<10) }},
	{"", func() []byte { return make([]byte, 512<<10) }},
	{"", func() []byte { return bytes.Repeat([]byte{'z'}, 1<<20) }},
}

const ceFirstBomb = 6

var ceCache = map[string][]byte{}

// cePayload returns ceKinds[kind] with the encodings of list applied in order.
func cePayload(list []string, kind int, rawDeflate bool) []byte {
	key := strings.Join(list, ",") + "|" + itoa(kind)
	if rawDeflate {
		key += "|raw"
	}
	if b, ok := ceCache[key]; ok {
		return b
	}
	b := ceKinds[kind].data()
	for _, enc := range list {
		if enc == "deflate" && rawDeflate {
			enc = "rawdeflate"
		}
		b = encodeBody(enc, b)
	}
	ceCache[key] = b
	return b
}

func encodeBody(enc string, b []byte) []byte {
	var out bytes.Buffer
	switch enc {
	case "gzip":
		w := gzip.NewWriter(&out)
		w.Write(b)
		w.Close()
	case "deflate":
		w := zlib.NewWriter(&out) // fasthttp's BodyInflate expects the zlib container
		w.Write(b)
		w.Close()
	case "rawdeflate":
		w, _ := flate.NewWriter(&out, 6)
		w.Write(b)
		w.Close()
	case "br":
		return brotliStream(b)
	case "zstd":
		return zstdFrame(b)
	default:
		return b
	}
	return out.Bytes()
}

func (g *genCtx) jsonBody() []byte {
	r := g.r
	switch r.Intn(8) {
	case 0:
		return []byte(gen.Pick(r, []string{"", "{", "[", "null", "1", "\"s\"", "{\"name\":}", "{\"name\":1}", "{\"n\":\"x\"}", "{\"tags\":\"notarray\"}",
			strings.Repeat("[", 200), strings.Repeat("{\"a\":", 100), "{\"name\":\"\\ud800\"}", "{\"n\":1e999}", "\xff\xfe"}))
	default:
		return []byte(fmt.Sprintf(`{"name":%q,"n":%d,"tags":[%q,%q],"ok":%v,"f":%g}`, r.Ident(0, 10), r.Intn(1000)-500, r.Ident(1, 3), r.Ident(1, 3), r.Bool(), float64(r.Intn(1000))/7))
	}
}

func (g *genCtx) xmlBody() []byte {
	r := g.r
	if r.Chance(1, 5) {
		return []byte(gen.Pick(r, []string{"", "<", "<a>", "<sinkBind><name>x</name>", "<?xml version=\"1.0\"?>", "<a><b></a></b>", strings.Repeat("<a>", 200),
			"<!DOCTYPE x [<!ENTITY e \"eeeeeeeeee\">]><sinkBind><name>&e;&e;&e;</name></sinkBind>"}))
	}
	return []byte(fmt.Sprintf("<sinkBind><name>%s</name><n>%d</n><tags>%s</tags></sinkBind>", r.Ident(0, 10), r.Intn(100), r.Ident(1, 4)))
}

func (g *genCtx) formBody() []byte {
	r := g.r
	var p []string
	for i, n := 0, r.Range(0, 6); i < n; i++ {
		switch r.Intn(5) {
		case 0:
			p = append(p, "name="+pctString(r, r.Range(0, 12)))
		case 1:
			p = append(p, "n="+itoa(r.Intn(100)))
		case 2:
			p = append(p, "tags="+r.Ident(1, 4), "tags="+r.Ident(1, 4))
		case 3:
			p = append(p, gen.Pick(r, []string{"&", "=", "%", "a[b]=1", "a.b=2", "tags[]=x", "a[", "]=["}), indexKey(r)+"="+r.Ident(0, 4))
		default:
			p = append(p, r.Ident(1, 5)+"="+pctString(r, r.Range(0, 10)))
		}
	}
	return []byte(strings.Join(p, "&"))
}

// multipartBody returns the body and the boundary parameter text for Content-Type.
func (g *genCtx) multipartBody() ([]byte, string) {
	r := g.r
	bnd := gen.Pick(r, []string{"XbOuNdArY", "----WebKitFormBoundary7MA4YWxkTrZu0gW", "b", strings.Repeat("B", 70), "a'b(c)", "x y"})
	var b bytes.Buffer
	for i, n := 0, r.Range(0, 4); i < n; i++ {
		b.WriteString("--" + bnd + "\r\n")
		switch r.Intn(4) {
		case 0:
			fmt.Fprintf(&b, "Content-Disposition: form-data; name=\"file\"; filename=%q\r\nContent-Type: %s\r\n\r\n", gen.Pick(r, []string{"a.txt", "../../etc/passwd", "", "é.png", "a\"b.txt", strings.Repeat("f", 100)}),
				gen.Pick(r, []string{"text/plain", "application/octet-stream", "", "x"}))
			b.Write(r.Bytes(r.Range(0, 60)))
		case 1:
			fmt.Fprintf(&b, "Content-Disposition: form-data; name=\"name\"\r\n\r\n%s", r.Ident(0, 10))
		case 2:
			b.WriteString(gen.Pick(r, []string{"Content-Disposition: form-data\r\n\r\nx", "X: y\r\n\r\n", "\r\n", "Content-Disposition: form-data; name=\r\n\r\n",
				"Content-Disposition: attachment; name=\"a\"\r\n\r\nv", "Content-Disposition: form-data; name=\"a\"; name=\"b\"\r\n\r\nv"}))
		default:
			fmt.Fprintf(&b, "Content-Disposition: form-data; name=%q\r\n\r\n%s", gen.Pick(r, []string{r.Ident(1, 5), indexKey(r)}), r.Ident(0, 8))
		}
		b.WriteString("\r\n")
	}
	switch r.Intn(8) {
	case 0: // no closing delimiter
	case 1:
		b.WriteString("--" + bnd + "\r\n")
	default:
		b.WriteString("--" + bnd + "--\r\n")
	}
	param := "boundary=" + bnd
	switch r.Intn(8) {
	case 0:
		param = "boundary=\"" + bnd + "\""
	case 1:
		param = gen.Pick(r, []string{"", "boundary=", "boundary", "boundary=\"", "boundary=other", "charset=utf-8", "boundary=a; boundary=b", "BOUNDARY=" + bnd})
	}
	return b.Bytes(), param
}

var encPool = []string{"gzip", "deflate", "br", "zstd"}

// body fills content type, encoding headers and the body for a method that carries one.
func (g *genCtx) body(q *rq) {
	r := g.r
	var b []byte
	ct := ""
	switch r.Intn(8) {
	case 0, 1:
		b, ct = g.jsonBody(), gen.Pick(r, []string{"application/json", "application/json; charset=utf-8", "application/vnd.api+json", "APPLICATION/JSON", " application/json"})
		q.Shape = append(q.Shape, "json")
	case 2:
		b, ct = g.xmlBody(), gen.Pick(r, []string{"application/xml", "text/xml", "application/xml; charset=utf-8"})
		q.Shape = append(q.Shape, "xml")
	case 3, 4:
		b, ct = g.formBody(), gen.Pick(r, []string{"application/x-www-form-urlencoded", "application/x-www-form-urlencoded; charset=UTF-8"})
		q.Shape = append(q.Shape, "form")
	case 5, 6:
		var p string
		b, p = g.multipartBody()
		ct = "multipart/form-data"
		if p != "" {
			ct += gen.Pick(r, []string{"; ", ";"}) + p
		}
		q.Shape = append(q.Shape, "multipart")
	default:
		b = r.Bytes(r.Range(0, 80))
		ct = gen.Pick(r, []string{"", "application/octet-stream", "text/plain", "application/cbor", "application/msgpack", "x", "/", ";", "a/b;c"})
	}
	if r.Chance(1, 4) {
		// Content-Encoding list, applied in order (first listed = applied first). Compressed
		// bodies come from a lazily built table of fixed payloads (see cePayload): running the
		// brotli/zstd encoders per case would dominate the process's small address space.
		n := r.PickW(6, 2, 1, 1)
		var list []string
		for i := 0; i <= n; i++ {
			list = append(list, gen.Pick(r, encPool))
		}
		kind := r.Intn(len(ceKinds))
		if r.Chance(1, 3) {
			kind = ceFirstBomb + r.Intn(len(ceKinds)-ceFirstBomb)
			if g.maxBody > 0 && g.maxBody < 4096 {
				kind = ceFirstBomb + r.Intn(4) // up to 256 KiB behind a 1 KiB body limit
			}
		}
		if kind >= ceFirstBomb {
			q.Shape = append(q.Shape, "inflate-bomb")
		}
		raw := r.Chance(1, 8)
		b = append([]byte(nil), cePayload(list, kind, raw)...)
		if r.Chance(1, 25) {
			// zstd frame announcing a 1..4 MiB window for one byte of content
			list = []string{"zstd"}
			b = zstdWindowFrame(uint(r.Range(20, 22)))
			q.Shape = append(q.Shape, "zstd-window")
		}
		if ceKinds[kind].ctype != "" {
			ct = ceKinds[kind].ctype
		}
		hv := strings.Join(list, gen.Pick(r, []string{", ", ","}))
		switch r.Intn(10) {
		case 0:
			if len(b) > 2 {
				b = b[:r.Range(1, len(b)-1)]
				q.Shape = append(q.Shape, "ce-truncated")
			}
		case 1:
			hv = gen.Pick(r, []string{"identity", "gzip, identity", "x-gzip", "GZIP", "compress", ",", "gzip,,br", "gzip;q=1", "brotli", " gzip ", "gzip, gzip, gzip, gzip, gzip"})
			q.Shape = append(q.Shape, "ce-mismatch")
		}
		q.Hdr = append(q.Hdr, hf{"Content-Encoding", hv})
		q.Shape = append(q.Shape, "ce")
	}
	if ct != "" {
		q.Hdr = append(q.Hdr, hf{"Content-Type", ct})
	}
	if g.maxBody > 0 && len(b) > g.maxBody {
		b = b[:g.maxBody]
	}
	q.Body = b
	q.Chunk = r.Chance(1, 4)
}

// ---------------------------------------------------------------------------------------------

var bodyMethods = map[string]bool{"POST": true, "PUT": true, "PATCH": true, "DELETE": true, "PURGE": true, "LOCK": true}

// method picks a configured method; the first three of the set are favoured.
func (g *genCtx) method() string {
	r := g.r
	if r.Chance(3, 4) {
		return g.methods[r.Intn(min(3, len(g.methods)))]
	}
	return gen.Pick(r, g.methods)
}

// request generates one ordinary (class-less) request.
func (g *genCtx) request(rid string) *rq {
	r := g.r
	q := &rq{Rid: rid, Proto: "HTTP/1.1", Op: r.Intn(12)}
	if r.Chance(1, 8) {
		q.Op = 12 + r.Intn(nOps-12) // SendFile from in-memory file systems
	}
	q.Method = g.method()
	if r.Chance(1, 30) {
		q.Proto = "HTTP/1.0"
	}
	q.Target = g.path() + "?" + g.query(rid, q.Op)
	if r.Chance(1, 40) {
		q.Target = g.path() // no query: handler runs without a rid
	}
	if !r.Chance(1, 50) {
		q.Hdr = append(q.Hdr, hf{"Host", gen.Pick(r, hostPool)})
	}
	type hgen struct {
		name string
		f    func() string
	}
	opts := []hgen{
		{"Range", g.rangeHdr},
		{"Accept", func() string { return g.acceptHdr(mediaPool) }},
		{"Accept-Charset", func() string { return g.acceptHdr([]string{"utf-8", "iso-8859-1", "*", "UTF-8", "ascii"}) }},
		{"Accept-Encoding", func() string { return g.acceptHdr([]string{"gzip", "br", "deflate", "zstd", "identity", "*"}) }},
		{"Accept-Language", func() string { return g.acceptHdr([]string{"en", "en-US", "fr", "de-CH", "*", "zh-Hant-TW", "en-us"}) }},
		{"Cookie", nil},
		{"X-Forwarded-For", g.xff},
		{"X-Forwarded-Host", func() string { return gen.Pick(r, hostPool) + gen.Pick(r, []string{"", ", proxy.example", ","}) }},
		{"X-Forwarded-Proto", func() string { return gen.Pick(r, []string{"https", "http", "https, http", "", ",", "wss", "HTTPS"}) }},
		{"X-Forwarded-Protocol", func() string { return gen.Pick(r, []string{"https", "http", ""}) }},
		{"X-Forwarded-Ssl", func() string { return gen.Pick(r, []string{"on", "off", ""}) }},
		{"X-Url-Scheme", func() string { return gen.Pick(r, []string{"https", "http", "x"}) }},
		{"If-None-Match", g.etagHdr},
		{"If-Modified-Since", g.dateHdr},
		{"Cache-Control", g.cacheControl},
		{"X-Requested-With", func() string { return gen.Pick(r, []string{"XMLHttpRequest", "xmlhttprequest", "x"}) }},
		{"Referer", func() string {
			return gen.Pick(r, []string{"http://ref.example/p?q=1", "/local", "", "javascript:alert(1)", "http://é/"})
		}},
		{"X-Name", func() string { return r.Ident(0, 8) }},
		{"items." + gen.Pick(r, []string{"0", "-1", "99999999999", "x", "1.-1"}) + ".name", func() string { return r.Ident(0, 4) }},
		{"X-N", func() string { return gen.Pick(r, []string{"1", "x", "-1", "99999999999"}) }},
		{"Connection", func() string {
			return gen.Pick(r, []string{"keep-alive", "close", "Keep-Alive", "upgrade", "close, keep-alive", ""})
		}},
		{"User-Agent", func() string { return "ua/" + r.Ident(1, 5) }},
		{"Origin", func() string { return "http://" + gen.Pick(r, hostPool) }},
	}
	nh := r.Range(0, 7)
	for i := 0; i < nh; i++ {
		h := opts[r.Intn(len(opts))]
		if h.name == "Cookie" {
			q.Hdr = append(q.Hdr, hf{"Cookie", g.cookieHdr(q)})
			continue
		}
		if h.name == "Cache-Control" && r.Chance(3, 4) {
			// Fresh() looks at Cache-Control only for conditional requests
			if r.Bool() {
				q.Hdr = append(q.Hdr, hf{"If-None-Match", g.etagHdr()})
			} else {
				q.Hdr = append(q.Hdr, hf{"If-Modified-Since", g.dateHdr()})
			}
		}
		name := h.name
		if r.Chance(1, 12) {
			name = gen.Pick(r, []string{strings.ToLower(name), strings.ToUpper(name)})
		}
		q.Hdr = append(q.Hdr, hf{name, h.f()})
	}
	if r.Chance(1, 60) {
		q.Hdr = append(q.Hdr, hf{"Expect", "100-continue"})
	}
	if bodyMethods[q.Method] && r.Chance(4, 5) {
		g.body(q)
	} else {
		q.NoLen = r.Chance(2, 3)
	}
	// keep ordinary requests below the app's header buffer
	for g.hdrLen(q) > g.maxHdr && len(q.Hdr) > 0 {
		q.Hdr = q.Hdr[:len(q.Hdr)-1]
	}
	if g.hdrLen(q) > g.maxHdr {
		q.Target = "/ks?rid=" + rid + "&op=" + itoa(q.Op)
	}
	return q
}

func (g *genCtx) hdrLen(q *rq) int {
	n := len(q.Method) + len(q.Target) + len(q.Proto) + 4 + 64
	for _, h := range q.Hdr {
		n += len(h.K) + len(h.V) + 4
	}
	return n
}

// classRequest builds a request that falls into exactly one status class.
func (g *genCtx) classRequest(rid string) *rq {
	r := g.r
	q := &rq{Rid: rid, Proto: "HTTP/1.1", Method: "GET", Target: "/ks?rid=" + rid + "&op=0", Hdr: []hf{{"Host", "example.com"}}, NoLen: true}
	kinds := []string{"unknown-method", "bad-request-line", "bad-header", "header-too-large", "header-too-large"}
	if g.blimit > 0 && g.blimit <= 4096 {
		kinds = append(kinds, "body-too-large", "body-too-large")
	}
	q.Class = gen.Pick(r, kinds)
	switch q.Class {
	case "unknown-method":
		for {
			m := r.StringFrom(gen.Upper, r.Range(1, 10))
			if r.Chance(1, 4) {
				m = gen.Pick(r, []string{"get", "Post", "BREW", "PROPFIND", "DELETE", "PATCH", "TRACE", "CONNECT", "OPTIONS", "PUT", "M-SEARCH", "QUERY"})
			}
			known := false
			for _, k := range g.methods {
				if k == m {
					known = true
				}
			}
			if !known {
				q.Method = m
				break
			}
		}
		q.Expect = 501
		if r.Chance(1, 3) && q.Method != "CONNECT" {
			q.Body, q.NoLen = []byte(r.Ident(1, 20)), false
		}
	case "bad-request-line":
		q.Line = gen.Pick(r, []string{"GARBAGE", "GET", "GET /ks", "G(T /ks HTTP/1.1", "GET /ks HTTP/1.x", "GET /ks HTTX/1.1", "GET /ks HTTP/11", "GET  HTTP/1.1",
			" /ks HTTP/1.1", "GET /ks HTTP/1.1 ", "GET /ks http/1.1", "GET /ks HTTP/1", "G\x00T /ks HTTP/1.1", "GET /ks HTTP/1.1.1", "@ /ks HTTP/1.1x"})
		q.Expect = 400
	case "bad-header":
		q.Method = gen.Pick(r, []string{"GET", "POST"})
		q.Hdr = append(q.Hdr, gen.Pick(r, []hf{{"", "novalue"}, {"X(A)", "v"}, {"X-A", "a\x00b"}, {"X-A", "a\x01b"}, {"Content-Length", "abc"}, {"Content-Length", "-5"}, {"X[]", ""}}))
		q.Expect = 400
	case "header-too-large":
		pad := g.rbuf + 100 + r.Intn(400)
		switch r.Intn(4) {
		case 3:
			// the padding itself is made of vocabulary words (they end up at the end of the
			// read buffer, which the error text quotes)
			w := gen.Pick(r, mapWords)
			q.Word = w
			q.Hdr = append(q.Hdr, hf{"X-Pad", strings.Repeat(w+" ", pad/(len(w)+1)+1)})
		case 0:
			q.Hdr = append(q.Hdr, hf{"X-Pad", strings.Repeat("p", pad)})
		case 1:
			for n := 0; n < pad; n += 40 {
				q.Hdr = append(q.Hdr, hf{"X-P" + itoa(n), strings.Repeat("v", 30)})
			}
		default:
			q.Target = "/ks?rid=" + rid + "&op=0&pad=" + strings.Repeat("q", pad)
		}
		q.Expect = 431
	case "body-too-large":
		q.Method = gen.Pick(r, []string{"POST", "PUT"})
		q.Body, q.NoLen = r.Bytes(g.blimit+64+r.Intn(600)), false
		q.Hdr = append(q.Hdr, hf{"Content-Type", "application/octet-stream"})
		q.Chunk = r.Chance(1, 3)
		q.Expect = 413
	}
	if r.Chance(1, 2) {
		g.plantWord(q)
	}
	return q
}

// mapWords are words of the error vocabulary of fasthttp and fiber. The status a malformed or
// oversized request maps to is decided by what is wrong with its bytes, never by words in them.
var mapWords = []string{"timeout", "Timeout", "i/o timeout", "timeout=5, max=100", "body size exceeds the given limit", "too large", "unsupported",
	"cannot find", "error when reading request headers", "small read buffer", "EOF", "connection reset by peer", "broken pipe", "GetOnly", "non-GET"}

func wordSlug(w string) string {
	var sb strings.Builder
	for i := 0; i < len(w); i++ {
		c := w[i]
		switch {
		case c >= 'a' && c <= 'z', c >= 'A' && c <= 'Z', c >= '0' && c <= '9':
			sb.WriteByte(c)
		default:
			sb.WriteByte('-')
		}
	}
	return sb.String()
}

// plantWord puts one vocabulary word into the path, a header value, a header name or a cookie,
// in front of or behind the other header fields.
func (g *genCtx) plantWord(q *rq) {
	r := g.r
	w := q.Word
	if w == "" {
		w = gen.Pick(r, mapWords)
		q.Word = w
	}
	front := func(h hf) {
		if len(q.Hdr) == 0 {
			q.Hdr = append(q.Hdr, h)
			return
		}
		q.Hdr = append(q.Hdr[:1], append([]hf{h}, q.Hdr[1:]...)...)
	}
	for i, n := 0, 1+r.Intn(2); i < n; i++ {
		switch r.Intn(6) {
		case 0:
			if q.Line != "" {
				q.Line = strings.Replace(q.Line, "/ks", "/ks/"+wordSlug(w), 1)
			} else if strings.HasPrefix(q.Target, "/ks?") {
				q.Target = "/ks/" + wordSlug(w) + q.Target[3:]
			}
		case 1:
			front(hf{"Keep-Alive", w})
		case 2:
			q.Hdr = append(q.Hdr, hf{"X-Tail", w})
		case 3:
			front(hf{"Cookie", "note=" + wordSlug(w) + "; a=b"})
		case 4:
			q.Hdr = append(q.Hdr, hf{"Cookie", "a=b; last=" + wordSlug(w)})
		default:
			front(hf{"X-" + wordSlug(w), "1"})
		}
	}
}

// ---------------------------------------------------------------------------------------------
// byte-level mutation

var dict = []string{"\r\n", "\n", "\r", "\r\n\r\n", "Content-Length: ", "Transfer-Encoding: chunked\r\n", "fiber_flash=", "%00", "\x00", ";", "=", ",", "bytes=",
	"q=", "boundary=", "\"", " ", "\t", ":", "Cookie: ", "Host: ", "0\r\n\r\n", "ffffffff\r\n", "-1", "18446744073709551616", "HTTP/1.1", "\xdd\xff\xff\xff\xff", "\xdc\xff\xff",
	"Content-Encoding: gzip\r\n", "Expect: 100-continue\r\n", "Range: bytes=", "--", "\x1f\x8b", "\x28\xb5\x2f\xfd", "W/\"", "*/*", ";q=0"}

func mutate(r *gen.Rand, b []byte, other []byte) ([]byte, string) {
	if len(b) == 0 {
		return b, "none"
	}
	out := append([]byte(nil), b...)
	pos := func() int { return r.Intn(len(out) + 1) }
	span := func() (int, int) {
		i := r.Intn(len(out))
		n := 1 + r.Intn(1+min(len(out)-i-1, gen.Pick(r, []int{1, 4, 16, 64, 512})))
		return i, i + n
	}
	switch r.Intn(9) {
	case 0:
		i := r.Intn(len(out))
		out[i] ^= 1 << uint(r.Intn(8))
		return out, "flip-bit"
	case 1:
		i := r.Intn(len(out))
		out[i] = gen.Pick(r, []byte{0, '\r', '\n', ' ', 0xff, 0x7f, ';', ',', '=', ':', '"', '%', '-', '0', '9'})
		return out, "set-byte"
	case 2:
		i, j := span()
		return append(out[:i], out[j:]...), "delete"
	case 3:
		i, j := span()
		dup := append([]byte(nil), out[i:j]...)
		rep := 1 + r.Intn(3)
		var ins []byte
		for k := 0; k < rep; k++ {
			ins = append(ins, dup...)
		}
		return splice(out, j, j, ins), "duplicate"
	case 4:
		src := other
		if len(src) == 0 {
			src = b
		}
		i := r.Intn(len(src))
		j := i + 1 + r.Intn(min(len(src)-i, 80))
		p := pos()
		return splice(out, p, p, src[i:j]), "splice"
	case 5:
		p := pos()
		return splice(out, p, p, []byte(gen.Pick(r, dict))), "insert-token"
	case 6:
		return out[:r.Intn(len(out))], "truncate"
	case 7:
		// edit a decimal or hex length field
		var cands [][2]int
		for i := 0; i < len(out); i++ {
			if isDigit(out[i]) && (i == 0 || !isDigit(out[i-1])) {
				j := i
				for j < len(out) && isDigit(out[j]) {
					j++
				}
				// Content-Length value or a chunk-size line
				if hasSuffixFold(out[:i], "content-length: ") || (bytes.HasSuffix(out[:i], []byte("\r\n")) && bytes.HasPrefix(out[j:], []byte("\r\n"))) {
					cands = append(cands, [2]int{i, j})
				}
			}
		}
		if len(cands) == 0 {
			p := pos()
			return splice(out, p, p, []byte(gen.Pick(r, dict))), "insert-token"
		}
		c := gen.Pick(r, cands)
		nv := gen.Pick(r, []string{"0", "1", "-1", "+5", "9223372036854775807", "18446744073709551615", "99999999999999999999999", "0x10", "1e3", " 5", "5 ", "",
			itoa(atoiSafe(out[c[0]:c[1]]) + 1), itoa(atoiSafe(out[c[0]:c[1]]) - 1), itoa(atoiSafe(out[c[0]:c[1]]) * 2), "7fffffff", "ffffffffffffffff"})
		return splice(out, c[0], c[1], []byte(nv)), "length-edit"
	default:
		i, j := span()
		for k := i; k < j; k++ {
			out[k] = r.Byte()
		}
		return out, "randomise"
	}
}

func isDigit(c byte) bool { return c >= '0' && c <= '9' }

func atoiSafe(b []byte) int {
	n := 0
	for _, c := range b {
		if n > 1<<40 {
			break
		}
		n = n*10 + int(c-'0')
	}
	return n
}

func splice(b []byte, i, j int, ins []byte) []byte {
	out := make([]byte, 0, len(b)-(j-i)+len(ins))
	out = append(out, b[:i]...)
	out = append(out, ins...)
	return append(out, b[j:]...)
}

func hasSuffixFold(b []byte, suffix string) bool {
	if len(b) < len(suffix) {
		return false
	}
	return strings.EqualFold(string(b[len(b)-len(suffix):]), suffix)
}
