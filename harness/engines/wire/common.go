// Package wire holds the engines for C07 (survive, inject) and C12 (flash): hostile bytes through
// fasthttp's ServeConn into a real fiber app, judged by the strict response parser, an allocation
// budget and a conforming cookie client.
package wire

import (
	"bytes"
	"encoding/hex"
	"encoding/json"
	"io"
	"os"
	"os/exec"
	"regexp"
	"runtime"
	"runtime/debug"
	"runtime/pprof"
	"sort"
	"strconv"
	"strings"
	"syscall"
	"time"

	"github.com/gofiber/fiber/v3"
	fiberlog "github.com/gofiber/fiber/v3/log"

	"verifharness/internal/drive"
	"verifharness/internal/ev"
	"verifharness/internal/reg"
	"verifharness/internal/strict"
	"verifharness/internal/vt"
)

func init() {
	reg.Register("wire.survive", runSurvive)
	reg.Register("wire.inject", runInject)
	reg.Register("wire.flash", runFlash)
}

const (
	budgetA = 256 << 10 // bytes
	budgetB = 64        // bytes per request byte
	// Address-space cap the engines give themselves when the caller did not (the driver uses
	// `ulimit -v 1572864`): a 5-byte cookie can ask for > 100 GiB.
	selfHeadroom = 1 << 30
)

func budget(n int) uint64 { return budgetA + budgetB*uint64(n) }

// setup is the common prologue of the three engines.
func setup(e *ev.Env) {
	// A cgo-linked binary gives every runtime thread its own 64 MiB glibc malloc arena; under
	// `ulimit -v 1.5 GiB` that leaves the Go heap a single 64 MiB arena. One glibc arena is
	// plenty (the harness does not malloc): restart once with MALLOC_ARENA_MAX=1, same pid,
	// same arguments, before anything was journalled.
	if os.Getenv("MALLOC_ARENA_MAX") == "" && os.Getenv("WIRE_NO_REEXEC") == "" && !vt.Enabled && !raceBuild {
		if exe, err := os.Executable(); err == nil {
			os.Setenv("MALLOC_ARENA_MAX", "1")
			_ = syscall.Exec(exe, os.Args, os.Environ())
		}
	}
	// One P: the pooled context released by request i is the one acquired by request i+1, and
	// nothing else allocates while a request is measured.
	if p := os.Getenv("WIRE_CPUPROFILE"); p != "" {
		if f, err := os.Create(p); err == nil {
			_ = pprof.StartCPUProfile(f)
			stopProfile = pprof.StopCPUProfile
		}
	}
	runtime.GOMAXPROCS(1)
	// Under `ulimit -v 1.5 GiB` the Go runtime's own reservations leave little more than
	// 100 MiB of heap: keep garbage from piling up between collections.
	debug.SetMemoryLimit(64 << 20)
	fiberlog.SetOutput(io.Discard)
	if !raceBuild {
		// self-protection when the caller set no (or a lax) address-space limit: allow 1 GiB
		// on top of what the runtime has mapped so far. A flash cookie can ask for > 20 GiB.
		var rl syscall.Rlimit
		if err := syscall.Getrlimit(syscall.RLIMIT_AS, &rl); err == nil {
			want := vmSize() + selfHeadroom
			if want > selfHeadroom && (rl.Cur == ^uint64(0) || rl.Cur > want) {
				rl.Cur = want
				if rl.Max < rl.Cur {
					rl.Cur = rl.Max
				}
				_ = syscall.Setrlimit(syscall.RLIMIT_AS, &rl)
			}
		}
	}
}

// vmSize is the current size of the address space in bytes (0 when unknown).
func vmSize() uint64 {
	b, err := os.ReadFile("/proc/self/statm")
	if err != nil {
		return 0
	}
	f := strings.Fields(string(b))
	if len(f) == 0 {
		return 0
	}
	n, err := strconv.ParseUint(f[0], 10, 64)
	if err != nil {
		return 0
	}
	return n * uint64(os.Getpagesize())
}

var stopProfile = func() {}

// hungAbort is set once a served input did not complete: the spinning goroutine cannot be stopped,
// so the rest of the run is skipped (the result so far, with the violation, is still written).
var hungAbort bool

// hangBudget is the real time one connection script may take before it is looked at (twice: the
// second period is the confirmation). Ordinary scripts take about a millisecond of CPU; this is
// the engine's own watchdog in the sense of DESIGN R2, not an oracle that reads the clock.
const hangBudget = 60 * time.Second

// guard is e.Guard plus the "nor hangs" clause: f runs on its own goroutine; when it has not
// returned after two budgets the case is reported with the innermost fiber frame of the
// goroutine that is still running, and the run is cut short. (Under virtual time the timers do
// not fire while a goroutine spins; there the driver's watchdog is in charge.)
func guard(e *ev.Env, c *ev.Case, sigPrefix string, detail any, f func()) (panicked bool) {
	if hungAbort {
		return true
	}
	done := make(chan bool, 1)
	go func() { done <- e.Guard(c, sigPrefix, detail, f) }()
	for period := 0; period < 2; period++ {
		t := time.NewTimer(hangBudget)
		select {
		case p := <-done:
			t.Stop()
			return p
		case <-t.C:
		}
	}
	buf := make([]byte, 1<<20)
	buf = buf[:runtime.Stack(buf, true)]
	st := string(buf)
	// the goroutine that serves the input is the one with fasthttp's serveConn / fiber frames
	site := "unknown"
	for _, g := range strings.Split(st, "\n\n") {
		if strings.Contains(g, "github.com/gofiber/fiber/v3") && !strings.Contains(g, "wire.guard(") {
			site = ev.PanicSite(g)
			st = g
			break
		}
	}
	if len(st) > 3000 {
		st = st[:3000]
	}
	hungAbort = true
	e.Violation(c, "hang|"+site, "serving this input did not complete within "+(2*hangBudget).String()+" (the rest of this shard's cases are skipped)",
		map[string]any{"input": detail, "stack": st})
	return true
}

// allocOf returns the bytes allocated (cumulative, GC-independent) while f ran.
func allocOf(f func()) uint64 {
	var a, b runtime.MemStats
	runtime.ReadMemStats(&a)
	f()
	runtime.ReadMemStats(&b)
	return b.TotalAlloc - a.TotalAlloc
}

var warmReq = []byte("GET /warm HTTP/1.1\r\nHost: warm.example.com\r\n\r\n")

// measure serves input alone on a fresh app (fresh context pool: a context that kept a huge slice
// from an earlier run would hide the allocation) after one warm-up request, and returns the
// smallest TotalAlloc delta over `tries` repetitions plus the output of the last one.
// More repetitions are made only while the delta is above the limit, so that a one-off refill
// of process-wide pools after a GC can not be mistaken for a per-request cost.
func measure(e *ev.Env, c *ev.Case, sigPrefix string, mk func() *fiber.App, input []byte, limit uint64, maxTries int) (min uint64, out []byte, panicked bool) {
	min = ^uint64(0)
	for try := 0; try < maxTries; try++ {
		app := mk()
		w := drive.NewWire(app)
		_, _ = w.Serve(warmReq, nil)
		var d uint64
		p := guard(e, c, sigPrefix, hexOf(input), func() {
			d = allocOf(func() { out, _ = w.Serve(input, nil) })
		})
		if p {
			return 0, out, true
		}
		if d < min {
			min = d
		}
		if d > 1<<20 {
			runtime.GC() // keep the footprint small: the address space is capped
		}
		// two runs always; more only while the figure is over the limit but close to it
		if try >= 1 && (min <= limit || min > 4*limit) {
			break
		}
	}
	return min, out, false
}

func hexOf(b []byte) string {
	if len(b) > 6000 {
		return hex.EncodeToString(b[:6000]) + "...(" + itoa(len(b)) + " bytes)"
	}
	return hex.EncodeToString(b)
}

func itoa(n int) string {
	if n == 0 {
		return "0"
	}
	neg := n < 0
	if neg {
		n = -n
	}
	var b [24]byte
	i := len(b)
	for n > 0 {
		i--
		b[i] = byte('0' + n%10)
		n /= 10
	}
	if neg {
		i--
		b[i] = '-'
	}
	return string(b[i:])
}

// show renders bytes for detail objects: printable ASCII as is, the rest \xNN.
func show(b []byte) string {
	if len(b) > 1500 {
		b = b[:1500]
	}
	var sb strings.Builder
	for _, c := range b {
		switch {
		case c == '\\':
			sb.WriteString(`\\`)
		case c == '\r':
			sb.WriteString(`\r`)
		case c == '\n':
			sb.WriteString(`\n`)
		case c >= 0x20 && c < 0x7f:
			sb.WriteByte(c)
		default:
			const hx = "0123456789abcdef"
			sb.WriteString(`\x`)
			sb.WriteByte(hx[c>>4])
			sb.WriteByte(hx[c&15])
		}
	}
	return sb.String()
}

// byteClass names the most dangerous byte class in an attacker-chosen string.
func byteClass(s string) string {
	switch {
	case strings.Contains(s, "\r\n"):
		return "CRLF"
	case strings.IndexByte(s, '\n') >= 0:
		return "LF"
	case strings.IndexByte(s, '\r') >= 0:
		return "CR"
	case strings.IndexByte(s, 0) >= 0:
		return "NUL"
	}
	for i := 0; i < len(s); i++ {
		if (s[i] < 0x20 && s[i] != '\t') || s[i] == 0x7f {
			return "other-CTL"
		}
	}
	return "none"
}

// headerAt returns the lower-cased field name of the header line that contains offset off of a
// response stream (for malformed-response signatures), or "?" when it is not inside a header line.
func headerAt(out []byte, off int) string {
	if off < 0 || off > len(out) {
		return "?"
	}
	if off == len(out) {
		off--
	}
	// walk back to the start of the line; a bare LF/CR inside a value does not start a new
	// line in the sender's mind, so walk back over those too until a line that looks like
	// "Token:" is found.
	i := off
	for tries := 0; tries < 64 && i > 0; tries++ {
		j := bytes.LastIndexAny(out[:i], "\r\n")
		line := out[j+1 : off]
		if k := bytes.IndexByte(line, ':'); k > 0 && isToken(line[:k]) {
			name := strings.ToLower(string(line[:k]))
			if name == "set-cookie" {
				v := bytes.TrimLeft(line[k+1:], " ")
				if bytes.HasPrefix(v, []byte(fiber.FlashCookieName+"=")) {
					return "set-cookie:" + fiber.FlashCookieName
				}
			}
			if knownRespHeader[name] {
				return name
			}
			return "injected-header-line"
		}
		if j < 0 {
			break
		}
		i = j
	}
	return "?"
}

var knownRespHeader = map[string]bool{"set-cookie": true, "location": true, "link": true, "content-type": true,
	"content-disposition": true, "vary": true, "x-inj": true, "x-rid": true, "content-length": true, "date": true, "server": true,
	"x-content-type-options": true, "connection": true, "x-is-head": true, "etag": true, "last-modified": true, "x-outcome": true, "x-multi": true,
	// set by fiber / fasthttp themselves on some paths
	"allow": true, "transfer-encoding": true, "content-encoding": true, "accept-ranges": true, "content-range": true, "trailer": true, "cache-control": true, "x-want-body": true}

func isToken(b []byte) bool {
	if len(b) == 0 {
		return false
	}
	for _, c := range b {
		if !(c >= 'a' && c <= 'z' || c >= 'A' && c <= 'Z' || c >= '0' && c <= '9' || strings.IndexByte("!#$%&'*+-.^_`|~", c) >= 0) {
			return false
		}
	}
	return true
}

// parseWithHead parses a response stream where the server marks answers to HEAD requests with
// "X-Is-Head: 1" (set by a middleware / the error handler of the app under test); the flag only
// selects the framing rule of RFC 9110 §9.3.2, everything else is judged by strict.ParseAll.
func parseWithHead(out []byte) ([]*strict.Response, *strict.ParseError) {
	var flags []bool
	for iter := 0; ; iter++ {
		rs, perr := strict.ParseAll(out, flags)
		if iter > 16 {
			return rs, perr
		}
		changed := false
		off := 0
		for i, r := range rs {
			if r.Get("X-Is-Head") == "1" && !(i < len(flags) && flags[i]) {
				flags = setFlag(flags, i)
				changed = true
				break
			}
			off += len(r.Raw)
		}
		if !changed && perr != nil && off < len(out) {
			i := len(rs)
			if !(i < len(flags) && flags[i]) {
				blk := out[off:]
				if k := bytes.Index(blk, []byte("\r\n\r\n")); k >= 0 && bytes.Contains(blk[:k+2], []byte("\r\nX-Is-Head: 1\r\n")) {
					flags = setFlag(flags, i)
					changed = true
				}
			}
		}
		if !changed {
			return rs, perr
		}
	}
}

func setFlag(f []bool, i int) []bool {
	for len(f) <= i {
		f = append(f, false)
	}
	f[i] = true
	return f
}

// ---------------------------------------------------------------------------------------------
// child-process isolation for inputs that are expected to be fatal (out of memory under the
// address-space limit): the case runs in a copy of this binary with -only <case>, so the rest of
// the workload survives and the death is recorded as a violation here. Replaying the case
// (`-only`) runs it in-process, where the driver sees the crash itself.

// isolated runs the named corpus case in a child when this process is a normal (non-replay)
// run; it reports true when the caller should run the case body itself.
//
// The child does not re-derive the case from its id (walking a family of millions of ids costs
// more than the case): it gets the input itself through the environment and runs it as the
// corpus case isoCase.
const isoCase = "corpus:isolated-input"

// isoInput returns the payload and meta string handed to an isolated child.
func isoInput() ([]byte, string) {
	b, _ := hex.DecodeString(os.Getenv("WIRE_ISO_INPUT"))
	return b, os.Getenv("WIRE_ISO_META")
}

func isolated(e *ev.Env, c *ev.Case, engine string, payload []byte, meta string) (runHere bool) {
	input := hexOf(payload)
	if e.Only != "" && os.Getenv("WIRE_ISOLATE_IN_REPLAY") == "" {
		return true
	}
	if vt.Enabled || raceBuild {
		e.Stat("isolated_cases_skipped_in_this_build", 1)
		return false
	}
	exe, err := os.Executable()
	if err != nil {
		e.Inconclusive("isolated case: no executable path")
		return false
	}
	res, err := os.CreateTemp("", "wire-child-*.json")
	if err != nil {
		e.Inconclusive("isolated case: no temp file")
		return false
	}
	resPath := res.Name()
	res.Close()
	defer os.Remove(resPath)
	defer os.Remove(resPath + ".nt")
	cmd := exec.Command(exe, "-engine", engine, "-tier", e.Tier, "-seed", strconv.FormatUint(e.Seed, 10), "-only", isoCase, "-out", resPath)
	var stderr bytes.Buffer
	cmd.Stderr = &stderr
	cmd.Stdout = &stderr
	cmd.Env = append(os.Environ(), "GOTRACEBACK=single", "WIRE_ISO_INPUT="+hex.EncodeToString(payload), "WIRE_ISO_META="+meta)
	runErr := cmd.Run()
	e.Eval(1)
	e.Stat("isolated_cases_run", 1)
	st := stderr.String()
	if runErr == nil {
		// the child survived: merge the violations it recorded (e.g. over-budget allocation)
		if b, err := os.ReadFile(resPath); err == nil {
			mergeChild(e, c, b)
		}
		return false
	}
	cls := "unknown"
	msg := ""
	if m := regexp.MustCompile(`(?m)^fatal error: [^\n]+`).FindString(st); m != "" {
		msg = m
		cls = "fatal"
		if strings.Contains(m, "out of memory") || strings.Contains(m, "cannot allocate") {
			cls = "oom"
		}
	} else if m := regexp.MustCompile(`(?m)^panic: [^\n]+`).FindString(st); m != "" {
		msg, cls = m, "panic"
	}
	site := ev.PanicSite(st)
	if cls == "unknown" {
		e.Inconclusive("isolated case " + c.ID + ": child failed without a classifiable crash: " + runErr.Error())
		return false
	}
	tail := st
	if len(tail) > 2500 {
		tail = tail[:2500]
	}
	e.Violation(c, "crash|"+cls+"|"+site, "process died serving this input (run in a child process): "+msg,
		map[string]any{"input": input, "stderr_head": tail, "rlimit_as_headroom": selfHeadroom})
	return false
}

func mergeChild(e *ev.Env, c *ev.Case, b []byte) {
	var r struct {
		Violations []struct {
			Sig    string `json:"sig"`
			What   string `json:"what"`
			Detail any    `json:"detail"`
		} `json:"violations"`
		Stats map[string]int64 `json:"stats"`
	}
	if err := json.Unmarshal(b, &r); err != nil {
		e.Inconclusive("isolated case " + c.ID + ": unreadable child result")
		return
	}
	for _, v := range r.Violations {
		e.Violation(c, v.Sig, v.What, v.Detail)
	}
	keys := make([]string, 0, len(r.Stats))
	for k := range r.Stats {
		keys = append(keys, k)
	}
	sort.Strings(keys)
	for _, k := range keys {
		if strings.HasPrefix(k, "max_") {
			e.StatMax(k, r.Stats[k])
		} else {
			e.Stat(k, r.Stats[k])
		}
	}
}

// fatalCandidate reports whether the bytes carry one of the two known ways to ask for more memory
// than the address space holds: a flash cookie whose value can start with an array32 header
// (0xdd), or a zstd frame that declares a window of 16 MiB or more. Over-approximated: a false
// positive only costs a child process.
func fatalCandidate(raw []byte) bool {
	if zstdDeclared(raw) >= 16<<20 {
		return true
	}
	if bytes.Contains(raw, []byte("chunked")) && zstdDeclared(stripChunkLines(raw)) >= 16<<20 {
		return true
	}
	name := []byte(fiber.FlashCookieName)
	for off := 0; ; {
		i := bytes.Index(raw[off:], name)
		if i < 0 {
			return false
		}
		j := off + i + len(name)
		for k := j; k < len(raw) && k < j+8; k++ {
			if raw[k] == 0xdd {
				return true
			}
		}
		off = j
	}
}

// journalInput writes the raw input to the journal before it is served, so that a fatal error is
// attributable without a replay. In the thorough tier (millions of cases, gigabytes of hex) only
// the fatal candidates are written; every case is still journalled by id and replays from
// (seed, id).
func journalInput(e *ev.Env, tag string, raw []byte) {
	if e.Quick() || e.Only != "" || fatalCandidate(raw) {
		e.Journal(tag + " " + hexOf(raw))
	}
}

// injectedLine splits the header block of the first response in b the way a lenient client does
// (at CRLF or bare LF) and returns the first field name that is not one the application sets,
// together with the known header line before it.
// Only a name that the sender of src supplied counts (src nil: any): a header the framework adds
// on its own is nobody's injection.
func injectedLine(b []byte, src []byte) (name, after string) {
	end := bytes.Index(b, []byte("\r\n\r\n"))
	if end < 0 {
		end = len(b)
	}
	lines := bytes.Split(b[:end], []byte("\n"))
	after = "status-line"
	for i, l := range lines {
		if i == 0 {
			continue
		}
		l = bytes.TrimRight(l, "\r")
		k := bytes.IndexByte(l, ':')
		if k <= 0 || !isToken(l[:k]) {
			continue
		}
		n := strings.ToLower(string(l[:k]))
		if knownRespHeader[n] {
			after = n
			if n == "set-cookie" && bytes.HasPrefix(bytes.TrimLeft(l[k+1:], " "), []byte(fiber.FlashCookieName+"=")) {
				after = "set-cookie:" + fiber.FlashCookieName
			}
			continue
		}
		if src != nil && indexFold(src, n) < 0 {
			continue
		}
		return string(l[:k]), after
	}
	return "", ""
}

// cookieAttr matches one cookie attribute as a server writes it (any order, spelling or date).
var cookieAttr = regexp.MustCompile(`(?i)^(path=[^;]*|domain=[^;]*|expires=[^;]*|max-age=-?\d+|secure|httponly|samesite(=\w+)?|partitioned|priority=\w+)$`)

// splitCookieAttrs strips cookie attributes from the end of a Set-Cookie line's text (after
// "name="): what remains is the raw value, which may itself contain ';'.
func splitCookieAttrs(text []byte) (value []byte, attrs string) {
	for {
		i := bytes.LastIndex(text, []byte(";"))
		if i < 0 {
			return text, attrs
		}
		tail := bytes.TrimSpace(text[i+1:])
		if !cookieAttr.Match(tail) {
			return text, attrs
		}
		if attrs == "" {
			attrs = string(tail)
		} else {
			attrs = string(tail) + "; " + attrs
		}
		text = text[:i]
	}
}

// flashCookieAt finds the next Set-Cookie line for the flash cookie in b at or after off and
// returns its raw value, its attributes and the offset behind the line (-1 when there is none).
// The line ends at the first CRLF behind which the text ends in a cookie attribute (a raw value
// may contain line breaks), else at the first CRLF.
func flashCookieAt(b []byte, off int) (value []byte, attrs string, next int) {
	for off < len(b) {
		i := indexFold(b[off:], "set-cookie:")
		if i < 0 {
			return nil, "", -1
		}
		p := off + i + len("set-cookie:")
		for p < len(b) && (b[p] == ' ' || b[p] == '\t') {
			p++
		}
		name := fiber.FlashCookieName + "="
		if !bytes.HasPrefix(b[p:], []byte(name)) {
			off = p
			continue
		}
		p += len(name)
		first := -1
		for q := p; q+1 < len(b); q++ {
			if b[q] != '\r' || b[q+1] != '\n' {
				continue
			}
			if first < 0 {
				first = q
			}
			if v, a := splitCookieAttrs(b[p:q]); a != "" {
				return v, a, q + 2
			}
			if q-p > 1<<16 {
				break
			}
		}
		if first < 0 {
			first = len(b)
		}
		v, a := splitCookieAttrs(b[p:first])
		return v, a, min(first+2, len(b))
	}
	return nil, "", -1
}

func indexFold(b []byte, lower string) int {
	n := len(lower)
	for i := 0; i+n <= len(b); i++ {
		if strings.EqualFold(string(b[i:i+n]), lower) {
			return i
		}
	}
	return -1
}
