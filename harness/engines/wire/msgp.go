package wire

import (
	"encoding/binary"
)

// A hand-written MessagePack codec for the flash cookie format of redirect_msgp.go
// (array of 4-field maps {key:str, value:str, level:uint8, isOldInput:bool}); nothing of the
// code under test is used, so the generator can also emit deliberately wrong encodings.

type fmsg struct {
	Key, Value string
	Level      uint8
	Old        bool
}

func mpArrayHdr(b []byte, n uint32, width int) []byte {
	switch {
	case width == 0 && n < 16:
		return append(b, 0x90|byte(n))
	case width == 16 || (width == 0 && n < 1<<16):
		return append(b, 0xdc, byte(n>>8), byte(n))
	default:
		return binary.BigEndian.AppendUint32(append(b, 0xdd), n)
	}
}

func mpMapHdr(b []byte, n uint32, width int) []byte {
	switch {
	case width == 0 && n < 16:
		return append(b, 0x80|byte(n))
	case width == 16 || (width == 0 && n < 1<<16):
		return append(b, 0xde, byte(n>>8), byte(n))
	default:
		return binary.BigEndian.AppendUint32(append(b, 0xdf), n)
	}
}

func mpStrHdr(b []byte, n uint32) []byte {
	switch {
	case n < 32:
		return append(b, 0xa0|byte(n))
	case n < 256:
		return append(b, 0xd9, byte(n))
	case n < 1<<16:
		return append(b, 0xda, byte(n>>8), byte(n))
	default:
		return binary.BigEndian.AppendUint32(append(b, 0xdb), n)
	}
}

func mpStr(b []byte, s string) []byte { return append(mpStrHdr(b, uint32(len(s))), s...) }

func mpUint8(b []byte, v uint8) []byte {
	if v < 128 {
		return append(b, v)
	}
	return append(b, 0xcc, v)
}

func mpBool(b []byte, v bool) []byte {
	if v {
		return append(b, 0xc3)
	}
	return append(b, 0xc2)
}

func mpMsg(b []byte, m fmsg) []byte {
	b = mpMapHdr(b, 4, 0)
	b = mpStr(mpStr(b, "key"), m.Key)
	b = mpStr(mpStr(b, "value"), m.Value)
	b = mpUint8(mpStr(b, "level"), m.Level)
	b = mpBool(mpStr(b, "isOldInput"), m.Old)
	return b
}

// mpFlash is the canonical encoding fiber itself produces for the list.
func mpFlash(ms []fmsg) []byte {
	b := mpArrayHdr(nil, uint32(len(ms)), 0)
	for _, m := range ms {
		b = mpMsg(b, m)
	}
	return b
}

// mpWellFormed is the reference decoder used to decide whether arbitrary bytes are a
// well-formed encoding of a message list: an array whose elements are maps of exactly the four
// known fields, each once, with the right types, and nothing after it. Any MessagePack width is
// accepted for headers and integers.
func mpWellFormed(b []byte) ([]fmsg, bool) {
	n, b, ok := rdArr(b)
	if !ok || uint64(n) > uint64(len(b)) { // every element needs at least one byte
		return nil, false
	}
	out := make([]fmsg, 0, n)
	for i := uint32(0); i < n; i++ {
		var m fmsg
		var k uint32
		k, b, ok = rdMap(b)
		if !ok || k != 4 {
			return nil, false
		}
		seen := 0
		for j := 0; j < 4; j++ {
			var f string
			f, b, ok = rdStr(b)
			if !ok {
				return nil, false
			}
			switch f {
			case "key":
				m.Key, b, ok = rdStr(b)
				seen |= 1
			case "value":
				m.Value, b, ok = rdStr(b)
				seen |= 2
			case "level":
				m.Level, b, ok = rdU8(b)
				seen |= 4
			case "isOldInput":
				if len(b) < 1 || (b[0] != 0xc2 && b[0] != 0xc3) {
					return nil, false
				}
				m.Old = b[0] == 0xc3
				b = b[1:]
				seen |= 8
			default:
				return nil, false
			}
			if !ok {
				return nil, false
			}
		}
		if seen != 15 {
			return nil, false
		}
		out = append(out, m)
	}
	if len(b) != 0 {
		return nil, false
	}
	return out, true
}

func rdArr(b []byte) (uint32, []byte, bool) {
	if len(b) == 0 {
		return 0, b, false
	}
	switch {
	case b[0]&0xf0 == 0x90:
		return uint32(b[0] & 0x0f), b[1:], true
	case b[0] == 0xdc && len(b) >= 3:
		return uint32(b[1])<<8 | uint32(b[2]), b[3:], true
	case b[0] == 0xdd && len(b) >= 5:
		return binary.BigEndian.Uint32(b[1:]), b[5:], true
	}
	return 0, b, false
}

func rdMap(b []byte) (uint32, []byte, bool) {
	if len(b) == 0 {
		return 0, b, false
	}
	switch {
	case b[0]&0xf0 == 0x80:
		return uint32(b[0] & 0x0f), b[1:], true
	case b[0] == 0xde && len(b) >= 3:
		return uint32(b[1])<<8 | uint32(b[2]), b[3:], true
	case b[0] == 0xdf && len(b) >= 5:
		return binary.BigEndian.Uint32(b[1:]), b[5:], true
	}
	return 0, b, false
}

func rdStr(b []byte) (string, []byte, bool) {
	if len(b) == 0 {
		return "", b, false
	}
	var n uint64
	switch {
	case b[0]&0xe0 == 0xa0:
		n, b = uint64(b[0]&0x1f), b[1:]
	case b[0] == 0xd9 && len(b) >= 2:
		n, b = uint64(b[1]), b[2:]
	case b[0] == 0xda && len(b) >= 3:
		n, b = uint64(b[1])<<8|uint64(b[2]), b[3:]
	case b[0] == 0xdb && len(b) >= 5:
		n, b = uint64(binary.BigEndian.Uint32(b[1:])), b[5:]
	default:
		return "", b, false
	}
	if n > uint64(len(b)) {
		return "", b, false
	}
	return string(b[:n]), b[n:], true
}

func rdU8(b []byte) (uint8, []byte, bool) {
	if len(b) == 0 {
		return 0, b, false
	}
	switch {
	case b[0] < 0x80:
		return b[0], b[1:], true
	case b[0] == 0xcc && len(b) >= 2:
		return b[1], b[2:], true
	case b[0] == 0xcd && len(b) >= 3 && b[1] == 0:
		return b[2], b[3:], true
	}
	return 0, b, false
}
