package errs

import (
	"context"
	"errors"
	"fmt"
	"io"
	"net"
	"os"
	"strconv"
	"strings"

	"github.com/gofiber/fiber/v3"
	"github.com/gofiber/fiber/v3/middleware/logger"
	fiberrecover "github.com/gofiber/fiber/v3/middleware/recover"
	"github.com/valyala/fasthttp"

	"verifharness/internal/drive"
	"verifharness/internal/gen"
)

// Error-handler modes of an app.
const (
	hNone      = iota // no ErrorHandler configured
	hOK               // recording handler, writes status of the error and a body naming the app
	hFailPlain        // recording handler that sets a status and then fails with errors.New
	hFailFiber        // recording handler that fails with a *fiber.Error(503)
	// fiber.DefaultErrorHandler named explicitly in the app's Config (directly, or through a
	// Config() copied from a handler-less app): a configured handler that is not recording
	hExplicitDefault
)

// Scripted raise positions.
const (
	posNone   = iota // nothing scripted: the chain succeeds or the framework raises 404/405
	posMwPre         // middleware of plan.App, before calling Next
	posMwPost        // middleware of plan.App, after Next returned
	posEp            // endpoint of plan.App
)

// Kinds of scripted errors.
const (
	kFiber    = iota // fiber.NewError(code)
	kFiberMsg        // fiber.NewError(code, msg)
	kPlain           // errors.New
	kWrapped         // fmt.Errorf("%w", fiber.NewError(code))
	kPredecl         // one of fiber's predeclared Err* values
	// standard sentinel errors next to and around *fiber.Error values (plan.Sent selects one)
	kSentinel         // the sentinel itself (context.Canceled, io.EOF, ...)
	kFiberAndSentinel // fmt.Errorf("%w: %w", fiber.NewError(code), sentinel)
	kSentinelWrapsFib // fmt.Errorf("backend: %w", errors.Join(sentinel, fiber.NewError(code)))
	kJoinSentinels    // errors.Join(sentinel, another sentinel)
)

var kindNames = [...]string{"fiber-error", "fiber-error-msg", "plain-error", "wrapped-fiber-error", "predeclared-fiber-error",
	"sentinel-error", "fiber-error-and-sentinel", "sentinel-joined-with-fiber-error", "joined-sentinels"}

var sentinels = []error{context.Canceled, context.DeadlineExceeded, io.EOF, io.ErrUnexpectedEOF, net.ErrClosed,
	os.ErrNotExist, fasthttp.ErrTimeout}
var handlerNames = [...]string{"none", "ok", "fail-plain", "fail-fiber-error", "explicit-default"}
var posNames = [...]string{"none", "mw-pre", "mw-post", "endpoint"}

var predecl = []*fiber.Error{
	fiber.ErrBadRequest, fiber.ErrUnauthorized, fiber.ErrForbidden, fiber.ErrNotFound,
	fiber.ErrMethodNotAllowed, fiber.ErrConflict, fiber.ErrTeapot, fiber.ErrUnprocessableEntity,
	fiber.ErrTooManyRequests, fiber.ErrInternalServerError, fiber.ErrBadGateway, fiber.ErrServiceUnavailable,
}

var codes = []int{400, 401, 403, 404, 405, 409, 410, 418, 422, 429, 451, 499, 500, 501, 502, 503, 511, 599}

// appSpec describes one app of a mount tree. Apps[0] is the root; parents precede children.
type appSpec struct {
	Parent   int    `json:"parent"`
	Rel      string `json:"rel"`  // prefix given to the parent's Use (one or two segments, or "/")
	Full     string `json:"full"` // concatenated prefix from the root ("" for the root itself)
	Level    int    `json:"level"`
	Handler  int    `json:"handler"`
	Mw       bool   `json:"mw"`
	RootEp   bool   `json:"root_ep"`            // also registers GET "/"
	ViaGroup bool   `json:"via_group"`          // mounted through parent.Group(first).Use(rest, sub)
	CfgCopy  bool   `json:"cfg_copy,omitempty"` // hExplicitDefault through fiber.New(other.Config())
	// Spelling of a mount performed from a group (ViaGroup && GrpSet):
	// parent.Group(GrpPrefix[, middleware]).Use([GrpMount,] sub). GrpPrefix joined with GrpMount
	// is Rel up to redundant slashes ("" / "/" / "/g" / "/g/" with "" / "/" / "/m" / none).
	GrpSet        bool   `json:"grp_set,omitempty"`
	GrpPrefix     string `json:"grp_prefix,omitempty"`
	GrpMount      string `json:"grp_mount,omitempty"`
	GrpMountGiven bool   `json:"grp_mount_given,omitempty"` // false: .Use(sub) without a prefix argument
	GrpMw         bool   `json:"grp_mw,omitempty"`          // the group carries a pass-through middleware
	// The mount prefix is written without its leading slash ("api", "v1/x"): in the prefix
	// argument of Use, or in the group prefix when that carries the first segment.
	NoSlash bool `json:"no_slash,omitempty"`
	// Logger: the app's chain starts with logger.New in that variant (see logFormat ...).
	Logger int `json:"logger,omitempty"`
}

// extraMount mounts the app instance App a second time: into Parent under Rel. Early: right
// after the instance's first mount (so before its nested apps are mounted when the tree is
// built outer-first); otherwise after everything else.
type extraMount struct {
	App    int    `json:"app"`
	Parent int    `json:"parent"`
	Rel    string `json:"rel"`
	Early  bool   `json:"early"`
}

type servedInfo struct {
	HostTree string `json:"host_tree"`
	App      int    `json:"app"` // index of the served app in the host tree
	Place    string `json:"place"`
	SubFirst bool   `json:"sub_first"`
	BottomUp bool   `json:"bottom_up"`
}

// subView returns the tree as the directly served app s sees it: s is the root, the apps
// mounted below it (through first mounts and extra mounts) keep their relative prefixes.
// A served app runs with its own (default) routing configuration.
func (ts *treeSpec) subView(s int) *treeSpec {
	type edge struct {
		parent, child int
		primary       bool
		rel           string
		early         bool
	}
	var edges []edge
	for i := 1; i < len(ts.Apps); i++ {
		edges = append(edges, edge{ts.Apps[i].Parent, i, true, ts.Apps[i].Rel, false})
	}
	for _, x := range ts.Extra {
		edges = append(edges, edge{x.Parent, x.App, false, x.Rel, x.Early})
	}
	inside := map[int]bool{s: true}
	for changed := true; changed; {
		changed = false
		for _, ed := range edges {
			if inside[ed.parent] && !inside[ed.child] {
				inside[ed.child], changed = true, true
			}
		}
	}
	v := &treeSpec{BottomUp: ts.BottomUp, RoutesFirst: ts.RoutesFirst, MixedCase: ts.MixedCase, StartAt: -1,
		host: ts, inv: map[int]int{}}
	v.orig = append(v.orig, s)
	for i := 1; i < len(ts.Apps); i++ {
		if inside[i] && i != s {
			v.orig = append(v.orig, i)
		}
	}
	for k, o := range v.orig {
		v.inv[o] = k
	}
	for k, o := range v.orig {
		a := ts.Apps[o]
		if k == 0 {
			a.Parent, a.Rel, a.Full, a.Level = -1, "", "", 0
			a.ViaGroup, a.GrpSet, a.NoSlash = false, false, false
			v.Apps = append(v.Apps, a)
			continue
		}
		first := true
		for _, ed := range edges {
			if ed.child != o || !inside[ed.parent] {
				continue
			}
			if first {
				first = false
				a.Parent, a.Rel = v.inv[ed.parent], ed.rel
				if !ed.primary {
					a.ViaGroup, a.GrpSet, a.NoSlash = false, false, false
				}
				continue
			}
			v.Extra = append(v.Extra, extraMount{App: k, Parent: v.inv[ed.parent], Rel: ed.rel, Early: ed.early})
		}
		v.Apps = append(v.Apps, a)
	}
	for k := 1; k < len(v.Apps); k++ {
		pc := v.places()[k][0]
		v.Apps[k].Full, v.Apps[k].Level = pc.Full, pc.Level
	}
	v.Served = &servedInfo{HostTree: ts.describe(), App: s, Place: ts.Apps[s].Full, SubFirst: ts.SubFirst, BottomUp: ts.BottomUp}
	return v
}

// place is one absolute mount place of an app instance.
type place struct {
	App   int
	Full  string
	Level int
	// some mount on the way from the root to this place was written without leading slash
	NoSlash bool
}

type treeSpec struct {
	Apps          []appSpec `json:"apps"`
	CaseSensitive bool      `json:"case_sensitive"`
	Strict        bool      `json:"strict_routing"`
	BottomUp      bool      `json:"bottom_up"`    // children are complete before they are mounted
	RoutesFirst   bool      `json:"routes_first"` // endpoints registered before the child mounts
	CustomCtx     bool      `json:"custom_ctx"`   // root uses NewCtxFunc (customRequestHandler path of router.go)
	MixedCase     bool      `json:"mixed_case"`   // some mount prefixes contain upper-case letters
	// StartAt >= 0: the root app is started (Handler() and one served request) after that many
	// registration steps (middleware, routes, mounts) of the construction, i.e. the tree is
	// built incrementally around a first start-up. -1: built completely before the first start.
	StartAt int `json:"start_at"`
	// Extra mounts of app instances that are already mounted somewhere (same instance under two
	// prefixes or in two parents); their nested apps are reachable below every place.
	Extra []extraMount `json:"extra,omitempty"`

	// ServeSub > 0: that mounted app instance is also started and served directly (as its own
	// root), before the root app's first start (SubFirst) or after it. All mounting is done
	// before either start.
	// RootRecover: the root's first middleware is recover.New(); requests may then raise their
	// error by panicking with it.
	RootRecover bool `json:"root_recover,omitempty"`
	ServeSub    int  `json:"serve_sub,omitempty"`
	SubFirst    bool `json:"sub_first,omitempty"`
	// Served is set on the view of a tree as seen through the directly served app: the
	// sub-tree below it, re-indexed, prefixes relative to it.
	Served *servedInfo `json:"served,omitempty"`

	host *treeSpec   // view: the tree that is actually built
	orig []int       // view: view index -> index in host
	inv  map[int]int // view: index in host -> view index

	pl [][]place // cache of places(); reset by cloneTree
}

type customCtx struct {
	fiber.DefaultCtx
}

type plan struct {
	App  int `json:"app"`
	Pos  int `json:"pos"`
	Kind int `json:"kind"`
	Code int `json:"code"`
	// A status put on the response before the error reaches the framework (0 = none):
	// PreWhere&1 the first scripted middleware reached sets it before calling Next,
	// PreWhere&2 the raising handler sets it just before it returns the error.
	PreStatus int `json:"pre_status,omitempty"`
	PreWhere  int `json:"pre_where,omitempty"`
	// The endpoint that serves the request first calls c.SendFile: 1 a missing file with a
	// short absolute name, 2 a missing file with a relative name, 3 an existing file. Then, if
	// it is the scripted raise position, it returns the scripted error; else it returns what
	// SendFile returned (the 404 of a missing file is then the chain's error; after a sent
	// file a middleware can still raise after Next returned).
	SendFile int `json:"send_file,omitempty"`
	// Sent selects the sentinel of the sentinel error kinds. Panic: the raising handler panics
	// with the error instead of returning it (only in trees whose root starts with recover.New).
	Sent  int  `json:"sentinel,omitempty"`
	Panic bool `json:"panic,omitempty"`
}

var sendFileNames = [...]string{"", "/nofile/a.pdf", "./public/missing-errs-engine.txt", ""}

func init() {
	for _, f := range []string{"/etc/hostname", "/etc/os-release", "/etc/passwd"} {
		if st, err := os.Stat(f); err == nil && st.Mode().IsRegular() && st.Size() < 1<<16 {
			sendFileNames[3] = f
			return
		}
	}
}

type reqSpec struct {
	Method string `json:"method"`
	URI    string `json:"uri"`
	Path   string `json:"path"` // URI without the query
	Plan   plan   `json:"plan"`
	Form   string `json:"form"`
}

func joinPrefix(parent, rel string) string {
	if rel == "/" {
		if parent == "" {
			return "/"
		}
		return parent
	}
	if parent == "" || parent == "/" {
		return rel
	}
	return parent + rel
}

// contains is the rule of the property: P contains path on a segment boundary.
func contains(p, path string) bool {
	if p == "/" {
		return true
	}
	return path == p || strings.HasPrefix(path, p+"/")
}

func depth(p string) int {
	if p == "/" || p == "" {
		return 0
	}
	return strings.Count(p, "/")
}

// places lists, per app instance, every absolute place it is mounted at (the primary place
// first). The root has the single place "".
func (ts *treeSpec) places() [][]place {
	if ts.pl != nil {
		return ts.pl
	}
	n := len(ts.Apps)
	type edge struct {
		parent  int
		rel     string
		noSlash bool
	}
	in := make([][]edge, n)
	for i := 1; i < n; i++ {
		in[i] = append(in[i], edge{ts.Apps[i].Parent, ts.Apps[i].Rel, ts.Apps[i].NoSlash})
	}
	for _, x := range ts.Extra {
		in[x.App] = append(in[x.App], edge{x.Parent, x.Rel, false})
	}
	pl := make([][]place, n)
	done := make([]bool, n)
	pl[0], done[0] = []place{{App: 0}}, true
	var rec func(i, guard int) []place
	rec = func(i, guard int) []place {
		if done[i] || guard > n {
			return pl[i]
		}
		done[i] = true
		var out []place
		for _, ed := range in[i] {
			for _, pp := range rec(ed.parent, guard+1) {
				out = append(out, place{i, joinPrefix(pp.Full, ed.rel), pp.Level + 1, pp.NoSlash || ed.noSlash})
			}
		}
		pl[i] = out
		return out
	}
	for i := 1; i < n; i++ {
		rec(i, 0)
	}
	ts.pl = pl
	return pl
}

func (ts *treeSpec) configured(i int) bool { return ts.Apps[i].Handler != hNone }

// records: the app's handler is one of the recording ones.
func (ts *treeSpec) records(i int) bool {
	h := ts.Apps[i].Handler
	return h != hNone && h != hExplicitDefault
}

// expectedPlace returns the app whose error handler the property selects (0 = root) and the
// mount place that makes it the innermost.
func (ts *treeSpec) expectedPlace(path string, fold bool) (int, place) {
	best, bp := 0, place{}
	bd, bl := -1, -1
	if fold {
		path = strings.ToLower(path)
	}
	for i, pls := range ts.places() {
		if i == 0 || !ts.configured(i) {
			continue
		}
		for _, pc := range pls {
			p := pc.Full
			if fold {
				p = strings.ToLower(p)
			}
			if !contains(p, path) {
				continue
			}
			d := depth(p)
			if d > bd || (d == bd && pc.Level > bl) {
				best, bp, bd, bl = i, pc, d, pc.Level
			}
		}
	}
	return best, bp
}

func (ts *treeSpec) expected(path string, fold bool) int {
	e, _ := ts.expectedPlace(path, fold)
	return e
}

// stringPrefixCandidates counts mount places whose prefix is a plain string prefix of path.
func (ts *treeSpec) stringPrefixCandidates(path string) int {
	n := 0
	for i, pls := range ts.places() {
		for _, pc := range pls {
			if i > 0 && strings.HasPrefix(path, pc.Full) {
				n++
			}
		}
	}
	return n
}

func (ts *treeSpec) describe() string {
	var sb strings.Builder
	for i, pls := range ts.places() {
		for k, pc := range pls {
			if i == 0 {
				continue
			}
			fmt.Fprintf(&sb, "%s@%d:%s", pc.Full, pc.Level, handlerNames[ts.Apps[i].Handler])
			if k > 0 {
				sb.WriteString("(again)")
			}
			sb.WriteString(" ")
		}
	}
	fmt.Fprintf(&sb, "root:%s", handlerNames[ts.Apps[0].Handler])
	return sb.String()
}

// ---------------------------------------------------------------------------------------------
// recorder

type slot struct {
	plan plan

	nH    int
	hID   [3]int
	hErr  [3]error
	hCode int

	raised    int
	raisedErr error

	epN       int
	ep        int
	mwMask    uint32
	preSet    int  // how often a scripted status was put on the response
	sent      int  // c.SendFile calls made by the serving endpoint
	sfErr     bool // the chain's error is the one SendFile returned
	loggerSaw int  // errors that came back to a logger middleware (seen by the probe right inside it)
	panicked  int  // scripted panics

	_ [64]byte // keep slots of different goroutines on different cache lines
}

func (s *slot) reset(p plan) {
	s.plan = p
	s.nH = 0
	s.hErr = [3]error{}
	s.hID = [3]int{}
	s.hCode = 0
	s.raised = 0
	s.raisedErr = nil
	s.epN = 0
	s.ep = -1
	s.mwMask = 0
	s.preSet = 0
	s.sent = 0
	s.sfErr = false
	s.loggerSaw = 0
	s.panicked = 0
}

func (s *slot) raise(c fiber.Ctx) error {
	var err error
	p := s.plan
	if p.PreStatus != 0 && p.PreWhere&2 != 0 {
		c.Status(p.PreStatus)
		s.preSet++
	}
	switch p.Kind {
	case kFiber:
		err = fiber.NewError(p.Code)
	case kFiberMsg:
		err = fiber.NewError(p.Code, "scripted message")
	case kPlain:
		err = errors.New("scripted plain error")
	case kWrapped:
		err = fmt.Errorf("wrapped: %w", fiber.NewError(p.Code))
	case kSentinel:
		err = sentinels[p.Sent%len(sentinels)]
	case kFiberAndSentinel:
		err = fmt.Errorf("%w: %w", fiber.NewError(p.Code), sentinels[p.Sent%len(sentinels)])
	case kSentinelWrapsFib:
		err = fmt.Errorf("backend: %w", errors.Join(sentinels[p.Sent%len(sentinels)], fiber.NewError(p.Code)))
	case kJoinSentinels:
		err = errors.Join(sentinels[p.Sent%len(sentinels)], sentinels[(p.Sent+1)%len(sentinels)])
	default:
		err = predecl[p.Code%len(predecl)]
	}
	s.raised++
	s.raisedErr = err
	if p.Panic {
		s.panicked++
		panic(err)
	}
	return err
}

type recorder struct{ slots []slot }

func newRecorder(n int) *recorder { return &recorder{slots: make([]slot, n)} }

func (r *recorder) slot(c fiber.Ctx) *slot {
	b := c.Request().Header.Peek("X-Rid")
	return &r.slots[int(b[0]-'A')]
}

func codeOf(err error) int {
	var fe *fiber.Error
	if errors.As(err, &fe) {
		return fe.Code
	}
	return fiber.StatusInternalServerError
}

func (r *recorder) errHandler(i, mode int) fiber.ErrorHandler {
	body := "EH:" + strconv.Itoa(i)
	return func(c fiber.Ctx, err error) error {
		s := r.slot(c)
		if s.nH < len(s.hID) {
			s.hID[s.nH] = i
			s.hErr[s.nH] = err
		}
		s.nH++
		code := codeOf(err)
		s.hCode = code
		switch mode {
		case hFailPlain:
			c.Status(code)
			return errors.New("error handler failed")
		case hFailFiber:
			return fiber.NewError(fiber.StatusServiceUnavailable, "error handler failed")
		}
		return c.Status(code).SendString(body)
	}
}

func (r *recorder) middleware(i int) fiber.Handler {
	return func(c fiber.Ctx) error {
		s := r.slot(c)
		s.mwMask |= 1 << uint(i)
		if s.plan.PreStatus != 0 && s.plan.PreWhere&1 != 0 && s.preSet == 0 {
			c.Status(s.plan.PreStatus)
			s.preSet++
		}
		if s.plan.App == i && s.plan.Pos == posMwPre && s.raised == 0 {
			return s.raise(c)
		}
		err := c.Next()
		// (not after a logger further in already delivered an error of this request: the chain
		// then would produce a second error)
		if s.plan.App == i && s.plan.Pos == posMwPost && s.raised == 0 && s.loggerSaw == 0 {
			return s.raise(c)
		}
		return err
	}
}

// Logger variants of an app (appSpec.Logger): the repository's logger middleware is the app's
// first middleware, followed by a probe that records errors coming back to it.
const (
	logNone       = iota
	logFormat     // custom format with ${error}, Stream io.Discard
	logSkipAlways // Skip returns true for every request
	logSkipNever  // Skip returns false, Done callback set
	logDefault    // default format (corpus only: it starts a timestamp goroutine per instance)
)

func loggerFor(kind int) fiber.Handler {
	cfg := logger.Config{Stream: io.Discard, Format: "${status} ${method} ${path} ${error}\n"}
	switch kind {
	case logSkipAlways:
		cfg.Skip = func(fiber.Ctx) bool { return true }
	case logSkipNever:
		cfg.Skip = func(fiber.Ctx) bool { return false }
		cfg.Done = func(fiber.Ctx, []byte) {}
	case logDefault:
		cfg.Format = ""
	}
	return logger.New(cfg)
}

func (r *recorder) loggerProbe() fiber.Handler {
	return func(c fiber.Ctx) error {
		err := c.Next()
		if err != nil {
			r.slot(c).loggerSaw++
		}
		return err
	}
}

func (r *recorder) endpoint(i int) fiber.Handler {
	body := "OK:" + strconv.Itoa(i)
	return func(c fiber.Ctx) error {
		s := r.slot(c)
		s.epN++
		s.ep = i
		if k := s.plan.SendFile; k != 0 && sendFileNames[k] != "" {
			s.sent++
			err := c.SendFile(sendFileNames[k])
			if s.plan.App == i && s.plan.Pos == posEp && s.raised == 0 {
				return s.raise(c)
			}
			if err != nil && s.raised == 0 {
				s.raised++
				s.raisedErr = err
				s.sfErr = true
			}
			return err
		}
		if s.plan.App == i && s.plan.Pos == posEp && s.raised == 0 {
			return s.raise(c)
		}
		return c.SendString(body)
	}
}

// build constructs a fresh fiber app tree from the spec. The construction order is a function of
// the spec alone, so two builds are "the same program".
func build(ts *treeSpec, rec *recorder) []*fiber.App {
	n := len(ts.Apps)
	apps := make([]*fiber.App, n)
	children := make([][]int, n)
	for i := range ts.Apps {
		a := &ts.Apps[i]
		cfg := fiber.Config{}
		if a.Handler == hExplicitDefault && a.CfgCopy {
			// the Config of a handler-less app carries the default handler New filled in
			cfg = fiber.New().Config()
		}
		if i == 0 {
			cfg.CaseSensitive = ts.CaseSensitive
			cfg.StrictRouting = ts.Strict
		}
		switch a.Handler {
		case hNone:
		case hExplicitDefault:
			if !a.CfgCopy {
				cfg.ErrorHandler = fiber.DefaultErrorHandler
			}
		default:
			cfg.ErrorHandler = rec.errHandler(i, a.Handler)
		}
		apps[i] = fiber.New(cfg)
		if i == 0 && ts.CustomCtx {
			apps[0].NewCtxFunc(func(app *fiber.App) fiber.CustomCtx {
				return &customCtx{DefaultCtx: *fiber.NewDefaultCtx(app)}
			})
		}
		if i > 0 {
			children[a.Parent] = append(children[a.Parent], i)
		}
	}
	steps := 0
	step := func() {
		if steps == ts.StartAt {
			// first start-up in the middle of the construction: the startup process runs and a
			// request is served, then the construction goes on
			rec.slots[0].reset(plan{App: -1})
			drive.NewDirect(apps[0]).Do(&drive.Req{Method: "GET", URI: "/e", Hdr: []drive.H{{K: "X-Rid", V: "A"}}})
		}
		steps++
	}
	step()
	routes := func(i int) {
		apps[i].Get("/e", rec.endpoint(i))
		apps[i].Post("/p", rec.endpoint(i))
		apps[i].Get("/f/*", rec.endpoint(i))
		if ts.Apps[i].RootEp {
			apps[i].Get("/", rec.endpoint(i))
		}
		step()
	}
	mount := func(p, c int) {
		defer func() {
			step()
			for _, x := range ts.Extra {
				if x.App == c && x.Early {
					apps[x.Parent].Use(x.Rel, apps[c])
					step()
				}
			}
		}()
		a := &ts.Apps[c]
		if a.ViaGroup {
			gp, mp, given, mw := a.GrpPrefix, a.GrpMount, a.GrpMountGiven, a.GrpMw
			if !a.GrpSet {
				// default split: first segment on the group, the rest on the mount
				gp, mp, given, mw = "/", a.Rel, true, false
				if k := strings.Index(a.Rel[1:], "/"); k >= 0 {
					gp, mp = a.Rel[:k+1], a.Rel[k+1:]
				}
			}
			if a.NoSlash {
				if len(gp) > 1 {
					gp = gp[1:]
				} else if len(mp) > 1 {
					mp = mp[1:]
				}
			}
			var g fiber.Router
			if mw {
				g = apps[p].Group(gp, func(c fiber.Ctx) error { return c.Next() })
			} else {
				g = apps[p].Group(gp)
			}
			if given {
				g.Use(mp, apps[c])
			} else {
				g.Use(apps[c])
			}
			return
		}
		if a.NoSlash && len(a.Rel) > 1 {
			apps[p].Use(a.Rel[1:], apps[c])
			return
		}
		apps[p].Use(a.Rel, apps[c])
	}
	var setup func(i int)
	setup = func(i int) {
		if i == 0 && ts.RootRecover {
			apps[0].Use(fiberrecover.New())
		}
		if k := ts.Apps[i].Logger; k != logNone {
			apps[i].Use(loggerFor(k))
			apps[i].Use(rec.loggerProbe())
		}
		if ts.Apps[i].Mw {
			apps[i].Use(rec.middleware(i))
			step()
		}
		if ts.RoutesFirst {
			routes(i)
		}
		for _, c := range children[i] {
			if ts.BottomUp {
				setup(c)
				mount(i, c)
			} else {
				mount(i, c)
				setup(c)
			}
		}
		if !ts.RoutesFirst {
			routes(i)
		}
	}
	setup(0)
	for _, x := range ts.Extra {
		if !x.Early {
			apps[x.Parent].Use(x.Rel, apps[x.App])
			step()
		}
	}
	return apps
}

// ---------------------------------------------------------------------------------------------
// generators

var segFamilies = [][]string{
	{"api", "api-v2", "apix", "ap", "a", "api.v1"},
	{"v1", "v1x", "v", "v10", "v1-beta"},
	{"x", "xy", "x-1"},
	{"web", "admin", "adm"},
}

func genSeg(r *gen.Rand, fam int) string {
	if fam < 0 {
		fam = r.PickW(5, 3, 2, 1)
	}
	return gen.Pick(r, segFamilies[fam])
}

func genHandler(r *gen.Rand, root bool) int {
	if root {
		return []int{hNone, hOK, hOK, hFailPlain}[r.PickW(30, 30, 25, 15)]
	}
	return []int{hNone, hOK, hFailPlain, hFailFiber}[r.PickW(35, 45, 12, 8)]
}

func genTree(r *gen.Rand) *treeSpec {
	ts := &treeSpec{
		CaseSensitive: r.Chance(1, 4),
		Strict:        r.Chance(1, 4),
		BottomUp:      r.Chance(2, 3),
		RoutesFirst:   r.Bool(),
	}
	ts.CustomCtx = r.Chance(1, 6)
	ts.Apps = append(ts.Apps, appSpec{Parent: -1, Handler: genHandler(r, true), Mw: r.Chance(3, 5), RootEp: r.Chance(1, 3)})
	want := r.Range(1, 7)
	used := map[string]bool{"": true}
	slashChild := map[int]bool{}
	// most trees concentrate on one family at the first level so that siblings are string
	// prefixes of each other
	fam0 := -1
	if r.Chance(3, 4) {
		fam0 = 0
	}
	for tries := 0; len(ts.Apps)-1 < want && tries < 40; tries++ {
		var cand []int
		for i := range ts.Apps {
			if ts.Apps[i].Level < 3 {
				cand = append(cand, i)
			}
		}
		p := gen.Pick(r, cand)
		if r.Chance(1, 3) {
			p = 0
		}
		pa := ts.Apps[p]
		var rel string
		switch k := r.PickW(78, 16, 6); k {
		case 0:
			f := -1
			if pa.Level == 0 {
				f = fam0
			} else if r.Bool() {
				f = 1
			}
			rel = "/" + genSeg(r, f)
		case 1:
			f := -1
			if pa.Level == 0 {
				f = fam0
			}
			rel = "/" + genSeg(r, f) + "/" + genSeg(r, 1+r.Intn(2))
		default:
			rel = "/"
		}
		if rel == "/" {
			// "/" under the root or inside a sub-app mounted under a non-root prefix (the
			// inner app then has the same absolute prefix as the outer one and is the
			// innermost). Not inside a sub-app that is itself mounted at "/": the two get
			// the same key in fiber's app list (known finding, corpus slash-in-slash-startup).
			if slashChild[p] || (p != 0 && pa.Rel == "/") {
				continue
			}
		}
		full := joinPrefix(pa.Full, rel)
		if rel != "/" && used[full] {
			continue
		}
		if rel == "/" {
			slashChild[p] = true
		}
		used[full] = true
		ts.Apps = append(ts.Apps, appSpec{
			Parent: p, Rel: rel, Full: full, Level: pa.Level + 1,
			Handler: genHandler(r, false), Mw: r.Bool(), RootEp: r.Chance(1, 3),
			ViaGroup: rel != "/" && r.Chance(1, 6),
		})
	}
	mixPrefixCase(ts)
	pickStart(ts)
	addExtraMounts(ts)
	markExplicitDefault(ts)
	pickGroupForms(ts)
	pickNoSlash(ts)
	pickServe(ts)
	pickErrorAwareMiddleware(ts)
	return ts
}

// pickErrorAwareMiddleware puts the repository's logger middleware (three configurations) at
// the head of the chains of some apps of a sixth of the trees, and recover.New at the head of
// the root's chain of a sixth (own generator, post-pass). Not in trees with a directly served
// sub-app: logger.New remembers the ErrorHandler of the app that served its first request.
func pickErrorAwareMiddleware(ts *treeSpec) {
	cr := gen.New(gen.Hash64("error-aware-mw", ts.describe()))
	if cr.Chance(1, 6) && ts.ServeSub == 0 {
		n := 0
		for i := range ts.Apps {
			if (i == 0 && cr.Bool()) || (i > 0 && cr.Chance(1, 3)) {
				ts.Apps[i].Logger = 1 + cr.Intn(3)
				n++
			}
		}
		if n == 0 {
			ts.Apps[cr.Intn(len(ts.Apps))].Logger = 1 + cr.Intn(3)
		}
	}
	ts.RootRecover = cr.Chance(1, 6)
}

// pickServe lets, in a quarter of the trees, one mounted app also be started and served
// directly, before or after the root's first start (own generator, post-pass).
func pickServe(ts *treeSpec) {
	cr := gen.New(gen.Hash64("serve-sub", ts.describe()))
	n := len(ts.Apps)
	if n < 2 || ts.StartAt >= 0 || !cr.Chance(1, 4) {
		return
	}
	// prefer apps that have apps mounted into them
	var withKids, all []int
	for i := 1; i < n; i++ {
		all = append(all, i)
		for j := 1; j < n; j++ {
			if ts.Apps[j].Parent == i {
				withKids = append(withKids, i)
				break
			}
		}
	}
	if len(withKids) > 0 && cr.Chance(3, 4) {
		all = withKids
	}
	ts.ServeSub = gen.Pick(cr, all)
	ts.SubFirst = cr.Bool()
}

// pickNoSlash spells a tenth of the mount prefixes without their leading slash (own
// generator, post-pass).
func pickNoSlash(ts *treeSpec) {
	cr := gen.New(gen.Hash64("no-slash", ts.describe()))
	for i := 1; i < len(ts.Apps); i++ {
		if ts.Apps[i].Rel != "/" && cr.Chance(1, 10) {
			ts.Apps[i].NoSlash = true
		}
	}
	ts.pl = nil
}

// pickGroupForms lets more mounts be performed from groups, in every spelling of group prefix
// and mount prefix that yields the same full mount path (own generator, post-pass): group
// prefixes "", "/", "/g", "/g/"; mount prefixes none, "", "/", "/m"; with and without a group
// middleware. Also for sub-apps mounted at "/".
func pickGroupForms(ts *treeSpec) {
	cr := gen.New(gen.Hash64("group-forms", ts.describe()))
	for i := 1; i < len(ts.Apps); i++ {
		a := &ts.Apps[i]
		switch {
		case a.ViaGroup:
			if cr.Bool() {
				continue // keep the default split
			}
		case a.Rel == "/":
			if !cr.Bool() {
				continue
			}
		default:
			if !cr.Chance(1, 8) {
				continue
			}
		}
		var segs []string
		if a.Rel != "/" {
			segs = strings.Split(a.Rel[1:], "/")
		}
		k := cr.Intn(len(segs) + 1)
		a.ViaGroup, a.GrpSet, a.GrpMw = true, true, cr.Bool()
		if k == 0 {
			a.GrpPrefix = gen.Pick(cr, []string{"", "/"})
		} else {
			a.GrpPrefix = "/" + strings.Join(segs[:k], "/")
			if cr.Chance(1, 4) {
				a.GrpPrefix += "/"
			}
		}
		if k < len(segs) {
			a.GrpMount, a.GrpMountGiven = "/"+strings.Join(segs[k:], "/"), true
		} else {
			switch cr.Intn(3) {
			case 0:
				a.GrpMount, a.GrpMountGiven = "", false
			case 1:
				a.GrpMount, a.GrpMountGiven = "", true
			default:
				a.GrpMount, a.GrpMountGiven = "/", true
			}
		}
	}
}

// addExtraMounts mounts, in a fifth of the trees, one or two app instances a second time:
// under another prefix of the root or inside another app (own generator, post-pass).
func addExtraMounts(ts *treeSpec) {
	cr := gen.New(gen.Hash64("extra-mounts", ts.describe()))
	n := len(ts.Apps)
	if n < 2 || !cr.Chance(1, 5) {
		return
	}
	// subtree (through primary mounts and extras) and height of every instance
	reach := func(a int) map[int]bool {
		in := map[int]bool{a: true}
		for changed := true; changed; {
			changed = false
			for i := 1; i < len(ts.Apps); i++ {
				if in[ts.Apps[i].Parent] && !in[i] {
					in[i], changed = true, true
				}
			}
			for _, x := range ts.Extra {
				if in[x.Parent] && !in[x.App] {
					in[x.App], changed = true, true
				}
			}
		}
		return in
	}
	want := 1 + cr.Intn(2)
	for tries := 0; len(ts.Extra) < want && tries < 12; tries++ {
		a := 1 + cr.Intn(n-1)
		// prefer instances that have nested apps
		if tries < 6 {
			has := false
			for i := 1; i < n; i++ {
				has = has || ts.Apps[i].Parent == a
			}
			if !has {
				continue
			}
		}
		if ts.Apps[a].Rel == "/" {
			continue
		}
		sub := reach(a)
		p := 0
		if cr.Chance(1, 3) {
			p = cr.Intn(n)
		}
		if sub[p] || (p != 0 && ts.Apps[p].Rel == "/") {
			continue
		}
		x := extraMount{App: a, Parent: p, Rel: "/" + genSeg(cr, -1), Early: cr.Bool()}
		ts.Extra = append(ts.Extra, x)
		ts.pl = nil
		ok := true
		seen := map[string]bool{}
		for i, pls := range ts.places() {
			for _, pc := range pls {
				if i == 0 || ts.Apps[i].Rel == "/" {
					continue // a "/" child shares its parent's prefix by design
				}
				k := strings.ToLower(pc.Full)
				if seen[k] || pc.Level > 3 {
					ok = false
				}
				seen[k] = true
			}
		}
		if !ok {
			ts.Extra = ts.Extra[:len(ts.Extra)-1]
			ts.pl = nil
		}
	}
	if len(ts.Extra) > 0 {
		// mounting after a first start-up is only generated for plain trees (see pickStart)
		ts.StartAt = -1
	}
}

// markExplicitDefault turns the handler dimension of some apps into its third value: the
// default handler named explicitly (own generator, post-pass).
func markExplicitDefault(ts *treeSpec) {
	cr := gen.New(gen.Hash64("explicit-default", ts.describe()))
	for i := range ts.Apps {
		if cr.Chance(1, 8) {
			ts.Apps[i].Handler = hExplicitDefault
			ts.Apps[i].CfgCopy = cr.Bool()
		}
	}
}

// buildSteps is the number of registration steps build performs for the tree.
func (ts *treeSpec) buildSteps() int {
	n := 0
	for i := range ts.Apps {
		n++ // routes
		if ts.Apps[i].Mw {
			n++
		}
		if i > 0 {
			n++ // mount
		}
	}
	return n
}

// pickStart lets a quarter of the trees be built around a first start-up of the root app
// (own generator derived from the tree, like mixPrefixCase).
func pickStart(ts *treeSpec) {
	ts.StartAt = -1
	cr := gen.New(gen.Hash64("start-at", ts.describe()))
	// Only for constructions fiber supports after a first start-up. On the unchanged tree
	// (reported, not generated):
	//  - outer-first nesting after a start: root started, root.Use("/apix", A(h)), then
	//    A.Use("/v", B(h)): B never enters the root's app list (appendSubAppLists sits behind
	//    a sync.Once consumed by the first start), errors under /apix/v go to A's handler;
	//  - NewCtxFunc + a mount after a start that already had sub-apps: the mount route stays
	//    in the stack and nextCustom indexes its empty handler list (panic, router.go:143).
	nested := false
	for i := 1; i < len(ts.Apps); i++ {
		nested = nested || ts.Apps[i].Level > 1
	}
	if (nested && !ts.BottomUp) || ts.CustomCtx {
		return
	}
	if cr.Chance(1, 3) {
		ts.StartAt = cr.Intn(ts.buildSteps() + 1)
	}
}

// mixPrefixCase gives a third of the trees mount prefixes with upper-case letters (direct,
// and composed through nesting and groups because Full is the concatenation). It is a
// post-pass with its own generator derived from the tree, so the trees and the draws of the
// case's generator are the same as without it. Prefixes stay unique under case folding
// because they were unique in lower case.
func mixPrefixCase(ts *treeSpec) {
	cr := gen.New(gen.Hash64("prefix-case", ts.describe()))
	if !cr.Chance(1, 3) {
		return
	}
	ts.MixedCase = true
	for i := 1; i < len(ts.Apps); i++ {
		a := &ts.Apps[i]
		if a.Rel != "/" {
			segs := strings.Split(a.Rel[1:], "/")
			for k, sg := range segs {
				if !cr.Bool() {
					continue
				}
				b := []byte(sg)
				switch cr.Intn(3) {
				case 0: // Api
					b[0] = upper(b[0])
				case 1: // API
					for j := range b {
						b[j] = upper(b[j])
					}
				default: // one letter somewhere
					j := cr.Intn(len(b))
					b[j] = upper(b[j])
				}
				segs[k] = string(b)
			}
			a.Rel = "/" + strings.Join(segs, "/")
		}
		a.Full = joinPrefix(ts.Apps[a.Parent].Full, a.Rel)
	}
	ts.pl = nil
}

func upper(c byte) byte {
	if c >= 'a' && c <= 'z' {
		return c - 32
	}
	return c
}

// mixCase returns s with the case of some letters flipped (at least one if s has a letter).
func mixCase(r *gen.Rand, s string) string {
	b := []byte(s)
	flip := func(i int) bool {
		switch {
		case b[i] >= 'a' && b[i] <= 'z':
			b[i] -= 32
		case b[i] >= 'A' && b[i] <= 'Z':
			b[i] += 32
		default:
			return false
		}
		return true
	}
	changed := false
	for i := range b {
		if b[i] >= 'a' && b[i] <= 'z' && r.Chance(1, 3) {
			flip(i)
			changed = true
		} else if b[i] >= 'A' && b[i] <= 'Z' && r.Chance(1, 2) {
			flip(i)
			changed = true
		}
	}
	for i := 0; !changed && i < len(b); i++ {
		changed = flip(i)
	}
	return string(b)
}

var preStatuses = []int{201, 204, 302, 304, 400, 401, 403, 404, 409, 422, 500, 503}

var offSuffix = []string{"x", "-v2", ".v1", "1", "-"}

// genReq makes one request aimed at some app of the tree.
func genReq(r *gen.Rand, ts *treeSpec) reqSpec {
	n := len(ts.Apps)
	t := 0
	if n > 1 && !r.Chance(1, 8) {
		t = 1 + r.Intn(n-1)
	}
	p := ts.Apps[t].Full
	if pls := ts.places()[t]; len(pls) > 1 {
		p = pls[r.Intn(len(pls))].Full
	}
	if p == "/" {
		p = ""
	}
	rq := reqSpec{Method: "GET"}
	framework := false
	switch k := r.PickW(30, 8, 12, 5, 4, 4, 12, 8, 10, 4, 3); k {
	case 0:
		rq.Path, rq.Form = p+"/e", "endpoint"
	case 1:
		rq.Path, rq.Form, framework = p+"/p", "post-only", true
	case 2:
		rq.Path, rq.Form, framework = p+"/zz", "no-route", true
	case 3:
		rq.Path, rq.Form = p, "prefix-itself"
	case 4:
		rq.Path, rq.Form = p+"/", "prefix-slash"
	case 5:
		rq.Path, rq.Form = p+"/e/", "endpoint-trailing-slash"
	case 6:
		if p == "" {
			rq.Path, rq.Form = "/zzz/e", "unrelated"
		} else {
			rq.Path, rq.Form = p+gen.Pick(r, offSuffix)+gen.Pick(r, []string{"/e", "/zz", "", "/p"}), "off-boundary"
		}
	case 7:
		rq.Path, rq.Form = mixCase(r, p+"/e"), "case-variant"
	case 8:
		rq.Path, rq.Form = p+"/"+genSeg(r, -1)+gen.Pick(r, []string{"/e", "/zz", ""}), "sibling-combo"
	case 9:
		rq.Path, rq.Form = p+"/e/zz", "below-endpoint"
	default:
		rq.Method, rq.Path, rq.Form = "POST", p+gen.Pick(r, []string{"/p", "/e"}), "post"
	}
	if rq.Path == "" {
		rq.Path = "/"
	}
	rq.URI = rq.Path
	if r.Chance(1, 16) {
		rq.URI += "?q=/api/v1&x=1"
	}
	// scripted raise
	rq.Plan = plan{App: -1, Pos: posNone, Kind: r.PickW(35, 15, 20, 15, 15), Code: gen.Pick(r, codes)}
	if rq.Plan.Kind == kPredecl {
		rq.Plan.Code = r.Intn(len(predecl))
	}
	noneW := 12
	if framework {
		noneW = 60
	}
	// candidates on the way to t: the root, t and t's ancestors
	var chain []int
	for i := t; i >= 0; i = ts.Apps[i].Parent {
		chain = append(chain, i)
	}
	if r.Chance(1, 10) && n > 1 {
		// a position in some other app (usually not reached, or reached through prefix matching)
		chain = append(chain, 1+r.Intn(n-1))
	}
	switch k := r.PickW(noneW, 20, 18, 18, 32); k {
	case 0:
	case 1:
		rq.Plan.App, rq.Plan.Pos = 0, posMwPre
	case 2:
		rq.Plan.App, rq.Plan.Pos = gen.Pick(r, chain), posMwPre
	case 3:
		rq.Plan.App, rq.Plan.Pos = gen.Pick(r, chain), posMwPost
	default:
		rq.Plan.App, rq.Plan.Pos = chain[0], posEp
		if r.Chance(1, 8) {
			rq.Plan.App = gen.Pick(r, chain)
		}
	}
	// a sixth of the requests go to the wildcard endpoint /f/* that calls SendFile first; the
	// path is longer or shorter than the file names (own generator)
	fr := gen.New(gen.Hash64("send-file", rq.Method, rq.URI, strconv.Itoa(rq.Plan.App), strconv.Itoa(rq.Plan.Pos), strconv.Itoa(rq.Plan.Code)))
	if fr.Chance(1, 6) {
		rq.Method = "GET"
		rq.Path = p + "/f/" + fr.StringFrom(gen.Lower+gen.Digits+"-_.", fr.PickW(3, 3, 2)*20+fr.Range(1, 20))
		rq.URI = rq.Path
		rq.Form = "send-file"
		rq.Plan.SendFile = 1 + fr.Intn(3)
	}
	// a fifth of the scripted errors are or wrap standard sentinel errors; in trees whose root
	// recovers panics a quarter of the raises panic with the error (own generator)
	kr := gen.New(gen.Hash64("error-value", rq.Method, rq.URI, strconv.Itoa(rq.Plan.App), strconv.Itoa(rq.Plan.Pos), strconv.Itoa(rq.Plan.Code)))
	if kr.Chance(1, 5) {
		rq.Plan.Kind = kSentinel + kr.Intn(4)
		rq.Plan.Sent = kr.Intn(len(sentinels))
		if rq.Plan.Code < 400 {
			rq.Plan.Code = gen.Pick(kr, codes)
		}
	}
	if ts.RootRecover && kr.Chance(1, 4) {
		rq.Plan.Panic = true
	}
	// a status left on the response by something earlier in the chain (own generator, so
	// the draws above are unchanged)
	pr := gen.New(gen.Hash64("pre-status", rq.Method, rq.URI, strconv.Itoa(rq.Plan.App), strconv.Itoa(rq.Plan.Pos), strconv.Itoa(rq.Plan.Code)))
	if pr.Chance(1, 3) {
		rq.Plan.PreStatus = gen.Pick(pr, preStatuses)
		rq.Plan.PreWhere = 1 + pr.Intn(3)
	}
	return rq
}
