// Package errs decides property C08: every error the handler chain returns (including the
// framework's own 404/405) reaches exactly one error handler — that of the innermost mounted
// sub-app that configured one and whose mount prefix contains the request path on a segment
// boundary, else the root's — deterministically, with the documented status mapping.
//
// The oracle is self-describing: every app of a generated mount tree gets either no
// ErrorHandler or a recording one; scripted middleware/endpoints record what ran and what they
// raised, so the expectation follows from the tree spec and the recorded events, never from a
// re-implementation of fiber's router or handler selection.
package errs

import (
	"errors"
	"fmt"
	"sort"
	"strconv"
	"strings"
	"sync"

	"github.com/gofiber/fiber/v3"
	"github.com/valyala/fasthttp"

	"verifharness/internal/drive"
	"verifharness/internal/ev"
	"verifharness/internal/reg"
)

func init() {
	reg.Register("errs", run)
	reg.Register("errs.race", runRace)
}

// observed handler ids besides app indices
const (
	idForeign = -4 // a recording handler of an app that is not below the directly served app
	idDefault = -1 // no recording handler ran; the response is what DefaultErrorHandler would send (or root has no handler)
	idNoneRan = -2 // no recording handler ran and the response does not look like the default handler's
	idMulti   = -3 // more than one invocation
)

type vioRec struct {
	what   string
	detail map[string]any
	n      int
}

// ragg aggregates all evaluations of one request on one tree.
type ragg struct {
	evals         int
	withErr       int
	noErr         int
	ids           map[int]int // observed handler id -> evaluations
	flipWithin    bool        // two evaluations on the same built app picked different handlers
	curBuild      int
	curID         int
	curSet        bool
	events        map[uint64]int
	vios          map[string]*vioRec // per-evaluation findings (count, status, delivered error)
	errKind       string
	posClass      string
	fw404         int
	fw405         int
	bodyOdd       int
	preDefault    int // evaluations with a scripted status on the response, handled by the default handler
	preAny        int // evaluations with an error and a scripted status on the response
	afterSendFile int // evaluations whose error reached the framework after a c.SendFile call in the chain
	viaLogger     int // evaluations whose error came back to a logger middleware (which delivers it itself)
	nonFwStatus   int // default handler answered an error without *fiber.Error inside with another status than 500
	panicked      int // evaluations whose error was a panic turned into an error by recover.New
	// the app the rule selects (under an accepted reading) answers with the default handler:
	// the root without handler, or an app that names fiber.DefaultErrorHandler explicitly
	defaultOK bool
	raisedAt  map[string]int
}

func newRagg() *ragg {
	return &ragg{ids: map[int]int{}, events: map[uint64]int{}, vios: map[string]*vioRec{}, raisedAt: map[string]int{}, curBuild: -1}
}

func newRaggFor(ts *treeSpec, rq *reqSpec) *ragg {
	a := newRagg()
	a.defaultOK = ts.defaultAnswers(rq.Path)
	return a
}

// defaultAnswers: under an accepted reading of the rule the selected app's handler is the
// (not recording) default handler.
func (ts *treeSpec) defaultAnswers(path string) bool {
	es := []int{ts.expected(path, false)}
	if !ts.CaseSensitive {
		es = append(es, ts.expected(path, true))
	}
	for _, e := range es {
		if !ts.records(e) {
			return true
		}
	}
	return false
}

func (a *ragg) add(sig, what string, detail map[string]any) {
	if v, ok := a.vios[sig]; ok {
		v.n++
		return
	}
	a.vios[sig] = &vioRec{what: what, detail: detail, n: 1}
}

func (a *ragg) merge(b *ragg) {
	a.evals += b.evals
	a.withErr += b.withErr
	a.noErr += b.noErr
	a.fw404 += b.fw404
	a.fw405 += b.fw405
	a.bodyOdd += b.bodyOdd
	a.preDefault += b.preDefault
	a.preAny += b.preAny
	a.afterSendFile += b.afterSendFile
	a.viaLogger += b.viaLogger
	a.nonFwStatus += b.nonFwStatus
	a.panicked += b.panicked
	a.defaultOK = a.defaultOK || b.defaultOK
	a.flipWithin = a.flipWithin || b.flipWithin
	for k, v := range b.ids {
		a.ids[k] += v
	}
	for k, v := range b.events {
		a.events[k] += v
	}
	for k, v := range b.raisedAt {
		a.raisedAt[k] += v
	}
	for k, v := range b.vios {
		if w, ok := a.vios[k]; ok {
			w.n += v.n
		} else {
			a.vios[k] = v
		}
	}
	if a.errKind == "" {
		a.errKind = b.errKind
	}
	if a.posClass == "" {
		a.posClass = b.posClass
	}
}

func hasFiberError(err error) bool {
	var fe *fiber.Error
	return errors.As(err, &fe)
}

func posClassOf(p plan) string {
	switch {
	case p.Pos == posNone:
		return "framework"
	case p.App == 0 && p.Pos == posMwPre:
		return "root-mw-before-mount"
	case p.App == 0 && p.Pos == posMwPost:
		return "root-mw-after-next"
	case p.App == 0:
		return "root-endpoint"
	case p.Pos == posMwPre:
		return "sub-mw"
	case p.Pos == posMwPost:
		return "sub-mw-after-next"
	}
	return "sub-endpoint"
}

// judgeEval judges one evaluation (one request driven once) from the slot and the response.
func judgeEval(ts *treeSpec, rq *reqSpec, s *slot, resp *drive.Resp, build int, a *ragg) {
	a.evals++
	status := resp.Status
	a.events[uint64(s.raised)<<40|uint64(uint32(s.ep+1))<<8|uint64(s.epN&0xff)]++

	if ts.inv != nil {
		// view through a directly served app: recorded indices are those of the built tree
		for k := 0; k < min(s.nH, 3); k++ {
			if v, ok := ts.inv[s.hID[k]]; ok {
				s.hID[k] = v
			} else {
				s.hID[k] = idForeign
			}
		}
	}
	hasErr := s.raised > 0 || s.epN == 0
	if !hasErr {
		a.noErr++
		if s.nH != 0 {
			a.add("C08|spurious-invocation|chain-returned-no-error", "an error handler ran although the chain returned no error",
				map[string]any{"handlers": s.hID[:min(s.nH, 3)], "status": status})
		}
		return
	}
	a.withErr++

	// what was raised
	framework := s.raised == 0
	kind := "framework-404-405"
	pos := "framework"
	if !framework {
		kind = kindNames[s.plan.Kind]
		pos = posClassOf(rq.Plan)
		if s.sfErr {
			kind, pos = "sendfile-404", "endpoint-sendfile"
		}
	}
	if s.sent > 0 {
		a.afterSendFile++
	}
	if s.loggerSaw > 0 {
		a.viaLogger++
	}
	if s.panicked > 0 {
		a.panicked++
	}
	a.errKind, a.posClass = kind, pos
	src := "handler-returned-error"
	if framework {
		src = "framework-404-405"
	}
	a.raisedAt[pos]++

	base := func() map[string]any {
		d := map[string]any{"status": status, "body": string(resp.Body), "invocations": s.nH, "build": build, "raise_position": pos}
		if s.nH > 0 {
			d["handlers"] = append([]int(nil), s.hID[:min(s.nH, 3)]...)
		}
		if s.raisedErr != nil {
			d["raised"] = s.raisedErr.Error()
		}
		return d
	}

	// which handler ran
	id := idDefault
	switch {
	case s.nH >= 2:
		id = idMulti
		same := "distinct-handlers"
		if s.hID[0] == s.hID[1] {
			same = "same-handler-twice"
		}
		a.add("C08|handler-count|multiple|"+same+"|"+src, fmt.Sprintf("%d error-handler invocations for one error (raised at %s)", s.nH, pos), base())
	case s.nH == 1 && s.hID[0] == idForeign:
		id = idNoneRan
		a.add("C08|wrong-handler|handler-of-app-outside-served-app", "an app served directly had its error handled by an app it is mounted in", base())
	case s.nH == 1:
		id = s.hID[0]
	default:
		// No recording handler ran. If the rule selects an app that answers with the default
		// handler that is expected; otherwise the response tells whether some default handler
		// answered (wrong handler, classified later) or nobody did (count zero).
		if !a.defaultOK {
			looksDefault := false
			if framework {
				looksDefault = status == 404 || status == 405
			} else {
				// the default handler's body is the error text; its status is only stated for
				// errors that are or wrap a *fiber.Error
				looksDefault = string(resp.Body) == s.raisedErr.Error() && (!hasFiberError(s.raisedErr) || status == codeOf(s.raisedErr))
			}
			if !looksDefault {
				id = idNoneRan
				a.add("C08|handler-count|zero|"+src, "no error handler ran for a returned error (raised at "+pos+")", base())
			}
		}
	}
	if id != idMulti && id != idNoneRan {
		a.ids[id]++
		if a.curBuild == build && a.curSet && a.curID != id {
			a.flipWithin = true
		}
		if a.curBuild != build {
			a.curBuild, a.curID, a.curSet = build, id, true
		}
	}
	if id == idNoneRan && s.nH == 1 {
		return
	}
	if framework && s.nH == 1 {
		if fe, ok := s.hErr[0].(*fiber.Error); ok && fe.Code == 405 {
			a.fw405++
		} else {
			a.fw404++
		}
	}

	// delivered error and status, relative to the handler that actually ran
	switch {
	case s.nH == 1:
		if framework {
			fe, ok := s.hErr[0].(*fiber.Error)
			if !ok || (fe.Code != 404 && fe.Code != 405) {
				d := base()
				d["delivered"] = fmt.Sprint(s.hErr[0])
				a.add("C08|delivered-error|framework-error-not-404-405", "framework error delivered is not a *fiber.Error 404/405", d)
			}
		} else if s.hErr[0] != s.raisedErr {
			d := base()
			d["delivered"] = fmt.Sprint(s.hErr[0])
			a.add("C08|delivered-error|differs-from-raised|"+pos, "the handler received a different error than the chain returned", d)
		}
		mode := ts.Apps[id].Handler
		want := s.hCode
		sig := "C08|status|recording-handler-status-not-kept"
		if mode == hFailPlain || mode == hFailFiber {
			want = fiber.StatusInternalServerError
			sig = "C08|status|failing-handler-not-500|handler-" + handlerNames[mode]
		}
		if status != want {
			d := base()
			d["want_status"] = want
			d["error_kind"] = kind
			a.add(sig, fmt.Sprintf("status %d, want %d", status, want), d)
		}
		if mode == hOK && string(resp.Body) != "EH:"+strconv.Itoa(id) {
			a.bodyOdd++
		}
	case id == idDefault && (!ts.records(0) || a.defaultOK):
		ok := false
		want := 0
		if framework {
			ok = status == 404 || status == 405
			want = 404
		} else {
			want = codeOf(s.raisedErr)
			ok = status == want
			if !ok && !hasFiberError(s.raisedErr) {
				// the statement fixes the default handler's status only for framework error
				// values; for other errors (documented: 500) a deviation is counted, not judged
				ok = true
				a.nonFwStatus++
			}
		}
		if s.preSet > 0 {
			a.preDefault++
		}
		if !ok {
			d := base()
			d["want_status"] = want
			sig := "C08|status|default-handler|" + kind
			if s.preSet > 0 && status == s.plan.PreStatus {
				// the response carries the status that was lying on it before the error
				// was returned instead of the error's
				d["pre_status"] = s.plan.PreStatus
				sig = "C08|status|default-handler-keeps-earlier-status|" + kind
			}
			a.add(sig, fmt.Sprintf("status %d, want %d", status, want), d)
		}
	}
	if s.preSet > 0 {
		a.preAny++
	}
}

func cmpName(a, b int) string {
	switch {
	case a < b:
		return "shallower"
	case a > b:
		return "deeper"
	}
	return "equal-depth"
}

// shadowClass describes the deepest handler-less mount place whose prefix is a string prefix
// of the path and that is at least as deep as the expected place: the only kind of app that
// could explain why e's handler lost to a shallower one. "" if there is none.
func (ts *treeSpec) shadowClass(e int, ep place, path string) string {
	de := depth(ep.Full)
	bestD, bestOn, found := -1, false, false
	for i, pls := range ts.places() {
		if i == 0 || i == e || ts.configured(i) {
			continue
		}
		for _, pc := range pls {
			if !strings.HasPrefix(path, pc.Full) {
				continue
			}
			d := depth(pc.Full)
			if d < de {
				continue
			}
			on := contains(pc.Full, path)
			if d > bestD || (d == bestD && on && !bestOn) {
				bestD, bestOn, found = d, on, true
			}
		}
	}
	if !found {
		return ""
	}
	kind := "off-boundary-app"
	if bestOn {
		kind = "container"
	}
	return "handlerless-" + kind + ":" + cmpName(bestD, de)
}

func (ts *treeSpec) hasExplicitDefault() bool {
	for i := range ts.Apps {
		if ts.Apps[i].Handler == hExplicitDefault {
			return true
		}
	}
	return false
}

// classifyWrong names the relation between an observed handler w that the rule does not
// select, the path and the expected app e. The rank orders classes when one request shows
// several wrong handlers (lowest rank names the signature).
func (ts *treeSpec) classifyWrong(w, e int, path string) (int, string) {
	if _, xp := ts.expectedPlace(path, false); e > 0 && xp.NoSlash {
		// the rule selects an app that (or whose enclosing app) was mounted under a prefix
		// written without its leading slash
		return 45, "mount-prefix-without-leading-slash"
	}
	if w == idDefault && ts.records(0) {
		if ts.hasExplicitDefault() {
			return 41, "default-handler-of-app-not-selected"
		}
		return 40, "unconfigured-default-handler"
	}
	_, ep := ts.expectedPlace(path, false)
	de := depth(ep.Full)
	slash := false
	if w > 0 {
		// the instance may be mounted at several places: the relation with the lowest rank
		best, bestCls := 1000, ""
		set := func(r int, c string) {
			if r < best {
				best, bestCls = r, c
			}
		}
		pls := ts.places()[w]
		anyContains := false
		for _, pc := range pls {
			anyContains = anyContains || contains(pc.Full, path)
		}
		for _, pc := range pls {
			p := pc.Full
			if anyContains && !contains(p, path) {
				// the instance is a legitimate container through another of its places
				continue
			}
			switch {
			case contains(p, path):
				switch {
				case e > 0 && p == ep.Full:
					set(60, "same-prefix-outer-app")
				case depth(p) > de:
					// a deeper legitimate container with a handler than the expected one:
					// cannot happen unless oracle and tree disagree; keep it visible
					set(50, "deeper-container")
				default:
					set(100, "") // legitimate but shallower container: named below
					slash = slash || p == "/"
				}
			case strings.HasPrefix(path, p):
				r := cmpName(depth(p), de)
				set(20+map[string]int{"equal-depth": 0, "deeper": 1, "shallower": 2}[r], "off-boundary-prefix:"+r)
			case contains(strings.ToLower(p), strings.ToLower(path)):
				set(30, "case-variant-prefix")
			default:
				set(110, "unrelated-prefix")
			}
		}
		switch {
		case best == 110:
			return 10, bestCls
		case best != 100:
			return best, bestCls
		}
	}
	// the root's handler, or a legitimate but shallower container, ran instead of e's
	if slash {
		// a sub-app mounted at "/" beat a deeper prefix: named on its own whether or not a
		// handler-less app is around (the oracle cannot tell the two causes apart)
		return 65, "slash-mount-over-deeper-prefix"
	}
	if sc := ts.shadowClass(e, ep, path); sc != "" {
		return 70, "shadowed-by-" + sc
	}
	if e > 0 && ts.Apps[e].Handler == hExplicitDefault {
		// the expected app configured the default handler by name
		if w > 0 {
			return 86, "outer-container-over-explicit-default-handler-app"
		}
		return 87, "root-over-explicit-default-handler-app"
	}
	if e > 0 && ep.Full != strings.ToLower(ep.Full) {
		// the expected app's prefix contains upper-case letters and the path spells it as
		// mounted (e is the literal-reading expectation)
		if w > 0 {
			return 88, "outer-container-over-mixed-case-prefix"
		}
		return 89, "root-over-mixed-case-prefix"
	}
	if e > 0 && ts.Apps[e].ViaGroup && ts.Apps[e].GrpSet {
		// the expected app was mounted from a group
		if w > 0 {
			return 82, "outer-container-over-group-mounted-app"
		}
		return 83, "root-over-group-mounted-app"
	}
	if e > 0 && len(ts.places()[e]) > 1 {
		// the expected app instance is mounted at more than one place
		if w > 0 {
			return 84, "outer-container-over-app-mounted-twice"
		}
		return 85, "root-over-app-mounted-twice"
	}
	if w > 0 {
		return 90, "outer-container-over-deeper-prefix"
	}
	return 91, "root-over-mounted-prefix"
}

type finding struct {
	sig    string
	what   string
	detail map[string]any
}

// conclude turns the aggregate of one request into findings (at most one per signature).
func conclude(ts *treeSpec, rq *reqSpec, a *ragg) []finding {
	var out []finding
	mk := func(extra map[string]any) map[string]any {
		d := map[string]any{"tree": ts, "tree_text": ts.describe(), "request": rq, "evaluations": a.evals}
		for k, v := range extra {
			d[k] = v
		}
		return d
	}
	var sigs []string
	for s := range a.vios {
		sigs = append(sigs, s)
	}
	sort.Strings(sigs)
	for _, s := range sigs {
		v := a.vios[s]
		d := mk(v.detail)
		d["evaluations_affected"] = v.n
		out = append(out, finding{s, v.what, d})
	}
	if a.withErr == 0 || len(a.ids) == 0 {
		return out
	}
	e := ts.expected(rq.Path, false)
	accept := map[int]bool{e: true}
	if !ts.CaseSensitive {
		// With case-insensitive routing the statement can be read either way for paths that
		// differ from a prefix only in case: both readings are accepted (but not a mix).
		accept[ts.expected(rq.Path, true)] = true
	}
	var ids []int
	for id := range a.ids {
		ids = append(ids, id)
	}
	sort.Ints(ids)
	bestRank, bestClass := 1000, ""
	var classes []string
	obs := map[string]int{}
	for _, id := range ids {
		n := id
		name := "root"
		switch {
		case id == idDefault && a.defaultOK:
			// no recording handler ran and the rule selects an app that answers with the
			// default handler (whose it was cannot be observed)
			name = "default-handler"
			obs[name] = a.ids[id]
			continue
		case id == idDefault && !ts.records(0):
			n = 0 // the root's handler is the default handler
		case id == idDefault:
			name = "default-handler(not selected)"
		case id > 0:
			name = ts.Apps[id].Full + "#" + strconv.Itoa(id)
		}
		obs[name] = a.ids[id]
		if n >= 0 && accept[n] {
			continue
		}
		rank, cls := ts.classifyWrong(id, e, rq.Path)
		classes = append(classes, name+"="+cls)
		if rank < bestRank {
			bestRank, bestClass = rank, cls
		}
	}
	expName := "root"
	if e > 0 {
		expName = ts.Apps[e].Full + "#" + strconv.Itoa(e)
	}
	if a.afterSendFile > 0 && bestClass != "" && bestRank != 45 {
		// the error reached the framework after c.SendFile ran earlier in the chain: one
		// input class whatever the relation of the handler that ran
		bestRank, bestClass = 46, "error-after-sendfile-in-chain"
	}
	if ts.host != nil && bestClass != "" && bestRank != 45 {
		// the request was served by a mounted app that is also served directly
		bestClass = "mounted-app-served-directly:" + bestClass
	}
	// Two mounted apps with the same full mount path share one slot in fiber's path-keyed app
	// list (one shadows the other): a separate root cause, named in the class.
	if bestClass != "" {
		for i := 1; i < len(ts.Apps); i++ {
			// a sub-app mounted at "/" inside a sub-app that is itself mounted at "/"
			if a := &ts.Apps[i]; a.Rel == "/" && a.Parent > 0 && ts.Apps[a.Parent].Rel == "/" {
				bestClass = "duplicate-mount-path:" + bestClass
				break
			}
		}
	}
	extra := map[string]any{"expected_handler": expName, "observed_handlers": obs, "wrong_handler_classes": classes,
		"flip_on_same_built_app": a.flipWithin, "raise_position": a.posClass, "error_kind": a.errKind}
	if len(ids) > 1 {
		if bestClass == "" {
			bestClass = "between-case-readings"
		}
		out = append(out, finding{"C08|nondeterministic-handler|" + bestClass,
			fmt.Sprintf("same request, different error handlers across evaluations: %v (rule selects %s)", obs, expName), mk(extra)})
		return out
	}
	if bestClass == "" {
		return out
	}
	clause := "wrong-handler"
	switch {
	case bestRank < 40:
		clause = "wrong-scope"
	case bestRank == 70:
		clause = "shadowed-by-handlerless-app"
		bestClass = strings.Replace(bestClass, "shadowed-by-", "", 1)
	}
	out = append(out, finding{"C08|" + clause + "|" + bestClass,
		fmt.Sprintf("handler %v ran on every evaluation, rule selects %s", obs, expName), mk(extra)})
	return out
}

// ---------------------------------------------------------------------------------------------
// evaluation

type evalCfg struct {
	builds int // freshly built apps
	per    int // evaluations of each request per built app
}

// evalTree evaluates every request cfg.builds*cfg.per times: on the same built app and on
// freshly built ones.
func evalTree(e *ev.Env, ts *treeSpec, reqs []reqSpec, cfg evalCfg) []*ragg {
	aggs := make([]*ragg, len(reqs))
	for i := range aggs {
		aggs[i] = newRaggFor(ts, &reqs[i])
	}
	rec := newRecorder(1)
	s := &rec.slots[0]
	hdr := []drive.H{{K: "X-Rid", V: "A"}}
	var fctx fasthttp.RequestCtx
	for b := 0; b < cfg.builds; b++ {
		d := startDirect(e, ts, rec)
		if d == nil {
			continue
		}
		for i := range reqs {
			rq := &reqs[i]
			dr := &drive.Req{Method: rq.Method, URI: rq.URI, Hdr: hdr}
			for k := 0; k < cfg.per; k++ {
				s.reset(ts.slotPlan(rq.Plan))
				fctx.Response.Reset()
				resp := d.DoCtx(&fctx, dr)
				judgeEval(ts, rq, s, resp, b, aggs[i])
			}
		}
	}
	return aggs
}

// evalTreeRace drives the same requests from several goroutines through one built app.
func evalTreeRace(e *ev.Env, ts *treeSpec, reqs []reqSpec, cfg evalCfg, workers int) []*ragg {
	aggs := make([]*ragg, len(reqs))
	for i := range aggs {
		aggs[i] = newRaggFor(ts, &reqs[i])
	}
	for b := 0; b < cfg.builds; b++ {
		rec := newRecorder(workers)
		d := startDirect(e, ts, rec)
		if d == nil {
			continue
		}
		part := make([][]*ragg, workers)
		var wg sync.WaitGroup
		start := make(chan struct{})
		for w := 0; w < workers; w++ {
			w := w
			part[w] = make([]*ragg, len(reqs))
			for i := range part[w] {
				part[w][i] = newRaggFor(ts, &reqs[i])
			}
			wg.Add(1)
			go func() {
				defer wg.Done()
				s := &rec.slots[w]
				hdr := []drive.H{{K: "X-Rid", V: string(rune('A' + w))}}
				var fctx fasthttp.RequestCtx
				<-start
				for k := 0; k < cfg.per; k++ {
					for j := range reqs {
						// workers walk the request list from different offsets so that
						// different paths are in flight at the same time
						i := (j + w*3) % len(reqs)
						rq := &reqs[i]
						s.reset(ts.slotPlan(rq.Plan))
						fctx.Response.Reset()
						resp := d.DoCtx(&fctx, &drive.Req{Method: rq.Method, URI: rq.URI, Hdr: hdr})
						judgeEval(ts, rq, s, resp, b, part[w][i])
					}
				}
			}()
		}
		close(start)
		wg.Wait()
		for w := 0; w < workers; w++ {
			for i := range reqs {
				// per-worker "same build" bookkeeping is kept; merging only ORs it
				aggs[i].merge(part[w][i])
			}
		}
	}
	return aggs
}

// startDirect builds the tree and runs fiber's startup process. A panic there (observed for
// sub-apps mounted at "/" inside a mounted sub-app, map-order dependent) is outside C08: it is
// counted and the tree skipped.
func startDirect(e *ev.Env, ts *treeSpec, rec *recorder) *drive.Direct {
	host, target := ts, 0
	if ts.host != nil {
		host, target = ts.host, ts.orig[0]
	}
	// A panic while the tree is put together (Use / Group / mount calls) is not guarded: the
	// process dies and the driver attributes it to this case.
	apps := build(host, rec)
	e.Stat("builds", 1)
	return startApps(e, host, apps, target, rec)
}

// startApps runs the start-up process of the app(s) that are served. A panic there is
// outside C08: it is counted and the tree skipped.
func startApps(e *ev.Env, host *treeSpec, apps []*fiber.App, target int, rec *recorder) (d *drive.Direct) {
	defer func() {
		if r := recover(); r != nil {
			d = nil
			e.Stat("startup_panics_outside_property", 1)
			e.Sample("startup-panic", map[string]any{"tree": host.describe(), "panic": fmt.Sprint(r)})
		}
	}()
	if sub := host.ServeSub; sub > 0 {
		// the mounted app is also started on its own, before or after the root; the one
		// started first serves a request before the other is started
		first, second := 0, sub
		if host.SubFirst {
			first, second = sub, 0
		}
		d1 := drive.NewDirect(apps[first])
		rec.slots[0].reset(plan{App: -1})
		d1.Do(&drive.Req{Method: "GET", URI: "/e", Hdr: []drive.H{{K: "X-Rid", V: "A"}}})
		d2 := drive.NewDirect(apps[second])
		if target == first {
			return d1
		}
		return d2
	}
	return drive.NewDirect(apps[target])
}

// slotPlan is the plan the scripted handlers see: app indices of the built tree.
func (ts *treeSpec) slotPlan(p plan) plan {
	if ts.orig != nil && p.App >= 0 {
		p.App = ts.orig[p.App]
	}
	return p
}

type evaluator func(ts *treeSpec, reqs []reqSpec) []*ragg

// shrink removes leaf apps (and clears flags) greedily while the signature persists.
func shrink(ts *treeSpec, rq reqSpec, sig string, evalf evaluator) (*treeSpec, reqSpec) {
	has := func(t *treeSpec, r reqSpec) bool {
		// a nondeterministic verdict may be missed by chance: try twice
		for try := 0; try < 2; try++ {
			aggs := evalf(t, []reqSpec{r})
			for _, f := range conclude(t, &r, aggs[0]) {
				if f.sig == sig {
					return true
				}
			}
		}
		return false
	}
	cur := cloneTree(ts)
	for changed := true; changed; {
		changed = false
		for i := len(cur.Apps) - 1; i >= 1; i-- {
			leaf := true
			for j := range cur.Apps {
				if cur.Apps[j].Parent == i {
					leaf = false
				}
			}
			if !leaf {
				continue
			}
			t2, r2, ok := removeApp(cur, rq, i)
			if ok && has(t2, r2) {
				cur, rq, changed = t2, r2, true
				break
			}
		}
	}
	for k := len(cur.Extra) - 1; k >= 0; k-- {
		t2 := cloneTree(cur)
		t2.Extra = append(t2.Extra[:k:k], t2.Extra[k+1:]...)
		if has(t2, rq) {
			cur = t2
		}
	}
	// simplify flags
	for i := range cur.Apps {
		if cur.Apps[i].Mw && !(rq.Plan.App == i && (rq.Plan.Pos == posMwPre || rq.Plan.Pos == posMwPost)) {
			t2 := cloneTree(cur)
			t2.Apps[i].Mw = false
			if has(t2, rq) {
				cur = t2
			}
		}
		if cur.Apps[i].ViaGroup {
			t2 := cloneTree(cur)
			t2.Apps[i].ViaGroup = false
			if has(t2, rq) {
				cur = t2
			}
		}
	}
	return cur, rq
}

func cloneTree(ts *treeSpec) *treeSpec {
	c := *ts
	c.Apps = append([]appSpec(nil), ts.Apps...)
	c.Extra = append([]extraMount(nil), ts.Extra...)
	c.pl = nil
	return &c
}

func removeApp(ts *treeSpec, rq reqSpec, i int) (*treeSpec, reqSpec, bool) {
	if rq.Plan.App == i {
		return nil, rq, false
	}
	c := cloneTree(ts)
	c.Apps = append(c.Apps[:i:i], c.Apps[i+1:]...)
	for j := range c.Apps {
		if c.Apps[j].Parent > i {
			c.Apps[j].Parent--
		}
	}
	kept := c.Extra[:0]
	for _, x := range c.Extra {
		if x.App == i || x.Parent == i {
			continue
		}
		if x.App > i {
			x.App--
		}
		if x.Parent > i {
			x.Parent--
		}
		kept = append(kept, x)
	}
	c.Extra = kept
	if rq.Plan.App > i {
		rq.Plan.App--
	}
	return c, rq, true
}

// ---------------------------------------------------------------------------------------------
// engines

type runner struct {
	e      *ev.Env
	evalf  evaluator
	shrunk map[string]int
	mu     sync.Mutex

	trees, withErr, nontrivial int // generated cases only: observation thresholds
}

// judgeTree evaluates a tree with its requests, reports findings and bookkeeping.
func (rn *runner) judgeTree(c *ev.Case, ts *treeSpec, reqs []reqSpec) map[string]bool {
	e := rn.e
	aggs := rn.evalf(ts, reqs)
	sigs := map[string]bool{}
	for i := range reqs {
		rq := &reqs[i]
		a := aggs[i]
		e.Eval(a.evals)
		e.Stat("requests", 1)
		e.Stat("evals_with_error", int64(a.withErr))
		e.Stat("evals_without_error", int64(a.noErr))
		e.Stat("framework_404_delivered", int64(a.fw404))
		e.Stat("framework_405_delivered", int64(a.fw405))
		e.Stat("recording_body_overwritten", int64(a.bodyOdd))
		e.Stat("errors_with_earlier_status_on_response", int64(a.preAny))
		e.Stat("errors_after_sendfile_in_chain", int64(a.afterSendFile))
		e.Stat("errors_delivered_through_logger_middleware", int64(a.viaLogger))
		e.Stat("default_handler_status_not_500_for_non_framework_error", int64(a.nonFwStatus))
		e.Stat("errors_from_recovered_panics", int64(a.panicked))
		if a.withErr > 0 && rq.Plan.Kind >= kSentinel {
			e.Stat("requests_with_sentinel_error_values", 1)
		}
		e.Stat("errors_with_earlier_status_default_handler", int64(a.preDefault))
		var keys []string
		for k := range a.raisedAt {
			keys = append(keys, k)
		}
		sort.Strings(keys)
		for _, k := range keys {
			e.Stat("raised_at_"+k, int64(a.raisedAt[k]))
		}
		if len(a.events) > 1 {
			e.Stat("chain_events_differ_between_evaluations", 1)
			e.Sample("chain-events-differ", map[string]any{"tree": ts.describe(), "request": rq})
		}
		if a.withErr > 0 {
			for id, n := range a.ids {
				switch {
				case id == idDefault:
					e.Stat("handled_by_default_handler", int64(n))
					if el := ts.expected(rq.Path, false); el > 0 && ts.Apps[el].Handler == hExplicitDefault {
						e.Stat("errors_under_explicit_default_handler_app", 1)
					}
				case ts.Apps[id].Handler == hOK:
					e.Stat("handled_by_recording_handler", int64(n))
				default:
					e.Stat("handled_by_failing_handler", int64(n))
				}
			}
			if el := ts.expected(rq.Path, false); el > 0 && len(ts.places()[el]) > 1 {
				e.Stat("errors_under_app_mounted_twice", 1)
			}
			gen := !strings.HasPrefix(c.ID, "corpus:")
			if gen {
				rn.withErr++
			}
			if ts.stringPrefixCandidates(rq.Path) >= 2 {
				if gen {
					rn.nontrivial++
				}
				e.Nontrivial(ts.describe(), rq.Method, rq.Path, strconv.Itoa(rq.Plan.Pos), strconv.Itoa(rq.Plan.App))
				e.Stat("nontrivial_requests", 1)
			}
			if el, ep := ts.expectedPlace(rq.Path, false); el > 0 && ep.Full != strings.ToLower(ep.Full) {
				// the rule selects an app mounted under a prefix with upper-case letters and
				// the request spells that prefix exactly as mounted
				e.Stat("errors_under_mixed_case_prefix_spelled_as_mounted", 1)
			}
			if rq.Path != strings.ToLower(rq.Path) && !ts.CaseSensitive &&
				ts.expected(rq.Path, true) != ts.expected(rq.Path, false) {
				e.Stat("case_variant_two_readings", 1)
				if len(a.ids) == 1 && a.ids[normRoot(ts, ts.expected(rq.Path, false))] > 0 {
					e.Stat("case_variant_literal_reading_observed", 1)
				}
			}
		}
		for _, f := range conclude(ts, rq, a) {
			sigs[f.sig] = true
			rn.mu.Lock()
			n := rn.shrunk[f.sig]
			rn.shrunk[f.sig]++
			rn.mu.Unlock()
			if n < 2 && !strings.HasPrefix(c.ID, "corpus:") && ts.host == nil {
				mt, mr := shrink(ts, *rq, f.sig, rn.evalf)
				f.detail["min_tree"] = mt
				f.detail["min_tree_text"] = mt.describe()
				f.detail["min_request"] = mr
				f.detail["min_apps"] = len(mt.Apps) - 1
			}
			e.Violation(c, f.sig, f.what, f.detail)
		}
	}
	e.Sample("tree", map[string]any{"tree": ts.describe(), "first_request": reqs[0]})
	return sigs
}

func normRoot(ts *treeSpec, id int) int {
	if id == 0 && !ts.records(0) {
		return idDefault
	}
	return id
}

func run(e *ev.Env) {
	cfg := evalCfg{builds: 4, per: 16}
	if !e.Quick() {
		cfg = evalCfg{builds: 8, per: 64}
	}
	rn := &runner{e: e, shrunk: map[string]int{}}
	rn.evalf = func(ts *treeSpec, reqs []reqSpec) []*ragg { return evalTree(e, ts, reqs, cfg) }
	corpus(e, rn)
	e.Cases("trees", e.N(400, 20000), func(c *ev.Case) {
		ts := genTree(c.R)
		reqs := make([]reqSpec, 30)
		for i := range reqs {
			reqs[i] = genReq(c.R, ts)
		}
		e.Stat("trees", 1)
		if ts.CustomCtx {
			e.Stat("trees_custom_ctx", 1)
		}
		if ts.MixedCase {
			e.Stat("trees_mixed_case_prefixes", 1)
		}
		if ts.StartAt >= 0 {
			e.Stat("trees_started_during_construction", 1)
		}
		if len(ts.Extra) > 0 {
			e.Stat("trees_app_mounted_twice", 1)
		}
		for i := range ts.Apps {
			if ts.Apps[i].Logger != logNone {
				e.Stat("trees_with_logger_middleware", 1)
				break
			}
		}
		if ts.RootRecover {
			e.Stat("trees_with_recover_middleware", 1)
		}
		for i := 1; i < len(ts.Apps); i++ {
			if ts.Apps[i].ViaGroup {
				e.Stat("mounts_from_groups", 1)
				if ts.Apps[i].Rel == "/" {
					e.Stat("mounts_from_groups_at_slash", 1)
				}
			}
		}
		if ts.hasExplicitDefault() {
			e.Stat("trees_explicit_default_handler", 1)
		}
		for i := 1; i < len(ts.Apps); i++ {
			if ts.Apps[i].Rel == "/" && ts.Apps[i].Parent > 0 {
				e.Stat("trees_slash_mount_inside_sub_app", 1)
				break
			}
		}
		e.StatMax("max_apps", int64(len(ts.Apps)-1))
		rn.trees++
		rn.judgeTree(c, ts, reqs)
		if ts.ServeSub > 0 {
			// the same built tree seen through the mounted app that is also served directly
			view := ts.subView(ts.ServeSub)
			vreqs := make([]reqSpec, 15)
			for i := range vreqs {
				vreqs[i] = genReq(c.R, view)
			}
			e.Stat("trees_with_directly_served_sub_app", 1)
			if ts.SubFirst {
				e.Stat("trees_sub_app_started_before_root", 1)
			}
			e.Stat("apps_below_directly_served_app", int64(len(view.Apps)-1))
			rn.judgeTree(c, view, vreqs)
		}
	})
	finish(e, rn)
}

func runRace(e *ev.Env) {
	cfg := evalCfg{builds: 2, per: 4}
	workers := 8
	if !e.Quick() {
		cfg = evalCfg{builds: 2, per: 16}
	}
	rn := &runner{e: e, shrunk: map[string]int{}}
	rn.evalf = func(ts *treeSpec, reqs []reqSpec) []*ragg { return evalTreeRace(e, ts, reqs, cfg, workers) }
	corpus(e, rn)
	e.Cases("race", e.N(160, 4000), func(c *ev.Case) {
		ts := genTree(c.R)
		reqs := make([]reqSpec, 30)
		for i := range reqs {
			reqs[i] = genReq(c.R, ts)
		}
		e.Stat("trees", 1)
		e.Stat("concurrent_workers", int64(workers))
		rn.trees++
		rn.judgeTree(c, ts, reqs)
	})
	finish(e, rn)
}

func finish(e *ev.Env, rn *runner) {
	if e.Only != "" {
		return
	}
	// thresholds far below what every shard of the unchanged tree produces (a shard of 10
	// trees sees > 200 erroring requests and > 50 non-trivial ones)
	if rn.trees >= 10 && (rn.withErr < 5*rn.trees || rn.nontrivial < rn.trees) {
		e.Inconclusive(fmt.Sprintf("too few observations: %d trees, %d requests with an error, %d non-trivial", rn.trees, rn.withErr, rn.nontrivial))
	}
	e.Note("nontrivial_rule", "request whose chain returned an error and for which >= 2 mounted prefixes are string prefixes of the path; distinct by (tree, method, path, raise position)")
	e.Note("evaluation", "one request driven once through the real app (direct drive) and judged; every request is evaluated builds*per times on the same and on freshly built apps")
}

// ---------------------------------------------------------------------------------------------
// fixed corpus

func mkTree(root int, apps ...appSpec) *treeSpec {
	ts := &treeSpec{BottomUp: true, RoutesFirst: true, StartAt: -1}
	ts.Apps = append(ts.Apps, appSpec{Parent: -1, Handler: root, Mw: true})
	for _, a := range apps {
		p := ts.Apps[a.Parent]
		a.Full = joinPrefix(p.Full, a.Rel)
		a.Level = p.Level + 1
		ts.Apps = append(ts.Apps, a)
	}
	return ts
}

func get(path string, p plan) reqSpec {
	return reqSpec{Method: "GET", URI: path, Path: path, Plan: p, Form: "corpus"}
}

func corpus(e *ev.Env, rn *runner) {
	teapot := func(app, pos int) plan { return plan{App: app, Pos: pos, Kind: kFiber, Code: 418} }
	none := plan{App: -1, Pos: posNone}

	// H of DESIGN 3.C08: /api and /api-v2 both have 2 "parts" and both are string prefixes of
	// /api-v2/e; which handler wins depends on map iteration order.
	e.Corpus("sibling-string-prefix-tie", func(c *ev.Case) {
		ts := mkTree(hOK, appSpec{Parent: 0, Rel: "/api", Handler: hOK}, appSpec{Parent: 0, Rel: "/api-v2", Handler: hOK})
		rn.judgeTree(c, ts, []reqSpec{get("/api-v2/e", teapot(2, posEp)), get("/api/e", teapot(1, posEp)), get("/api-v2/zz", none)})
	})
	// prefix match is not segment-aware: /apix is outside /api
	e.Corpus("off-boundary-single-app", func(c *ev.Case) {
		ts := mkTree(hOK, appSpec{Parent: 0, Rel: "/api", Handler: hOK})
		rn.judgeTree(c, ts, []reqSpec{get("/apix/zz", none), get("/api-v2", teapot(0, posMwPre)), get("/api/zz", none)})
	})
	// a deeper app without handler hides the handler of the app around it, order dependent
	e.Corpus("handlerless-deeper-app", func(c *ev.Case) {
		ts := mkTree(hOK, appSpec{Parent: 0, Rel: "/api", Handler: hOK}, appSpec{Parent: 1, Rel: "/v1", Handler: hNone})
		rn.judgeTree(c, ts, []reqSpec{get("/api/v1/e", teapot(2, posEp)), get("/api/e", teapot(1, posEp))})
	})
	// "/" mount counts as many parts as "/api"
	e.Corpus("slash-mount-vs-depth-1", func(c *ev.Case) {
		ts := mkTree(hNone, appSpec{Parent: 0, Rel: "/", Handler: hOK}, appSpec{Parent: 0, Rel: "/api", Handler: hOK})
		rn.judgeTree(c, ts, []reqSpec{get("/api/e", teapot(2, posEp)), get("/web/zz", none)})
	})
	// sub-app mounted at "/" inside a mounted sub-app: same absolute prefix, the inner one is
	// the innermost. GET /api is served by the inner app's "/" endpoint.
	e.Corpus("nested-slash-same-prefix", func(c *ev.Case) {
		ts := mkTree(hOK, appSpec{Parent: 0, Rel: "/api", Handler: hOK}, appSpec{Parent: 1, Rel: "/", Handler: hOK, RootEp: true})
		ts.Apps[0].Mw = false
		rn.judgeTree(c, ts, []reqSpec{get("/api/zz", none), get("/api/e", teapot(1, posEp)), get("/api", teapot(2, posEp))})
	})
	// "/" inside a sub-app that is itself mounted at "/": both get the key "/" in fiber's app
	// list; depending on map order the startup process panics (outside C08: only counted).
	e.Corpus("slash-in-slash-startup", func(c *ev.Case) {
		ts := mkTree(hOK, appSpec{Parent: 0, Rel: "/", Handler: hOK}, appSpec{Parent: 1, Rel: "/", Handler: hNone},
			appSpec{Parent: 1, Rel: "/v1", Handler: hNone})
		rn.judgeTree(c, ts, []reqSpec{get("/v1/zz", none)})
	})
	// off-boundary app and "/" mount tie: /ap is no container of /apix/zz, the "/" app is
	e.Corpus("off-boundary-vs-slash-mount", func(c *ev.Case) {
		ts := mkTree(hNone, appSpec{Parent: 0, Rel: "/ap", Handler: hOK}, appSpec{Parent: 0, Rel: "/", Handler: hOK})
		rn.judgeTree(c, ts, []reqSpec{get("/apix/zz", none)})
	})
	// handler-less /api/x/v1 lifts the bar past /api/x while the shallower, off-boundary /a
	// keeps its handler (needs one specific iteration order: seen in about 9 of 10 runs)
	e.Corpus("off-boundary-shallower-after-handlerless", func(c *ev.Case) {
		ts := mkTree(hOK, appSpec{Parent: 0, Rel: "/api/x", Handler: hOK}, appSpec{Parent: 1, Rel: "/v1", Handler: hNone},
			appSpec{Parent: 0, Rel: "/a", Handler: hOK})
		rn.judgeTree(c, ts, []reqSpec{get("/api/x/v1/zz", none)})
	})
	// handler-less /api/v is not even a container of /api/vx/zz but hides /api's handler
	e.Corpus("handlerless-off-boundary-deeper", func(c *ev.Case) {
		ts := mkTree(hOK, appSpec{Parent: 0, Rel: "/api", Handler: hOK}, appSpec{Parent: 1, Rel: "/v", Handler: hNone})
		rn.judgeTree(c, ts, []reqSpec{get("/api/vx/zz", none)})
	})
	// mount prefixes with upper-case letters, direct and composed through a group and nesting;
	// the requests spell the prefix exactly as mounted, so both readings of "contains" agree.
	// Once with the default case-insensitive routing, once with CaseSensitive.
	for _, cs := range []bool{false, true} {
		name := "mixed-case-mount-prefix"
		if cs {
			name += "-case-sensitive"
		}
		e.Corpus(name, func(c *ev.Case) {
			ts := mkTree(hOK,
				appSpec{Parent: 0, Rel: "/Admin", Handler: hOK, Mw: true},
				appSpec{Parent: 0, Rel: "/api/backoffice", Handler: hOK, ViaGroup: true},
				appSpec{Parent: 2, Rel: "/Reports", Handler: hOK},
				appSpec{Parent: 0, Rel: "/api/V2", Handler: hFailPlain},
				appSpec{Parent: 0, Rel: "/WEB", Handler: hNone},
				appSpec{Parent: 5, Rel: "/x", Handler: hOK})
			ts.CaseSensitive = cs
			ts.MixedCase = true
			reqs := []reqSpec{
				get("/Admin/e", teapot(1, posEp)), get("/Admin/zz", none), get("/Admin/p", none), get("/Admin/e", teapot(1, posMwPost)),
				get("/api/backoffice/Reports/e", teapot(3, posEp)), get("/api/backoffice/Reports/zz", none),
				get("/api/backoffice/e", teapot(2, posEp)),
				get("/api/V2/e", teapot(4, posEp)), get("/api/V2/zz", none),
				get("/WEB/x/e", teapot(6, posEp)), get("/WEB/e", teapot(5, posEp)), get("/WEB/x/zz", teapot(0, posMwPre)),
				// differently cased requests: both readings accepted when routing is
				// case-insensitive, plainly outside the mount when it is case-sensitive
				get("/admin/e", teapot(1, posEp)), get("/API/v2/zz", none),
			}
			rn.judgeTree(c, ts, reqs)
		})
	}
	// a handler-less app mounted at "/" inside a sub-app that has a handler and sits under a
	// non-root prefix: same absolute prefix, the enclosing app's handler is the innermost
	// configured one. Both mounting orders (inner-first and outer-first), and with a handler
	// on the inner app too.
	for _, bottomUp := range []bool{true, false} {
		name := "slash-mount-inside-sub-app-inner-first"
		if !bottomUp {
			name = "slash-mount-inside-sub-app-outer-first"
		}
		e.Corpus(name, func(c *ev.Case) {
			for _, inner := range []int{hNone, hOK} {
				ts := mkTree(hOK, appSpec{Parent: 0, Rel: "/api", Handler: hOK}, appSpec{Parent: 1, Rel: "/", Handler: inner},
					appSpec{Parent: 2, Rel: "/users", Handler: hNone})
				ts.BottomUp = bottomUp
				rn.judgeTree(c, ts, []reqSpec{get("/api/e", teapot(1, posEp)), get("/api/zz", none), get("/api/p", none),
					get("/api", teapot(0, posMwPre)), get("/api/users/e", teapot(3, posEp)), get("/api/users/zz", none)})
			}
		})
	}
	// the root app is started (startup process, one request served) before, between and after
	// the mounts; the handler choice depends on the finished mount structure only
	e.Corpus("started-during-construction", func(c *ev.Case) {
		base := mkTree(hOK, appSpec{Parent: 0, Rel: "/api", Handler: hOK, Mw: true}, appSpec{Parent: 0, Rel: "/web", Handler: hFailPlain},
			appSpec{Parent: 0, Rel: "/adm", Handler: hNone})
		for at := 0; at <= base.buildSteps(); at++ {
			ts := cloneTree(base)
			ts.StartAt = at
			rn.judgeTree(c, ts, []reqSpec{get("/api/e", teapot(1, posEp)), get("/api/zz", none), get("/web/e", teapot(2, posEp)),
				get("/web/zz", none), get("/adm/zz", none), get("/zz", none)})
		}
	})
	// a status lying on the response when the error is returned does not change the status the
	// default handler derives from the error value (nor what a failing handler yields)
	e.Corpus("earlier-status-on-response", func(c *ev.Case) {
		ts := mkTree(hNone, appSpec{Parent: 0, Rel: "/api", Handler: hNone, Mw: true}, appSpec{Parent: 0, Rel: "/web", Handler: hFailFiber})
		var reqs []reqSpec
		for _, pre := range preStatuses {
			for where := 1; where <= 3; where++ {
				with := func(p plan) plan { p.PreStatus, p.PreWhere = pre, where; return p }
				reqs = append(reqs,
					get("/api/e", with(plan{App: 1, Pos: posEp, Kind: kFiber, Code: 403})),
					get("/api/e", with(plan{App: 1, Pos: posMwPost, Kind: kWrapped, Code: 409})),
					get("/api/e", with(plan{App: 1, Pos: posEp, Kind: kPlain})),
					get("/api/zz", with(none)), get("/api/p", with(none)), get("/zz", with(none)),
					get("/web/zz", with(none)))
			}
		}
		rn.judgeTree(c, ts, reqs)
	})
	// fiber.DefaultErrorHandler named explicitly (directly and through a copied Config) is a
	// configured handler: errors below such an app are answered by the default handler with
	// the status of the error, not by the custom handler of the root or of an enclosing app
	e.Corpus("explicit-default-handler", func(c *ev.Case) {
		ts := mkTree(hOK,
			appSpec{Parent: 0, Rel: "/api", Handler: hExplicitDefault, Mw: true},
			appSpec{Parent: 1, Rel: "/v1", Handler: hNone},
			appSpec{Parent: 0, Rel: "/web", Handler: hExplicitDefault, CfgCopy: true},
			appSpec{Parent: 0, Rel: "/adm", Handler: hOK},
			appSpec{Parent: 4, Rel: "/x", Handler: hExplicitDefault},
			appSpec{Parent: 5, Rel: "/y", Handler: hOK})
		var reqs []reqSpec
		for app, p := range []string{"", "/api", "/api/v1", "/web", "/adm", "/adm/x", "/adm/x/y"} {
			for k := kFiber; k <= kPredecl; k++ {
				reqs = append(reqs, get(p+"/e", plan{App: app, Pos: posEp, Kind: k, Code: 409}))
			}
			reqs = append(reqs, get(p+"/zz", none), get(p+"/p", none), get(p+"/e", plan{App: 0, Pos: posMwPre, Kind: kFiber, Code: 403}))
		}
		rn.judgeTree(c, ts, reqs)
	})
	// one app instance mounted at two places (two prefixes of the root; two different parents),
	// nested apps with own handlers inside it, mounted before and after; errors under each place
	for _, bottomUp := range []bool{false, true} {
		name := "app-mounted-twice-outer-first"
		if bottomUp {
			name = "app-mounted-twice-inner-first"
		}
		e.Corpus(name, func(c *ev.Case) {
			for _, early := range []bool{true, false} {
				ts := mkTree(hOK, appSpec{Parent: 0, Rel: "/v1", Handler: hOK}, appSpec{Parent: 1, Rel: "/admin", Handler: hOK},
					appSpec{Parent: 2, Rel: "/deep", Handler: hFailPlain})
				ts.BottomUp = bottomUp
				ts.Extra = []extraMount{{App: 1, Parent: 0, Rel: "/v2", Early: early}}
				var reqs []reqSpec
				for _, v := range []string{"/v1", "/v2"} {
					reqs = append(reqs, get(v+"/e", teapot(1, posEp)), get(v+"/zz", none), get(v+"/admin/e", teapot(2, posEp)),
						get(v+"/admin/zz", none), get(v+"/admin/deep/e", teapot(3, posEp)), get(v+"/admin/deep/p", none))
				}
				rn.judgeTree(c, ts, reqs)

				ts = mkTree(hOK, appSpec{Parent: 0, Rel: "/public", Handler: hNone}, appSpec{Parent: 0, Rel: "/internal", Handler: hOK},
					appSpec{Parent: 1, Rel: "/api", Handler: hOK}, appSpec{Parent: 3, Rel: "/admin", Handler: hOK})
				ts.BottomUp = bottomUp
				ts.Extra = []extraMount{{App: 3, Parent: 2, Rel: "/api", Early: early}}
				reqs = nil
				for _, v := range []string{"/public", "/internal"} {
					reqs = append(reqs, get(v+"/zz", none), get(v+"/api/e", teapot(3, posEp)), get(v+"/api/zz", none),
						get(v+"/api/admin/e", teapot(4, posEp)), get(v+"/api/admin/zz", none))
				}
				rn.judgeTree(c, ts, reqs)
			}
		})
	}
	// mounts performed from groups, every spelling of group prefix and mount prefix: the full
	// mount path decides, exactly as for app.Use(prefix, sub)
	e.Corpus("mounts-from-groups", func(c *ev.Case) {
		type form struct {
			rel, gp, mp string
			given       bool
		}
		forms := []form{
			{"/", "", "", false}, {"/", "", "", true}, {"/", "", "/", true},
			{"/", "/", "", false}, {"/", "/", "", true}, {"/", "/", "/", true},
			{"/g", "/g", "", false}, {"/g", "/g/", "/", true}, {"/g", "", "/g", true}, {"/g", "/", "/g", true},
			{"/g/m", "/g", "/m", true}, {"/g/m", "/g/", "/m", true}, {"/g/m", "/g/m", "", false}, {"/g/m", "", "/g/m", true},
		}
		for _, f := range forms {
			for _, mw := range []bool{true, false} {
				// next to another mounted app, and as the only mounted app
				for _, alone := range []bool{false, true} {
					site := appSpec{Parent: 0, Rel: f.rel, Handler: hOK, ViaGroup: true, GrpSet: true,
						GrpPrefix: f.gp, GrpMount: f.mp, GrpMountGiven: f.given, GrpMw: mw}
					ts := mkTree(hOK, site)
					if !alone {
						ts = mkTree(hOK, appSpec{Parent: 0, Rel: "/adm", Handler: hFailPlain}, site)
					}
					ts.RoutesFirst = false
					si := len(ts.Apps) - 1
					p := f.rel
					if p == "/" {
						p = ""
					}
					rn.judgeTree(c, ts, []reqSpec{get(p+"/e", teapot(si, posEp)), get(p+"/zz", none), get(p+"/p", none),
						get(p+"/e", teapot(0, posMwPre)), get("/adm/zz", none), get("/other/zz", none)})
				}
			}
		}
	})
	// an error that reaches the framework after c.SendFile ran earlier in the chain (missing
	// file: its own 404; or a scripted error of the endpoint or of a middleware after Next) is
	// scoped by the request path like any other; several requests on one reused RequestCtx
	e.Corpus("error-after-sendfile", func(c *ev.Case) {
		ts := mkTree(hOK, appSpec{Parent: 0, Rel: "/files", Handler: hOK, Mw: true}, appSpec{Parent: 1, Rel: "/docs", Handler: hFailPlain, Mw: true})
		var reqs []reqSpec
		for _, name := range []string{"a", "annual-report-2024.pdf", "a-much-longer-file-name-than-any-of-the-served-files-0123456789-0123456789.bin"} {
			for sf := 1; sf <= 3; sf++ {
				for app, p := range []string{"", "/files", "/files/docs"} {
					with := func(pl plan) plan { pl.SendFile = sf; return pl }
					reqs = append(reqs, get(p+"/f/"+name, with(none)), get(p+"/f/"+name, with(teapot(app, posEp))),
						get(p+"/f/"+name, with(teapot(app, posMwPost))))
				}
			}
		}
		rn.judgeTree(c, ts, reqs)
	})
	// mount prefixes written without the leading slash: app.Use("api", sub), nested "v1/x",
	// group prefix "g"; the routes answer below /api, /api/v1/x, /g/m
	e.Corpus("mount-prefix-without-leading-slash", func(c *ev.Case) {
		ts := mkTree(hOK, appSpec{Parent: 0, Rel: "/api", Handler: hOK, NoSlash: true})
		rn.judgeTree(c, ts, []reqSpec{get("/api/e", teapot(1, posEp)), get("/api/zz", none)})
		ts = mkTree(hOK, appSpec{Parent: 0, Rel: "/api", Handler: hOK}, appSpec{Parent: 1, Rel: "/v1/x", Handler: hOK, NoSlash: true})
		rn.judgeTree(c, ts, []reqSpec{get("/api/v1/x/e", teapot(2, posEp)), get("/api/v1/x/zz", none)})
		ts = mkTree(hOK, appSpec{Parent: 0, Rel: "/g/m", Handler: hOK, NoSlash: true, ViaGroup: true, GrpSet: true, GrpPrefix: "/g", GrpMount: "/m", GrpMountGiven: true})
		rn.judgeTree(c, ts, []reqSpec{get("/g/m/e", teapot(1, posEp)), get("/g/m/zz", none)})
		ts = mkTree(hOK, appSpec{Parent: 0, Rel: "/g/m", Handler: hOK, NoSlash: true, ViaGroup: true, GrpSet: true, GrpPrefix: "", GrpMount: "/g/m", GrpMountGiven: true})
		rn.judgeTree(c, ts, []reqSpec{get("/g/m/e", teapot(1, posEp)), get("/g/m/zz", none)})
	})
	// a mounted app that is also served directly (e.g. on an internal port): below it the
	// handler is chosen by the same rule with the served app as the root, whichever of the
	// two apps was started first and in whichever order the tree was put together
	e.Corpus("mounted-app-served-directly", func(c *ev.Case) {
		for _, bottomUp := range []bool{false, true} {
			for _, subFirst := range []bool{false, true} {
				for _, adminH := range []int{hNone, hOK} {
					ts := mkTree(hOK, appSpec{Parent: 0, Rel: "/admin", Handler: adminH, Mw: true},
						appSpec{Parent: 1, Rel: "/reports", Handler: hNone}, appSpec{Parent: 2, Rel: "/daily", Handler: hOK},
						appSpec{Parent: 1, Rel: "/users", Handler: hFailPlain})
					ts.BottomUp, ts.ServeSub, ts.SubFirst = bottomUp, 1, subFirst
					rn.judgeTree(c, ts, []reqSpec{get("/admin/reports/daily/e", teapot(3, posEp)), get("/admin/reports/daily/zz", none),
						get("/admin/reports/zz", none), get("/admin/users/zz", none), get("/admin/zz", none), get("/zz", none)})
					view := ts.subView(1)
					rn.judgeTree(c, view, []reqSpec{get("/reports/daily/e", teapot(2, posEp)), get("/reports/daily/zz", none),
						get("/reports/daily/p", none), get("/reports/zz", none), get("/reports/e", teapot(1, posEp)),
						get("/users/zz", none), get("/users/e", teapot(3, posEp)), get("/zz", none), get("/e", teapot(0, posMwPost))})
				}
			}
		}
	})
	// error values that are or wrap standard sentinel errors, at every position, under recording,
	// failing and default handlers: delivered once like any other error, status from the
	// *fiber.Error inside (else 500)
	e.Corpus("sentinel-error-values", func(c *ev.Case) {
		ts := mkTree(hNone, appSpec{Parent: 0, Rel: "/api", Handler: hOK, Mw: true}, appSpec{Parent: 0, Rel: "/web", Handler: hNone, Mw: true},
			appSpec{Parent: 0, Rel: "/adm", Handler: hFailPlain})
		var reqs []reqSpec
		for k := kSentinel; k <= kJoinSentinels; k++ {
			for sn := range sentinels {
				for app, p := range []string{"", "/api", "/web", "/adm"} {
					pos := []int{posEp, posMwPre, posMwPost}[(k+sn+app)%3]
					if !ts.Apps[app].Mw {
						pos = posEp
					}
					reqs = append(reqs, get(p+"/e", plan{App: app, Pos: pos, Kind: k, Code: 503, Sent: sn}))
				}
			}
		}
		rn.judgeTree(c, ts, reqs)
	})
	// the repository's error-aware middlewares in the chains: logger.New (custom format, Skip
	// always / never, default format) at root and sub-app level delivers the chain's error
	// itself and must not hand it on; recover.New turns a panic into the chain's error
	e.Corpus("logger-and-recover-middleware", func(c *ev.Case) {
		for kind := logFormat; kind <= logDefault; kind++ {
			for _, where := range []int{0, 1, 2} { // logger at the root, at /api, at both
				ts := mkTree(hOK, appSpec{Parent: 0, Rel: "/api", Handler: hOK, Mw: true}, appSpec{Parent: 1, Rel: "/v1", Handler: hFailPlain},
					appSpec{Parent: 0, Rel: "/web", Handler: hNone})
				ts.RootRecover = kind%2 == 0
				if where != 1 {
					ts.Apps[0].Logger = kind
				}
				if where != 0 {
					ts.Apps[1].Logger = kind
				}
				reqs := []reqSpec{get("/api/e", teapot(1, posEp)), get("/api/e", teapot(1, posMwPre)), get("/api/e", teapot(1, posMwPost)),
					get("/api/zz", none), get("/api/p", none), get("/api/v1/e", teapot(2, posEp)), get("/api/v1/zz", none),
					get("/web/e", teapot(3, posEp)), get("/web/zz", none), get("/e", teapot(0, posEp)), get("/zz", none),
					get("/api/e", teapot(0, posMwPre)), get("/api/e", teapot(0, posMwPost)), get("/api/e", none)}
				if ts.RootRecover {
					for _, rq := range reqs[:8] {
						if rq.Plan.Pos != posNone {
							rq.Plan.Panic = true
							reqs = append(reqs, rq)
						}
					}
				}
				rn.judgeTree(c, ts, reqs)
			}
		}
	})
	// control: disjoint prefixes, nested mounts, every position, every handler mode
	e.Corpus("control-disjoint", func(c *ev.Case) {
		ts := mkTree(hOK,
			appSpec{Parent: 0, Rel: "/api", Handler: hOK, Mw: true},
			appSpec{Parent: 1, Rel: "/v1", Handler: hFailPlain, Mw: true},
			appSpec{Parent: 2, Rel: "/x", Handler: hOK, Mw: true},
			appSpec{Parent: 0, Rel: "/web", Handler: hFailFiber, Mw: true})
		var reqs []reqSpec
		for app, p := range []string{"", "/api", "/api/v1", "/api/v1/x", "/web"} {
			for _, pos := range []int{posMwPre, posMwPost, posEp} {
				for k := kFiber; k <= kPredecl; k++ {
					reqs = append(reqs, get(p+"/e", plan{App: app, Pos: pos, Kind: k, Code: 409}))
				}
			}
			reqs = append(reqs, get(p+"/zz", none), get(p+"/p", none), get(p+"/e", none),
				get(p+"/e", plan{App: 0, Pos: posMwPre, Kind: kPlain}))
		}
		sigs := rn.judgeTree(c, ts, reqs)
		if len(sigs) == 0 {
			e.Stat("control_clean", 1)
		}
	})
	e.Corpus("control-default-root", func(c *ev.Case) {
		ts := mkTree(hNone, appSpec{Parent: 0, Rel: "/api", Handler: hNone, Mw: true}, appSpec{Parent: 0, Rel: "/web", Handler: hOK})
		var reqs []reqSpec
		for k := kFiber; k <= kPredecl; k++ {
			for _, code := range []int{400, 404, 418, 503, 599} {
				reqs = append(reqs, get("/api/e", plan{App: 1, Pos: posEp, Kind: k, Code: code}))
			}
		}
		reqs = append(reqs, get("/api/zz", none), get("/api/p", none), get("/zz", none), get("/web/zz", none))
		rn.judgeTree(c, ts, reqs)
	})
}
