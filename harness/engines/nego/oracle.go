package nego

import (
	"sort"
	"strconv"
	"strings"

	"github.com/gofiber/fiber/v3"

	"verifharness/internal/drive"
	"verifharness/internal/ev"
)

const (
	opAccepts = iota
	opFormat
	opAuto
)

// plan is what the handler of one request has to do and where it leaves what it observed.
type plan struct {
	op     int
	k      int
	offers []string
	fmts   []string // Format: MediaType per handler ("default" allowed)

	res     string
	accRes  string
	invoked []int
	err     string
}

// rig is one fiber app whose single handler executes the plan of the calling goroutine's slot.
type rig struct {
	d     *drive.Direct
	slots [64]*plan
}

func newRig() *rig {
	g := &rig{}
	app := fiber.New()
	app.Get("/", g.handle)
	g.d = drive.NewDirect(app)
	return g
}

func (g *rig) handle(c fiber.Ctx) error {
	n, _ := strconv.Atoi(c.Get("X-Slot"))
	p := g.slots[n]
	switch p.op {
	case opAccepts:
		p.res = accepts(c, p.k, p.offers)
		return nil
	case opFormat:
		hs := make([]fiber.ResFmt, len(p.fmts))
		for i, m := range p.fmts {
			i := i
			hs[i] = fiber.ResFmt{MediaType: m, Handler: func(c fiber.Ctx) error {
				p.invoked = append(p.invoked, i)
				return c.SendString("h" + strconv.Itoa(i))
			}}
		}
		err := c.Format(hs...)
		if err != nil {
			p.err = err.Error()
		}
		return err
	default:
		return c.AutoFormat("x")
	}
}

func accepts(c fiber.Ctx, k int, offers []string) string {
	switch k {
	case kMedia:
		return c.Accepts(offers...)
	case kCharset:
		return c.AcceptsCharsets(offers...)
	case kEncoding:
		return c.AcceptsEncodings(offers...)
	default:
		return c.AcceptsLanguages(offers...)
	}
}

// sess is the per-goroutine view: own slot, own memo of solo-acceptability probes.
type sess struct {
	e      *ev.Env
	c      *ev.Case
	g      *rig
	slot   int
	slotS  string
	acc    map[string]bool
	pl     plan
	probes int64
}

func newSess(e *ev.Env, c *ev.Case, g *rig, slot int) *sess {
	return &sess{e: e, c: c, g: g, slot: slot, slotS: strconv.Itoa(slot), acc: map[string]bool{}}
}

// do runs the current plan with the given header; ok=false if the code under test panicked
// (already recorded as a violation).
func (s *sess) do(fn string, k int, present bool, header string) (resp *drive.Resp, ok bool) {
	s.g.slots[s.slot] = &s.pl
	rq := &drive.Req{Method: "GET", URI: "/", Hdr: []drive.H{{K: "X-Slot", V: s.slotS}}}
	if present {
		rq.Hdr = append(rq.Hdr, drive.H{K: kindHdr[k], V: header})
	}
	panicked := s.e.Guard(s.c, "C09|panic|"+fn, map[string]any{"header": header, "present": present,
		"offers": s.pl.offers, "formats": s.pl.fmts}, func() { resp = s.g.d.Do(rq) })
	return resp, !panicked
}

func (s *sess) accepts(k int, present bool, header string, offers []string) (string, bool) {
	s.pl = plan{op: opAccepts, k: k, offers: offers}
	_, ok := s.do(kindFn[k], k, present, header)
	return s.pl.res, ok
}

// solo is observed solo acceptability: the real function, the range alone (no weight, no OWS),
// one offer.
func (s *sess) solo(k int, r *rng, o string) bool {
	if o == "" {
		return false
	}
	key := string(rune('0'+k)) + r.canon(k) + "\x00" + o
	if v, ok := s.acc[key]; ok {
		return v
	}
	s.probes++
	got, ok := s.accepts(k, true, r.canon(k), []string{o})
	v := ok && got == o
	s.acc[key] = v
	return v
}

// verdict of the oracle on one observed execution; nil = accepted.
type verdict struct {
	clause  string
	decided string
	got     string
	want    []string
	header  string
}

type lr struct {
	idx        int
	q, spec    int
	npAll, npD int
}

func specificity(k int, r *rng) int {
	if k == kMedia {
		switch {
		case r.typ == "*":
			return 0
		case r.sub == "*":
			return 1
		}
		return 2
	}
	if r.typ == "*" {
		return 0
	}
	return 1
}

func distinctNames(ps []prm) int {
	n := 0
	for i := range ps {
		dup := false
		for j := 0; j < i; j++ {
			if strings.EqualFold(ps[i].name, ps[j].name) {
				dup = true
				break
			}
		}
		if !dup {
			n++
		}
	}
	return n
}

func liveRanges(k int, h []rng) []lr {
	var out []lr
	for i := range h {
		r := &h[i]
		if r.empty {
			continue
		}
		q := qval(r.q)
		if q == 0 {
			continue
		}
		out = append(out, lr{idx: i, q: q, spec: specificity(k, r), npAll: len(r.params), npD: distinctNames(r.params)})
	}
	return out
}

func sortLive(l []lr, distinct bool) []lr {
	out := append([]lr(nil), l...)
	sort.SliceStable(out, func(a, b int) bool {
		x, y := out[a], out[b]
		if x.q != y.q {
			return x.q > y.q
		}
		if x.spec != y.spec {
			return x.spec > y.spec
		}
		nx, ny := x.npAll, y.npAll
		if distinct {
			nx, ny = x.npD, y.npD
		}
		return nx > ny
	})
	return out
}

// law is the stated composition: first offer (offer order) acceptable to the first range (preference
// order) that accepts any. Returns the offer and the index (into h) of the selecting range.
func (s *sess) law(k int, h []rng, sorted []lr, offers []offer) (string, int) {
	for _, x := range sorted {
		for i := range offers {
			if offers[i].text != "" && s.solo(k, &h[x.idx], offers[i].text) {
				return offers[i].text, x.idx
			}
		}
	}
	return "", -1
}

func inOffers(got string, offers []offer) bool {
	for i := range offers {
		if offers[i].text == got {
			return true
		}
	}
	return false
}

func strictPrefixEither(a, b string) bool {
	a, b = strings.ToLower(a), strings.ToLower(b)
	return a != b && (strings.HasPrefix(a, b) || strings.HasPrefix(b, a))
}

// tokenCovers is the literal relation "range token covers offer" of RFC 9110: "*" covers
// everything, charsets and content codings match as whole tokens (case-insensitively); a
// language range matches a tag it equals or is a "-"-bounded prefix of (RFC 4647 basic
// filtering) and, leniently, a tag that is a "-"-bounded prefix of the range (lookup reading).
func tokenCovers(k int, rangeTok, offer string) bool {
	if rangeTok == "*" {
		return true
	}
	a, b := strings.ToLower(rangeTok), strings.ToLower(offer)
	if a == b {
		return true
	}
	if k == kLanguage {
		return strings.HasPrefix(b, a+"-") || strings.HasPrefix(a, b+"-")
	}
	return false
}

// tokenRelation / mediaRelation name how the selected offer relates to the nearest live range:
// the input class of a "range-does-not-cover-offer" rejection.
func tokenRelation(h []rng, live []lr, offer string) string {
	for _, x := range live {
		if strictPrefixEither(h[x.idx].typ, offer) {
			return "offer-and-range-token-differ-by-prefix"
		}
	}
	return "unrelated-tokens"
}

func mediaRelation(h []rng, live []lr, o *offer) string {
	rel := "unrelated-types"
	for _, x := range live {
		r := &h[x.idx]
		switch {
		case strictPrefixEither(r.typ, o.typ) && (r.sub == "*" || strings.EqualFold(r.sub, o.sub)):
			return "offer-and-range-type-differ-by-prefix"
		case strings.EqualFold(r.typ, o.typ) && strictPrefixEither(r.sub, o.sub):
			rel = "offer-and-range-subtype-differ-by-prefix"
		}
	}
	return rel
}

// typeMatches is the structural relation "media range r covers explicit media type o".
func typeMatches(r *rng, o *offer) bool {
	if r.typ == "*" {
		return true
	}
	if !strings.EqualFold(r.typ, o.typ) {
		return false
	}
	return r.sub == "*" || strings.EqualFold(r.sub, o.sub)
}

// paramsPresent: every parameter name of the range has one of its values in the offer
// (names and values compared case-insensitively, unquoted).
func paramsPresent(r *rng, o *offer) bool {
	for i := range r.params {
		ok := false
		for j := range r.params {
			if !strings.EqualFold(r.params[i].name, r.params[j].name) {
				continue
			}
			for _, op := range o.params {
				if strings.EqualFold(op.name, r.params[j].name) && strings.EqualFold(op.val, r.params[j].val) {
					ok = true
				}
			}
		}
		if !ok {
			return false
		}
	}
	return true
}

func decidedBy(a, b lr) string {
	switch {
	case a.idx == b.idx:
		return "offer-order"
	case a.q != b.q:
		return "quality"
	case a.spec != b.spec:
		return "specificity"
	case a.npAll != b.npAll || a.npD != b.npD:
		return "params"
	}
	return "position"
}

// judge observes one composite execution and applies every clause of C09.
func (s *sess) judge(k int, h []rng, offers []offer, present bool) (*verdict, bool) {
	header := render(k, h)
	texts := offerTexts(offers)
	got, ok := s.accepts(k, present, header, texts)
	if !ok {
		return nil, false
	}
	if !present || header == "" {
		if len(offers) > 0 && got != texts[0] {
			return &verdict{clause: "absent-header", decided: "-", got: got, want: []string{texts[0]}, header: header}, true
		}
		return nil, true
	}
	if got != "" && !inOffers(got, offers) {
		return &verdict{clause: "not-an-offer", decided: "-", got: got, header: header}, true
	}
	live := liveRanges(k, h)
	sA := sortLive(live, false)
	wantA, selA := s.law(k, h, sA, offers)
	wantD, wantOK := wantA, got == wantA
	if !wantOK {
		wantD, _ = s.law(k, h, sortLive(live, true), offers)
		wantOK = got == wantD
	}
	if wantOK {
		// literal parameter clause, independent of the solo probes
		if k == kMedia && got != "" {
			var o *offer
			for i := range offers {
				if offers[i].text == got && !offers[i].ext {
					o = &offers[i]
					break
				}
			}
			if o != nil && o.typ != "" {
				cands, sat := 0, false
				for _, x := range live {
					r := &h[x.idx]
					if typeMatches(r, o) {
						cands++
						if paramsPresent(r, o) {
							sat = true
							break
						}
					}
				}
				if cands == 0 {
					return &verdict{clause: "range-does-not-cover-offer", decided: mediaRelation(h, live, o), got: got, header: header}, true
				}
				if !sat {
					return &verdict{clause: "param-missing", decided: "-", got: got, header: header}, true
				}
			}
		}
		if k != kMedia && got != "" {
			covered := false
			for _, x := range live {
				if tokenCovers(k, h[x.idx].typ, got) {
					covered = true
					break
				}
			}
			if !covered {
				return &verdict{clause: "range-does-not-cover-offer", decided: tokenRelation(h, live, got), got: got, header: header}, true
			}
		}
		return nil, true
	}
	want := []string{wantA}
	if wantD != wantA {
		want = append(want, wantD)
	}
	if got == "" {
		// an empty-string offer listed before every expected offer is indistinguishable from
		// "nothing": not judged.
		for i := range offers {
			if offers[i].text == "" {
				return nil, true
			}
			if offers[i].text == wantA || offers[i].text == wantD {
				break
			}
		}
		return &verdict{clause: "order", decided: "none-selected", got: got, want: want, header: header}, true
	}
	// which range can have selected the observed offer?
	best := -1
	for i, x := range sA {
		if s.solo(k, &h[x.idx], got) {
			best = i
			break
		}
	}
	if best < 0 {
		cl := "unacceptable-selected"
		for i := range h {
			if !h[i].empty && qval(h[i].q) == 0 && s.solo(k, &h[i], got) {
				cl = "q0-selected"
				break
			}
		}
		return &verdict{clause: cl, decided: "-", got: got, want: want, header: header}, true
	}
	dec := "no-range-expected"
	if selA >= 0 {
		for _, x := range sA {
			if x.idx == selA {
				dec = decidedBy(x, sA[best])
			}
		}
	}
	return &verdict{clause: "order", decided: dec, got: got, want: want, header: header}, true
}

// nontrivial: at least two live ranges whose first acceptable offers differ.
func (s *sess) nontrivial(k int, h []rng, offers []offer) bool {
	first := ""
	for _, x := range liveRanges(k, h) {
		for i := range offers {
			if offers[i].text != "" && s.solo(k, &h[x.idx], offers[i].text) {
				if first == "" {
					first = offers[i].text
				} else if first != offers[i].text {
					return true
				}
				break
			}
		}
	}
	return false
}

// ---------------------------------------------------------------------------------------------
// shrinking and input classes

// shrink reduces a rejected case to a local minimum that is still rejected (by the same clause
// unless clause is ""), normalising incidental spelling on the way: the smallest witness.
func (s *sess) shrink(k int, h []rng, offers []offer, clause string) ([]rng, []offer, *verdict) {
	budget := 400
	var last *verdict
	try := func(h2 []rng, o2 []offer) bool {
		if budget <= 0 {
			return false
		}
		budget--
		nonEmpty := 0
		for i := range h2 {
			if !h2[i].empty {
				nonEmpty++
			}
		}
		if nonEmpty == 0 || len(o2) == 0 || render(k, h2) == "" {
			return false
		}
		v, ok := s.judge(k, h2, o2, true)
		if ok && v != nil && (clause == "" || v.clause == clause) {
			last = v
			return true
		}
		return false
	}
	for progress := true; progress && budget > 0; {
		progress = false
		// offers
		for i := len(offers) - 1; i >= 0 && len(offers) > 1; i-- {
			o2 := append(append([]offer(nil), offers[:i]...), offers[i+1:]...)
			if try(h, o2) {
				offers, progress = o2, true
			}
		}
		// ranges
		for i := len(h) - 1; i >= 0 && len(h) > 1; i-- {
			h2 := cloneRanges(h)
			h2 = append(h2[:i], h2[i+1:]...)
			if try(h2, offers) {
				h, progress = h2, true
			}
		}
		for i := range h {
			if h[i].empty {
				for _, sl := range []func(r *rng) *string{func(r *rng) *string { return &r.wsAC }, func(r *rng) *string { return &r.wsBC }} {
					cur := *sl(&h[i])
					for _, repl := range []string{"", " ", "\t"} {
						if cur == repl || (repl != "" && len(cur) <= 1) {
							continue
						}
						h2 := cloneRanges(h)
						*sl(&h2[i]) = repl
						if try(h2, offers) {
							h, progress = h2, true
							break
						}
					}
				}
				continue
			}
			// parameters
			for j := len(h[i].params) - 1; j >= 0; j-- {
				h2 := cloneRanges(h)
				r := &h2[i]
				r.params = append(r.params[:j], r.params[j+1:]...)
				r.wsBS = append(r.wsBS[:j], r.wsBS[j+1:]...)
				r.wsAS = append(r.wsAS[:j], r.wsAS[j+1:]...)
				if try(h2, offers) {
					h, progress = h2, true
				}
			}
			// weight
			if h[i].q != "" {
				h2 := cloneRanges(h)
				h2[i].q, h2[i].qUpper = "", false
				if try(h2, offers) {
					h, progress = h2, true
				}
			}
			if h[i].qUpper {
				h2 := cloneRanges(h)
				h2[i].qUpper = false
				if try(h2, offers) {
					h, progress = h2, true
				}
			}
			if h[i].q != "" && qShort(h[i].q) != h[i].q {
				h2 := cloneRanges(h)
				h2[i].q = qShort(h[i].q)
				if try(h2, offers) {
					h, progress = h2, true
				}
			}
			// OWS slots: first to nothing, then HTAB to SP
			slots := func(r *rng) []*string {
				out := []*string{&r.wsAC, &r.wsBC}
				for j := range r.wsBS {
					out = append(out, &r.wsBS[j], &r.wsAS[j])
				}
				return out
			}
			for si := range slots(&h[i]) {
				cur := *slots(&h[i])[si]
				if cur == "" {
					continue
				}
				h2 := cloneRanges(h)
				*slots(&h2[i])[si] = ""
				if try(h2, offers) {
					h, progress = h2, true
					continue
				}
				if cur != " " {
					h2 = cloneRanges(h)
					*slots(&h2[i])[si] = " "
					if try(h2, offers) {
						h, progress = h2, true
						continue
					}
				}
				if cur != "\t" && strings.Contains(cur, "\t") {
					h2 = cloneRanges(h)
					*slots(&h2[i])[si] = "\t"
					if try(h2, offers) {
						h, progress = h2, true
					}
				}
			}
			// parameter spelling
			for j := range h[i].params {
				p := h[i].params[j]
				if p.val != "1" {
					h2 := cloneRanges(h)
					h2[i].params[j].val, h2[i].params[j].quoted = "1", false
					o2 := offers
					if k == kMedia {
						// keep offers that carried the old value in step
						o2 = append([]offer(nil), offers...)
						for oi := range o2 {
							if o2[oi].typ == "" && o2[oi].extName == "" {
								continue
							}
							ps := append([]prm(nil), o2[oi].params...)
							for pi := range ps {
								if strings.EqualFold(ps[pi].name, p.name) && strings.EqualFold(ps[pi].val, p.val) {
									ps[pi].val, ps[pi].quoted = "1", false
								}
							}
							o2[oi].params = ps
							renderOffer(&o2[oi], nil)
						}
					}
					if try(h2, o2) {
						h, offers, progress = h2, o2, true
						continue
					}
				}
				if p.quoted && isTokenStr(p.val) {
					h2 := cloneRanges(h)
					h2[i].params[j].quoted = false
					if try(h2, offers) {
						h, progress = h2, true
					}
				}
				if p.name != strings.ToLower(p.name) {
					h2 := cloneRanges(h)
					h2[i].params[j].name = strings.ToLower(p.name)
					if try(h2, offers) {
						h, progress = h2, true
					}
				}
			}
		}
		// empty list elements are covered by "ranges"; offers: spelling
		for oi := range offers {
			if o := offers[oi]; o.ext {
				name := o.extName
				if name == "" {
					name = o.text
				}
				if m := mimeOfExt(name); m != "" {
					o2 := append([]offer(nil), offers...)
					t := strings.SplitN(m, "/", 2)
					n := o
					n.ext, n.extName, n.typ, n.sub = false, "", t[0], t[1]
					n.params = append([]prm(nil), o.params...)
					renderOffer(&n, nil)
					o2[oi] = n
					if try(h, o2) {
						offers, progress = o2, true
					}
				}
			}
			if offers[oi].typ == "" && offers[oi].extName == "" {
				continue
			}
			for pj := len(offers[oi].params) - 1; pj >= 0; pj-- {
				o2 := append([]offer(nil), offers...)
				ps := append([]prm(nil), o2[oi].params...)
				o2[oi].params = append(ps[:pj], ps[pj+1:]...)
				renderOffer(&o2[oi], nil)
				if try(h, o2) {
					offers, progress = o2, true
				}
			}
			// canonical spelling (no space after ';', lower-case names, unquoted tokens)
			o2 := append([]offer(nil), offers...)
			ps := append([]prm(nil), o2[oi].params...)
			for pi := range ps {
				ps[pi].name = strings.ToLower(ps[pi].name)
				if isTokenStr(ps[pi].val) {
					ps[pi].quoted = false
				}
			}
			o2[oi].params = ps
			renderOffer(&o2[oi], nil)
			if o2[oi].text != offers[oi].text && try(h, o2) {
				offers, progress = o2, true
			}
		}
	}
	return h, offers, last
}
