package nego

import (
	"fmt"
	"strconv"
	"strings"

	"verifharness/internal/gen"
)

// Header kinds. Accept-Charset/-Encoding/-Language share one code path in fiber (getOffer +
// acceptsOffer); Accept uses getOffer + acceptsOfferType.
const (
	kMedia = iota
	kCharset
	kEncoding
	kLanguage
)

var kindFn = [...]string{"Accepts", "AcceptsCharsets", "AcceptsEncodings", "AcceptsLanguages"}
var kindHdr = [...]string{"Accept", "Accept-Charset", "Accept-Encoding", "Accept-Language"}

// prm is one media-type parameter; val is the logical (unescaped) value.
type prm struct {
	name   string
	val    string
	quoted bool
}

func isTokenStr(s string) bool {
	if s == "" {
		return false
	}
	for i := 0; i < len(s); i++ {
		if strings.IndexByte(gen.TChar, s[i]) < 0 {
			return false
		}
	}
	return true
}

func (p prm) render() string {
	if !p.quoted {
		return p.name + "=" + p.val
	}
	var b strings.Builder
	b.WriteString(p.name)
	b.WriteString(`="`)
	for i := 0; i < len(p.val); i++ {
		if p.val[i] == '"' || p.val[i] == '\\' {
			b.WriteByte('\\')
		}
		b.WriteByte(p.val[i])
	}
	b.WriteByte('"')
	return b.String()
}

// rng is one list element of an Accept-style header, kept as structure: the oracle never parses
// the header text.
type rng struct {
	empty  bool   // empty list element (RFC 9110 5.6.1.2: recipients must ignore)
	typ    string // media: type or "*"; token kinds: the token or "*"
	sub    string // media only: subtype or "*"
	params []prm
	q      string // "" = no weight; otherwise the literal qvalue
	qUpper bool   // spelled "Q="
	// OWS slots. wsBS[i]/wsAS[i] surround the i-th ';' (parameters first, the weight last);
	// both always have len(params)+1 entries.
	wsBS, wsAS []string
	wsAC       string // OWS after the preceding ',' (unused for the first element)
	wsBC       string // OWS before the following ',' (unused for the last element)
}

func (r *rng) clone() rng {
	c := *r
	c.params = append([]prm(nil), r.params...)
	c.wsBS = append([]string(nil), r.wsBS...)
	c.wsAS = append([]string(nil), r.wsAS...)
	return c
}

func cloneRanges(h []rng) []rng {
	out := make([]rng, len(h))
	for i := range h {
		out[i] = h[i].clone()
	}
	return out
}

func (r *rng) name(k int) string {
	if k == kMedia {
		return r.typ + "/" + r.sub
	}
	return r.typ
}

// canon is the range alone, no OWS, no weight: the header of a solo-acceptability probe.
func (r *rng) canon(k int) string {
	var b strings.Builder
	b.WriteString(r.name(k))
	for _, p := range r.params {
		b.WriteByte(';')
		b.WriteString(p.render())
	}
	return b.String()
}

func render(k int, h []rng) string {
	var b strings.Builder
	for i := range h {
		r := &h[i]
		if i > 0 {
			b.WriteByte(',')
			b.WriteString(r.wsAC)
		}
		if !r.empty {
			b.WriteString(r.name(k))
			for j, p := range r.params {
				b.WriteString(r.wsBS[j])
				b.WriteByte(';')
				b.WriteString(r.wsAS[j])
				b.WriteString(p.render())
			}
			if r.q != "" {
				j := len(r.params)
				b.WriteString(r.wsBS[j])
				b.WriteByte(';')
				b.WriteString(r.wsAS[j])
				if r.qUpper {
					b.WriteString("Q=")
				} else {
					b.WriteString("q=")
				}
				b.WriteString(r.q)
			}
		}
		if i < len(h)-1 {
			b.WriteString(r.wsBC)
		}
	}
	return b.String()
}

// qval converts a generated qvalue literal to thousandths.
func qval(q string) int {
	if q == "" {
		return 1000
	}
	if q[0] == '1' {
		return 1000
	}
	v := 0
	frac := ""
	if len(q) > 2 {
		frac = q[2:]
	}
	for i := 0; i < 3; i++ {
		v *= 10
		if i < len(frac) {
			v += int(frac[i] - '0')
		}
	}
	return v
}

// shortest spelling of the same quality
func qShort(q string) string {
	if q == "" {
		return ""
	}
	if q[0] == '1' {
		return "1"
	}
	s := strings.TrimRight(q, "0")
	s = strings.TrimSuffix(s, ".")
	if s == "" {
		s = "0"
	}
	return s
}

// offer is one element of the offers list.
type offer struct {
	text string
	typ  string // media, explicit MIME only
	sub  string
	ext  bool // given as file extension
	// extName is the extension of an offer given as extension that may carry parameters
	// (`json;profile="https://example.com/schemas/user"`); typ/sub stay empty for those
	extName string
	params  []prm
	sp      []bool // space after the i-th ';'
}

func renderOffer(o *offer, spaces []bool) {
	o.sp = spaces
	if o.typ == "" && o.extName == "" {
		return
	}
	var b strings.Builder
	if o.extName != "" {
		b.WriteString(o.extName)
	} else {
		b.WriteString(o.typ + "/" + o.sub)
	}
	for i, p := range o.params {
		b.WriteByte(';')
		if i < len(spaces) && spaces[i] {
			b.WriteByte(' ')
		}
		b.WriteString(p.render())
	}
	o.text = b.String()
}

func offerTexts(os []offer) []string {
	out := make([]string, len(os))
	for i := range os {
		out[i] = os[i].text
	}
	return out
}

// ---------------------------------------------------------------------------------------------
// pools

var mtypes = []string{"text", "application", "image"}

func msubs(t string) []string {
	related := func(base string) bool { return strings.HasPrefix(t, base) || strings.HasPrefix(base, t) }
	switch {
	case related("text"):
		return []string{"html", "plain", "css", "xml"}
	case related("application"):
		return []string{"json", "xml", "octet-stream"}
	default:
		return []string{"png", "jpeg"}
	}
}

// sibling returns a different token that is a strict prefix or a strict extension of t
// (text -> tex / textual, gzip -> gz / gzipx, en -> e / eng): names that only a prefix test
// would confuse.
func sibling(r *gen.Rand, t string) string {
	if t == "*" || t == "" {
		return t
	}
	if len(t) >= 2 && r.Bool() {
		p := strings.TrimRight(t[:r.Range(1, len(t)-1)], "-.")
		if p != "" {
			return p
		}
	}
	return t + gen.Pick(r, []string{"x", "ual", "s", "2", "-x"})
}

// subtagCuts returns the positions of the '-' separators of a language tag.
func subtagCuts(t string) []int {
	var cuts []int
	for i := 1; i < len(t)-1; i++ {
		if t[i] == '-' {
			cuts = append(cuts, i)
		}
	}
	return cuts
}

func extOf(mime string) string {
	switch mime {
	case "text/html":
		return "html"
	case "application/json":
		return "json"
	case "text/plain":
		return "txt"
	case "application/xml":
		return "xml"
	case "image/png":
		return "png"
	case "text/css":
		return "css"
	case "image/jpeg":
		return "jpg"
	}
	return ""
}

func mimeOfExt(ext string) string {
	switch ext {
	case "html":
		return "text/html"
	case "json":
		return "application/json"
	case "txt":
		return "text/plain"
	case "xml":
		return "application/xml"
	case "png":
		return "image/png"
	case "css":
		return "text/css"
	case "jpg":
		return "image/jpeg"
	}
	return ""
}

var pnames = []string{"a", "b", "version", "charset", "format", "level"}
var pvalsTok = []string{"1", "2", "utf-8", "flowed", "x"}

// logical (unescaped) values that need a quoted-string; prm.render escapes '"' and '\' as
// quoted-pairs. The second row ends in an escaped backslash or stacks backslashes and quotes:
// `dir\` is spelled "dir\\", `x\"` is spelled "x\\\"" — the closing quote follows a backslash there.
var pvalsQuotedOnly = []string{"x,y", `x"y`, `x\y`, "x;q=0", "x y", ",", `"`,
	`dir\`, `\`, `\\`, `a\\b`, `x\"`, `"\`, `x\",y`, `c:\d\`, `\"\`,
	"https://example.com/schemas/user", "a/b", "k=v"}

// values holding '/', '=', ';' or ',' : harmless inside a quoted-string, meaningful outside
var delimVals = []string{"https://example.com/schemas/user", "a/b", "k=v", "/", "x;y", "p,q", "text/html", "a=b/c;d,e"}

var qLits = []string{"0.001", "0.1", "0.3", "0.5", "0.50", "0.500", "0.7", "0.9", "0.999", "1", "1.", "1.0", "1.000", "0.25", "0.75"}
var qZero = []string{"0", "0.", "0.0", "0.00", "0.000"}

var tokPools = [...][]string{
	nil,
	{"utf-8", "iso-8859-1", "utf-16", "us-ascii", "windows-1252"},
	{"gzip", "br", "deflate", "compress", "identity", "zstd"},
	{"en", "en-US", "en-GB", "fr", "de", "nl", "ru", "pt", "fr-CH", "zh-Hant-TW", "zh-Hans-CN", "sr-Latn-RS", "de-CH-1996", "zh-Hant", "sr"},
}

func genWS(r *gen.Rand, hostile, afterComma, afterSemi bool) string {
	if !hostile {
		if afterComma && r.Chance(3, 4) {
			return " "
		}
		if afterSemi && r.Chance(1, 3) {
			return " "
		}
		return ""
	}
	w0 := 62
	if afterComma {
		w0 = 30
	}
	switch r.PickW(w0, 25, 6, 4, 3) {
	case 0:
		return ""
	case 1:
		return " "
	case 2:
		return "\t"
	case 3:
		return "  "
	default:
		return " \t"
	}
}

func genQ(r *gen.Rand, prev string) string {
	switch r.PickW(40, 12, 26, 12, 6, 4) {
	case 0:
		return ""
	case 1:
		return gen.Pick(r, qZero)
	case 2:
		return gen.Pick(r, qLits)
	case 3:
		return prev // deliberate equal-quality tie (possibly "no weight")
	case 4:
		// any three-decimal weight
		return fmt.Sprintf("0.%03d", r.Range(1, 999))
	default:
		// a weight one thousandth away from the previous range's (order must still follow it)
		if f, err := strconv.ParseFloat(prev, 64); err == nil && f > 0.0015 && f < 0.9985 {
			k := int(f*1000+0.5) + 1 - 2*r.Intn(2)
			return fmt.Sprintf("0.%03d", k)
		}
		return fmt.Sprintf("0.%03d", r.Range(1, 999))
	}
}

func genParam(r *gen.Rand, hostile bool) prm {
	p := prm{name: gen.Pick(r, pnames)}
	if hostile && r.Chance(1, 10) {
		p.name = strings.ToUpper(p.name)
	}
	if hostile && r.Chance(1, 5) {
		p.val = gen.Pick(r, pvalsQuotedOnly)
		p.quoted = true
		return p
	}
	p.val = gen.Pick(r, pvalsTok)
	if r.Chance(1, 5) {
		p.quoted = true
	}
	return p
}

func fillWS(r *gen.Rand, x *rng, hostile bool) {
	n := len(x.params) + 1
	x.wsBS = make([]string, n)
	x.wsAS = make([]string, n)
	for j := 0; j < n; j++ {
		if hostile {
			x.wsBS[j] = genWS(r, true, false, false)
		}
		x.wsAS[j] = genWS(r, hostile, false, true)
	}
	x.wsAC = genWS(r, hostile, true, false)
	if hostile {
		x.wsBC = genWS(r, true, false, false)
	}
}

// genHeader builds 1..8 list elements for the given kind.
func genHeader(r *gen.Rand, k int, hostile bool) []rng {
	n := 1 + r.PickW(12, 24, 22, 16, 10, 7, 5, 4)
	h := make([]rng, 0, n+1)
	prevQ := ""
	for i := 0; i < n; i++ {
		var x rng
		if i > 0 && r.Chance(1, 9) {
			// duplicate range (same type, possibly other weight/params)
			src := h[r.Intn(len(h))]
			if !src.empty {
				x.typ, x.sub = src.typ, src.sub
				if r.Bool() {
					x.params = append([]prm(nil), src.params...)
				}
			}
		}
		if x.typ == "" {
			if k == kMedia {
				switch r.PickW(10, 22, 68) {
				case 0:
					x.typ, x.sub = "*", "*"
				case 1:
					x.typ, x.sub = gen.Pick(r, mtypes), "*"
				default:
					x.typ = gen.Pick(r, mtypes)
					x.sub = gen.Pick(r, msubs(x.typ))
				}
				if r.Chance(1, 8) {
					if x.sub == "*" || r.Bool() {
						x.typ = sibling(r, x.typ)
					} else {
						x.sub = sibling(r, x.sub)
					}
				}
				np := r.PickW(58, 25, 11, 6)
				for j := 0; j < np; j++ {
					x.params = append(x.params, genParam(r, hostile))
				}
				if np > 0 && r.Chance(1, 8) {
					// duplicate parameter name
					d := x.params[r.Intn(len(x.params))]
					d.val = gen.Pick(r, pvalsTok)
					d.quoted = false
					x.params = append(x.params, d)
				}
			} else {
				if r.Chance(1, 8) {
					x.typ = "*"
				} else {
					x.typ = gen.Pick(r, tokPools[k])
					if r.Chance(1, 8) {
						x.typ = sibling(r, x.typ)
					}
				}
			}
		}
		x.q = genQ(r, prevQ)
		prevQ = x.q
		if hostile && x.q != "" && r.Chance(1, 20) {
			x.qUpper = true
		}
		fillWS(r, &x, hostile)
		h = append(h, x)
		if hostile && r.Chance(1, 30) {
			var e rng
			e.empty = true
			fillWS(r, &e, hostile)
			h = append(h, e)
		}
	}
	return h
}

func concretize(r *gen.Rand, x *rng) (string, string) {
	t, s := x.typ, x.sub
	if t == "*" || t == "" {
		t = gen.Pick(r, mtypes)
	}
	if s == "*" || s == "" {
		s = gen.Pick(r, msubs(t))
	}
	return t, s
}

// genOffers builds 1..6 offers correlated with the header so that matches happen.
// allowExt/allowEmpty are off for Format (media types only).
func genOffers(r *gen.Rand, k int, h []rng, allowExt, allowEmpty bool) []offer {
	n := 1 + r.PickW(14, 26, 26, 18, 10, 6)
	var live []int
	for i := range h {
		if !h[i].empty {
			live = append(live, i)
		}
	}
	os := make([]offer, 0, n)
	for i := 0; i < n; i++ {
		var o offer
		if allowEmpty && r.Chance(1, 25) {
			os = append(os, o)
			continue
		}
		var src *rng
		if len(live) > 0 && r.Chance(2, 3) {
			src = &h[live[r.Intn(len(live))]]
		}
		if k != kMedia {
			if src != nil && src.typ != "*" {
				o.text = src.typ
				if k == kLanguage && r.Chance(2, 5) {
					// a shorter tag the range's subtags begin with: zh-Hant-TW -> zh-Hant or zh
					if cuts := subtagCuts(o.text); len(cuts) > 0 {
						o.text = o.text[:gen.Pick(r, cuts)]
					}
				}
			} else {
				o.text = gen.Pick(r, tokPools[k])
			}
			if r.Chance(1, 6) {
				o.text = sibling(r, o.text)
			}
			os = append(os, o)
			continue
		}
		if src != nil {
			o.typ, o.sub = concretize(r, src)
		} else {
			o.typ = gen.Pick(r, mtypes)
			o.sub = gen.Pick(r, msubs(o.typ))
		}
		if r.Chance(1, 6) {
			// a type or subtype that is only a prefix / an extension of the one the range names
			if r.Bool() {
				o.typ = sibling(r, o.typ)
			} else {
				o.sub = sibling(r, o.sub)
			}
		}
		if allowExt && r.Chance(1, 5) {
			if e := extOf(o.typ + "/" + o.sub); e != "" {
				// an extension offer, with or without parameters
				o.ext, o.extName, o.text = true, e, e
				o.typ, o.sub = "", ""
			}
		}
		if src != nil && len(src.params) > 0 {
			switch r.PickW(60, 20, 20) {
			case 0: // all parameters, maybe more, shuffled, own spelling
				for _, p := range src.params {
					q := p
					if r.Chance(1, 4) {
						q.name = strings.ToUpper(q.name)
					}
					if r.Chance(1, 4) && isTokenStr(q.val) {
						q.quoted = !q.quoted
					}
					if r.Chance(1, 8) && isTokenStr(q.val) {
						q.val = strings.ToUpper(q.val)
					}
					o.params = append(o.params, q)
				}
				if r.Chance(1, 3) {
					o.params = append(o.params, genParam(r, false))
				}
				gen.Shuffle(r, o.params)
			case 1: // proper subset
				for _, p := range src.params {
					if r.Bool() {
						o.params = append(o.params, p)
					}
				}
				if len(o.params) == len(src.params) {
					o.params = o.params[:len(o.params)-1]
				}
			}
		} else if r.Chance(1, 6) {
			o.params = append(o.params, genParam(r, false))
		}
		if (o.ext && r.Chance(1, 3)) || r.Chance(1, 12) {
			// a quoted value with delimiters of the surrounding syntax inside
			o.params = append(o.params, prm{name: gen.Pick(r, []string{"profile", "schema", "a"}), val: gen.Pick(r, delimVals), quoted: true})
		}
		sp := make([]bool, len(o.params))
		for j := range sp {
			sp[j] = r.Chance(1, 3)
		}
		renderOffer(&o, sp)
		os = append(os, o)
	}
	return os
}
