package nego

import (
	"sort"
	"strconv"
	"strings"
)

// Spelling features: ways the generator spells a header or an offer that do not change its
// meaning under RFC 9110. A rejected case is rebuilt with all of them normalised away
// ("canonical"); if it is still rejected the failure is semantic (ordering / acceptability) and
// is classified by clause. Otherwise each feature is re-applied alone: every feature that alone
// makes the canonical case fail is one root cause with one signature.
const (
	fHtab = iota
	fOwsAfterWeight
	fOwsBeforeComma
	fOwsAfterComma
	fOwsBeforeSemi
	fOwsAfterSemi
	fUpperQ
	fQLong
	fQDot
	fQuotedToken
	fQuotedComma
	fQuotedDquote
	fQuotedBackslash
	fQuotedTrailingBackslash
	fQuotedSemi
	fQuotedSpace
	fQuotedSlash
	fUpperParamName
	fEmptyElement
	fOfferExt
	fOfferSpace
	fOfferQuoted
	fOfferCase
	fOfferEmpty
	nFeat
)

var featName = [nFeat]string{
	"htab-as-ows", "ows-between-weight-and-comma", "ows-before-comma", "ows-after-comma",
	"ows-before-semicolon", "ows-after-semicolon", "uppercase-Q-weight", "weight-with-trailing-zeros",
	"weight-with-trailing-dot", "quoted-token-value", "comma-in-quoted-value", "escaped-dquote-in-quoted-value",
	"escaped-backslash-in-quoted-value", "quoted-value-ending-in-escaped-backslash", "semicolon-in-quoted-value", "space-in-quoted-value", "slash-or-equals-in-quoted-value",
	"uppercase-parameter-name", "empty-list-element", "offer-as-extension", "offer-space-after-semicolon",
	"offer-quoted-token-value", "offer-uppercase", "offer-empty-string",
}

var combinationOrder = [nFeat]int{fQuotedTrailingBackslash, fQuotedDquote, fQuotedBackslash, fHtab, fUpperQ, fQDot, fQLong, fOwsAfterWeight,
	fQuotedComma, fQuotedSemi, fQuotedSlash, fQuotedSpace, fQuotedToken, fUpperParamName, fOwsBeforeComma, fOwsBeforeSemi,
	fOwsAfterSemi, fOwsAfterComma, fOfferExt, fOfferSpace, fOfferQuoted, fOfferCase, fOfferEmpty, fEmptyElement}

type fset uint32

func (s fset) has(f int) bool { return s&(1<<uint(f)) != 0 }

func valueClass(v string) int {
	switch {
	case isTokenStr(v):
		return -1
	case strings.HasSuffix(v, `\`):
		return fQuotedTrailingBackslash
	case strings.Contains(v, `"`):
		return fQuotedDquote
	case strings.Contains(v, `\`):
		return fQuotedBackslash
	case strings.Contains(v, ","):
		return fQuotedComma
	case strings.Contains(v, ";"):
		return fQuotedSemi
	case strings.ContainsAny(v, "/=:"):
		return fQuotedSlash
	}
	return fQuotedSpace
}

// build re-spells a case keeping only the spelling features in keep; it also reports which
// features the original has. build(.., all) is the original, build(.., 0) the canonical case.
func build(k int, h []rng, offers []offer, keep fset) ([]rng, []offer, fset) {
	var present fset
	ren := map[string]string{}
	rename := func(v string) string {
		if x, ok := ren[v]; ok {
			return x
		}
		x := "v" + strconv.Itoa(len(ren))
		ren[v] = x
		return x
	}
	ws := func(v string, pos int, used bool) string {
		if v == "" || !used {
			return ""
		}
		if strings.Contains(v, "\t") {
			present |= 1 << fHtab
			if keep.has(fHtab) {
				return v
			}
			if strings.Contains(v, " ") {
				present |= 1 << uint(pos)
				if keep.has(pos) {
					return " "
				}
			}
			return ""
		}
		present |= 1 << uint(pos)
		if keep.has(pos) {
			return v
		}
		return ""
	}
	param := func(p prm, fUpper, fQuoted int) prm {
		if l := strings.ToLower(p.name); l != p.name {
			present |= 1 << uint(fUpper)
			if !keep.has(fUpper) {
				p.name = l
			}
		}
		if vc := valueClass(p.val); vc >= 0 {
			present |= 1 << uint(vc)
			if !keep.has(vc) {
				p.val, p.quoted = rename(p.val), false
			}
		} else {
			if fUpper == fOfferCase {
				if l := strings.ToLower(p.val); l != p.val {
					present |= 1 << fOfferCase
					if !keep.has(fOfferCase) {
						p.val = l
					}
				}
			}
			if p.quoted {
				present |= 1 << uint(fQuoted)
				if !keep.has(fQuoted) {
					p.quoted = false
				}
			}
		}
		return p
	}
	var out []rng
	for i := range h {
		r := h[i].clone()
		posBC := fOwsBeforeComma
		if !r.empty && r.q != "" {
			posBC = fOwsAfterWeight
		}
		r.wsAC = ws(r.wsAC, fOwsAfterComma, i > 0)
		r.wsBC = ws(r.wsBC, posBC, i < len(h)-1)
		if r.empty {
			present |= 1 << fEmptyElement
			if keep.has(fEmptyElement) {
				out = append(out, r)
			}
			continue
		}
		used := len(r.params)
		if r.q != "" {
			used++
		}
		for j := range r.wsBS {
			r.wsBS[j] = ws(r.wsBS[j], fOwsBeforeSemi, j < used)
			r.wsAS[j] = ws(r.wsAS[j], fOwsAfterSemi, j < used)
		}
		if r.q != "" {
			if sh := qShort(r.q); sh != r.q {
				f := fQLong
				if strings.HasSuffix(r.q, ".") {
					f = fQDot
				}
				present |= 1 << uint(f)
				if !keep.has(f) {
					r.q = sh
				}
			}
			if r.qUpper {
				present |= 1 << fUpperQ
				if !keep.has(fUpperQ) {
					r.qUpper = false
				}
			}
		}
		for j := range r.params {
			r.params[j] = param(r.params[j], fUpperParamName, fQuotedToken)
		}
		out = append(out, r)
	}
	var os []offer
	for i := range offers {
		o := offers[i]
		if o.text == "" {
			present |= 1 << fOfferEmpty
			if keep.has(fOfferEmpty) {
				os = append(os, o)
			}
			continue
		}
		if o.ext {
			present |= 1 << fOfferExt
			name := o.extName
			if name == "" {
				name = o.text
			}
			if m := mimeOfExt(name); m != "" && !keep.has(fOfferExt) {
				t := strings.SplitN(m, "/", 2)
				o.ext, o.extName, o.typ, o.sub = false, "", t[0], t[1]
			} else if o.extName == "" {
				os = append(os, o)
				continue
			}
		}
		if k != kMedia || (o.typ == "" && o.extName == "") {
			os = append(os, o)
			continue
		}
		ps := make([]prm, len(o.params))
		for j := range o.params {
			ps[j] = param(o.params[j], fOfferCase, fOfferQuoted)
		}
		o.params = ps
		sp := o.sp
		for _, b := range o.sp {
			if b {
				present |= 1 << fOfferSpace
				if !keep.has(fOfferSpace) {
					sp = nil
				}
				break
			}
		}
		renderOffer(&o, sp)
		os = append(os, o)
	}
	return out, os, present
}

func featNames(s fset) string {
	var n []string
	for f := 0; f < nFeat; f++ {
		if s.has(f) {
			n = append(n, featName[f])
		}
	}
	return strings.Join(n, "+")
}

// semFeatures: the semantic shape of a canonical minimised witness.
func semFeatures(k int, h []rng) string {
	set := map[string]bool{}
	n := 0
	for i := range h {
		r := &h[i]
		if r.empty {
			continue
		}
		n++
		if len(r.params) > 0 {
			set["params"] = true
		}
		if distinctNames(r.params) != len(r.params) {
			set["dup-param"] = true
		}
		if r.q != "" && qval(r.q) == 0 {
			set["q0"] = true
		}
		for i2 := 0; i2 < i; i2++ {
			if !h[i2].empty && strings.EqualFold(h[i2].canon(k), r.canon(k)) {
				set["dup-range"] = true
			}
		}
	}
	switch {
	case n <= 1:
		set["ranges=1"] = true
	case n == 2:
		set["ranges=2"] = true
	case n >= 256:
		// a witness that cannot be reduced below 256 ranges: its length is the input class, the
		// incidental content of a header that long is not
		return "ranges=256+"
	default:
		set["ranges=3+"] = true
	}
	keys := make([]string, 0, len(set))
	for f := range set {
		keys = append(keys, f)
	}
	sort.Strings(keys)
	return strings.Join(keys, "+")
}

// semSig is the signature of a failure that survives canonical spelling. A selected offer that no
// range literally covers is one root cause per acceptability predicate (media types / the token
// predicate shared by charsets, encodings and languages), whatever the rest of the header is.
func semSig(k int, mh []rng, mv *verdict) string {
	if mv.clause == "range-does-not-cover-offer" {
		site := "Accepts"
		if k != kMedia {
			site = "AcceptsCharsets+AcceptsEncodings+AcceptsLanguages"
		}
		return "C09|" + mv.clause + "|" + site + "|" + mv.decided
	}
	return "C09|" + mv.clause + "|" + kindFn[k] + "|" + mv.decided + "|" + semFeatures(k, mh)
}

// classify turns one rejected case into violations with stable signatures.
func (s *sess) classify(k int, h []rng, offers []offer, v *verdict) {
	emit := func(sig string, mh []rng, mofs []offer, mv *verdict) {
		detail := map[string]any{
			"function": kindFn[k], "header_name": kindHdr[k], "header": v.header,
			"offers": offerTexts(offers), "got": v.got, "want": v.want, "clause": v.clause,
			"min_header": mv.header, "min_offers": offerTexts(mofs), "min_got": mv.got, "min_want": mv.want, "min_clause": mv.clause,
		}
		_, _, mp := build(k, mh, mofs, 0)
		detail["min_spelling_features"] = featNames(mp)
		what := kindFn[k] + " returned " + strconv.Quote(mv.got) + " for " + kindHdr[k] + ": " + strconv.Quote(mv.header) +
			" offers [" + strings.Join(offerTexts(mofs), " | ") + "]; the stated order selects " + strconv.Quote(strings.Join(mv.want, " or ")) +
			" (" + mv.clause + ")"
		s.e.Violation(s.c, sig, what, detail)
	}
	ch, co, present := build(k, h, offers, 0)
	if len(ch) > 0 && len(co) > 0 {
		if cv, ok := s.judge(k, ch, co, true); ok && cv != nil {
			mh, mofs, mv := s.shrink(k, ch, co, cv.clause)
			if mv == nil {
				mv = cv
			}
			emit(semSig(k, mh, mv), mh, mofs, mv)
			return
		}
	}
	singles := func(h []rng, offers []offer, present fset) bool {
		found := false
		for f := 0; f < nFeat; f++ {
			if !present.has(f) {
				continue
			}
			vh, vo, _ := build(k, h, offers, 1<<uint(f))
			if len(vh) == 0 || len(vo) == 0 {
				continue
			}
			if vv, ok := s.judge(k, vh, vo, true); ok && vv != nil {
				mh, mofs, mv := s.shrink(k, vh, vo, "")
				if mv == nil {
					mv = vv
				}
				emit("C09|valid-spelling-misread|Accepts*|"+featName[f], mh, mofs, mv)
				found = true
			}
		}
		return found
	}
	if singles(h, offers, present) {
		return
	}
	// several defects interact in the full case: minimise first, then attribute
	mh, mofs, mv := s.shrink(k, h, offers, "")
	if mv == nil {
		mv = v
	}
	_, _, p := build(k, mh, mofs, 0)
	if p == 0 {
		// the minimum is canonical: a semantic failure that only shows once other ranges are gone
		emit(semSig(k, mh, mv), mh, mofs, mv)
		return
	}
	if p&(p-1) == 0 {
		emit("C09|valid-spelling-misread|Accepts*|"+featNames(p), mh, mofs, mv)
		return
	}
	if singles(mh, mofs, p) {
		return
	}
	// Several spellings are needed together (each one is necessary in the minimum). To keep the
	// set of signatures closed the case is attributed to the first necessary feature in
	// combinationOrder (rarest spelling first; mere carriers of a comma or of a value last);
	// detail.min_spelling_features lists all of them.
	s.e.Stat("combined_spelling_witnesses", 1)
	for _, f := range combinationOrder {
		if p.has(f) {
			emit("C09|valid-spelling-misread|Accepts*|"+featName[f], mh, mofs, mv)
			return
		}
	}
	emit("C09|unclassified|"+kindFn[k]+"|"+mv.clause, mh, mofs, mv)
}
