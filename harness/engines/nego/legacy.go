package nego

import (
	"strconv"
	"strings"

	"verifharness/internal/ev"
	"verifharness/internal/gen"
)

// Family "legacy-accept-ext": a range whose weight is followed by RFC 7231 style extension
// parameters (`text/plain;q=0 ;ext=1`). RFC 9110 dropped accept-ext from the grammar, so there is
// no single expected answer, but every defensible reading is one of
//
//	(a) the weight is honoured and the extension parameters are ignored,
//	(b) the whole range is invalid and ignored,
//	(c) media types only: the extension parameters are media-type parameters of the range.
//
// Each reading is a header inside the RFC 9110 grammar (where the other families judge the real
// code); the result of the real function on the legacy header must equal the result of the real
// function on one of them (metamorphic relation, no reference code). A fourth rewrite, (d) the
// weight read as 1, is only used to recognise non-trivial cases and to name the typical failure.

type extp struct {
	name     string
	val      string
	hasVal   bool
	quoted   bool
	wsB, wsA string // OWS before / after its ';' (SP only)
}

func (x extp) text() string {
	if !x.hasVal {
		return x.name
	}
	return prm{name: x.name, val: x.val, quoted: x.quoted}.render()
}

const (
	fnFormat = 4 // function index after the four Accepts* kinds
)

func legacyFnName(fn int) string {
	if fn == fnFormat {
		return "Format"
	}
	return kindFn[fn]
}

type legacyCase struct {
	fn     int // kMedia..kLanguage or fnFormat
	k      int // header kind
	h      []rng
	exts   [][]extp // parallel to h; non-empty for ranges carrying accept-ext
	offers []string
	fmts   []string // Format: media type per handler
}

// renderLegacy is render() with the extension parameters written after the weight.
func renderLegacy(k int, h []rng, exts [][]extp) string {
	var b strings.Builder
	for i := range h {
		one := []rng{h[i].clone()}
		one[0].wsAC, one[0].wsBC = "", ""
		if i > 0 {
			b.WriteByte(',')
			b.WriteString(h[i].wsAC)
		}
		b.WriteString(render(k, one))
		for _, x := range exts[i] {
			b.WriteString(x.wsB)
			b.WriteByte(';')
			b.WriteString(x.wsA)
			b.WriteString(x.text())
		}
		if i < len(h)-1 {
			b.WriteString(h[i].wsBC)
		}
	}
	return b.String()
}

// readings returns the rewritten headers (a), (b), (c) and (d); hasC is false when (c) is not
// expressible (token kinds, or an extension parameter without a value).
func (lc *legacyCase) readings() (a, b, c, d string, hasC bool) {
	k := lc.k
	a = render(k, lc.h)
	var hb []rng
	hc := cloneRanges(lc.h)
	hd := cloneRanges(lc.h)
	hasC = k == kMedia
	for i := range lc.h {
		if len(lc.exts[i]) == 0 {
			hb = append(hb, lc.h[i].clone())
			continue
		}
		hd[i].q, hd[i].qUpper = "", false
		r := &hc[i]
		np := len(r.params)
		qB, qA := r.wsBS[np], r.wsAS[np]
		r.wsBS, r.wsAS = r.wsBS[:np:np], r.wsAS[:np:np]
		for _, x := range lc.exts[i] {
			if !x.hasVal {
				hasC = false
				break
			}
			r.params = append(r.params, prm{name: x.name, val: x.val, quoted: x.quoted})
			r.wsBS = append(r.wsBS, x.wsB)
			r.wsAS = append(r.wsAS, x.wsA)
		}
		r.wsBS = append(r.wsBS, qB)
		r.wsAS = append(r.wsAS, qA)
	}
	b = render(k, hb)
	d = render(k, hd)
	if hasC {
		c = render(k, hc)
	}
	return
}

// outcome observes the real function on one header. For Format the outcome is the handler that ran,
// the status and the Content-Type.
func (s *sess) legacyOutcome(lc *legacyCase, header string) (string, bool) {
	if lc.fn != fnFormat {
		return s.accepts(lc.k, true, header, lc.offers)
	}
	s.pl = plan{op: opFormat, k: kMedia, fmts: lc.fmts}
	resp, ok := s.do("Format", kMedia, true, header)
	if !ok {
		return "", false
	}
	inv := make([]string, len(s.pl.invoked))
	for i, x := range s.pl.invoked {
		inv[i] = strconv.Itoa(x)
	}
	return "handler=[" + strings.Join(inv, ",") + "] status=" + strconv.Itoa(resp.Status) + " content-type=" + resp.Get("Content-Type"), true
}

func (s *sess) legacyCheck(lc *legacyCase) {
	e := s.e
	header := renderLegacy(lc.k, lc.h, lc.exts)
	ha, hb, hc, hd, hasC := lc.readings()
	if hb == "" {
		return // deleting the range would leave no header at all: not the same question
	}
	got, ok := s.legacyOutcome(lc, header)
	e.Eval(1)
	if !ok {
		return
	}
	ra, ok1 := s.legacyOutcome(lc, ha)
	rb, ok2 := s.legacyOutcome(lc, hb)
	rd, ok3 := s.legacyOutcome(lc, hd)
	rc, ok4 := "", true
	if hasC {
		rc, ok4 = s.legacyOutcome(lc, hc)
	}
	if !ok1 || !ok2 || !ok3 || !ok4 {
		return
	}
	fn := legacyFnName(lc.fn)
	e.Stat("legacy_cases", 1)
	if rd != ra && rd != rb && (!hasC || rd != rc) {
		e.Nontrivial("legacy-accept-ext", fn, header, strings.Join(lc.offers, "\x00"), strings.Join(lc.fmts, "\x00"))
		e.Stat("legacy_nontrivial", 1)
		e.Stat("legacy_nontrivial_"+fn, 1)
		ntSeen.Add(1)
	}
	switch {
	case got == ra:
		e.Stat("legacy_matches_weight-honoured-ext-ignored", 1)
	case got == rb:
		e.Stat("legacy_matches_range-ignored", 1)
	case hasC && got == rc:
		e.Stat("legacy_matches_ext-as-media-parameters", 1)
	default:
		sig := "C09|legacy-accept-ext|" + fn + "|result-matches-no-reading"
		if got == rd {
			sig += "|weight-read-as-1"
		}
		detail := map[string]any{
			"function": fn, "header_name": kindHdr[lc.k], "header": header, "offers": lc.offers, "formats": lc.fmts, "got": got,
			"reading_a_ext_ignored":      map[string]any{"header": ha, "result": ra},
			"reading_b_range_ignored":    map[string]any{"header": hb, "result": rb},
			"rewrite_d_weight_read_as_1": map[string]any{"header": hd, "result": rd},
		}
		if hasC {
			detail["reading_c_ext_as_media_parameters"] = map[string]any{"header": hc, "result": rc}
		}
		list := lc.offers
		if lc.fn == fnFormat {
			list = lc.fmts
		}
		e.Violation(s.c, sig, fn+" gave "+strconv.Quote(got)+" for "+kindHdr[lc.k]+": "+strconv.Quote(header)+" with ["+strings.Join(list, " | ")+
			"]; ignoring the extension parameters gives "+strconv.Quote(ra)+", ignoring the range gives "+strconv.Quote(rb), detail)
	}
}

// ---------------------------------------------------------------------------------------------
// generator

var extNames = []string{"ext", "x", "a", "level", "foo", "version"}
var extVals = []string{"1", "y", "b", "2"}
var lowQ = []string{"0.001", "0.01", "0.1", "0.2", "0.05"}

func sp02(r *gen.Rand) string { return strings.Repeat(" ", r.PickW(5, 3, 2)) }

func genExt(r *gen.Rand) extp {
	x := extp{name: gen.Pick(r, extNames), wsB: sp02(r), wsA: sp02(r)}
	switch r.PickW(60, 20, 20) {
	case 0:
		x.hasVal, x.val = true, gen.Pick(r, extVals)
	case 1:
		x.hasVal, x.quoted = true, true
		x.val = gen.Pick(r, []string{"b", "b c", "b,c", "1"})
	}
	return x
}

func genLegacy(r *gen.Rand) *legacyCase {
	lc := &legacyCase{}
	lc.fn = r.PickW(30, 15, 15, 15, 25)
	lc.k = lc.fn
	if lc.fn == fnFormat {
		lc.k = kMedia
	}
	k := lc.k
	h := genHeader(r, k, false)
	for len(h) < 2 {
		more := genHeader(r, k, false)
		more[0].wsAC = " "
		h = append(h, more[0])
	}
	lc.h = h
	lc.exts = make([][]extp, len(h))
	n := 1
	if r.Chance(1, 5) {
		n = 2
	}
	first := -1
	for ; n > 0; n-- {
		i := r.Intn(len(h))
		if len(lc.exts[i]) > 0 || h[i].empty {
			continue
		}
		if first < 0 {
			first = i
		}
		x := &h[i]
		switch r.PickW(45, 40, 15) {
		case 0:
			x.q = gen.Pick(r, qZero)
		case 1:
			x.q = gen.Pick(r, lowQ)
		default:
			if x.q == "" {
				x.q = "0.5"
			}
		}
		x.qUpper = r.Chance(1, 12)
		for j := range x.wsBS {
			x.wsBS[j], x.wsAS[j] = sp02(r), sp02(r)
		}
		for m := 1 + r.PickW(7, 3); m > 0; m-- {
			lc.exts[i] = append(lc.exts[i], genExt(r))
		}
	}
	if first < 0 {
		return nil
	}
	// the first offer is one the extension-carrying range accepts when its weight is read as 1
	x := &h[first]
	var lead offer
	if k == kMedia {
		lead.typ, lead.sub = concretize(r, x)
		lead.params = append([]prm(nil), x.params...)
		if r.Chance(3, 10) {
			for _, y := range lc.exts[first] {
				if y.hasVal {
					lead.params = append(lead.params, prm{name: y.name, val: y.val, quoted: y.quoted})
				}
			}
		}
		renderOffer(&lead, nil)
	} else if x.typ != "*" {
		lead.text = x.typ
	} else {
		lead.text = gen.Pick(r, tokPools[k])
	}
	rest := genOffers(r, k, h, lc.fn != fnFormat, false)
	texts := append([]string{lead.text}, offerTexts(rest)...)
	if lc.fn == fnFormat {
		if r.Chance(3, 10) {
			at := 1 + r.Intn(len(texts))
			texts = append(texts[:at], append([]string{"default"}, texts[at:]...)...)
		}
		lc.fmts = texts
	} else {
		lc.offers = texts
	}
	return lc
}

// ---------------------------------------------------------------------------------------------
// corpus

func ex(name, val string, wsB, wsA string) extp {
	x := extp{name: name, wsB: wsB, wsA: wsA}
	if val != "" {
		x.hasVal = true
		if strings.HasPrefix(val, `"`) {
			x.quoted, x.val = true, strings.Trim(val, `"`)
		} else {
			x.val = val
		}
	}
	return x
}

// legacyCorpus runs the hand-written cases (shard 0, seed independent).
func legacyCorpus(e *ev.Env, g *rig) {
	type cc struct {
		name string
		lc   *legacyCase
	}
	sp := func(x rng) rng { x.wsAC = " "; return x }
	upper := func(x rng) rng { x.qUpper = true; return x }
	wideQ := func(x rng) rng { x.wsBS[0], x.wsAS[0] = " ", " "; return x }
	corpus := []cc{
		{"ext-after-q0-media", &legacyCase{fn: kMedia, k: kMedia, h: []rng{mr("text/plain", "0"), sp(mr("text/html", "0.5"))},
			exts: [][]extp{{ex("ext", "1", " ", "")}, nil}, offers: []string{"text/plain", "text/html"}}},
		{"ext-after-low-weight-media", &legacyCase{fn: kMedia, k: kMedia, h: []rng{mr("text/html", "0.2"), sp(mr("application/json", "0.9"))},
			exts: [][]extp{{ex("ext", "1", " ", " ")}, nil}, offers: []string{"text/html", "application/json"}}},
		{"ext-after-q0-encoding", &legacyCase{fn: kEncoding, k: kEncoding, h: []rng{mr("gzip", "0"), sp(mr("br", "0.5"))},
			exts: [][]extp{{ex("x", "y", "", " ")}, nil}, offers: []string{"gzip", "br"}}},
		{"quoted-ext-language", &legacyCase{fn: kLanguage, k: kLanguage, h: []rng{mr("en", "0.3"), sp(mr("fr", "0.8"))},
			exts: [][]extp{{ex("a", `"b"`, " ", "")}, nil}, offers: []string{"en", "fr"}}},
		{"valueless-ext-charset", &legacyCase{fn: kCharset, k: kCharset, h: []rng{mr("utf-8", "0"), sp(mr("iso-8859-1", "0.1"))},
			exts: [][]extp{{ex("ext", "", " ", "")}, nil}, offers: []string{"utf-8", "iso-8859-1"}}},
		{"ext-after-q0-format", &legacyCase{fn: fnFormat, k: kMedia, h: []rng{mr("text/html", "0"), sp(mr("text/plain", "0.4"))},
			exts: [][]extp{{ex("ext", "1", "  ", "  ")}, nil}, fmts: []string{"text/html", "text/plain"}}},
		{"ext-could-be-media-parameter", &legacyCase{fn: kMedia, k: kMedia, h: []rng{mr("text/html", "0.9"), sp(mr("text/plain", "0.5"))},
			exts: [][]extp{{ex("level", "1", " ", "")}, nil}, offers: []string{"text/html", "text/plain"}}},
		{"two-ext-on-wildcard", &legacyCase{fn: kMedia, k: kMedia, h: []rng{mr("*/*", "0"), sp(mr("image/png", "0.5"))},
			exts: [][]extp{{ex("ext", "1", " ", ""), ex("x", "", "", "")}, nil}, offers: []string{"text/css", "image/png"}}},
		{"upper-Q-then-ext", &legacyCase{fn: kEncoding, k: kEncoding, h: []rng{upper(mr("gzip", "0")), sp(mr("identity", "0.2"))},
			exts: [][]extp{{ex("x", "y", " ", " ")}, nil}, offers: []string{"gzip", "identity"}}},
		{"ows-around-weight-then-ext", &legacyCase{fn: kMedia, k: kMedia, h: []rng{mr("application/json", "0.9"), sp(wideQ(mr("text/html", "0.001")))},
			exts: [][]extp{nil, {ex("ext", "1", "  ", " ")}}, offers: []string{"text/html", "application/json"}}},
	}
	for _, x := range corpus {
		x := x
		e.Corpus("legacy-accept-ext-"+x.name, func(c *ev.Case) {
			s := newSess(e, c, g, 0)
			s.legacyCheck(x.lc)
			e.Sample("legacy-corpus", map[string]any{"name": x.name, "header": renderLegacy(x.lc.k, x.lc.h, x.lc.exts)})
		})
	}
}

// legacyFamily runs the generated cases for all five functions.
func legacyFamily(e *ev.Env, g *rig) {
	e.Cases("legacy-accept-ext", e.N(30000, 3000000), func(c *ev.Case) {
		lc := genLegacy(c.R)
		if lc == nil {
			return
		}
		s := newSess(e, c, g, 0)
		s.legacyCheck(lc)
		e.Sample("legacy-accept-ext", kindHdr[lc.k]+": "+renderLegacy(lc.k, lc.h, lc.exts))
	})
}
