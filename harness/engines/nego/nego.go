// Package nego decides property C09 (content negotiation follows RFC 9110 preference order) by
// runtime monitoring of the real Accepts*/Format/AutoFormat of /repo.
//
// Oracle (DESIGN.md 3.C09): the header is generated from structure the oracle keeps; whether a
// range accepts an offer is *observed* on the real function with that range alone; the oracle
// only computes the stated composition (drop q=0, order by quality, specificity, number of
// parameters, position; first acceptable offer in offer order). Literal clauses are checked
// independently: result is an offer or "", parameters of the selecting range occur in the
// offer, absent header selects the first offer. Every rejected case is shrunk to a local minimum
// and the features left in the minimum form the input class of the signature.
package nego

import (
	"strconv"
	"strings"
	"sync"
	"sync/atomic"

	"verifharness/internal/ev"
	"verifharness/internal/gen"
	"verifharness/internal/reg"
)

// ntSeen counts non-trivial cases of this process (observation threshold, ENGINE_GUIDE rule 4).
var ntSeen atomic.Int64

func init() {
	reg.Register("nego", run)
	reg.Register("nego.race", runRace)
}

// check judges one generated case, shrinks and reports a rejection.
func (s *sess) check(k int, h []rng, offers []offer, present bool, countNT bool) {
	e := s.e
	v, ok := s.judge(k, h, offers, present)
	e.Eval(1)
	if !ok {
		return
	}
	if countNT && present {
		if s.nontrivial(k, h, offers) {
			e.Nontrivial(kindFn[k], render(k, h), strings.Join(offerTexts(offers), "\x00"))
			e.Stat("nontrivial_"+kindFn[k], 1)
			ntSeen.Add(1)
		}
	}
	if k == kLanguage && present {
		s.languagePrefixes(h)
	}
	if v == nil {
		return
	}
	s.report(k, h, offers, present, v)
}

// languagePrefixes: what a language range accepts among the shorter tags its own subtags begin
// with (zh-Hant-TW: zh-Hant, zh) is read in two ways — none of them (RFC 4647 basic filtering) or
// all of them (lookup, which truncates subtag by subtag; the reading fiber documents). Both give
// the same answer for every such tag of one range, so the observed solo acceptability must be
// the same for all of them: accepting "zh" but not "zh-Hant" fits neither reading.
func (s *sess) languagePrefixes(h []rng) {
	for i := range h {
		r := &h[i]
		if r.empty || r.typ == "*" || qval(r.q) == 0 {
			continue
		}
		cuts := subtagCuts(r.typ)
		if len(cuts) < 2 {
			continue
		}
		var yes, no []string
		for _, c := range cuts {
			if s.solo(kLanguage, r, r.typ[:c]) {
				yes = append(yes, r.typ[:c])
			} else {
				no = append(no, r.typ[:c])
			}
		}
		s.e.Stat("language_ranges_with_3_or_more_subtags", 1)
		if len(yes) > 0 && len(no) > 0 {
			s.e.Violation(s.c, "C09|language-range-accepts-some-of-its-own-prefixes|AcceptsLanguages|shorter-prefix-accepted-longer-rejected",
				"AcceptsLanguages with Accept-Language: "+strconv.Quote(r.typ)+" accepts "+strings.Join(yes, ",")+" but not "+strings.Join(no, ","),
				map[string]any{"range": r.typ, "accepted": yes, "rejected": no})
		}
	}
}

func (s *sess) report(k int, h []rng, offers []offer, present bool, v *verdict) {
	if !present || v.header == "" {
		s.e.Violation(s.c, "C09|"+v.clause+"|"+kindFn[k]+"|header-absent-or-empty",
			"absent/empty header did not select the first offer", map[string]any{
				"function": kindFn[k], "header_name": kindHdr[k], "header": v.header, "header_present": present,
				"offers": offerTexts(offers), "got": v.got, "want": v.want})
		return
	}
	s.classify(k, h, offers, v)
}

// ---------------------------------------------------------------------------------------------
// hand-built corpus helpers

func mr(spec string, q string, ps ...prm) rng {
	t := strings.SplitN(spec, "/", 2)
	x := rng{typ: t[0], q: q, params: ps}
	if len(t) == 2 {
		x.sub = t[1]
	}
	x.wsBS = make([]string, len(ps)+1)
	x.wsAS = make([]string, len(ps)+1)
	return x
}

func mo(texts ...string) []offer {
	out := make([]offer, len(texts))
	for i, t := range texts {
		out[i] = offer{text: t}
		if j := strings.IndexByte(t, '/'); j > 0 && !strings.Contains(t, ";") {
			out[i].typ, out[i].sub = t[:j], t[j+1:]
		} else if j < 0 && t != "" {
			out[i].ext = true
		}
	}
	return out
}

func moP(typ, sub string, ps ...prm) offer {
	o := offer{typ: typ, sub: sub, params: ps}
	renderOffer(&o, nil)
	return o
}

func run(e *ev.Env) {
	g := newRig()

	// ---- regression corpus (shard 0, seed independent) -------------------------------------
	corpus := func(name string, k int, offers []offer, present bool, h ...rng) {
		e.Corpus(name, func(c *ev.Case) {
			s := newSess(e, c, g, 0)
			s.check(k, h, offers, present, true)
			e.Sample("corpus", map[string]any{"name": name, "header": render(k, h), "offers": offerTexts(offers)})
		})
	}
	// DESIGN 6.1 witness: OWS between the weight and the comma
	{
		a := mr("text/html", "0.5")
		a.wsBC = " "
		b := mr("text/plain", "0.7")
		b.wsAC = " "
		corpus("ows-before-comma-after-weight", kMedia, mo("text/plain", "text/html"), true, a, b)
		a2 := mr("gzip", "0")
		a2.wsBC = " "
		corpus("ows-before-comma-after-q0", kEncoding, mo("gzip"), true, a2, mr("br", ""))
	}
	// "Q=" spelling of the weight
	{
		a := mr("utf-8", "0")
		a.qUpper = true
		corpus("upper-Q-zero", kCharset, mo("utf-8"), true, a)
		b := mr("text/html", "0.5")
		b.qUpper = true
		corpus("upper-Q-media", kMedia, mo("text/plain", "text/html"), true, b, mr("text/plain", "0.1"))
	}
	// HTAB is OWS
	{
		b := mr("text/plain", "")
		b.wsAC = "\t"
		corpus("htab-after-comma", kMedia, mo("text/plain"), true, mr("image/png", ""), b)
		a := mr("gzip", "0")
		a.wsAS[0] = "\t"
		corpus("htab-after-semicolon", kEncoding, mo("gzip"), true, a)
	}
	// quoted-pair inside a quoted parameter value, followed by another range
	{
		a := mr("image/png", "", prm{name: "a", val: `"`, quoted: true})
		corpus("escaped-dquote-then-comma", kMedia, mo("image/png"), true, a, mr("image/png", ""))
		// a quoted value ending in an escaped backslash is complete; the next range decides
		b1 := mr("text/html", "", prm{name: "a", val: `dir\`, quoted: true})
		corpus("trailing-escaped-backslash-then-range", kMedia, mo("application/json"), true, b1, mr("application/json", ""))
		b2 := mr("text/html", "0.1", prm{name: "a", val: `x\"`, quoted: true})
		b3 := mr("text/plain", "", prm{name: "b", val: `\\`, quoted: true})
		corpus("backslash-runs-then-range", kMedia, []offer{moP("image", "png"), moP("text", "html", prm{name: "a", val: `x\"`, quoted: true})}, true,
			b3, b2, mr("image/*", "0.5"))
		a2 := mr("text/html", "", prm{name: "a", val: "x,y", quoted: true})
		corpus("quoted-comma", kMedia, []offer{moP("text", "plain"), moP("text", "html", prm{name: "a", val: "x,y", quoted: true})}, true, a2, mr("text/plain", "0.5"))
	}
	// documentation examples (docs/api/ctx.md, Accepts)
	{
		h := []rng{mr("text/html", ""), mr("text/*", ""), mr("application/json", ""), mr("*/*", "0")}
		for i := range h {
			if i > 0 {
				h[i].wsAC = " "
			}
		}
		h[3].wsAS[0] = " "
		corpus("docs-example2-specificity", kMedia, mo("text/plain", "application/json"), true, h...)
		corpus("docs-example2-first-match", kMedia, mo("application/json", "text/html"), true, cloneRanges(h)...)
		corpus("docs-example2-q0", kMedia, mo("image/png"), true, cloneRanges(h)...)
		j := mr("application/json", "", prm{name: "version", val: "1"}, prm{name: "foo", val: "bar"})
		j.wsAC = " "
		j.wsAS[0], j.wsAS[1] = " ", " "
		corpus("docs-example3-params", kMedia, []offer{moP("application", "json"),
			moP("application", "json", prm{name: "foo", val: "bar", quoted: true}, prm{name: "VERSION", val: "1"})}, true, mr("text/plain", ""), j)
		f := mr("text/plain", "0.9", prm{name: "format", val: "flowed"})
		p := mr("text/plain", "")
		p.wsAC = " "
		corpus("docs-example4", kMedia, []offer{moP("text", "plain", prm{name: "format", val: "flowed"}), moP("text", "plain")}, true, f, p)
		l1, l2, l3 := mr("en", "0.8"), mr("nl", ""), mr("ru", "")
		l2.wsAC, l3.wsAC = " ", " "
		corpus("docs-languages", kLanguage, mo("pt", "nl", "ru"), true, l1, l2, l3)
	}
	// names that differ only by a prefix are different names
	corpus("type-prefix-wildcard-range", kMedia, mo("text/html", "image/png"), true, mr("textual/*", ""), mr("image/png", "0.1"))
	corpus("type-prefix-offer", kMedia, mo("textual/html", "image/png"), true, mr("text/*", ""), mr("image/png", "0.1"))
	corpus("subtype-prefix", kMedia, mo("text/htmlx", "text/htm", "image/png"), true, mr("text/html", ""), mr("image/png", "0.1"))
	corpus("token-prefix-encoding", kEncoding, mo("gzip", "br"), true, mr("gzipx", ""), mr("br", "0.1"))
	corpus("token-prefix-charset", kCharset, mo("ut", "iso-8859-1"), true, mr("utf-8", ""), mr("iso-8859-1", "0.1"))
	corpus("language-three-subtags", kLanguage, mo("en", "zh-Hant"), true, mr("zh-Hant-TW", ""), mr("en", "0.5"))
	corpus("language-three-subtags-primary", kLanguage, mo("fr", "sr", "sr-Latn"), true, mr("sr-Latn-RS", "0.9"), mr("fr", "0.5"))
	corpus("token-prefix-language", kLanguage, mo("en", "fr"), true, mr("eng", ""), mr("fr", "0.1"))
	// an offer given as extension may carry parameters; a slash inside a quoted value is not a MIME type
	corpus("extension-offer-with-slash-in-quoted-parameter", kMedia, mo(`json;profile="https://example.com/schemas/user"`, "text/html"), true,
		mr("application/json", ""), mr("text/html", "0.5"))
	corpus("extension-offer-with-parameters-wildcard", kMedia, mo(`html;a="x/y";b="k=v"`, "png"), true, mr("text/*", "0.8"), mr("image/png", ""))
	corpus("absent-header", kMedia, mo("application/json", "text/html"), false, mr("text/html", ""))
	// equal quality, specificity and parameter count: position decides; three-way for the sort
	corpus("tie-position", kMedia, mo("image/png", "text/css", "text/html"), true,
		mr("text/html", "0.5"), mr("text/css", "0.5"), mr("image/png", "0.5"))
	corpus("tie-specificity", kMedia, mo("image/png", "text/css", "text/html"), true,
		mr("*/*", "0.5"), mr("text/*", "0.5"), mr("text/html", "0.5"))
	corpus("tie-params", kMedia, []offer{moP("text", "html", prm{name: "a", val: "1"}), moP("text", "html", prm{name: "a", val: "1"}, prm{name: "b", val: "2"})}, true,
		mr("text/html", "", prm{name: "a", val: "1"}), mr("text/html", "", prm{name: "a", val: "1"}, prm{name: "b", val: "2"}))

	legacyCorpus(e, g)

	// ---- generated families -----------------------------------------------------------------
	e.Cases("media", e.N(90000, 9000000), func(c *ev.Case) {
		s := newSess(e, c, g, 0)
		r := c.R
		hostile := r.Bool()
		h := genHeader(r, kMedia, hostile)
		offers := genOffers(r, kMedia, h, true, true)
		present := !r.Chance(1, 40)
		s.check(kMedia, h, offers, present, true)
		e.Stat("probes", s.probes)
		if hostile {
			e.Sample("media-hostile", render(kMedia, h))
		} else {
			e.Sample("media-clean", render(kMedia, h))
		}
	})
	e.Cases("token", e.N(60000, 6000000), func(c *ev.Case) {
		s := newSess(e, c, g, 0)
		r := c.R
		k := 1 + r.Intn(3)
		h := genHeader(r, k, r.Bool())
		offers := genOffers(r, k, h, false, true)
		present := !r.Chance(1, 40)
		s.check(k, h, offers, present, true)
		e.Stat("probes", s.probes)
		e.Sample("token", kindHdr[k]+": "+render(k, h))
	})
	e.Cases("format", e.N(20000, 2000000), func(c *ev.Case) {
		s := newSess(e, c, g, 0)
		s.format(c.R)
	})
	e.Cases("auto", e.N(4000, 400000), func(c *ev.Case) {
		s := newSess(e, c, g, 0)
		s.auto(c.R)
	})
	// pool recycling: one case = 16 headers alternating parameter-rich ranges (pooled parameter map
	// filled) with parameter-free ranges that still take the pooled-map path ("; q=").
	e.Cases("pool", e.N(1000, 100000), func(c *ev.Case) {
		s := newSess(e, c, g, 0)
		s.poolSeq(c.R, 16)
	})
	e.Cases("total", e.N(10000, 1000000), func(c *ev.Case) {
		s := newSess(e, c, g, 0)
		s.totality(c.R)
	})
	legacyFamily(e, g)
	longFamily(e, g)
	if e.Only == "" && ntSeen.Load() == 0 {
		e.Inconclusive("no case with two ranges accepting different offers was produced")
	}
}

// poolSeq alternates headers that fill pooled parameter maps with headers that must see them
// empty. Only spellings fiber is known to read correctly are used, so the sequence is judged by
// the full oracle.
func (s *sess) poolSeq(r *gen.Rand, n int) {
	rich, bare := 0, 0
	for i := 0; i < n; i++ {
		var h []rng
		if i%2 == 0 {
			h = genHeader(r, kMedia, false)
			for j := range h {
				if len(h[j].params) == 0 {
					h[j].params = []prm{genParam(r, false), genParam(r, false)}
					fillWS(r, &h[j], false)
				}
			}
			rich++
		} else {
			h = genHeader(r, kMedia, false)
			for j := range h {
				h[j].params = nil
				if h[j].q == "" || qval(h[j].q) == 0 {
					h[j].q = gen.Pick(r, qLits)
				}
				fillWS(r, &h[j], false)
				h[j].wsAS[0] = " " // "; q=" : not the fast path, takes a map from the pool
			}
			bare++
		}
		offers := genOffers(r, kMedia, h, true, false)
		s.check(kMedia, h, offers, true, false)
	}
	s.e.Stat("pool_param_rich_headers", int64(rich))
	s.e.Stat("pool_param_free_slowpath_headers", int64(bare))
	s.e.Nontrivial("pool", s.c.ID)
}

// format judges Format against the Accepts it is documented to use, observed in the same request.
func (s *sess) format(r *gen.Rand) {
	h := genHeader(r, kMedia, r.Bool())
	// media types as MIME types, sometimes also as extensions (with or without parameters)
	offers := genOffers(r, kMedia, h, r.Chance(1, 3), false)
	fm := offerTexts(offers)
	def := -1
	if r.Chance(35, 100) {
		def = r.Intn(len(fm) + 1)
		fm = append(fm[:def], append([]string{"default"}, fm[def:]...)...)
	}
	present := !r.Chance(1, 10)
	header := render(kMedia, h)
	if present && r.Chance(1, 30) {
		header = ""
	}
	s.formatJudge(header, present, fm, def)
}

// formatJudge judges one Format execution (handlers fm, default handler at index def or -1).
func (s *sess) formatJudge(header string, present bool, fm []string, def int) {
	e := s.e
	// what Accepts names is observed in a request of its own: a first call may rewrite the header
	// bytes (parameter names are lower-cased in place), which would perturb Format's own call.
	types := make([]string, 0, len(fm))
	for _, m := range fm {
		if m != "default" {
			types = append(types, m)
		}
	}
	accRes, ok := s.accepts(kMedia, present, header, types)
	if !ok {
		return
	}
	s.pl = plan{op: opFormat, k: kMedia, fmts: fm}
	resp, ok := s.do("Format", kMedia, present, header)
	e.Eval(1)
	if !ok {
		return
	}
	p := &s.pl
	p.accRes = accRes
	ct := resp.Get("Content-Type")
	detail := map[string]any{"header": header, "header_present": present, "formats": fm, "accepts": p.accRes,
		"invoked": p.invoked, "status": resp.Status, "content_type": ct, "error": p.err}
	bad := func(class, what string) {
		e.Violation(s.c, "C09|Format|"+class, what, detail)
	}
	one := len(p.invoked) == 1
	switch {
	case !present || header == "":
		if !one || p.invoked[0] != 0 {
			bad("absent-header|first-handler-not-called", "absent Accept must call the first handler")
		} else if fm[0] != "default" && isMIME(fm[0]) && ct != fm[0] {
			bad("absent-header|content-type", "Content-Type is not the first handler's media type")
		}
	case p.accRes == "":
		if def >= 0 {
			if !one || p.invoked[0] != def {
				bad("none-acceptable|default-not-called", "Accepts names no offer: the default handler must be called")
			}
		} else if len(p.invoked) != 0 || resp.Status != 406 {
			bad("none-acceptable|no-406", "Accepts names no offer and there is no default: 406 expected, no handler")
		}
		e.Stat("format_none_acceptable", 1)
	default:
		if !one || fm[p.invoked[0]] != p.accRes {
			bad("selected|wrong-handler", "Format called a handler other than the one Accepts names")
		} else if isMIME(p.accRes) && ct != p.accRes {
			bad("selected|content-type", "Content-Type differs from the selected media type")
		} else if resp.Status != 200 {
			bad("selected|status", "status is not 200")
		}
		e.Stat("format_selected", 1)
		if len(fm) > 1 {
			e.Nontrivial("format", header, strings.Join(fm, "\x00"))
		}
	}
}

// auto judges AutoFormat against the observed Accepts("html","json","txt","xml").
func (s *sess) auto(r *gen.Rand) {
	e := s.e
	h := genHeader(r, kMedia, r.Bool())
	header := render(kMedia, h)
	accRes, ok := s.accepts(kMedia, true, header, []string{"html", "json", "txt", "xml"})
	if !ok {
		return
	}
	s.pl = plan{op: opAuto, k: kMedia}
	resp, ok := s.do("AutoFormat", kMedia, true, header)
	e.Eval(1)
	if !ok || header == "" {
		return
	}
	s.pl.accRes = accRes
	ct := resp.Get("Content-Type")
	wantCT, wantBody := "text/plain", "x"
	switch s.pl.accRes {
	case "html":
		wantCT, wantBody = "text/html", "<p>x</p>"
	case "json":
		wantCT, wantBody = "application/json", `"x"`
	case "xml":
		wantCT, wantBody = "application/xml", ""
	}
	if !strings.HasPrefix(ct, wantCT) || (wantBody != "" && string(resp.Body) != wantBody) {
		e.Violation(s.c, "C09|AutoFormat|format-differs-from-Accepts|"+s.pl.accRes, "AutoFormat did not produce the format Accepts names",
			map[string]any{"header": header, "accepts": s.pl.accRes, "content_type": ct, "body": string(resp.Body)})
	}
	if s.pl.accRes != "" {
		e.Nontrivial("auto", header)
	}
}

const structAlphabet = ",,;;==\"\\ \t*/qQ.0159aZ-"

// totality feeds arbitrary bytes (those a server can receive in a field value: no CR/LF/NUL or
// other controls except HTAB, no surrounding whitespace).
func (s *sess) totality(r *gen.Rand) {
	e := s.e
	k := r.Intn(4)
	var b []byte
	switch r.PickW(45, 35, 20) {
	case 0:
		b = []byte(r.StringFrom(structAlphabet, r.Range(0, 40)))
	case 1:
		b = []byte(render(k, genHeader(r, k, true)))
		for m := r.Range(1, 4); m > 0 && len(b) > 0; m-- {
			i := r.Intn(len(b))
			switch r.Intn(3) {
			case 0:
				b = append(b[:i], b[i+1:]...)
			case 1:
				b[i] = structAlphabet[r.Intn(len(structAlphabet))]
			default:
				b = append(b[:i], append([]byte{structAlphabet[r.Intn(len(structAlphabet))]}, b[i:]...)...)
			}
		}
	default:
		b = r.Bytes(r.Range(1, 48))
	}
	for i := range b {
		if (b[i] < 0x20 && b[i] != '\t') || b[i] == 0x7f {
			b[i] = ','
		}
	}
	header := strings.Trim(string(b), " \t")
	offers := genOffers(r, k, genHeader(r, k, false), true, true)
	texts := offerTexts(offers)
	got, ok := s.accepts(k, true, header, texts)
	e.Eval(1)
	if ok && got != "" && !inOffers(got, offers) {
		e.Violation(s.c, "C09|totality|"+kindFn[k]+"|not-an-offer", "result is neither an offer nor empty",
			map[string]any{"header": header, "header_hex": hexs(header), "offers": texts, "got": got})
	}
	if k == kMedia {
		fm := make([]string, 0, len(texts))
		for i := range offers {
			if !offers[i].ext && offers[i].text != "" {
				fm = append(fm, offers[i].text)
			}
		}
		if len(fm) > 0 {
			s.pl = plan{op: opFormat, k: kMedia, fmts: fm}
			resp, ok := s.do("Format", kMedia, true, header)
			e.Eval(1)
			if ok && resp.Status != 200 && resp.Status != 406 {
				e.Violation(s.c, "C09|totality|Format|status", "Format answered neither 200 nor 406",
					map[string]any{"header": header, "header_hex": hexs(header), "formats": fm, "status": resp.Status, "error": s.pl.err})
			}
		}
	}
	e.Stat("totality_headers", 1)
}

// isMIME: the media type is written as type/subtype (not as a file extension). Only then does
// the documentation say what Content-Type Format sets.
func isMIME(mt string) bool {
	if i := strings.IndexByte(mt, ';'); i >= 0 {
		mt = mt[:i]
	}
	return strings.Contains(mt, "/")
}

func hexs(s string) string {
	const d = "0123456789abcdef"
	out := make([]byte, 0, 2*len(s))
	for i := 0; i < len(s); i++ {
		out = append(out, d[s[i]>>4], d[s[i]&15])
	}
	return string(out)
}

// runRace is the concurrent sub-run (meant for the -race build): 16 goroutines share one app and
// therefore the context pool and the parameter-map pool; every goroutine judges its own stream
// with the same oracle.
func runRace(e *ev.Env) {
	g := newRig()
	const workers = 16
	const per = 8
	n := e.N(200000, 20000000) / (workers * per)
	e.Cases("conc", n, func(c *ev.Case) {
		var wg sync.WaitGroup
		rs := make([]*gen.Rand, workers)
		for w := range rs {
			rs[w] = c.R.Split()
		}
		for w := 0; w < workers; w++ {
			wg.Add(1)
			go func(w int) {
				defer wg.Done()
				r := rs[w]
				s := newSess(e, c, g, 1+w)
				for i := 0; i < per; i++ {
					switch r.PickW(6, 3, 1) {
					case 0:
						h := genHeader(r, kMedia, i%2 == 0)
						if i%2 == 1 {
							for j := range h {
								if !h[j].empty && len(h[j].params) == 0 && h[j].q != "" {
									h[j].wsAS[0] = " "
								}
							}
						}
						s.check(kMedia, h, genOffers(r, kMedia, h, true, true), true, true)
					case 1:
						k := 1 + r.Intn(3)
						h := genHeader(r, k, r.Bool())
						s.check(k, h, genOffers(r, k, h, false, true), true, true)
					default:
						s.format(r)
					}
				}
			}(w)
		}
		wg.Wait()
		e.Stat("concurrent_batches", 1)
	})
	if e.Only == "" && ntSeen.Load() == 0 {
		e.Inconclusive("no case with two ranges accepting different offers was produced")
	}
	e.Note("workers", strconv.Itoa(workers))
}
