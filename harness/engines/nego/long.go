package nego

import (
	"strconv"

	"verifharness/internal/ev"
	"verifharness/internal/gen"
)

// Family "long-header": 200-700 list elements, mostly distinct exact types/tokens with few
// different weights, so that many ranges tie on quality, specificity and parameter count and
// only the position in the header decides. The offers name ranges far apart in the header (one
// of them late), listed so that the later range's offer comes first. The ordinary oracle applies:
// composition law over observed solo acceptability.

func longName(k, i int) (string, string) {
	switch k {
	case kMedia:
		return []string{"text", "application", "image", "audio", "video"}[i%5], "s" + strconv.Itoa(i)
	case kLanguage:
		// letters only, at most eight per subtag
		b := []byte{'q', 'a', 'a', 'a'}
		for j, n := 3, i; j > 0; j, n = j-1, n/26 {
			b[j] = byte('a' + n%26)
		}
		return string(b), ""
	}
	return "t" + strconv.Itoa(i), ""
}

// genLong returns the header, the offers and how many of the offered ranges tie on everything
// but position.
func genLong(r *gen.Rand, k int) ([]rng, []offer, int) {
	n := r.Range(200, 700)
	palette := [][]string{{""}, {"", "0.9"}, {"0.5", "0.5", "0.5", "0.8"}, {"0.7", "0.7", "0.7", "", "0.2"}, {"1", "1.0", ""}}[r.Intn(5)]
	h := make([]rng, 0, n)
	for i := 0; i < n; i++ {
		var x rng
		x.typ, x.sub = longName(k, i)
		x.q = gen.Pick(r, palette)
		switch {
		case k == kMedia && r.Chance(1, 40):
			x.sub = "*"
			x.q = "0.1"
		case r.Chance(1, 150):
			x.typ = "*"
			if k == kMedia {
				x.sub = "*"
			}
			x.q = "0.01"
		case k == kMedia && r.Chance(1, 30):
			x.params = []prm{genParam(r, false)}
		case i > 0 && r.Chance(1, 60):
			// the same range again, far from its first occurrence
			src := &h[r.Intn(len(h))]
			x.typ, x.sub = src.typ, src.sub
		}
		fillWS(r, &x, false)
		h = append(h, x)
	}
	// offers: ranges that tie with each other (same weight, exact, no parameters), far apart
	var plain []int
	dom := qval(h[r.Intn(n)].q)
	for i := range h {
		if qval(h[i].q) == dom && len(h[i].params) == 0 && h[i].typ != "*" && h[i].sub != "*" {
			plain = append(plain, i)
		}
	}
	var picks []int
	if len(plain) > 0 {
		picks = append(picks, plain[len(plain)-1-r.Intn(1+len(plain)/4)]) // a late one
		for m := 1 + r.Intn(3); m > 0; m-- {
			picks = append(picks, plain[r.Intn(len(plain))])
		}
	}
	var os []offer
	seen := map[int]bool{}
	for _, i := range picks {
		if seen[i] {
			continue
		}
		seen[i] = true
		o := offer{text: h[i].name(k)}
		if k == kMedia {
			o.typ, o.sub = h[i].typ, h[i].sub
		}
		os = append(os, o)
	}
	ties := len(os)
	// some offers nothing names, and sometimes one that only a range of another weight names
	for m := r.Intn(3); m > 0; m-- {
		t, sub := longName(k, 1000+r.Intn(1000))
		o := offer{text: t}
		if k == kMedia {
			o.typ, o.sub, o.text = t, sub, t+"/"+sub
		}
		os = append(os, o)
	}
	if r.Chance(1, 3) {
		i := r.Intn(n)
		if h[i].typ != "*" && h[i].sub != "*" && !seen[i] {
			o := offer{text: h[i].name(k)}
			if k == kMedia {
				o.typ, o.sub = h[i].typ, h[i].sub
				o.params = append([]prm(nil), h[i].params...)
				renderOffer(&o, nil)
			}
			os = append(os, o)
		}
	}
	if r.Chance(1, 2) {
		gen.Shuffle(r, os)
	}
	return h, os, ties
}

func longFamily(e *ev.Env, g *rig) {
	e.Cases("long-header", e.N(400, 40000), func(c *ev.Case) {
		r := c.R
		s := newSess(e, c, g, 0)
		fn := r.PickW(30, 15, 15, 15, 25)
		k := fn
		if fn == fnFormat {
			k = kMedia
		}
		h, offers, ties := genLong(r, k)
		if len(offers) == 0 {
			return
		}
		e.Stat("long_header_cases", 1)
		e.StatMax("long_header_max_ranges", int64(len(h)))
		if len(h) > 255 {
			e.Stat("long_header_cases_over_255_ranges", 1)
		}
		if ties >= 2 {
			e.Stat("long_header_cases_position_decides", 1)
		}
		if fn == fnFormat {
			fm := offerTexts(offers)
			def := -1
			if r.Chance(1, 3) {
				def = r.Intn(len(fm) + 1)
				fm = append(fm[:def], append([]string{"default"}, fm[def:]...)...)
			}
			s.formatJudge(render(kMedia, h), true, fm, def)
		}
		// Format selects with Accepts: the order clause is judged on Accepts with the same header
		s.check(k, h, offers, true, true)
		e.Stat("probes", s.probes)
	})
}
