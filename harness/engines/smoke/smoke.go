// Package smoke is a trivial engine used to test the driver in all three build modes.
package smoke

import (
	"fmt"
	"time"

	"github.com/gofiber/fiber/v3"

	"verifharness/internal/drive"
	"verifharness/internal/ev"
	"verifharness/internal/reg"
	"verifharness/internal/strict"
	"verifharness/internal/vt"
)

func init() { reg.Register("smoke", run) }

func run(e *ev.Env) {
	app := fiber.New()
	app.Get("/hello/:name", func(c fiber.Ctx) error { return c.SendString("hi " + c.Params("name")) })
	d := drive.NewDirect(app)
	w := drive.NewWire(app)
	e.Cases("hello", 32, func(c *ev.Case) {
		name := c.R.Ident(1, 8)
		r := d.Do(&drive.Req{Method: "GET", URI: "/hello/" + name})
		e.Eval(1)
		if r.Status != 200 || string(r.Body) != "hi "+name {
			e.Violation(c, "smoke|direct", "wrong answer", map[string]any{"name": name, "status": r.Status, "body": string(r.Body)})
		}
		out, _ := w.Serve([]byte("GET /hello/"+name+" HTTP/1.1\r\nHost: x\r\n\r\n"), nil)
		rs, perr := strict.ParseAll(out, nil)
		e.Eval(1)
		if perr != nil || len(rs) != 1 || string(rs[0].Body) != "hi "+name {
			e.Violation(c, "smoke|wire", "wrong answer", map[string]any{"name": name, "out": string(out), "err": fmt.Sprint(perr)})
		}
		e.Nontrivial(name)
		e.Sample("hello", name)
	})
	if vt.Enabled {
		t := time.Now()
		time.Sleep(time.Hour)
		e.Stat("virtual_hour_ns", int64(time.Since(t)))
	}
}
