package cors

// Requests that overlap in time. The rig's AllowOriginsFunc is a boundary the harness controls:
//
//	overlap         request A (origin permitted by the function only, written with upper-case
//	                letters) parks inside the allow function; requests B... (other origins, mixed
//	                or lower case, permitted or not, same or another length) run to completion on
//	                the same P; A resumes. Deterministic: one P, channel hand-offs.
//	overlap-stress  the same workload free-running: several goroutines, the function yields.
//	                Also registered alone as engine "cors.conc" (for the race build).
//
// Every response is judged by the per-request rules of checkResp: ACAO, if present, is THAT
// request's origin in lower case and only if that origin is permitted; ACAC never with `*`; ...

import (
	"fmt"
	"runtime"
	"strings"
	"sync"
	"sync/atomic"

	"verifharness/internal/drive"
	"verifharness/internal/ev"
	"verifharness/internal/gen"
	"verifharness/internal/reg"
)

func init() { reg.Register("cors.conc", runConc) }

func runConc(e *ev.Env) {
	quiet()
	prevProcs := runtime.GOMAXPROCS(1)
	e.Cases("overlap", e.N(600, 20000), func(c *ev.Case) { overlap(e, c) })
	runtime.GOMAXPROCS(prevProcs)
	e.Cases("overlap-stress", e.N(160, 5000), func(c *ev.Case) { overlapStress(e, c) })
	if e.Only == "" && seen["overlap_stress_requests"] == 0 {
		e.Inconclusive("never observed: overlap_stress_requests")
	}
}

// mixedCase renders a serialized origin with at least one upper-case letter.
func mixedCase(r *gen.Rand, o org) string {
	if o.null {
		return gen.Pick(r, []string{"Null", "NULL", "nuLL"})
	}
	raw := caseVar(r, o.scheme, r.PickW(3, 1, 2)) + "://" + caseVar(r, o.host, r.PickW(1, 1, 3))
	if o.port != "" {
		raw += ":" + o.port
	}
	if raw == strings.ToLower(raw) {
		b := []byte(raw)
		for i := range b {
			if b[i] >= 'a' && b[i] <= 'z' {
				b[i] -= 32
				break
			}
		}
		raw = string(b)
	}
	return raw
}

// overlapCfg: an allow function (plus possibly a list), never allow-all.
func overlapCfg(r *gen.Rand) *cfgSpec {
	s := genCfg(r)
	s.noConfig = false
	var keep []entry
	for _, en := range s.entries {
		if !en.star {
			keep = append(keep, en)
		}
	}
	if r.Bool() {
		keep = nil // function only
	}
	s.entries = keep
	s.hasFunc = true
	s.funcSet = map[string]bool{}
	s.cred = r.Chance(3, 4)
	return s
}

func overlapReq(r *gen.Rand, o org, raw, kind string) *reqSpec {
	q := &reqSpec{path: gen.Pick(r, okPaths), hasOrigin: true, origin: raw, inDomain: true, o: o, kind: kind}
	if r.Chance(1, 4) {
		q.method, q.hasACRM, q.acrm = "OPTIONS", true, gen.Pick(r, []string{"GET", "POST", "PUT"})
	} else {
		q.method = gen.Pick(r, []string{"GET", "POST", "PUT", "DELETE"})
	}
	return q
}

// overlapOrigins: the parked request's origin (permitted by the function only) and the origins
// of the requests that run meanwhile.
func overlapOrigins(r *gen.Rand, s *cfgSpec, nOther int) (first *reqSpec, others []*reqSpec) {
	var a org
	for {
		o, _, inDomain, _ := genOrigin(r, s)
		if !inDomain || o.null {
			continue
		}
		if ok, _ := s.permitted(o); ok {
			continue // must reach the function
		}
		a = o
		break
	}
	s.funcSet[a.ser()] = true
	first = overlapReq(r, a, mixedCase(r, a), "overlap-parked:permitted-by-function")
	for i := 0; i < nOther; i++ {
		var o org
		kind := ""
		switch r.PickW(4, 2, 3, 1) {
		case 0:
			o, kind = sameLenVariant(r, a)
		case 1:
			o = org{scheme: gen.Pick(r, []string{"https", "http"}), host: r.Ident(3, 9) + gen.Pick(r, []string{".com", ".net", ".example"}), port: gen.Pick(r, ports)}
			kind = "unrelated"
		case 2:
			var in bool
			for {
				o, kind, in, _ = genOrigin(r, s)
				if in {
					break
				}
			}
		default:
			o, kind = a, "same-as-parked"
		}
		if kind != "same-as-parked" && r.Chance(1, 4) {
			s.funcSet[o.ser()] = true // another permitted origin
		}
		raw := mixedCase(r, o)
		if r.Chance(1, 5) {
			raw = o.ser() // lower case
		}
		others = append(others, overlapReq(r, o, raw, "overlap-meanwhile:"+kind))
	}
	return first, others
}

func toDrive(q *reqSpec) *drive.Req {
	rq := &drive.Req{Method: q.method, URI: q.path}
	if q.hasOrigin {
		rq.Hdr = append(rq.Hdr, drive.H{K: "Origin", V: q.origin})
	}
	if q.hasACRM {
		rq.Hdr = append(rq.Hdr, drive.H{K: "Access-Control-Request-Method", V: q.acrm})
	}
	if q.acrh != "" {
		rq.Hdr = append(rq.Hdr, drive.H{K: "Access-Control-Request-Headers", V: q.acrh})
	}
	return rq
}

func enteredOf(resp *drive.Resp) int {
	if string(resp.Body) == "H" {
		return 1
	}
	return 0
}

func overlap(e *ev.Env, c *ev.Case) {
	r := c.R
	s := overlapCfg(r)
	first, others := overlapOrigins(r, s, r.Range(1, 3))
	parkOn := first.o.ser()
	entered, release := make(chan struct{}), make(chan struct{})
	var armed atomic.Bool
	armed.Store(true)
	s.funcHook = func(origin string) {
		if origin == parkOn && armed.CompareAndSwap(true, false) {
			close(entered)
			<-release
		}
	}
	app, panicked, pmsg := build(s, nil)
	e.Eval(1)
	if panicked || app == nil {
		e.Violation(c, "construct|valid-config|panic:other", "New() panicked on a valid configuration: "+pmsg, s.describe())
		return
	}
	d := drive.NewDirect(app)
	var respA *drive.Resp
	done := make(chan struct{})
	go func() {
		defer close(done)
		e.Guard(c, "request", map[string]any{"config": s.describe(), "request": first.describe(), "overlap": "parked request"}, func() {
			respA = d.Do(toDrive(first))
		})
	}()
	parked := false
	select {
	case <-entered:
		parked = true
	case <-done:
	}
	var resps []*drive.Resp
	for _, q := range others {
		var rb *drive.Resp
		e.Guard(c, "request", map[string]any{"config": s.describe(), "request": q.describe(), "overlap": "request served meanwhile"}, func() {
			rb = d.Do(toDrive(q))
		})
		resps = append(resps, rb)
	}
	if parked {
		close(release)
		<-done
		stat(e, "overlap_second_request_completed_while_first_parked", 1)
		e.Nontrivial("overlap", first.origin, others[0].origin, fmt.Sprint(len(others)))
	} else {
		stat(e, "overlap_first_request_never_reached_the_function", 1)
	}
	s.funcHook = nil
	stat(e, "overlap_cases", 1)
	x := map[string]any{"overlap": "this request was parked inside AllowOriginsFunc while the others were served", "served_meanwhile": describeAll(others)}
	if respA != nil {
		e.Eval(1)
		checkResp(e, c, s, false, 0, first, respA, enteredOf(respA), x)
	}
	for i, q := range others {
		if resps[i] != nil {
			e.Eval(1)
			checkResp(e, c, s, false, i+1, q, resps[i], enteredOf(resps[i]), map[string]any{"overlap": "served while request 0 was parked inside AllowOriginsFunc", "parked_origin": first.origin})
		}
	}
}

func describeAll(qs []*reqSpec) []any {
	var out []any
	for _, q := range qs {
		out = append(out, q.describe())
	}
	return out
}

func overlapStress(e *ev.Env, c *ev.Case) {
	r := c.R
	s := overlapCfg(r)
	nG := r.Range(3, 8)
	rounds := r.Range(6, 16)
	type work struct {
		reqs  []*reqSpec
		resps []*drive.Resp
		panic string
	}
	ws := make([]*work, nG)
	for g := range ws {
		w := &work{}
		for len(w.reqs) < rounds {
			first, others := overlapOrigins(r, s, r.Range(1, 2))
			w.reqs = append(w.reqs, first)
			w.reqs = append(w.reqs, others...)
		}
		ws[g] = w
	}
	yields := r.Range(1, 3)
	var calls int64
	s.funcHook = func(string) {
		atomic.AddInt64(&calls, 1)
		for i := 0; i < yields; i++ {
			runtime.Gosched()
		}
	}
	app, panicked, pmsg := build(s, nil)
	if panicked || app == nil {
		e.Violation(c, "construct|valid-config|panic:other", "New() panicked on a valid configuration: "+pmsg, s.describe())
		return
	}
	d := drive.NewDirect(app)
	var wg sync.WaitGroup
	start := make(chan struct{})
	for _, w := range ws {
		wg.Add(1)
		go func(w *work) {
			defer wg.Done()
			defer func() {
				if p := recover(); p != nil {
					w.panic = fmt.Sprint(p)
				}
			}()
			<-start
			for _, q := range w.reqs {
				w.resps = append(w.resps, d.Do(toDrive(q)))
			}
		}(w)
	}
	close(start)
	wg.Wait()
	s.funcHook = nil
	stat(e, "overlap_stress_cases", 1)
	stat(e, "overlap_stress_allow_function_calls", atomic.LoadInt64(&calls))
	e.Nontrivial("overlap-stress", c.ID)
	for g, w := range ws {
		if w.panic != "" {
			e.Violation(c, "request|panic|concurrent", "panic while serving concurrent requests: "+w.panic, s.describe())
			return
		}
		for i, resp := range w.resps {
			e.Eval(1)
			stat(e, "overlap_stress_requests", 1)
			checkResp(e, c, s, false, g*1000+i, w.reqs[i], resp, enteredOf(resp), map[string]any{"overlap": "free-running goroutines, allow function yields", "goroutines": nG})
		}
	}
}
