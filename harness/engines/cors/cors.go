// Package cors is the runtime monitor for property C19 (DESIGN.md 3.C19): CORS headers only for
// allowed origins, never `*` together with credentials, Vary: Origin when the answer depends
// on the origin, preflights answered 204 with the configured methods/headers without reaching
// the handler.
//
// Self-describing workload: configuration entries and request origins are generated as
// structures (scheme, host, port, wildcard flag) and only *rendered* to text (case variants,
// spaces, trailing slash), so the policy evaluator never parses an origin or a pattern. The
// evaluator decides "permitted" from the structures; the real middleware is judged on the
// headers it emits.
//
// What is asserted (and nothing more, see the property statement):
//   - ACAO present  =>  origin permitted and value == lower(origin), or value == "*" and the
//     configuration allows all origins; at most one ACAO value. (Only-if direction. The
//     converse — a permitted origin not getting the header — is counted under info_* stats.)
//   - ACAC never together with ACAO: *.
//   - credentials + allow-all must panic at construction.
//   - non-allow-all configuration: no-Origin, simple and preflight responses carry Vary: Origin
//     (as a member of the Vary token set; order and other tokens are free).
//   - every preflight: 204, handler not entered.
//   - every preflight, granted or refused: ACAM == configured methods, ACAH == configured
//     headers (when configured) - the statement's clause has no origin condition.
//   - preflight of an origin that is granted access (ACAO expected and present): ACMA per MaxAge
//     (when != 0), private-network header iff configured and requested.
//   - NOT judged, only counted (info_* stats), because the statement does not fix them: what a
//     refused origin's preflight carries besides "no ACAO", methods and headers (max-age,
//     private-network), ACAC without/with configuration on its own, ACAC missing for a permitted
//     origin, expose headers, Max-Age / private-network on non-preflight responses, whether a
//     non-preflight request is passed on to the handler.
//   - origins outside the serialized-origin syntax: only the `*`/credentials clauses, the
//     echo-equality clause and the no-panic clause.
package cors

import (
	"fmt"
	"io"
	"runtime"
	"sort"
	"strconv"
	"strings"

	"github.com/gofiber/fiber/v3"
	fiberlog "github.com/gofiber/fiber/v3/log"
	mw "github.com/gofiber/fiber/v3/middleware/cors"
	"github.com/valyala/fasthttp"

	"verifharness/internal/drive"
	"verifharness/internal/ev"
	"verifharness/internal/gen"
	"verifharness/internal/reg"
)

func init() { reg.Register("cors", run) }

// ---------------------------------------------------------------------------------------------
// structures

// org is a serialized origin as structure; all fields lower-case.
type org struct {
	null   bool
	scheme string
	host   string // reg-name, IPv4 or bracketed IPv6
	port   string // "" or digits
}

func (o org) ser() string {
	if o.null {
		return "null"
	}
	s := o.scheme + "://" + o.host
	if o.port != "" {
		s += ":" + o.port
	}
	return s
}

// entry is one AllowOrigins element.
type entry struct {
	star  bool
	wild  bool // scheme://*.host[:port]
	o     org
	text  string // as written in the configuration
	lead  int    // leading spaces in text
	trail int
}

type cfgSpec struct {
	noConfig      bool // cors.New() without argument
	entries       []entry
	hasFunc       bool
	funcSet       map[string]bool // lower-case serialized origins the function accepts
	cred, pna     bool
	maxAge        int
	allowHeaders  []string
	exposeHeaders []string
	methods       []string // nil => default
	preVary       string   // Vary set by an earlier middleware
	// funcHook: the allow function is a boundary the harness controls. It is called inside
	// AllowOriginsFunc after the answer was determined, with a copy of the origin the
	// middleware passed; it may park or yield (a function doing a lookup / I/O would).
	funcHook func(origin string)
	// scribble: after New() returned, the caller re-uses everything it passed in (one scratch
	// slice to build a middleware per tenant, a settings struct updated on reload): the slices are
	// overwritten with these origins, appended to within their capacity and re-sliced, and a second
	// middleware is built from them. The configuration that counts is the one New() was given.
	scribble []string
}

func (s *cfgSpec) allowAll() bool {
	if s.noConfig {
		return true
	}
	if len(s.entries) == 0 && !s.hasFunc {
		return true
	}
	for _, e := range s.entries {
		if e.star {
			return true
		}
	}
	return false
}

func (s *cfgSpec) originsText() []string {
	var out []string
	for _, e := range s.entries {
		out = append(out, e.text)
	}
	return out
}

func (s *cfgSpec) describe() map[string]any {
	fs := []string{}
	for k := range s.funcSet {
		fs = append(fs, k)
	}
	sort.Strings(fs)
	return map[string]any{
		"no_config": s.noConfig, "allow_origins": s.originsText(), "has_func": s.hasFunc, "func_accepts": fs,
		"credentials": s.cred, "private_network": s.pna, "max_age": s.maxAge,
		"allow_headers": s.allowHeaders, "expose_headers": s.exposeHeaders, "allow_methods": s.methods,
		"pre_vary": s.preVary,
	}
}

var defaultMethods = []string{"GET", "POST", "HEAD", "PUT", "DELETE", "PATCH"}

func (s *cfgSpec) effMethods() []string {
	if s.noConfig || len(s.methods) == 0 {
		return defaultMethods
	}
	return s.methods
}

// permitted is the independent policy evaluator (in-domain origins only).
// Returns whether the origin is permitted and by which rule.
func (s *cfgSpec) permitted(o org) (bool, string) {
	if !o.null {
		for _, e := range s.entries {
			if e.star {
				continue
			}
			if !e.wild {
				if e.o == o {
					return true, "exact"
				}
				continue
			}
			if e.o.scheme == o.scheme && e.o.port == o.port &&
				len(o.host) > len(e.o.host)+1 && strings.HasSuffix(o.host, "."+e.o.host) {
				return true, "wildcard"
			}
		}
	}
	if s.hasFunc && s.funcSet[o.ser()] {
		return true, "func"
	}
	return false, ""
}

// matchedOnlyByLeadingSpaceWildcard: the only entries permitting o are wildcard entries written
// with leading spaces (input class for the informational converse counter).
func (s *cfgSpec) permittingEntryClass(o org) string {
	cls := ""
	for _, e := range s.entries {
		if e.star || o.null {
			continue
		}
		if !e.wild {
			if e.o == o {
				return "exact"
			}
			continue
		}
		if e.o.scheme == o.scheme && e.o.port == o.port &&
			len(o.host) > len(e.o.host)+1 && strings.HasSuffix(o.host, "."+e.o.host) {
			if e.lead == 0 {
				return "wildcard"
			}
			cls = "wildcard-entry-with-leading-space"
		}
	}
	if cls == "" {
		return "func"
	}
	return cls
}

const (
	clsNoOrigin  = "no-origin"
	clsSimple    = "simple"
	clsOptNoACRM = "options-without-acrm"
	clsPreflight = "preflight"
)

type reqSpec struct {
	method    string
	path      string
	hasOrigin bool
	origin    string // raw text of the Origin header
	inDomain  bool   // serialized origin per the generator's structure
	o         org
	kind      string // how the origin was derived
	hasACRM   bool
	acrm      string
	acrh      string
	acrpn     string
	// funcToggle: before this request the allow function's answer for that (lower-cased) origin
	// is flipped (grant / revoke): the middleware has to ask the function on every request
	funcToggle string
}

func (r *reqSpec) class() string {
	if !r.hasOrigin || r.origin == "" {
		return clsNoOrigin
	}
	if r.method != "OPTIONS" {
		return clsSimple
	}
	if !r.hasACRM || r.acrm == "" {
		return clsOptNoACRM
	}
	return clsPreflight
}

func (r *reqSpec) describe() map[string]any {
	m := map[string]any{"method": r.method, "path": r.path, "class": r.class(), "origin_kind": r.kind, "in_domain": r.inDomain}
	if r.hasOrigin {
		m["origin"] = r.origin
	}
	if r.hasACRM {
		m["acrm"] = r.acrm
	}
	if r.acrh != "" {
		m["acrh"] = r.acrh
	}
	if r.acrpn != "" {
		m["acrpn"] = r.acrpn
	}
	return m
}

// ---------------------------------------------------------------------------------------------
// generators

var baseHosts = []string{
	"example.com", "example.org", "gofiber.io", "a.io", "my-site.co.uk", "xn--bcher-kva.example",
	"localhost", "intranet", "api.example.com", "192.168.1.10", "[::1]", "[2001:db8::1]", "x1.dev",
}

var ports = []string{"", "", "", "8080", "3000", "443", "80", "8443", "1"}

func isIP(h string) bool {
	if strings.HasPrefix(h, "[") {
		return true
	}
	for i := 0; i < len(h); i++ {
		if !(h[i] == '.' || h[i] >= '0' && h[i] <= '9') {
			return false
		}
	}
	return true
}

func caseVar(r *gen.Rand, s string, mode int) string {
	switch mode {
	case 0:
		return s
	case 1:
		return strings.ToUpper(s)
	}
	b := []byte(s)
	for i := range b {
		if b[i] >= 'a' && b[i] <= 'z' && r.Bool() {
			b[i] -= 32
		}
	}
	return string(b)
}

func spaces(n int) string { return strings.Repeat(" ", n) }

func renderEntry(r *gen.Rand, e *entry) {
	if e.star {
		e.text = "*"
		return
	}
	mode := r.PickW(6, 1, 2)
	var sb strings.Builder
	sb.WriteString(spaces(e.lead))
	sb.WriteString(caseVar(r, e.o.scheme, mode))
	sb.WriteString("://")
	if e.wild {
		sb.WriteString("*.")
	}
	sb.WriteString(caseVar(r, e.o.host, mode))
	if e.o.port != "" {
		sb.WriteString(":" + e.o.port)
	}
	if r.Chance(1, 6) {
		sb.WriteString("/")
	}
	sb.WriteString(spaces(e.trail))
	e.text = sb.String()
}

func genEntry(r *gen.Rand) entry {
	var e entry
	e.o.scheme = gen.Pick(r, []string{"https", "https", "http"})
	e.o.host = gen.Pick(r, baseHosts)
	e.o.port = gen.Pick(r, ports)
	if !isIP(e.o.host) && r.Chance(2, 5) {
		e.wild = true
	}
	if r.Chance(1, 5) {
		// Leading spaces are limited to 2: the middleware trims entries, so these are valid
		// configurations; more spaces in front of a wildcard entry make New() fail with a
		// slice-bounds runtime error, which the property statement does not speak about.
		e.lead = r.Range(1, 2)
	}
	if r.Chance(1, 5) {
		e.trail = r.Range(1, 3)
	}
	renderEntry(r, &e)
	return e
}

var hdrPool = []string{"Origin", "Content-Type", "Accept", "Authorization", "X-Requested-With", "X-Custom-Header", "x-id"}
var methPool = []string{"GET", "POST", "HEAD", "PUT", "DELETE", "PATCH", "OPTIONS", "PURGE", "get"}

func pickSome(r *gen.Rand, pool []string, lo, hi int) []string {
	n := r.Range(lo, hi)
	p := append([]string(nil), pool...)
	gen.Shuffle(r, p)
	if n > len(p) {
		n = len(p)
	}
	return p[:n]
}

func genCfg(r *gen.Rand) *cfgSpec {
	s := &cfgSpec{}
	if r.Chance(1, 40) {
		s.noConfig = true
		return s
	}
	switch r.PickW(10, 3, 1, 1) {
	case 0: // list
		n := r.PickW(0, 5, 4, 2, 1)
		for i := 0; i < n; i++ {
			s.entries = append(s.entries, genEntry(r))
		}
	case 1: // list containing *
		n := r.Range(0, 2)
		for i := 0; i < n; i++ {
			s.entries = append(s.entries, genEntry(r))
		}
		s.entries = append(s.entries, entry{star: true, text: "*"})
		gen.Shuffle(r, s.entries)
	case 2: // empty list
	case 3: // only star
		s.entries = []entry{{star: true, text: "*"}}
	}
	if r.Chance(1, 4) {
		s.hasFunc = true
		s.funcSet = map[string]bool{} // filled once the candidate origins are known
	}
	s.cred = r.Chance(2, 5)
	if s.cred && s.allowAll() && !r.Chance(1, 4) {
		// keep most cases drivable: credentials + allow-all must panic and ends the case
		s.cred = false
	}
	s.pna = r.Chance(1, 3)
	switch r.Intn(3) {
	case 0:
		s.maxAge = 0
	case 1:
		s.maxAge = -r.Range(1, 100)
	case 2:
		s.maxAge = r.Range(1, 86400)
	}
	if r.Chance(1, 2) {
		s.allowHeaders = pickSome(r, hdrPool, 1, 3)
	}
	if r.Chance(1, 2) {
		s.exposeHeaders = pickSome(r, hdrPool, 1, 3)
	}
	if r.Chance(1, 2) {
		s.methods = pickSome(r, methPool, 1, 4)
	}
	// lists with empty strings in them (what strings.Split("", ",") gives for an empty setting,
	// or a trailing comma): single "", leading, trailing
	withEmpty := func(xs []string) []string {
		switch r.Intn(3) {
		case 0:
			return []string{""}
		case 1:
			return append([]string{""}, xs...)
		}
		return append(append([]string(nil), xs...), "")
	}
	if r.Chance(1, 8) {
		s.allowHeaders = withEmpty(s.allowHeaders)
	}
	if r.Chance(1, 12) {
		s.exposeHeaders = withEmpty(s.exposeHeaders)
	}
	if r.Chance(1, 12) {
		s.methods = withEmpty(s.methods)
	}
	if r.Chance(1, 3) {
		// a Vary list set in front of the middleware: look-alike tokens of `Origin` at the start,
		// in the middle and at the end, other case, Origin already present
		s.preVary = gen.Pick(r, []string{"Accept-Encoding", "Accept-Encoding, Cookie", "Origin", "origin", "X-Origin", "Accept, X-Origin",
			"Origin-Agent-Cluster", "OriginX", "Origin-Agent-Cluster, Accept-Encoding", "OriginX, Cookie", "Accept, Origin-Agent-Cluster, Cookie",
			"Accept, OriginX", "Accept-Encoding, Origin-Agent-Cluster", "X-Origin, Accept", "Accept-Encoding, Origin", "Origin, Accept-Encoding",
			"Accept, Origin, Cookie", "ORIGIN", "Accept, origin", "Sec-Origin, Origin-Trial", "Origins"})
	}
	return s
}

func randLabel(r *gen.Rand) string {
	return gen.Pick(r, []string{"a", "www", "api", "sub", "evil", "x-1", "b2", "dev", "cdn", "m"})
}

// genOrigin derives a request origin, mostly relative to an entry of the configuration so that
// permitted, near-miss and look-alike origins are all frequent.
func genOrigin(r *gen.Rand, s *cfgSpec) (o org, kind string, inDomain bool, raw string) {
	var base entry
	var nonStar []entry
	for _, e := range s.entries {
		if !e.star {
			nonStar = append(nonStar, e)
		}
	}
	if len(nonStar) > 0 && r.Chance(9, 10) {
		base = gen.Pick(r, nonStar)
	} else {
		base = entry{o: org{scheme: gen.Pick(r, []string{"https", "http"}), host: gen.Pick(r, baseHosts), port: gen.Pick(r, ports)}}
		base.wild = !isIP(base.o.host) && r.Bool()
	}
	o = base.o
	inDomain = true
	ip := isIP(o.host)
	k := r.PickW(14, 10, 6, 5, 5, 5, 5, 4, 4, 3, 3, 3, 3, 8)
	switch k {
	case 0:
		kind = "entry-host"
	case 1:
		kind = "one-label-sub"
		if ip {
			kind = "entry-host"
		} else {
			o.host = randLabel(r) + "." + o.host
		}
	case 2:
		kind = "deep-sub"
		if ip {
			kind = "entry-host"
		} else {
			o.host = randLabel(r) + "." + randLabel(r) + "." + o.host
			if r.Bool() {
				o.host = randLabel(r) + "." + o.host
			}
		}
	case 3:
		kind = "lookalike-prefix" // evilexample.com
		if ip {
			kind = "other-scheme"
			o.scheme = gen.Pick(r, []string{"ftp", "ws", "chrome-extension"})
		} else {
			o.host = gen.Pick(r, []string{"evil", "not", "x", "my-"}) + o.host
			if o.host[len(o.host)-1] == '-' {
				o.host = "a" + o.host
			}
		}
	case 4:
		kind = "lookalike-suffix" // example.com.evil.com
		if ip {
			kind = "other-port"
			o.port = "4444"
		} else {
			o.host = o.host + gen.Pick(r, []string{".evil.com", ".co", ".attacker.example"})
			if r.Bool() {
				o.host = randLabel(r) + "." + o.host
			}
		}
	case 5:
		kind = "other-scheme"
		switch o.scheme {
		case "https":
			o.scheme = gen.Pick(r, []string{"http", "ftp", "wss", "https2", "http"})
		default:
			o.scheme = gen.Pick(r, []string{"https", "htt", "ws"})
		}
		if !ip && r.Bool() {
			o.host = randLabel(r) + "." + o.host
		}
	case 6:
		kind = "other-port"
		switch {
		case o.port == "" && o.scheme == "https":
			o.port = gen.Pick(r, []string{"443", "8443", "80"})
		case o.port == "":
			o.port = gen.Pick(r, []string{"80", "8080", "443"})
		default:
			o.port = gen.Pick(r, []string{"", o.port + "0", "1" + o.port, "65535"})
		}
		if !ip && r.Bool() {
			o.host = randLabel(r) + "." + o.host
		}
	case 7:
		kind = "null"
		o = org{null: true}
	case 8:
		kind = "unrelated"
		o = org{scheme: gen.Pick(r, []string{"https", "http"}), host: r.Ident(3, 9) + gen.Pick(r, []string{".com", ".net", ".example"}), port: gen.Pick(r, ports)}
	case 9:
		kind = "trailing-dot-host"
		if ip {
			kind = "entry-host"
		} else {
			if r.Bool() {
				o.host = randLabel(r) + "." + o.host
			}
			o.host += "."
		}
	case 10:
		kind = "sub-of-shared-suffix" // a.example.com vs entry api.example.com / suffix sharing inside a label
		if ip {
			kind = "entry-host"
		} else if i := strings.IndexByte(o.host, '.'); i > 0 {
			o.host = randLabel(r) + o.host[i:]
		} else {
			o.host = randLabel(r) + "-" + o.host
		}
	case 11:
		kind = "parent-domain"
		if i := strings.IndexByte(o.host, '.'); !ip && i > 0 && strings.IndexByte(o.host[i+1:], '.') > 0 {
			o.host = o.host[i+1:]
		} else {
			kind = "entry-host"
		}
	case 12:
		kind = "hyphen-joined" // a-example.com
		if ip {
			kind = "entry-host"
		} else {
			o.host = randLabel(r) + "-" + o.host
		}
	case 13:
		// outside the serialized-origin syntax: only the */credentials, echo and no-panic clauses
		inDomain = false
		kind = "out-of-domain"
		h, sc, p := o.host, o.scheme, ""
		if o.port != "" {
			p = ":" + o.port
		}
		raw = gen.Pick(r, []string{
			sc + "://." + h + p, // empty label
			sc + "://" + h + p + "/",
			sc + "://" + h + p + "/path",
			sc + "://user@" + h + p,
			sc + "://" + h + p + "@evil.com",
			" " + sc + "://" + h + p,
			sc + "://a b." + h + p,
			"*",
			sc + "://*." + h + p,
			sc + "://a.." + h + p,
			sc + "://" + h + ":",
			sc + "://" + h + ":abc",
			"://",
			sc + ":" + h,
			sc + "://",
			h,
			sc + "://evil.com#." + h + p,
			sc + "://evil.com?." + h + p,
			sc + "://evil.com/." + h + p,
			sc + "://-." + h + p,
			r.StringFrom(gen.TChar+":/.[]@ ", r.Range(1, 24)),
		})
		return o, kind, false, raw
	}
	// render with case variants
	if o.null {
		return o, kind, true, "null"
	}
	mode := r.PickW(5, 1, 3)
	raw = caseVar(r, o.scheme, mode) + "://" + caseVar(r, o.host, mode)
	if o.port != "" {
		raw += ":" + o.port
	}
	return o, kind, true, raw
}

func genReq(r *gen.Rand, s *cfgSpec) *reqSpec {
	q := &reqSpec{path: gen.Pick(r, []string{"/", "/", "/api/v1/items", "/x"})}
	if r.Chance(1, 5) {
		q.path = gen.Pick(r, otherOutcomePaths)
	}
	cls := r.PickW(2, 9, 2, 7)
	switch cls {
	case 0:
		q.method = gen.Pick(r, []string{"GET", "POST", "OPTIONS", "HEAD"})
		if r.Chance(1, 4) {
			q.hasOrigin, q.origin, q.kind = true, "", "empty"
		}
	case 1:
		q.method = gen.Pick(r, []string{"GET", "GET", "POST", "PUT", "DELETE", "PATCH", "HEAD"})
		q.hasOrigin = true
	case 2, 3:
		q.method = "OPTIONS"
		q.hasOrigin = true
	}
	if q.hasOrigin && q.kind != "empty" {
		q.o, q.kind, q.inDomain, q.origin = genOrigin(r, s)
	}
	switch cls {
	case 2:
		if r.Chance(1, 3) {
			q.hasACRM, q.acrm = true, ""
		}
	case 3:
		q.hasACRM, q.acrm = true, gen.Pick(r, []string{"GET", "POST", "PUT", "DELETE", "PATCH", "PURGE", "get"})
	case 1:
		if r.Chance(1, 8) {
			q.hasACRM, q.acrm = true, "POST"
		}
	}
	if cls >= 1 && r.Chance(1, 2) {
		q.acrh = strings.Join(pickSome(r, []string{"content-type", "x-custom-header", "authorization", "X-Requested-With"}, 1, 3), gen.Pick(r, []string{", ", ","}))
	}
	if cls >= 1 {
		switch r.Intn(4) {
		case 0:
			q.acrpn = "true"
		case 1:
			q.acrpn = "false"
		}
	}
	return q
}

// ---------------------------------------------------------------------------------------------
// building and judging

type scenario struct {
	cfg      *cfgSpec
	reqs     []*reqSpec
	reuseCtx bool
	scribble bool // the caller overwrites its configuration slices after New()
}

// shapeObs: the CORS part of one response, filed under the request's shape without its origin.
type shapeObs struct {
	qi      int
	origin  string
	cors    string
	hasVary bool
}

func corsHeaders(resp *drive.Resp) string {
	var hs []string
	for _, h := range resp.Hdr {
		if strings.HasPrefix(strings.ToLower(h.K), "access-control-") {
			hs = append(hs, strings.ToLower(h.K)+": "+h.V)
		}
	}
	sort.Strings(hs)
	return strings.Join(hs, "\n")
}

func build(s *cfgSpec, entered *int) (app *fiber.App, panicked bool, pmsg string) {
	defer func() {
		if r := recover(); r != nil {
			panicked = true
			pmsg = fmt.Sprint(r)
			app = nil
		}
	}()
	var h fiber.Handler
	if s.noConfig {
		h = mw.New()
	} else {
		// the caller's own slices, with spare capacity (scratch slices usually have some)
		own := func(xs []string) []string {
			if xs == nil {
				return nil
			}
			return append(make([]string, 0, len(xs)+4), xs...)
		}
		c := mw.Config{
			AllowCredentials:    s.cred,
			AllowPrivateNetwork: s.pna,
			MaxAge:              s.maxAge,
			AllowHeaders:        own(s.allowHeaders),
			ExposeHeaders:       own(s.exposeHeaders),
			AllowMethods:        own(s.methods),
		}
		if len(s.entries) > 0 {
			c.AllowOrigins = own(s.originsText())
		}
		if len(s.scribble) > 0 {
			defer scribbleOver(&c, s.scribble)
		}
		if s.hasFunc {
			set := s.funcSet
			c.AllowOriginsFunc = func(origin string) bool {
				ok := set[strings.ToLower(origin)]
				if s.funcHook != nil {
					s.funcHook(strings.Clone(origin))
				}
				return ok
			}
		}
		h = mw.New(c)
	}
	app = fiber.New()
	if s.preVary != "" {
		pv := s.preVary
		app.Use(func(c fiber.Ctx) error {
			c.Set("Vary", pv)
			return c.Next()
		})
	}
	app.Use(h)
	ok := func(c fiber.Ctx) error {
		if entered != nil {
			*entered++
		}
		return c.SendString("H")
	}
	for _, p := range okPaths {
		app.All(p, ok)
	}
	// downstream outcomes other than "handler answered 200": the rest of the chain ends with an
	// error (4xx/5xx fiber error, plain error), there is no route (404) or not for this method
	app.All("/fail/:what", func(c fiber.Ctx) error {
		if entered != nil {
			*entered++
		}
		switch c.Params("what") {
		case "401":
			return fiber.NewError(fiber.StatusUnauthorized, "no")
		case "404":
			return fiber.ErrNotFound
		case "500":
			return fiber.NewError(fiber.StatusInternalServerError, "boom")
		case "after-write":
			_ = c.SendString("partial")
			return fiber.NewError(fiber.StatusBadGateway, "late")
		}
		return fmt.Errorf("plain error")
	})
	app.Get("/getonly", ok)
	return app, false, ""
}

// scribbleMethodsAndHeaders: the unchanged middleware keeps the caller's AllowMethods /
// AllowHeaders / ExposeHeaders slices (its Config copy shares their backing arrays) and joins
// them on every request, so a caller that overwrites them after New() changes what preflights
// are answered with. Whether "configured" means "as given to New()" for these three is not
// something the statement settles; judged is the origin list only (the permit clause), the
// other three are probed and counted (info_*_follow_the_callers_slice_after_new) by
// aliasingProbe. Flip to judge them as well.
const scribbleMethodsAndHeaders = false

// aliasingProbe: observation only.
func aliasingProbe(e *ev.Env) {
	methods := append(make([]string, 0, 8), "GET", "POST")
	headers := append(make([]string, 0, 8), "Content-Type")
	expose := append(make([]string, 0, 8), "X-Id")
	app := fiber.New()
	app.Use(mw.New(mw.Config{AllowOrigins: []string{"https://app.example.com"}, AllowMethods: methods, AllowHeaders: headers, ExposeHeaders: expose}))
	app.All("/", func(c fiber.Ctx) error { return c.SendString("H") })
	methods[0], headers[0], expose[0] = "XSCRIBBLED", "X-Scribbled", "X-Scribbled-Too"
	d := drive.NewDirect(app)
	pre := d.Do(&drive.Req{Method: "OPTIONS", URI: "/", Hdr: []drive.H{{K: "Origin", V: "https://app.example.com"}, {K: "Access-Control-Request-Method", V: "POST"}}})
	get := d.Do(&drive.Req{Method: "GET", URI: "/", Hdr: []drive.H{{K: "Origin", V: "https://app.example.com"}}})
	flag := func(name string, follows bool) {
		if follows {
			stat(e, "info_"+name+"_follow_the_callers_slice_after_new", 1)
		} else {
			stat(e, "info_"+name+"_keep_the_value_given_to_new", 1)
		}
	}
	flag("allow_methods", strings.Contains(pre.Get(hACAM), "XSCRIBBLED"))
	flag("allow_headers", strings.Contains(pre.Get(hACAH), "X-Scribbled"))
	flag("expose_headers", strings.Contains(get.Get(hACEH), "X-Scribbled-Too"))
	e.Sample("info_config_slices_after_new", map[string]any{"given_to_new": "AllowMethods [GET POST], AllowHeaders [Content-Type], ExposeHeaders [X-Id]; first elements overwritten afterwards",
		"preflight_allow_methods": pre.Get(hACAM), "preflight_allow_headers": pre.Get(hACAH), "simple_expose_headers": get.Get(hACEH)})
}

// scribbleOver is what the caller does with its configuration value after New() returned.
func scribbleOver(c *mw.Config, with []string) {
	over := func(xs []string, vals []string) []string {
		for i := range xs {
			xs[i] = vals[i%len(vals)]
		}
		full := xs[:cap(xs)]
		for i := len(xs); i < len(full); i++ {
			full[i] = vals[i%len(vals)]
		}
		return full
	}
	// first re-use: the next tenant's middleware is built from the same scratch slice
	origins := over(c.AllowOrigins, []string{"https://tenant-two.example", "https://*.tenant-two.example"})
	if scribbleMethodsAndHeaders {
		over(c.AllowMethods, []string{"XSCRIBBLED", "TRACE"})
		over(c.AllowHeaders, []string{"X-Scribbled"})
		over(c.ExposeHeaders, []string{"X-Scribbled-Too"})
	}
	if len(origins) > 0 {
		func() {
			defer func() { _ = recover() }()
			_ = mw.New(mw.Config{AllowOrigins: origins[:1+len(origins)/2], AllowMethods: c.AllowMethods})
		}()
		// ... and what finally stays in the caller's memory are origins the first configuration refuses
		over(origins, with)
	}
}

var okPaths = []string{"/", "/api/v1/items", "/x"}

// otherOutcomePaths: requests whose downstream chain does not end with a plain 200.
var otherOutcomePaths = []string{"/fail/401", "/fail/404", "/fail/500", "/fail/plain", "/fail/after-write", "/none/here", "/getonly"}

func varySet(vals []string) map[string]bool {
	m := map[string]bool{}
	for _, v := range vals {
		for _, p := range strings.Split(v, ",") {
			p = strings.ToLower(strings.TrimSpace(p))
			if p != "" {
				m[p] = true
			}
		}
	}
	return m
}

const (
	hACAO  = "Access-Control-Allow-Origin"
	hACAC  = "Access-Control-Allow-Credentials"
	hACAM  = "Access-Control-Allow-Methods"
	hACAH  = "Access-Control-Allow-Headers"
	hACMA  = "Access-Control-Max-Age"
	hACEH  = "Access-Control-Expose-Headers"
	hACAPN = "Access-Control-Allow-Private-Network"
)

func judge(e *ev.Env, c *ev.Case, sc *scenario) {
	s := sc.cfg
	entered := 0
	if sc.scribble && !s.noConfig {
		// what the caller writes into its slices afterwards: the origins this configuration refuses
		for _, q := range sc.reqs {
			if q.hasOrigin && q.inDomain && !q.o.null {
				if ok, _ := s.permitted(q.o); !ok {
					s.scribble = append(s.scribble, q.o.ser())
				}
			}
		}
		if len(s.scribble) == 0 {
			s.scribble = []string{"https://attacker.example"}
		}
		stat(e, "cases_caller_overwrites_its_config_after_new", 1)
	}
	app, panicked, pmsg := build(s, &entered)
	invalid := s.cred && s.allowAll()
	e.Eval(1)
	if invalid {
		stat(e, "construct_invalid_configs", 1)
		if panicked {
			stat(e, "construct_invalid_panicked", 1)
			return
		}
		e.Violation(c, "construct|credentials-with-allow-all|no-panic",
			"New() accepted AllowCredentials together with an allow-all origin policy", s.describe())
		// keep going: the middleware must still never emit the pair
	} else if panicked {
		cls := "other"
		if strings.Contains(pmsg, "Invalid origin format") {
			cls = "valid-entry-rejected"
		} else if strings.Contains(pmsg, "runtime error") {
			cls = "runtime-error"
		}
		e.Violation(c, "construct|valid-config|panic:"+cls, "New() panicked on a valid configuration: "+pmsg, s.describe())
		return
	}
	if app == nil {
		return
	}
	d := drive.NewDirect(app)
	all := s.allowAll()
	// one RequestCtx for the whole history (what a keep-alive connection / the ctx pool does) or a
	// fresh one per request
	var shared fasthttp.RequestCtx
	shapes := map[string][]shapeObs{}
	if sc.reuseCtx {
		stat(e, "cases_on_one_request_ctx", 1)
	}
	for qi, q := range sc.reqs {
		if q.funcToggle != "" && s.hasFunc {
			if s.funcSet[q.funcToggle] {
				delete(s.funcSet, q.funcToggle)
			} else {
				s.funcSet[q.funcToggle] = true
			}
			stat(e, "allow_func_answer_toggled", 1)
		}
		rq := &drive.Req{Method: q.method, URI: q.path}
		if q.hasOrigin {
			rq.Hdr = append(rq.Hdr, drive.H{K: "Origin", V: q.origin})
		}
		if q.hasACRM {
			rq.Hdr = append(rq.Hdr, drive.H{K: "Access-Control-Request-Method", V: q.acrm})
		}
		if q.acrh != "" {
			rq.Hdr = append(rq.Hdr, drive.H{K: "Access-Control-Request-Headers", V: q.acrh})
		}
		if q.acrpn != "" {
			rq.Hdr = append(rq.Hdr, drive.H{K: "Access-Control-Request-Private-Network", V: q.acrpn})
		}
		entered = 0
		var resp *drive.Resp
		detail := func(extra map[string]any) map[string]any {
			m := map[string]any{"config": s.describe(), "request": q.describe(), "request_index": qi}
			if resp != nil {
				hs := []string{}
				for _, h := range resp.Hdr {
					hs = append(hs, h.K+": "+h.V)
				}
				m["status"] = resp.Status
				m["response_headers"] = hs
				m["handler_entered"] = entered
			}
			for k, v := range extra {
				m[k] = v
			}
			return m
		}
		if e.Guard(c, "request", detail(nil), func() {
			if sc.reuseCtx {
				shared.Response.Reset()
				resp = d.DoCtx(&shared, rq)
			} else {
				resp = d.Do(rq)
			}
		}) {
			continue
		}
		checkResp(e, c, s, all, qi, q, resp, entered, nil)

		// metamorphic form of "responses that vary by origin carry Vary: Origin": same
		// configuration, same request except for the Origin value - if the CORS headers of two
		// such responses differ, both must carry Vary: Origin. Needs no reading of the policy.
		if q.funcToggle != "" {
			shapes = map[string][]shapeObs{} // the function's answers are part of the configuration
		}
		if q.hasOrigin && q.origin != "" {
			key := strings.Join([]string{q.method, q.path, fmt.Sprint(q.hasACRM), q.acrm, q.acrh, q.acrpn}, "\x00")
			shapes[key] = append(shapes[key], shapeObs{qi, q.origin, corsHeaders(resp), varySet(resp.All("Vary"))["origin"]})
		}
	}
	var keys []string
	for k := range shapes {
		keys = append(keys, k)
	}
	sort.Strings(keys)
	for _, k := range keys {
		obs := shapes[k]
		for i := 1; i < len(obs); i++ {
			a, b := obs[0], obs[i]
			if a.cors == b.cors || strings.EqualFold(a.origin, b.origin) {
				if a.cors == b.cors {
					stat(e, "same_shape_pairs_with_equal_cors_headers", 1)
				}
				continue
			}
			stat(e, "same_shape_pairs_with_different_cors_headers", 1)
			if a.hasVary && b.hasVary {
				continue
			}
			q := sc.reqs[b.qi]
			e.Violation(c, "vary-origin-missing|responses-differ-between-origins|"+q.class(),
				"two requests that differ only in their Origin got different CORS headers, but not both responses carry Vary: Origin",
				map[string]any{"config": s.describe(), "request": q.describe(),
					"origin_1": a.origin, "cors_headers_1": a.cors, "vary_origin_1": a.hasVary,
					"origin_2": b.origin, "cors_headers_2": b.cors, "vary_origin_2": b.hasVary})
			break
		}
	}
}

// checkResp judges ONE response against the request that produced it (per-request rules only,
// so it also serves histories whose requests overlap in time). entered: how often the handler
// ran for this request.
func checkResp(e *ev.Env, c *ev.Case, s *cfgSpec, all bool, qi int, q *reqSpec, resp *drive.Resp, entered int, extra0 map[string]any) {
	detail := func(extra map[string]any) map[string]any {
		m := map[string]any{"config": s.describe(), "request": q.describe(), "request_index": qi}
		hs := []string{}
		for _, h := range resp.Hdr {
			hs = append(hs, h.K+": "+h.V)
		}
		m["status"] = resp.Status
		m["response_headers"] = hs
		m["handler_entered"] = entered
		for k, v := range extra0 {
			m[k] = v
		}
		for k, v := range extra {
			m[k] = v
		}
		return m
	}
	e.Eval(1)
	cls := q.class()
	stat(e, "pairs", 1)
	stat(e, "class_"+cls, 1)
	if !inStrs(okPaths, q.path) && cls != clsPreflight {
		stat(e, "downstream_outcome_not_200", 1)
		stat(e, fmt.Sprintf("downstream_status_%d", resp.Status), 1)
	}
	if q.hasOrigin && q.origin != "" && !all {
		e.Nontrivial(strings.Join(s.originsText(), ","), fmt.Sprint(s.hasFunc, s.cred), q.origin, cls)
	}

	acaoAll := resp.All(hACAO)
	acao := resp.Get(hACAO)
	acac := resp.All(hACAC)
	vary := varySet(resp.All("Vary"))
	lower := strings.ToLower(q.origin)

	// --- never `*` with credentials; ACAC only as configured ------------------------------
	if len(acac) > 0 {
		switch {
		case acao == "*":
			e.Violation(c, "credentials-with-star|"+cls, "Access-Control-Allow-Credentials sent together with Access-Control-Allow-Origin: *", detail(nil))
		case !s.cred:
			// not a clause of the statement (it only forbids the pair with `*`): observed, not judged
			stat(e, "info_credentials_header_although_not_configured", 1)
			e.Sample("info_credentials_header_although_not_configured", detail(nil))
		case len(acaoAll) == 0:
			stat(e, "info_credentials_header_without_acao", 1)
		}
	}
	if len(acaoAll) > 1 {
		e.Violation(c, "acao-multiple|"+cls, "more than one Access-Control-Allow-Origin value", detail(nil))
	}

	// --- ACAO only for permitted origins, equal to the lower-cased origin -------------------
	perm, rule := false, ""
	if q.hasOrigin && q.inDomain {
		perm, rule = s.permitted(q.o)
	}
	if len(acaoAll) > 0 {
		switch {
		case cls == clsNoOrigin:
			if acao == "*" && all {
				// `*` for everybody is within the statement
			} else {
				e.Violation(c, "acao-without-origin|"+cls, "Access-Control-Allow-Origin sent for a request without Origin", detail(nil))
			}
		case acao == "*" && lower != "*":
			if !all {
				origKind := q.kind
				e.Violation(c, "acao-star-without-allow-all|"+cls+"|"+origKind, "Access-Control-Allow-Origin: * although not all origins are allowed", detail(nil))
			} else {
				stat(e, "acao_star_observed", 1)
			}
		case acao != lower:
			sub := "other-value"
			if acao == q.origin {
				sub = "raw-case-echo"
			}
			e.Violation(c, "acao-not-lowercase-origin|"+cls+"|"+sub, "Access-Control-Allow-Origin is neither * nor the lower-cased request origin", detail(nil))
		case all:
			stat(e, "acao_echo_under_allow_all", 1)
		case q.inDomain && !perm:
			e.Violation(c, "acao-for-unpermitted-origin|"+cls+"|"+q.kind, "Access-Control-Allow-Origin echoed for an origin the configuration does not permit", detail(nil))
		case q.inDomain:
			stat(e, "acao_echo_permitted_"+rule, 1)
		default:
			stat(e, "acao_echo_out_of_domain", 1)
			if !(s.hasFunc && s.funcSet[lower]) {
				// e.g. the empty label `https://.example.com` against `https://*.example.com`:
				// not a valid host, outside the statement's domain; informational.
				stat(e, "info_out_of_domain_origin_echoed_by_list", 1)
				e.Sample("info_out_of_domain_origin_echoed_by_list", map[string]any{"allow_origins": s.originsText(), "origin": q.origin})
			}
		}
	} else if q.inDomain && cls != clsNoOrigin && cls != clsOptNoACRM {
		if all {
			stat(e, "info_allow_all_without_acao", 1)
		} else if perm {
			// Converse direction: not demanded by the property statement; counted only.
			pc := s.permittingEntryClass(q.o)
			stat(e, "info_permitted_without_acao|"+pc, 1)
			e.Sample("info_permitted_without_acao|"+pc, detail(nil))
		} else {
			stat(e, "acao_absent_for_unpermitted", 1)
		}
	}

	// --- credentials for permitted origins ---------------------------------------------------
	if s.cred && !all && len(acaoAll) == 1 && acao == lower && q.inDomain && perm && (cls == clsSimple || cls == clsPreflight) {
		if len(acac) != 1 || acac[0] != "true" {
			// the statement never demands the credentials header: observed, not judged
			stat(e, "info_credentials_header_missing_for_permitted_origin", 1)
		} else {
			stat(e, "acac_observed", 1)
		}
	}

	// --- Vary: Origin ------------------------------------------------------------------------
	if !all && cls != clsOptNoACRM {
		if !vary["origin"] {
			e.Violation(c, "vary-origin-missing|"+cls, "response depends on the request origin but carries no Vary: Origin", detail(nil))
		} else {
			stat(e, "vary_origin_observed", 1)
		}
	}

	// --- handler entry, status, configured preflight headers -----------------------------------
	// Judged is only what the statement says: a preflight is answered 204 without reaching the
	// handler, and - for an origin that is granted access (ACAO expected and present) - with
	// the configured methods/headers. What a REFUSED origin is told beyond "no ACAO", what a
	// non-preflight response carries besides ACAO/ACAC/Vary, and whether a simple request is
	// passed on, are not fixed by the statement: counted as info_* only.
	granted := len(acaoAll) == 1 && (all || (q.inDomain && perm))
	switch cls {
	case clsNoOrigin, clsSimple:
		if entered != 1 || resp.Status != 200 {
			stat(e, "info_non_preflight_not_passed_to_handler|"+cls, 1)
		} else {
			stat(e, "non_preflight_reached_handler", 1)
		}
		if cls == clsSimple && len(s.exposeHeaders) > 0 && granted {
			if resp.Get(hACEH) != strings.Join(s.exposeHeaders, ", ") {
				stat(e, "info_expose_headers_differ_from_configuration", 1)
			} else {
				stat(e, "expose_headers_observed", 1)
			}
		}
		if len(resp.All(hACAPN)) > 0 {
			stat(e, "info_private_network_header_on_non_preflight", 1)
		}
		if len(resp.All(hACMA)) > 0 {
			stat(e, "info_max_age_on_non_preflight", 1)
		}
	case clsOptNoACRM:
		stat(e, "options_without_acrm_handler_entered", int64(entered))
	case clsPreflight:
		if entered != 0 {
			e.Violation(c, "preflight-reached-handler", "preflight request reached the handler", detail(nil))
		}
		if resp.Status != 204 {
			e.Violation(c, "preflight-status", "preflight not answered with 204", detail(nil))
		} else {
			stat(e, "preflight_204", 1)
		}
		wantM := strings.Join(s.effMethods(), ", ")
		// a list is configured when it has elements - also when they are empty strings: then the
		// answer is that (empty) list, never the request's Access-Control-Request-Headers
		wantH, haveH := "", !s.noConfig && len(s.allowHeaders) > 0
		if haveH {
			wantH = strings.Join(s.allowHeaders, ", ")
		}
		wantMA := ""
		if s.maxAge > 0 {
			wantMA = strconv.Itoa(s.maxAge)
		} else if s.maxAge < 0 {
			wantMA = "0"
		}
		pn := resp.All(hACAPN)
		if !granted {
			// refused (or unjudgeable) origin. The statement's preflight clause has no origin
			// condition ("preflight requests are answered with the configured methods/headers and
			// 204 ..."), and the middleware does so for refused origins as well: methods and headers
			// are judged here too. Max-Age and the private-network grant are judged for granted
			// origins only (their presence/absence for a refused origin is counted).
			stat(e, "preflight_not_granted", 1)
			if got := resp.Get(hACAM); got != wantM {
				e.Violation(c, "preflight-methods-mismatch|refused-origin", "Access-Control-Allow-Methods of a preflight from a refused origin differs from the configured methods", detail(map[string]any{"want": wantM}))
			} else {
				stat(e, "refused_preflight_with_configured_methods", 1)
			}
			if haveH {
				if got := resp.Get(hACAH); got != wantH {
					e.Violation(c, "preflight-headers-mismatch|refused-origin", "Access-Control-Allow-Headers of a preflight from a refused origin differs from the configured headers", detail(map[string]any{"want": wantH}))
				} else {
					stat(e, "refused_preflight_with_configured_headers", 1)
				}
			}
			if len(pn) > 0 {
				stat(e, "info_refused_preflight_with_private_network_header", 1)
			} else if s.pna && q.acrpn == "true" {
				stat(e, "info_refused_preflight_without_private_network_header", 1)
			}
			break
		}
		stat(e, "preflight_granted", 1)
		if got := resp.Get(hACAM); got != wantM {
			e.Violation(c, "preflight-methods-mismatch", "Access-Control-Allow-Methods differs from the configured methods", detail(map[string]any{"want": wantM}))
		}
		if haveH {
			if got := resp.Get(hACAH); got != wantH {
				e.Violation(c, "preflight-headers-mismatch", "Access-Control-Allow-Headers differs from the configured headers", detail(map[string]any{"want": wantH}))
			}
		}
		if wantMA != "" {
			if got := resp.Get(hACMA); got != wantMA {
				e.Violation(c, "preflight-max-age-mismatch", "Access-Control-Max-Age differs from the configuration", detail(map[string]any{"want": wantMA}))
			}
		} else if len(resp.All(hACMA)) > 0 {
			stat(e, "info_max_age_header_although_max_age_zero", 1)
		}
		if s.pna && q.acrpn == "true" {
			if len(pn) != 1 || pn[0] != "true" {
				e.Violation(c, "preflight-private-network-missing", "configured and requested private-network access not granted to a permitted origin", detail(nil))
			} else {
				stat(e, "private_network_granted", 1)
			}
		} else if len(pn) > 0 {
			sub := "not-requested"
			if !s.pna {
				sub = "not-configured"
			}
			e.Violation(c, "preflight-private-network-unexpected|"+sub, "Access-Control-Allow-Private-Network sent although not configured/requested", detail(nil))
		}
	}
}

func inStrs(l []string, x string) bool {
	for _, y := range l {
		if x == y {
			return true
		}
	}
	return false
}

// sameLenVariant changes exactly one character of a serialized origin (scheme, host label,
// last host character or port) so that the text keeps its length: the look-alike a request
// buffer reused for the next request would hold at the very same bytes.
func sameLenVariant(r *gen.Rand, o org) (org, string) {
	alt := func(b byte, alphabet string) byte {
		for {
			if x := alphabet[r.Intn(len(alphabet))]; x != b {
				return x
			}
		}
	}
	hostPos := func() []int {
		var ps []int
		for i := 0; i < len(o.host); i++ {
			if c := o.host[i]; c >= 'a' && c <= 'z' || c >= '0' && c <= '9' {
				ps = append(ps, i)
			}
		}
		return ps
	}
	for {
		switch r.Intn(4) {
		case 0:
			b := []byte(o.scheme)
			i := 1 + r.Intn(len(b)-1)
			b[i] = alt(b[i], gen.Lower)
			v := o
			v.scheme = string(b)
			return v, "same-length:scheme"
		case 1:
			ps := hostPos()
			if len(ps) == 0 {
				continue
			}
			i := ps[r.Intn(len(ps))]
			b := []byte(o.host)
			if b[i] >= '0' && b[i] <= '9' {
				b[i] = alt(b[i], "123456789")
			} else if isIP(o.host) {
				b[i] = alt(b[i], "abcdef")
			} else {
				b[i] = alt(b[i], gen.Lower)
			}
			v := o
			v.host = string(b)
			return v, "same-length:host-char"
		case 2:
			ps := hostPos()
			if len(ps) == 0 || isIP(o.host) {
				continue
			}
			i := ps[len(ps)-1]
			b := []byte(o.host)
			if b[i] >= '0' && b[i] <= '9' {
				b[i] = alt(b[i], "123456789")
			} else {
				b[i] = alt(b[i], gen.Lower)
			}
			v := o
			v.host = string(b)
			return v, "same-length:last-host-char"
		default:
			if o.port == "" {
				continue
			}
			b := []byte(o.port)
			i := r.Intn(len(b))
			b[i] = alt(b[i], "123456789")
			v := o
			v.port = string(b)
			return v, "same-length:port"
		}
	}
}

// genHistory: a permitted origin written in lower case, then same-length variants of it, then the
// permitted one again ... as simple requests and preflights.
func genHistory(r *gen.Rand, s *cfgSpec) []*reqSpec {
	var nonStar []entry
	for _, e := range s.entries {
		if !e.star {
			nonStar = append(nonStar, e)
		}
	}
	if len(nonStar) == 0 {
		return nil
	}
	base := gen.Pick(r, nonStar)
	o := base.o
	if base.wild {
		o.host = randLabel(r) + "." + o.host
	}
	mk := func(v org, kind string) *reqSpec {
		q := &reqSpec{path: gen.Pick(r, okPaths), hasOrigin: true, origin: v.ser(), inDomain: true, o: v, kind: kind}
		if r.Chance(1, 3) {
			q.method, q.hasACRM, q.acrm = "OPTIONS", true, gen.Pick(r, []string{"GET", "POST", "PUT"})
		} else {
			q.method = gen.Pick(r, []string{"GET", "POST", "PUT", "DELETE"})
		}
		return q
	}
	var out []*reqSpec
	for round := r.Range(2, 3); round > 0; round-- {
		out = append(out, mk(o, "history-permitted-lowercase"))
		for k := r.Range(1, 3); k > 0; k-- {
			v, kind := sameLenVariant(r, o)
			out = append(out, mk(v, kind))
		}
	}
	return append(out, mk(o, "history-permitted-lowercase"))
}

// fillFunc lets the function accept a random subset of the origins that will be sent.
func fillFunc(r *gen.Rand, sc *scenario) {
	if !sc.cfg.hasFunc {
		return
	}
	for _, q := range sc.reqs {
		if q.hasOrigin && q.origin != "" && r.Chance(1, 3) {
			if q.inDomain {
				sc.cfg.funcSet[q.o.ser()] = true
			} else {
				sc.cfg.funcSet[strings.ToLower(q.origin)] = true
			}
		}
	}
}

const reqsPerCase = 20

// seen mirrors the stats the run-level thresholds look at.
var seen = map[string]int64{}

func stat(e *ev.Env, name string, n int64) {
	seen[name] += n
	e.Stat(name, n)
}

// quiet: New() warns about every func+list configuration
func quiet() { fiberlog.SetOutput(io.Discard) }

func run(e *ev.Env) {
	quiet()

	mk := func(scheme, host, port string, wild bool, text string) entry {
		lead := len(text) - len(strings.TrimLeft(text, " "))
		return entry{wild: wild, o: org{scheme: scheme, host: host, port: port}, text: text, lead: lead}
	}
	in := func(method, raw string, o org, kind string) *reqSpec {
		return &reqSpec{method: method, path: "/", hasOrigin: true, origin: raw, inDomain: true, o: o, kind: kind}
	}
	pre := func(q *reqSpec) *reqSpec { q.method, q.hasACRM, q.acrm = "OPTIONS", true, "POST"; return q }

	// ---- fixed corpus ---------------------------------------------------------------------------
	e.Corpus("credentials-star-must-panic", func(c *ev.Case) {
		judge(e, c, &scenario{cfg: &cfgSpec{cred: true, entries: []entry{{star: true, text: "*"}}}})
		judge(e, c, &scenario{cfg: &cfgSpec{cred: true}})
		judge(e, c, &scenario{cfg: &cfgSpec{cred: true, entries: []entry{mk("https", "example.com", "", false, "https://example.com"), {star: true, text: "*"}}}})
	})
	e.Corpus("wildcard-lookalikes", func(c *ev.Case) {
		cfg := &cfgSpec{cred: true, entries: []entry{mk("https", "example.com", "", true, "https://*.example.com")}}
		o := func(h string) org { return org{scheme: "https", host: h} }
		judge(e, c, &scenario{cfg: cfg, reqs: []*reqSpec{
			in("GET", "https://a.example.com", o("a.example.com"), "one-label-sub"),
			in("GET", "https://A.B.Example.COM", o("a.b.example.com"), "deep-sub"),
			in("GET", "https://evilexample.com", o("evilexample.com"), "lookalike-prefix"),
			in("GET", "https://example.com", o("example.com"), "entry-host"),
			in("GET", "https://example.com.evil.com", o("example.com.evil.com"), "lookalike-suffix"),
			in("GET", "https://a.example.com:443", org{scheme: "https", host: "a.example.com", port: "443"}, "other-port"),
			in("GET", "http://a.example.com", org{scheme: "http", host: "a.example.com"}, "other-scheme"),
			in("GET", "null", org{null: true}, "null"),
			pre(in("", "https://a.example.com", o("a.example.com"), "one-label-sub")),
			pre(in("", "https://notexample.com", o("notexample.com"), "lookalike-prefix")),
			{method: "GET", path: "/"},
			{method: "OPTIONS", path: "/", hasOrigin: true, origin: "https://a.example.com", inDomain: true, o: o("a.example.com"), kind: "one-label-sub"},
			{method: "GET", path: "/", hasOrigin: true, origin: "https://.example.com", kind: "out-of-domain"},
		}})
	})
	e.Corpus("wildcard-entry-leading-space", func(c *ev.Case) {
		// H of DESIGN 3.C19: index of "://*." taken before trimming. Fail-closed for valid hosts;
		// only the converse (informational) counter moves.
		cfg := &cfgSpec{entries: []entry{mk("https", "example.com", "", true, " https://*.example.com"), mk("https", "gofiber.io", "", false, " https://gofiber.io")}}
		o := func(h string) org { return org{scheme: "https", host: h} }
		judge(e, c, &scenario{cfg: cfg, reqs: []*reqSpec{
			in("GET", "https://a.example.com", o("a.example.com"), "one-label-sub"),
			in("GET", "https://gofiber.io", o("gofiber.io"), "entry-host"),
			in("GET", "https://evilexample.com", o("evilexample.com"), "lookalike-prefix"),
			{method: "GET", path: "/", hasOrigin: true, origin: "https://.example.com", kind: "out-of-domain"},
			{method: "GET", path: "/", hasOrigin: true, origin: "https://.evilexample.com", kind: "out-of-domain"},
		}})
	})
	e.Corpus("func-and-star-origin", func(c *ev.Case) {
		cfg := &cfgSpec{cred: true, hasFunc: true, funcSet: map[string]bool{"*": true, "null": true, "https://app.example.org": true}}
		judge(e, c, &scenario{cfg: cfg, reqs: []*reqSpec{
			{method: "GET", path: "/", hasOrigin: true, origin: "*", kind: "out-of-domain"},
			pre(&reqSpec{path: "/", hasOrigin: true, origin: "*", kind: "out-of-domain"}),
			in("GET", "null", org{null: true}, "null"),
			in("POST", "HTTPS://APP.example.org", org{scheme: "https", host: "app.example.org"}, "entry-host"),
			in("POST", "https://app.example.org:8443", org{scheme: "https", host: "app.example.org", port: "8443"}, "other-port"),
		}})
	})
	e.Corpus("default-config", func(c *ev.Case) {
		judge(e, c, &scenario{cfg: &cfgSpec{noConfig: true}, reqs: []*reqSpec{
			{method: "GET", path: "/"},
			in("GET", "https://x.example", org{scheme: "https", host: "x.example"}, "unrelated"),
			pre(in("", "https://x.example", org{scheme: "https", host: "x.example"}, "unrelated")),
		}})
	})

	e.Corpus("config-slices-after-new-probe", func(c *ev.Case) { aliasingProbe(e) })

	// ---- generated ------------------------------------------------------------------------------
	// ~2.5 % of the configurations are invalid on purpose and end the case at construction
	n := e.N(200000, 20000000) / reqsPerCase * 21 / 20
	e.Cases("policy", n, func(c *ev.Case) {
		r := c.R
		sc := &scenario{cfg: genCfg(r)}
		for i := 0; i < reqsPerCase; i++ {
			sc.reqs = append(sc.reqs, genReq(r, sc.cfg))
		}
		sc.reuseCtx = r.Bool()
		sc.scribble = r.Chance(1, 3)
		// the same request again from another origin (for the metamorphic Vary clause)
		for k := 0; k < 4; k++ {
			i, j := r.Intn(len(sc.reqs)), r.Intn(len(sc.reqs))
			src := sc.reqs[i]
			if i == j || !src.hasOrigin || src.origin == "" {
				continue
			}
			tw := *src
			tw.o, tw.kind, tw.inDomain, tw.origin = genOrigin(r, sc.cfg)
			sc.reqs[j] = &tw
		}
		if r.Chance(1, 3) {
			if h := genHistory(r, sc.cfg); h != nil {
				at := r.Intn(len(sc.reqs) - len(h) + 1)
				copy(sc.reqs[at:], h) // keeps the number of requests per case
				stat(e, "histories_permitted_then_same_length_variants", 1)
			}
		}
		fillFunc(r, sc)
		if sc.cfg.hasFunc && r.Chance(1, 2) {
			// the same origin again after the function changed its mind about it
			for k := 0; k < 2; k++ {
				q := sc.reqs[r.Intn(len(sc.reqs))]
				if q.hasOrigin && q.inDomain {
					cp := *q
					cp.funcToggle = strings.ToLower(q.origin)
					sc.reqs = append(sc.reqs, &cp)
				}
			}
		}
		judge(e, c, sc)
	})

	e.Corpus("stacked-instances", func(c *ev.Case) { stacked(e, c, true) })
	e.Cases("stacked", e.N(200, 5000), func(c *ev.Case) { stacked(e, c, false) })

	// requests that overlap inside the allow function, hand-off by hand-off on one P
	prevProcs := runtime.GOMAXPROCS(1)
	e.Cases("overlap", e.N(1500, 60000), func(c *ev.Case) { overlap(e, c) })
	runtime.GOMAXPROCS(prevProcs)
	// ... and free-running
	e.Cases("overlap-stress", e.N(48, 1500), func(c *ev.Case) { overlapStress(e, c) })

	// observation thresholds (R1/R8): the clauses must actually have been exercised
	if e.Only == "" {
		need := []struct {
			name string
			n    int64
		}{
			{"acao_echo_permitted_exact", 1}, {"acao_echo_permitted_wildcard", 1}, {"acao_echo_permitted_func", 1},
			{"acao_absent_for_unpermitted", 1}, {"acao_star_observed", 1}, {"acac_observed", 1},
			{"overlap_second_request_completed_while_first_parked", 1}, {"vary_origin_observed", 1}, {"preflight_204", 1}, {"construct_invalid_panicked", 1}, {"private_network_granted", 1}, {"preflight_granted", 1},
		}
		for _, nd := range need {
			if seen[nd.name] < nd.n {
				e.Inconclusive("never observed: " + nd.name)
			}
		}
	}

	e.Note("nontrivial_rule", "request with a non-empty Origin against a configuration that does not allow all origins; key = (origin list, func/credentials flags, origin text, request class)")
	e.Note("converse", "info_permitted_without_acao|<class> counts permitted in-domain origins that got no ACAO (not demanded by the statement)")
}
