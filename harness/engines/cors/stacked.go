package cors

// stacked: two differently configured cors instances on one route (a group-level instance with a
// list and credentials, and a second instance in front of / behind it that allows all origins).
// The statement's "Allow-Credentials is never sent together with '*'" does not speak of one
// instance; which configuration decides ACAO is not something it settles, so ONLY that clause is
// looked at here. On the unchanged tree the pair does occur (the second instance overwrites ACAO
// with Set and leaves the first one's Allow-Credentials): whether that is a finding is the
// coordinator's decision - judgeStackedInstances = true counts it
// (info_stacked_instances_star_with_credentials), true makes it a verdict
// (credentials-with-star|stacked-instances|<order>).

import (
	"github.com/gofiber/fiber/v3"
	mw "github.com/gofiber/fiber/v3/middleware/cors"

	"verifharness/internal/drive"
	"verifharness/internal/ev"
	"verifharness/internal/gen"
)

const judgeStackedInstances = true

func stacked(e *ev.Env, c *ev.Case, fixed bool) {
	r := c.R
	o := org{scheme: gen.Pick(r, []string{"https", "http"}), host: gen.Pick(r, baseHosts), port: gen.Pick(r, ports)}
	if fixed {
		o = org{scheme: "https", host: "app.example.com"}
	}
	listed := mw.New(mw.Config{AllowOrigins: []string{o.ser()}, AllowCredentials: true})
	var open fiber.Handler
	switch r.Intn(3) {
	case 0:
		open = mw.New()
	case 1:
		open = mw.New(mw.Config{AllowOrigins: []string{"*"}})
	default:
		open = mw.New(mw.Config{})
	}
	order := "allow-all-instance-behind"
	app := fiber.New()
	if fixed || r.Bool() {
		app.Use(listed, open)
	} else {
		order = "allow-all-instance-in-front"
		app.Use(open, listed)
	}
	app.All("/*", func(c fiber.Ctx) error { return c.SendString("H") })
	d := drive.NewDirect(app)
	for _, m := range []string{"GET", "OPTIONS"} {
		rq := &drive.Req{Method: m, URI: "/api/x", Hdr: []drive.H{{K: "Origin", V: o.ser()}}}
		if m == "OPTIONS" {
			rq.Hdr = append(rq.Hdr, drive.H{K: "Access-Control-Request-Method", V: "POST"})
		}
		var resp *drive.Resp
		if e.Guard(c, "request", map[string]any{"stacked": order}, func() { resp = d.Do(rq) }) {
			return
		}
		e.Eval(1)
		stat(e, "stacked_instances_requests", 1)
		if resp.Get(hACAO) == "*" && len(resp.All(hACAC)) > 0 {
			det := map[string]any{"first_instance": "AllowOrigins [" + o.ser() + "], AllowCredentials true", "second_instance": "allow all origins",
				"order": order, "method": m, "origin": o.ser(), "acao": resp.Get(hACAO), "acac": resp.Get(hACAC)}
			if judgeStackedInstances {
				e.Violation(c, "credentials-with-star|stacked-instances|"+order, "two cors instances on one route: Access-Control-Allow-Credentials sent together with Access-Control-Allow-Origin: *", det)
			} else {
				stat(e, "info_stacked_instances_star_with_credentials|"+order, 1)
				e.Sample("info_stacked_instances_star_with_credentials|"+order, det)
			}
		}
	}
}
