// Package encc is the runtime monitor for property C20 (DESIGN.md 3.C20): cookies set behind the
// encryptcookie middleware reach the client only as ciphertext, replayed they reach the next
// handler with their original value, and a value that was not issued under the current key
// (mutated, truncated, extended, other key, garbage) reaches the handler as empty — or as the
// original if the alteration base64-decodes to the very same ciphertext bytes — never as any
// other text. Excepted names pass through unchanged in both directions.
//
// Families
//
//	script  (wire drive)  issue → issue again → replay through a conforming cookie jar; the real
//	                      serialized Set-Cookie bytes are judged with internal/strict; a twin app
//	                      without the middleware is the reference for excepted names.
//	tamper  (direct)      for one issued ciphertext: every single-byte substitution at every
//	                      position (quick: 3 values, thorough: all 255), every truncation,
//	                      extensions, ciphertexts under other keys, garbage; next to an authentic
//	                      and an excepted neighbour cookie.
//	multi   (direct)      several cookies per request including duplicates of one name.
//	long    (direct+wire) plaintexts up to 16 KiB (cookies beyond 4096 / 8192 bytes) issued and replayed.
//	twokeys / conc        see conc.go (state shared between instances / between requests in flight).
//	samename (wire)       several Set-Cookie entries of one name (different Path/Domain) via the header API.
//	rawline (wire)        the handler writes a raw Set-Cookie line, also with attributes the cookie
//	                      parser rejects: ciphertext only all the same.
//
// The handler's view is recorded through Cookies(name) and through
// Request().Header.VisitAllCookie (which is what cookie binding iterates).
package encc

import (
	"bytes"
	"crypto/aes"
	"crypto/cipher"
	"encoding/base64"
	"encoding/hex"
	"fmt"
	"strings"
	"time"

	"github.com/gofiber/fiber/v3"
	mw "github.com/gofiber/fiber/v3/middleware/encryptcookie"
	"github.com/valyala/fasthttp"

	"verifharness/internal/drive"
	"verifharness/internal/ev"
	"verifharness/internal/gen"
	"verifharness/internal/reg"
	"verifharness/internal/strict"
)

func init() { reg.Register("encc", run) }

// ---------------------------------------------------------------------------------------------
// the oracle's own AES-GCM (nonce | ciphertext | tag, std base64) — independent of fiber's utils.go

func seal(key, nonce, pt []byte) string {
	b, err := aes.NewCipher(key)
	if err != nil {
		panic(err)
	}
	g, err := cipher.NewGCM(b)
	if err != nil {
		panic(err)
	}
	return base64.StdEncoding.EncodeToString(g.Seal(append([]byte(nil), nonce...), nonce, pt, nil))
}

// open is an OBSERVATION, never a verdict: it tells whether an issued value happens to be in the
// layout the harness knows (std base64 of nonce|ct|tag). The property statement does not fix the
// cipher text encoding; whether an issued value is right is decided only by the statement's
// clauses (no plaintext on the wire, two issues differ, replay gives the original value).
func open(key []byte, b64 string) (string, bool) {
	raw, err := base64.StdEncoding.DecodeString(b64)
	if err != nil || len(raw) < 12 {
		return "", false
	}
	b, _ := aes.NewCipher(key)
	g, _ := cipher.NewGCM(b)
	pt, err := g.Open(nil, raw[:12], raw[12:], nil)
	if err != nil {
		return "", false
	}
	return string(pt), true
}

// cookieNorm is what any Cookie-header reader hands on as the value of `name=<v>`: cut at the
// first ';', OWS trimmed, one pair of surrounding DQUOTEs removed. It is only used to WIDEN
// the set of accepted observations (never to demand anything).
func cookieNorm(v string) string {
	if i := strings.IndexByte(v, ';'); i >= 0 {
		v = v[:i]
	}
	v = strings.Trim(v, " ")
	if len(v) > 1 && v[0] == '"' && v[len(v)-1] == '"' {
		v = v[1 : len(v)-1]
	}
	return v
}

// decodesTo reports whether the altered text base64-decodes to exactly the issued ciphertext bytes
// (only meaningful when the issued value was recognised as std base64, see open).
func decodesTo(alt string, ct []byte) bool {
	for _, s := range []string{alt, cookieNorm(alt)} {
		if d, err := base64.StdEncoding.DecodeString(s); err == nil && bytes.Equal(d, ct) {
			return true
		}
	}
	return false
}

// ---------------------------------------------------------------------------------------------
// app under test

type kv struct{ K, V string }

type setInstr struct {
	Name, Value, Path string
	HTTPOnly, Secure  bool
	SameSite          string
	MaxAge            int
}

// world is the per-case instruction and observation record shared with the handlers.
type world struct {
	toSet   []setInstr
	ask     []string
	got     map[string]string
	visited []kv
	entered int
	upSet   []setInstr        // cookies a middleware registered IN FRONT of encryptcookie puts on the response before c.Next()
	rawAdd  bool              // write rawSet with Response().Header.Add instead of c.Set
	rawSet  []string          // raw Set-Cookie lines the handler writes itself (c.Set), e.g. taken over from an upstream
	failSet int               // != 0: the setting handler returns fiber.NewError(failSet) after setting the cookies
	bind    bool              // also record the cookie binder's view (it iterates VisitAllCookie)
	bound   map[string]string // Bind().Cookie(&map[string]string)
}

func (w *world) reset() {
	w.got = map[string]string{}
	w.visited = nil
	w.entered = 0
	w.bound = nil
}

func newApp(key string, except []string, withMW bool, w *world) *fiber.App {
	return newAppCfg(fiber.Config{}, key, except, withMW, w)
}

func newAppCfg(fc fiber.Config, key string, except []string, withMW bool, w *world) *fiber.App {
	if fc.ReadBufferSize == 0 {
		fc.ReadBufferSize = 32 * 1024 // several long names / values per request also over the wire
	}
	app := fiber.New(fc)
	// something in front of the middleware that already puts cookies on the response (a session or
	// tracking middleware would); the handler behind may set the same names again
	app.Use(func(c fiber.Ctx) error {
		if c.Method() == "POST" {
			for _, s := range w.upSet {
				c.Cookie(&fiber.Cookie{Name: s.Name, Value: s.Value, Path: s.Path, HTTPOnly: s.HTTPOnly,
					Secure: s.Secure, SameSite: s.SameSite, MaxAge: s.MaxAge})
			}
		}
		return c.Next()
	})
	if withMW {
		app.Use(mw.New(mw.Config{Key: key, Except: except}))
	}
	app.All("/*", func(c fiber.Ctx) error {
		if c.Method() == "POST" {
			for _, s := range w.toSet {
				c.Cookie(&fiber.Cookie{Name: s.Name, Value: s.Value, Path: s.Path, HTTPOnly: s.HTTPOnly,
					Secure: s.Secure, SameSite: s.SameSite, MaxAge: s.MaxAge})
			}
			for _, line := range w.rawSet {
				if w.rawAdd {
					c.Response().Header.Add(fiber.HeaderSetCookie, line)
				} else {
					c.Set(fiber.HeaderSetCookie, line)
				}
			}
			if w.failSet != 0 {
				// cookies set before a handler fails still leave the server: they must be encrypted too
				return fiber.NewError(w.failSet, "failed after setting cookies")
			}
			return c.SendString("set")
		}
		w.entered++
		for _, n := range w.ask {
			w.got[n] = strings.Clone(c.Cookies(n))
		}
		c.Request().Header.VisitAllCookie(func(k, v []byte) {
			w.visited = append(w.visited, kv{string(k), string(v)})
		})
		if w.bind {
			m := map[string]string{}
			if err := c.Bind().Cookie(&m); err == nil {
				w.bound = map[string]string{}
				for k, v := range m {
					w.bound[strings.Clone(k)] = strings.Clone(v)
				}
			}
		}
		return c.SendString("read")
	})
	return app
}

func inList(n string, l []string) bool {
	for _, x := range l {
		if x == n {
			return true
		}
	}
	return false
}

// ---------------------------------------------------------------------------------------------
// generators

// prefix-related names on purpose (Except must be an exact match)
var namePool = []string{"s", "se", "sess", "session", "session2", "sid", "Sess", "a", "ab", "abc", "csrf_", "csrf_token", "token", "t", "id", "user-id", "x_1"}

func genKey(r *gen.Rand) ([]byte, string) {
	k := r.Bytes(gen.Pick(r, []int{16, 24, 32}))
	return k, base64.StdEncoding.EncodeToString(k)
}

const cookieSafe = gen.AlphaNum + "!#$%&'()*+-./:<>?@[]^_`{|}~"

type pval struct {
	v     string
	core  string // unique part that must never be visible on the wire
	class string // how it was generated
}

// lossClass names the values the Set-Cookie text form cannot carry as they are (space at the
// ends, a surrounding DQUOTE pair, ';'): separate input classes, separate signatures.
func lossClass(v string) string {
	switch {
	case strings.IndexByte(v, ';') >= 0:
		return "semicolon"
	case len(v) > 0 && (v[0] == ' ' || v[len(v)-1] == ' '):
		return "outer-space"
	case len(v) > 1 && v[0] == '"' && v[len(v)-1] == '"':
		return "outer-dquote"
	case strings.ContainsAny(v, "\r\n"):
		// a line break cannot be part of a header line either (c.Cookie replaces it by a space)
		return "line-break"
	}
	return "clean"
}

func uid(r *gen.Rand, n int) string { return "v" + hex.EncodeToString(r.Bytes(n)) }

func genValue(r *gen.Rand, allowLong bool, key string) pval {
	switch r.PickW(6, 2, 2, 4, 3, 2, 2, 2, 3) {
	case 8:
		// a value that is itself a well-formed encrypted cookie value: a token the application
		// sealed with the package's exported EncryptCookie under the middleware key or another key,
		// or one sealed by the harness. It is a value like any other: the client must see a
		// ciphertext OF it, and the next handler must get exactly this string back.
		inner := uid(r, r.Range(4, 12))
		nonce, other := r.Bytes(12), r.Bytes(32)
		var v string
		var err error
		switch r.Intn(3) {
		case 0:
			v, err = mw.EncryptCookie(inner, key)
		case 1:
			v, err = mw.EncryptCookie(inner, base64.StdEncoding.EncodeToString(other))
		default:
			v = seal(other, nonce, []byte(inner))
		}
		if err != nil || v == "" {
			v = seal(other, nonce, []byte(inner))
		}
		return pval{v, v, "nested-ciphertext"}
	case 0:
		v := uid(r, r.Range(5, 10))
		return pval{v, v, "id"}
	case 1:
		return pval{"", "", "empty"}
	case 2:
		if !allowLong {
			v := uid(r, 8)
			return pval{v, v, "id"}
		}
		core := uid(r, 8)
		v := core + r.StringFrom(cookieSafe, r.Range(200, 1400))
		return pval{v, core, "long"}
	case 3:
		b := r.Bytes(r.Range(8, 40))
		return pval{string(b), string(b), "binary"}
	case 4:
		core := uid(r, 6)
		v := core + gen.Pick(r, []string{`,a"b=c d`, `=`, `==`, ` x `, `,`, `"`, `a b`, `\`, `%3B`}) + uid(r, 3)
		return pval{v, core, "punct"}
	case 5:
		core := uid(r, 6)
		v := gen.Pick(r, []string{" " + core, core + " ", "  " + core + " "})
		return pval{v, core, "outer-space"}
	case 6:
		core := uid(r, 6)
		return pval{`"` + core + `"`, core, "outer-dquote"}
	default:
		core := uid(r, 6)
		v := core + gen.Pick(r, []string{";", "; ", ";x=", " ; "}) + uid(r, 6)
		return pval{v, core, "semicolon"}
	}
}

func genExceptValue(r *gen.Rand) string {
	// what an application would hand to a front-end in clear: cookie-octets only
	return "x" + r.StringFrom(cookieSafe, r.Range(0, 24))
}

// nameLengths: besides the short names of the pool (1, 2, ... characters) cookie names around
// the powers of two and long ones; a name is a token of any length.
var nameLengths = []int{31, 32, 33, 63, 64, 65, 100, 255}

func pickNames(r *gen.Rand, n int) []string {
	p := append([]string(nil), namePool...)
	gen.Shuffle(r, p)
	p = p[:n]
	for i := range p {
		if r.Chance(1, 5) {
			l := gen.Pick(r, nameLengths)
			p[i] = p[i] + "_" + r.StringFrom(gen.AlphaNum+"-_.", l-len(p[i])-1)
		}
	}
	return p
}

// exceptSizes: Except lists of every small length and around the sizes where an implementation
// may switch from a scan to another representation.
var exceptSizes = []int{0, 1, 2, 3, 4, 5, 6, 7, 8, 9, 10, 11, 12, 16, 17, 32, 33, 64, 65}

// padExcept brings the Except list to one of exceptSizes with names no cookie uses, the names that
// matter standing first, last or anywhere in it.
func padExcept(r *gen.Rand, except []string) []string {
	want := gen.Pick(r, exceptSizes)
	if want <= len(except) {
		return except
	}
	var pad []string
	for i := len(except); i < want; i++ {
		pad = append(pad, fmt.Sprintf("unused-%d-%s", i, r.Ident(2, 6)))
	}
	switch r.Intn(3) {
	case 0:
		return append(append([]string(nil), except...), pad...) // the real names first
	case 1:
		return append(pad, except...) // ... last
	}
	out := append(pad, except...)
	gen.Shuffle(r, out)
	return out
}

// selfReferential: a value that also occurs elsewhere in the cookie's own Set-Cookie line - inside
// its name, equal to its name, an attribute name or value, a single character.
func selfReferential(r *gen.Rand, name string) string {
	switch r.Intn(6) {
	case 0:
		i := r.Intn(len(name))
		j := i + 1 + r.Intn(len(name)-i)
		return name[i:j]
	case 1:
		return name
	case 2:
		return name[:1+r.Intn(len(name))]
	case 3:
		return string(name[r.Intn(len(name))])
	case 4:
		return gen.Pick(r, []string{"path", "/", "Path=/", "Secure", "secure", "HttpOnly", "SameSite", "Lax", "Strict", "None", "max-age", "3600", "=", "a", "e", "p"})
	default:
		return name[len(name)/2:]
	}
}

func hexs(s string) string { return hex.EncodeToString([]byte(s)) }

func printable(s string) string {
	if len(s) > 120 {
		s = s[:120] + "..."
	}
	return fmt.Sprintf("%q", s)
}

// ---------------------------------------------------------------------------------------------
// script family: issue / issue again / replay over the wire

var t0 = time.Unix(1700000000, 0)

type wireCookie struct {
	line  string
	sc    *strict.SetCookie
	class string // parse error class
}

func wireSet(app *fiber.App, path string) (map[string]wireCookie, []byte, string) {
	w := drive.NewWire(app)
	out, _ := w.Serve([]byte("POST "+path+" HTTP/1.1\r\nHost: h.example\r\nContent-Length: 0\r\n\r\n"), nil)
	rs, perr := strict.ParseAll(out, nil)
	if perr != nil || len(rs) != 1 {
		cls := "count"
		if perr != nil {
			cls = perr.Class
		}
		return nil, out, cls
	}
	m := map[string]wireCookie{}
	for _, line := range rs[0].All("Set-Cookie") {
		name := line
		if i := strings.IndexByte(line, '='); i >= 0 {
			name = line[:i]
		}
		sc, bad := strict.ParseSetCookie(line)
		m[name] = wireCookie{line: line, sc: sc, class: bad}
	}
	return m, out, ""
}

// lenientSetCookies splits the head of the first response into lines without judging them and
// returns its Set-Cookie entries (by name, and in order). Used when the strict parser refuses the
// response: C20 has no well-formedness clause, a byte the handler itself supplied (and that leaves
// the server just the same without the middleware) must not become a verdict here.
func lenientSetCookies(out []byte) (map[string]wireCookie, []wireCookie) {
	head := out
	if i := bytes.Index(out, []byte("\r\n\r\n")); i >= 0 {
		head = out[:i]
	}
	m := map[string]wireCookie{}
	var all []wireCookie
	for _, l := range strings.Split(string(head), "\r\n") {
		if len(l) < 11 || !strings.EqualFold(l[:11], "set-cookie:") {
			continue
		}
		line := strings.TrimLeft(l[11:], " ")
		name := line
		if i := strings.IndexByte(line, '='); i >= 0 {
			name = line[:i]
		}
		sc, bad := strict.ParseSetCookie(line)
		wc := wireCookie{line: line, sc: sc, class: bad}
		m[name] = wc
		all = append(all, wc)
	}
	return m, all
}

// unparseable decides what a response the strict parser refuses means for C20. twinClass is the
// strict parser's verdict on the SAME handler's response without the middleware ("" = parseable).
// Same obstacle in both: the byte is the handler's, nothing to judge structurally (counted).
// Only where the twin parses, or fails differently, has the middleware itself made the response
// unreadable - that stays a verdict, named so. Returns true when a violation was recorded.
func unparseable(e *ev.Env, c *ev.Case, class, twinClass string, out []byte, cfg map[string]any) bool {
	if class == twinClass {
		stat(e, "unparseable_like_twin", 1)
		stat(e, "unparseable_like_twin:"+class, 1)
		return false
	}
	e.Violation(c, "wire|middleware-made-response-unparseable|"+class,
		"the response is rejected by the strict parser although the same handler's response without the middleware is not (or for another reason)",
		map[string]any{"config": cfg, "without_middleware": map[bool]string{true: "parseable", false: twinClass}[twinClass == ""], "out": printable(string(out))})
	return true
}

func wireRead(app *fiber.App, path, cookieHdr string) bool {
	w := drive.NewWire(app)
	req := "GET " + path + " HTTP/1.1\r\nHost: h.example\r\n"
	if cookieHdr != "" {
		req += "Cookie: " + cookieHdr + "\r\n"
	}
	out, _ := w.Serve([]byte(req+"\r\n"), nil)
	rs, perr := strict.ParseAll(out, nil)
	return perr == nil && len(rs) == 1 && rs[0].Status == 200
}

type issued struct {
	name string
	p    pval
	exc  bool
	path string
}

func script(e *ev.Env, c *ev.Case, keyRaw []byte, key string, except []string, cookies []issued, dupPath bool) {
	w := &world{}
	wb := &world{}
	app := newApp(key, except, true, w)
	base := newApp(key, except, false, wb)
	cfg := map[string]any{"key_len": len(keyRaw), "except": except}

	mkSet := func(cs []issued) []setInstr {
		var out []setInstr
		for i, ck := range cs {
			s := setInstr{Name: ck.name, Value: ck.p.v, Path: ck.path}
			switch i % 4 {
			case 1:
				s.HTTPOnly, s.SameSite = true, "Strict"
			case 2:
				s.Secure, s.MaxAge = true, 3600
			case 3:
				s.SameSite = "None"
			}
			out = append(out, s)
		}
		return out
	}
	w.toSet = mkSet(cookies)
	if c.R.Chance(1, 4) {
		w.failSet = []int{401, 500, 404}[c.R.Intn(3)]
		wb.failSet = w.failSet
		stat(e, "issue_by_failing_handler", 1)
	}
	if c.R.Chance(1, 3) {
		// the upstream middleware has already set some of the names the handler is going to set
		// (same value, another value, other attributes) and possibly one more cookie of its own
		for _, si := range w.toSet {
			if c.R.Bool() {
				u := si
				u.HTTPOnly, u.Secure, u.SameSite, u.MaxAge = false, false, "", 0
				switch c.R.Intn(3) {
				case 0:
					u.Value = "up-" + uid(c.R, 4)
				case 1:
					u.Value = ""
				}
				if lossClass(u.Value) != "clean" || !strict.ValidCookieValue(u.Value) {
					u.Value = "up-" + uid(c.R, 4) // what the upstream sets is not under test: keep it a plain cookie
				}
				w.upSet = append(w.upSet, u)
			}
		}
		if c.R.Bool() {
			w.upSet = append(w.upSet, setInstr{Name: "upstream-own", Value: "up-" + uid(c.R, 4), Path: "/"})
		}
		wb.upSet = w.upSet
		if len(w.upSet) > 0 {
			stat(e, "scripts_with_upstream_cookies_of_the_same_names", 1)
		}
	}
	// the twin without the middleware only sets the excepted cookies (the others may be binary,
	// which without encryption is not a parseable response at all)
	for i, si := range w.toSet {
		if cookies[i].exc {
			wb.toSet = append(wb.toSet, si)
		}
	}

	var jar strict.Jar
	var first map[string]wireCookie
	for round := 0; round < 2; round++ {
		var m map[string]wireCookie
		var out []byte
		var bad string
		if e.Guard(c, "issue", cfg, func() { m, out, bad = wireSet(app, "/") }) {
			return
		}
		e.Eval(1)
		// the same handler (all cookies, same upstream, same outcome) without the middleware
		fullTwin := func() (map[string]wireCookie, string) {
			wf := &world{toSet: w.toSet, upSet: w.upSet, failSet: w.failSet}
			_, outT, badT := wireSet(newApp(key, except, false, wf), "/")
			mt, _ := lenientSetCookies(outT)
			return mt, badT
		}
		var twinLines map[string]wireCookie
		if bad != "" {
			mt, badT := fullTwin()
			twinLines = mt
			if unparseable(e, c, bad, badT, out, cfg) {
				return
			}
			m, _ = lenientSetCookies(out) // structure read leniently; the clauses below still apply
		}
		var mb map[string]wireCookie
		if round == 0 {
			mb, _, _ = wireSet(base, "/")
		}
		for _, ck := range cookies {
			wc, ok := m[ck.name]
			det := func() map[string]any {
				return map[string]any{"config": cfg, "name": ck.name, "value": printable(ck.p.v), "value_hex": hexs(ck.p.v),
					"value_class": ck.p.class, "set_cookie_line": printable(wc.line)}
			}
			if !ok {
				// not under its name - is its value out there in the clear under another one?
				clear := ""
				if !ck.exc && ck.p.v != "" {
					for n, o := range m {
						if !inListIssued(cookies, n) && o.sc != nil && o.sc.Value == ck.p.v {
							clear = o.line
						}
					}
				}
				if clear != "" {
					d := det()
					d["line_with_the_plaintext_value"] = printable(clear)
					e.Violation(c, "confidentiality|wire-set-cookie|plaintext-value-under-another-name", "the cookie is not in the response under its name, but a Set-Cookie line of another name carries its plaintext value", d)
					continue
				}
				e.Violation(c, "wire|set-cookie-missing", "cookie set by the handler is not in the response", det())
				continue
			}
			if ck.exc {
				// excepted: byte-identical to what the same handler produces without the middleware
				if round == 0 {
					if b, okb := mb[ck.name]; !okb || b.line != wc.line {
						e.Violation(c, "except|wire-set-cookie|altered", "Set-Cookie of an excepted name differs from the one without the middleware",
							map[string]any{"config": cfg, "name": ck.name, "with": printable(wc.line), "without": printable(b.line)})
					} else {
						stat(e, "except_wire_identical", 1)
						if len(ck.name) >= 64 {
							stat(e, "except_wire_identical_name_of_64_or_more", 1)
						}
					}
				}
				jar.Store(wc.line, t0)
				continue
			}
			// encrypted name: ciphertext only - judged on the raw response bytes, readable line or not
			val, haveVal := "", false
			if wc.sc != nil {
				val, haveVal = wc.sc.Value, true
			}
			leak := ""
			core := ck.p.core
			if len(core) >= 6 {
				switch {
				case bytes.Contains(out, []byte(core)):
					leak = "plaintext-in-response-bytes"
				case containsEncoded(out, core):
					leak = "base64-of-plaintext-in-response-bytes"
				case haveVal && decodedContains(val, core):
					leak = "plaintext-inside-base64-value"
				}
			}
			if haveVal && val == ck.p.v && ck.p.v != "" {
				leak = "value-not-encrypted"
			}
			if wc.class != "" {
				// the line is not a well-formed cookie line. Not a C20 clause by itself: only if the
				// same handler's line without the middleware IS well-formed has the middleware made it so
				if leak != "" {
					e.Violation(c, "confidentiality|wire-set-cookie|"+leak, "plaintext of an encrypted cookie is visible on the wire", det())
					continue
				}
				if twinLines == nil {
					twinLines, _ = fullTwin()
				}
				if tl, okT := twinLines[ck.name]; okT && tl.class == "" {
					e.Violation(c, "wire|middleware-made-set-cookie-unparseable|"+wc.class,
						"Set-Cookie of an encrypted cookie is not a well-formed cookie line although the same handler's line without the middleware is", det())
				} else {
					stat(e, "set_cookie_line_unparseable_like_twin", 1)
				}
				continue
			}
			if leak != "" {
				e.Violation(c, "confidentiality|wire-set-cookie|"+leak, "plaintext of an encrypted cookie is visible on the wire", det())
			} else {
				stat(e, "wire_ciphertext_only", 1)
			}
			if round == 0 {
				e.Sample("wire-set-cookie", map[string]any{"name": ck.name, "value_class": ck.p.class, "line": wc.line})
			}
			if round == 1 {
				if f, okf := first[ck.name]; okf && f.sc != nil {
					if f.sc.Value == val {
						e.Violation(c, "nonce|wire-set-cookie|identical-ciphertext-for-repeated-value", "two issues of the same value produced the same ciphertext", det())
					} else {
						stat(e, "nonce_fresh", 1)
					}
				}
			}
			jar.Store(wc.line, t0)
		}
		if round == 0 {
			first = m
		}
	}

	// optional third issue: one encrypted name again under Path=/sub with another value, so that a
	// conforming client legitimately sends two cookies of one name to /sub/read
	var dup *issued
	if dupPath {
		for i := range cookies {
			if !cookies[i].exc && cookies[i].p.class == "id" {
				d := cookies[i]
				d.path = "/sub"
				v := "w" + d.p.v
				d.p = pval{v, v, "id"}
				dup = &d
				break
			}
		}
	}
	if dup != nil {
		w.toSet = mkSet([]issued{*dup})
		m, _, bad := wireSet(app, "/sub")
		e.Eval(1)
		if wc, ok := m[dup.name]; bad == "" && ok && wc.class == "" {
			jar.Store(wc.line, t0)
		} else {
			dup = nil
		}
	}

	// replay
	for _, path := range []string{"/read", "/sub/read"} {
		if path == "/sub/read" && dup == nil {
			continue
		}
		hdr := jar.Header(path)
		w.reset()
		wb.reset()
		w.ask, wb.ask = nil, nil
		for _, ck := range cookies {
			w.ask = append(w.ask, ck.name)
		}
		wb.ask = w.ask
		okr := false
		if e.Guard(c, "replay", map[string]any{"config": cfg, "cookie_header": printable(hdr)}, func() { okr = wireRead(app, path, hdr) }) {
			return
		}
		e.Eval(1)
		wireRead(base, path, hdr)
		if !okr || w.entered != 1 {
			e.Violation(c, "replay|request-failed", "replay request did not reach the handler with 200", map[string]any{"config": cfg, "cookie_header": printable(hdr)})
			continue
		}
		if jar.Len() >= 2 {
			e.Nontrivial("script", c.ID, path)
		}
		for _, ck := range cookies {
			_, inJar := jar.Get(ck.name)
			if !inJar {
				continue
			}
			det := func() map[string]any {
				return map[string]any{"config": cfg, "name": ck.name, "original": printable(ck.p.v), "original_hex": hexs(ck.p.v), "value_class": ck.p.class,
					"cookies_view": printable(w.got[ck.name]), "visit_view": fmt.Sprint(visitOf(w.visited, ck.name)), "cookie_header": printable(hdr), "path": path}
			}
			if ck.exc {
				if w.got[ck.name] != wb.got[ck.name] || !eqStrs(visitOf(w.visited, ck.name), visitOf(wb.visited, ck.name)) {
					e.Violation(c, "except|request|altered", "excepted cookie seen differently with and without the middleware", det())
				} else {
					stat(e, "except_request_identical", 1)
					if len(ck.name) >= 64 {
						stat(e, "except_request_identical_name_of_64_or_more", 1)
					}
				}
				continue
			}
			isDup := dup != nil && path == "/sub/read" && ck.name == dup.name
			if isDup {
				// two authentic cookies of one name: every entry must be one of the two plaintexts
				allowed := map[string]bool{ck.p.v: true, dup.p.v: true}
				if !allowed[w.got[ck.name]] {
					e.Violation(c, "handler-view|Cookies|duplicate-name", "Cookies(name) is none of the issued values although both cookies are authentic", det())
				}
				for _, v := range visitOf(w.visited, ck.name) {
					if !allowed[v] {
						e.Violation(c, "handler-view|VisitAllCookie|duplicate-name:later-entry-not-rewritten",
							"with two cookies of one name the handler sees an entry that is neither empty nor an issued plaintext (raw cookie text left in place)", det())
						break
					}
				}
				stat(e, "replay_duplicate_name", 1)
				continue
			}
			lc := lossClass(ck.p.v)
			vs := visitOf(w.visited, ck.name)
			if got := w.got[ck.name]; got != ck.p.v || len(vs) != 1 || vs[0] != ck.p.v {
				e.Violation(c, roundtripSig(lc), "replayed cookie does not reach the handler with its original value", det())
				stat(e, "roundtrip_lost_"+lc, 1)
				continue
			}
			stat(e, "roundtrip_ok_"+lc, 1)
			if ck.p.class == "nested-ciphertext" {
				stat(e, "roundtrip_ok_nested_ciphertext", 1)
			}
		}
	}
}

// roundtripSig: values with ';', a space at either end or a surrounding DQUOTE pair are one
// input class (one root cause: the middleware reads the plaintext back by parsing the already
// serialized Set-Cookie text); every other value is the class "clean".
func roundtripSig(lc string) string {
	if lc == "clean" {
		return "roundtrip|handler-view|value-clean"
	}
	return "roundtrip|handler-view|value-not-representable-in-a-plain-set-cookie"
}

var encodings = []*base64.Encoding{base64.StdEncoding, base64.RawStdEncoding, base64.URLEncoding, base64.RawURLEncoding}

// containsEncoded / decodedContains look for the plaintext behind any of the stdlib base64
// alphabets. They can only ADD a confidentiality finding; no encoding is demanded of the value.
func containsEncoded(out []byte, core string) bool {
	n := len(core) / 3 * 4 // whole quanta only: independent of what follows the plaintext
	if n < 8 {
		return false
	}
	for _, enc := range []*base64.Encoding{base64.RawStdEncoding, base64.RawURLEncoding} {
		if bytes.Contains(out, []byte(enc.EncodeToString([]byte(core))[:n])) {
			return true
		}
	}
	return false
}

func decodedContains(val, core string) bool {
	for _, enc := range encodings {
		if dec, err := enc.DecodeString(val); err == nil && bytes.Contains(dec, []byte(core)) {
			return true
		}
	}
	return false
}

func visitOf(vs []kv, name string) []string {
	var out []string
	for _, x := range vs {
		if x.K == name {
			out = append(out, x.V)
		}
	}
	return out
}

func eqStrs(a, b []string) bool {
	if len(a) != len(b) {
		return false
	}
	for i := range a {
		if a[i] != b[i] {
			return false
		}
	}
	return true
}

// ---------------------------------------------------------------------------------------------
// rawline family: the handler writes a Set-Cookie line itself (a line taken over from an upstream
// service, an adapted net/http handler, ...), possibly with attributes fasthttp's own cookie
// parser does not accept. It is a cookie set by a handler behind the middleware all the same:
// the client must see ciphertext only. Only that clause is judged for lines with odd attributes
// (a conforming jar drops or refuses some of them); lines with ordinary attributes are replayed too.

var rawAttrs = []struct {
	attrs string
	odd   bool // fasthttp.Cookie.ParseBytes reports an error for it
}{
	{"", false},
	{"; Path=/", false},
	{"; Path=/; Secure; HttpOnly; SameSite=None", false},
	{"; Expires=Wed, 21 Oct 2037 07:28:00 GMT; Path=/", false},
	{"; Max-Age=3600; Path=/", false},
	{"; Foo=bar; Path=/", false},
	{"; Max-Age=-1; Path=/", true},
	{"; Max-Age=abc; Path=/", true},
	{"; Max-Age=; Path=/", true},
	{"; Path=/; Max-Age=99999999999999999999", true},
	{"; Expires=Wednesday, 21-Oct-37 07:28:00 GMT; Path=/", true},
	{"; Expires=never; Path=/", true},
	{"; Path=/; Expires=2037-10-21T07:28:00Z", true},
}

// exceptedRawLines: what a handler may hand-write for a cookie the front end reads in clear.
// "%s" is the value; the line must leave exactly as written (the twin app without the middleware
// is the reference).
var exceptedRawLines = []string{
	"%s; Path=/",
	"\"%s\"; Path=/",
	"\"%s\"",
	" %s ; Path=/",
	"%s; Path=/; Priority=High",
	"%s; Priority=High; Path=/; SameSite=Lax; Partitioned",
	"%s; PATH=/; httponly; SECURE; samesite=lax",
	"%s; path=/;Secure;HttpOnly",
	"%s; HttpOnly; Secure; Path=/; Domain=example.com; Max-Age=60",
	"%s; Max-Age=-1; Path=/",
	"%s; Expires=Wednesday, 21-Oct-37 07:28:00 GMT; Path=/",
	"%s; Expires=Wed, 21 Oct 2037 07:28:00 GMT",
	"%s; SameSite=none; Path=/a/b",
	"%s;Path=/",
	"%s; ; Path=/",
	"%s; path=/; foo; bar=baz",
}

func rawline(e *ev.Env, c *ev.Case, fixed int) {
	r := c.R
	keyRaw, key := genKey(r)
	names := pickNames(r, 3)
	except := []string{names[2]}
	w := &world{}
	wTwin := &world{}
	app := newApp(key, except, true, w)
	twin := newApp(key, except, false, wTwin)
	exLine := ""
	if fixed < 0 || fixed >= len(rawAttrs) {
		ei := r.Intn(len(exceptedRawLines))
		if fixed >= len(rawAttrs) {
			ei = fixed - len(rawAttrs)
			fixed = 1
		}
		exLine = names[2] + "=" + fmt.Sprintf(exceptedRawLines[ei], "x"+r.StringFrom(cookieSafe, r.Range(1, 12)))
	}
	ai := r.Intn(len(rawAttrs))
	if fixed >= 0 {
		ai = fixed
	}
	ra := rawAttrs[ai]
	core := uid(r, r.Range(6, 10))
	other := uid(r, 6)
	line := names[0] + "=" + core + ra.attrs
	w.rawSet = []string{line}
	w.toSet = []setInstr{{Name: names[1], Value: other, Path: "/"}}
	if exLine != "" {
		if r.Bool() {
			w.rawSet = []string{line, exLine}
		} else {
			w.rawSet = []string{exLine, line}
		}
		wTwin.rawSet = []string{exLine}
	}
	cls := "ordinary-attributes"
	if ra.odd {
		cls = "attribute-the-cookie-parser-rejects"
	}
	cfg := map[string]any{"key_len": len(keyRaw), "except": except, "raw_set_cookie_line": line, "attribute_class": cls}
	var m map[string]wireCookie
	var out []byte
	var bad string
	if e.Guard(c, "issue-rawline", cfg, func() { m, out, bad = wireSet(app, "/") }) {
		return
	}
	e.Eval(1)
	stat(e, "rawline_cases", 1)
	cfg["response"] = printable(string(out))
	if exLine != "" && bad == "" {
		// excepted name, response direction: byte-identical to the same handler without the middleware
		mt, _, badT := wireSet(twin, "/")
		if badT == "" {
			got, want := m[names[2]].line, mt[names[2]].line
			if got != want {
				e.Violation(c, "except|wire-set-cookie|altered", "Set-Cookie of an excepted name (written by the handler as a raw line) differs from the one without the middleware",
					map[string]any{"config": cfg, "name": names[2], "handler_wrote": printable(exLine), "with": printable(got), "without": printable(want)})
				return
			}
			stat(e, "rawline_excepted_line_identical", 1)
		}
	}
	leak := ""
	switch {
	case bytes.Contains(out, []byte(core)):
		leak = "plaintext-in-response-bytes"
	case containsEncoded(out, core):
		leak = "base64-of-plaintext-in-response-bytes"
	}
	if wc, ok := m[names[0]]; ok && leak == "" && wc.sc != nil && decodedContains(wc.sc.Value, core) {
		leak = "plaintext-inside-base64-value"
	}
	if leak != "" {
		e.Violation(c, "confidentiality|wire-set-cookie|raw-set-cookie-line:"+cls+"|"+leak,
			"plaintext of a cookie the handler wrote as a raw Set-Cookie line is visible on the wire", cfg)
		return
	}
	if bytes.Contains(out, []byte(other)) {
		e.Violation(c, "confidentiality|wire-set-cookie|plaintext-in-response-bytes", "plaintext of an encrypted cookie is visible on the wire next to a raw Set-Cookie line", cfg)
		return
	}
	stat(e, "rawline_ciphertext_only", 1)
	if ra.odd {
		stat(e, "rawline_odd_attribute_ciphertext_only", 1)
	}
	e.Nontrivial("rawline", c.ID)
	if ra.odd || bad != "" {
		return
	}
	// ordinary attributes: the cookie comes back with its original value
	wc, ok := m[names[0]]
	if !ok || wc.class != "" {
		return // how a raw line is re-serialised is not the statement's business
	}
	var jar strict.Jar
	jar.Store(wc.line, t0)
	if o, ok := m[names[1]]; ok {
		jar.Store(o.line, t0)
	}
	hdr := jar.Header("/")
	w.reset()
	w.ask = []string{names[0], names[1]}
	okr := false
	if e.Guard(c, "replay-rawline", cfg, func() { okr = wireRead(app, "/", hdr) }) {
		return
	}
	e.Eval(1)
	if !okr || w.entered != 1 {
		return
	}
	if _, in := jar.Get(names[0]); in {
		if w.got[names[0]] != core {
			cfg["cookies_view"] = printable(w.got[names[0]])
			e.Violation(c, "roundtrip|handler-view|raw-set-cookie-line", "cookie written as a raw Set-Cookie line does not come back with its original value", cfg)
		} else {
			stat(e, "rawline_roundtrip_ok", 1)
		}
	}
}

// ---------------------------------------------------------------------------------------------
// long family: the property quantifies over long values. Plaintexts up to 16 KiB, dense around the
// sizes where a cookie (name + encrypted value) crosses 4096 and 8192 bytes, issued and replayed
// through the direct path (no read-buffer limit) and over the wire with a raised ReadBufferSize.

func longLen(r *gen.Rand) int {
	switch r.PickW(3, 6, 4, 3, 3, 2) {
	case 0:
		return r.Range(1500, 2900)
	case 1:
		return r.Range(2950, 3150) // name + base64(nonce|value|tag) crosses 4096 here
	case 2:
		return r.Range(3150, 4200)
	case 3:
		return r.Range(6000, 6300) // ... and 8192 here
	case 4:
		return r.Range(4200, 9000)
	default:
		return r.Range(9000, 16384)
	}
}

func longValue(e *ev.Env, c *ev.Case, fixedLen int) {
	r := c.R
	names := pickNames(r, 3)
	target, nb, nx := names[0], names[1], names[2]
	except := []string{nx}
	n := longLen(r)
	if fixedLen > 0 {
		n = fixedLen
	}
	core := uid(r, 8)
	var p string
	pclass := "long-text"
	if r.Chance(1, 3) {
		pclass = "long-binary"
		for {
			p = core + string(r.Bytes(n-len(core)))
			if lossClass(p) == "clean" {
				break
			}
			p = strings.NewReplacer(";", ":", "\r", "r", "\n", "n").Replace(p)
			if lossClass(p) == "clean" {
				break
			}
		}
	} else {
		p = core + r.StringFrom(cookieSafe, n-len(core))
	}
	pb, xraw := uid(r, 6), genExceptValue(r)
	viaWire := r.Chance(1, 3)
	keyRaw, key := genKey(r)
	w := &world{}
	app := newAppCfg(fiber.Config{ReadBufferSize: 128 * 1024}, key, except, true, w)
	cfg := map[string]any{"key_len": len(keyRaw), "except": except, "target": target, "plaintext_len": len(p), "plaintext_class": pclass,
		"plaintext_head": printable(p[:24]), "via_wire": viaWire}
	w.toSet = []setInstr{{Name: target, Value: p, Path: "/"}, {Name: nb, Value: pb, Path: "/"}, {Name: nx, Value: xraw, Path: "/"}}
	ask := []string{target, nb, nx}
	iss := map[string]string{}
	g := &rig{except: except, w: w, keyRaw: keyRaw, key: key}
	if viaWire {
		var m map[string]wireCookie
		var out []byte
		var bad string
		if e.Guard(c, "issue-long", cfg, func() { m, out, bad = wireSet(app, "/") }) {
			return
		}
		if bad != "" {
			wf := &world{toSet: w.toSet}
			_, _, badT := wireSet(newAppCfg(fiber.Config{ReadBufferSize: 128 * 1024}, key, except, false, wf), "/")
			if !unparseable(e, c, bad, badT, out, cfg) && bytes.Contains(out, []byte(core)) {
				e.Violation(c, "confidentiality|wire-set-cookie|plaintext-in-response-bytes", "plaintext of an encrypted cookie is visible on the wire", cfg)
			}
			return
		}
		if bytes.Contains(out, []byte(core)) {
			e.Violation(c, "confidentiality|wire-set-cookie|plaintext-in-response-bytes", "plaintext of an encrypted cookie is visible on the wire", cfg)
			return
		}
		for k, wc := range m {
			if wc.sc != nil {
				iss[k] = wc.sc.Value
			}
		}
	} else {
		g.d = drive.NewDirect(app)
		if e.Guard(c, "issue-long", cfg, func() { iss = g.issue(w.toSet) }) {
			return
		}
	}
	e.Eval(1)
	ct, okT := iss[target]
	cb, okB := iss[nb]
	if !okT || !okB {
		e.Violation(c, "wire|set-cookie-missing", "cookie set by the handler is not in the response as a well-formed cookie line", cfg)
		return
	}
	if strings.Contains(ct, core) || decodedContains(ct, core) {
		e.Violation(c, "confidentiality|wire-set-cookie|value-not-encrypted", "plaintext of an encrypted cookie is visible in its Set-Cookie value", cfg)
		return
	}
	cfg["cookie_len"] = len(target) + len(ct)
	hdr := nb + "=" + cb + "; " + target + "=" + ct + "; " + nx + "=" + xraw
	if r.Bool() {
		hdr = target + "=" + ct + "; " + nx + "=" + xraw + "; " + nb + "=" + cb
	}
	w.reset()
	w.ask = ask
	if viaWire {
		okr := false
		if e.Guard(c, "replay-long", cfg, func() { okr = wireRead(app, "/read", hdr) }) {
			return
		}
		if !okr {
			e.Violation(c, "replay|request-failed", "replay request did not reach the handler with 200", cfg)
			return
		}
	} else if e.Guard(c, "replay-long", cfg, func() { g.read(hdr, ask) }) {
		return
	}
	e.Eval(1)
	stat(e, "long_cases", 1)
	if len(target)+len(ct) > 4096 {
		stat(e, "long_cookie_over_4096", 1)
	}
	if len(target)+len(ct) > 8192 {
		stat(e, "long_cookie_over_8192", 1)
	}
	e.Nontrivial("long", c.ID)
	if w.entered != 1 {
		e.Violation(c, "replay|request-failed", "replay request did not reach the handler", cfg)
		return
	}
	vs := visitOf(w.visited, target)
	if got := w.got[target]; got != p || len(vs) != 1 || vs[0] != p {
		cfg["cookies_view_len"] = len(got)
		e.Violation(c, "roundtrip|handler-view|value-clean-long", "replayed long cookie value does not reach the handler with its original value", cfg)
		return
	}
	if w.got[nb] != pb || w.got[nx] != xraw {
		e.Violation(c, "neighbour|cookie-lost-next-to-long-value", "a neighbouring cookie did not reach the handler next to a long one", cfg)
		return
	}
	stat(e, "long_roundtrip_ok", 1)
}

// ---------------------------------------------------------------------------------------------
// samename family: a response may carry several cookies of ONE name (different Path / Domain). The
// handler writes them through the header API (c.Set / Response().Header.Add append Set-Cookie
// entries; c.Cookie would replace by name) next to ordinary cookies. Each of them is a cookie set
// by a handler behind the middleware: ciphertext only on the wire, and sent back with its path it
// reaches the handler with its own value. For an excepted name the lines leave as written.

func wireSetAll(app *fiber.App, path string) ([]wireCookie, []byte, string) {
	w := drive.NewWire(app)
	out, _ := w.Serve([]byte("POST "+path+" HTTP/1.1\r\nHost: h.example\r\nContent-Length: 0\r\n\r\n"), nil)
	rs, perr := strict.ParseAll(out, nil)
	if perr != nil || len(rs) != 1 {
		cls := "count"
		if perr != nil {
			cls = perr.Class
		}
		return nil, out, cls
	}
	var all []wireCookie
	for _, line := range rs[0].All("Set-Cookie") {
		sc, bad := strict.ParseSetCookie(line)
		all = append(all, wireCookie{line: line, sc: sc, class: bad})
	}
	return all, out, ""
}

func sameName(e *ev.Env, c *ev.Case, fixedK int, fixedExcepted bool) {
	r := c.R
	keyRaw, key := genKey(r)
	names := pickNames(r, 3)
	dupName, ordName, exName := names[0], names[1], names[2]
	excepted := r.Chance(1, 4)
	if fixedK > 0 {
		excepted = fixedExcepted
	}
	if excepted {
		dupName = exName
	}
	k := r.Range(2, 4)
	if fixedK > 0 {
		k = fixedK
	}
	w, wTwin := &world{}, &world{}
	w.rawAdd = r.Bool()
	wTwin.rawAdd = w.rawAdd
	app := newApp(key, []string{exName}, true, w)
	twin := newApp(key, []string{exName}, false, wTwin)
	paths := []string{"/x", "/y", "/z/w", "/q"}
	gen.Shuffle(r, paths)
	var vals, lines []string
	for i := 0; i < k; i++ {
		v := uid(r, r.Range(6, 9))
		vals = append(vals, v)
		l := dupName + "=" + v + "; Path=" + paths[i]
		switch r.Intn(4) {
		case 0:
			l += "; Domain=h.example"
		case 1:
			l += "; HttpOnly"
		case 2:
			l = dupName + "=" + v + "; Domain=" + []string{"a", "b", "c", "d"}[i] + ".h.example; Path=" + paths[i]
		}
		lines = append(lines, l)
	}
	ordVal := uid(r, 6)
	w.rawSet, wTwin.rawSet = lines, lines
	w.toSet = []setInstr{{Name: ordName, Value: ordVal, Path: "/"}}
	api := "c.Set"
	if w.rawAdd {
		api = "Response().Header.Add"
	}
	cfg := map[string]any{"key_len": len(keyRaw), "except": []string{exName}, "written_with": api, "raw_set_cookie_lines": lines,
		"name_is_excepted": excepted}
	var all []wireCookie
	var out []byte
	var bad string
	if e.Guard(c, "issue-samename", cfg, func() { all, out, bad = wireSetAll(app, "/") }) {
		return
	}
	e.Eval(1)
	stat(e, "samename_cases", 1)
	if bad != "" {
		wTwin.toSet = w.toSet
		_, _, badT := wireSetAll(twin, "/")
		if !unparseable(e, c, bad, badT, out, cfg) {
			for _, v := range append(append([]string(nil), vals...), ordVal) {
				if bytes.Contains(out, []byte(v)) {
					e.Violation(c, "confidentiality|wire-set-cookie|several-set-cookie-lines-of-one-name", "with several Set-Cookie entries of one name the plaintext of one of them is visible on the wire", cfg)
					break
				}
			}
		}
		return
	}
	var wl []string
	for _, wc := range all {
		wl = append(wl, wc.line)
	}
	cfg["wire_set_cookie_lines"] = wl
	e.Nontrivial("samename", c.ID)
	if excepted {
		tw, _, badT := wireSetAll(twin, "/")
		if badT != "" {
			return
		}
		var got, want []string
		for _, wc := range all {
			if strings.HasPrefix(wc.line, dupName+"=") {
				got = append(got, wc.line)
			}
		}
		for _, wc := range tw {
			if strings.HasPrefix(wc.line, dupName+"=") {
				want = append(want, wc.line)
			}
		}
		if !eqStrs(got, want) {
			cfg["without_middleware"] = want
			e.Violation(c, "except|wire-set-cookie|altered", "several Set-Cookie lines of one excepted name differ from the ones without the middleware", cfg)
			return
		}
		stat(e, "samename_excepted_lines_identical", 1)
		return
	}
	// ciphertext only
	for i, v := range append(append([]string(nil), vals...), ordVal) {
		if bytes.Contains(out, []byte(v)) || containsEncoded(out, v) {
			cfg["plaintext_visible"] = v
			cfg["entry_index"] = i
			e.Violation(c, "confidentiality|wire-set-cookie|several-set-cookie-lines-of-one-name", "with several Set-Cookie entries of one name the plaintext of one of them is visible on the wire", cfg)
			return
		}
	}
	stat(e, "samename_ciphertext_only", 1)
	// every entry, sent back with its path, reaches the handler with its own value
	byPath := map[string]*strict.SetCookie{}
	n := 0
	for _, wc := range all {
		if wc.sc != nil && wc.sc.Name == dupName {
			byPath[wc.sc.Path] = wc.sc
			n++
		}
	}
	if n != k {
		cfg["entries_on_the_wire"] = n
		e.Violation(c, "wire|set-cookie-missing|several-set-cookie-lines-of-one-name", "not every Set-Cookie entry of the name reached the client as a well-formed cookie line", cfg)
		return
	}
	for i := 0; i < k; i++ {
		sc := byPath[paths[i]]
		if sc == nil {
			e.Violation(c, "wire|set-cookie-missing|several-set-cookie-lines-of-one-name", "a Set-Cookie entry lost its Path", cfg)
			return
		}
		w.reset()
		w.ask = []string{dupName}
		okr := false
		hdr := dupName + "=" + sc.Value
		if e.Guard(c, "replay-samename", cfg, func() { okr = wireRead(app, paths[i]+"/r", hdr) }) {
			return
		}
		e.Eval(1)
		if !okr || w.entered != 1 {
			e.Violation(c, "replay|request-failed", "replay request did not reach the handler with 200", cfg)
			return
		}
		if w.got[dupName] != vals[i] {
			cfg["entry_index"], cfg["set_value"], cfg["cookies_view"] = i, vals[i], printable(w.got[dupName])
			e.Violation(c, "roundtrip|handler-view|several-set-cookie-lines-of-one-name", "one of several cookies of one name, sent back with its path, does not reach the handler with its own value", cfg)
			return
		}
	}
	stat(e, "samename_roundtrip_ok", 1)
}

// ---------------------------------------------------------------------------------------------
// direct-drive helpers

type rig struct {
	keyRaw []byte
	key    string
	except []string
	w      *world
	d      *drive.Direct
	fctx   fasthttp.RequestCtx
}

func newRig(r *gen.Rand, except []string) *rig {
	k, _ := genKey(r)
	return newRigKey(k, except)
}

func newRigKey(keyRaw []byte, except []string) *rig {
	g := &rig{except: except, w: &world{}, keyRaw: keyRaw, key: base64.StdEncoding.EncodeToString(keyRaw)}
	g.d = drive.NewDirect(newApp(g.key, except, true, g.w))
	return g
}

// issue lets the real middleware encrypt values and returns the ciphertexts by name.
func (g *rig) issue(cs []setInstr) map[string]string {
	g.w.toSet = cs
	g.fctx.Response.Reset() // what fasthttp's serve loop does between requests on one RequestCtx
	resp := g.d.DoCtx(&g.fctx, &drive.Req{Method: "POST", URI: "/"})
	out := map[string]string{}
	for _, line := range resp.All("Set-Cookie") {
		if sc, bad := strict.ParseSetCookie(line); bad == "" {
			out[sc.Name] = sc.Value
		}
	}
	return out
}

func (g *rig) read(cookieHdr string, ask []string) int {
	g.w.reset()
	g.w.ask = ask
	g.fctx.Response.Reset()
	resp := g.d.DoCtx(&g.fctx, &drive.Req{Method: "GET", URI: "/read", Hdr: []drive.H{{K: "Cookie", V: cookieHdr}}})
	return resp.Status
}

func gotClass(got, sent string) string {
	if got == sent || got == cookieNorm(sent) {
		return "raw-value-kept"
	}
	return "other-text"
}

// ---------------------------------------------------------------------------------------------
// tamper family

const (
	b64alpha   = "ABCDEFGHIJKLMNOPQRSTUVWXYZabcdefghijklmnopqrstuvwxyz0123456789+/"
	urlalpha   = "ABCDEFGHIJKLMNOPQRSTUVWXYZabcdefghijklmnopqrstuvwxyz0123456789-_"
	unionAlpha = "ABCDEFGHIJKLMNOPQRSTUVWXYZabcdefghijklmnopqrstuvwxyz0123456789+/-_="
	nonAlpha   = ".~!*$%,: \x00\n\x7f\x80\xff"
)

// swapAlpha returns the character that plays the same role in the other base64 alphabet
// ('+'<->'-', '/'<->'_'), padding for anything else.
func swapAlpha(b byte, r *gen.Rand) byte {
	k := r.Intn(20) // always one draw: the PRNG stream must not depend on the (random) ciphertext text
	switch b {
	case '+':
		return '-'
	case '-':
		return '+'
	case '/':
		return '_'
	case '_':
		return '/'
	case '=':
		return "-_+/"[k%4]
	}
	return "=-_+/"[k%5]
}

func dupBefore(bs []byte, b byte) bool {
	for _, x := range bs {
		if x == b {
			return true
		}
	}
	return false
}

type tcase struct {
	class string
	v     string
}

func tamperBase(e *ev.Env, c *ev.Case, thorough bool) {
	r := c.R
	names := pickNames(r, 3)
	target, nb, nx := names[0], names[1], names[2]
	except := []string{nx}
	if r.Bool() {
		// an excepted name that is a prefix of (or prefixed by) the target must not matter
		except = append(except, target+"x", target[:len(target)-1]+"")
	}
	// remove accidental exact matches of the target / neighbour
	var ex2 []string
	for _, x := range except {
		if x != target && x != nb && x != "" {
			ex2 = append(ex2, x)
		}
	}
	except = padExcept(r, ex2)
	g := newRig(r, except)

	var p string
	pclass := ""
	switch r.PickW(4, 1, 3, 2) {
	case 0:
		p, pclass = uid(r, r.Range(2, 11)), "id"
	case 1:
		p, pclass = "", "empty"
	case 2:
		for {
			p = string(r.Bytes(r.Range(1, 24)))
			if lossClass(p) == "clean" {
				break
			}
		}
		pclass = "binary"
	case 3:
		p, pclass = uid(r, 3)+gen.Pick(r, []string{",", "=", " ", `"`, "=="})+uid(r, 2), "punct"
	}
	pb := uid(r, 6)
	xraw := genExceptValue(r)
	cfg := map[string]any{"key_len": len(g.keyRaw), "except": except, "target": target, "plaintext": printable(p), "plaintext_hex": hexs(p), "plaintext_class": pclass}

	var iss map[string]string
	if e.Guard(c, "issue", cfg, func() {
		iss = g.issue([]setInstr{{Name: target, Value: p, Path: "/"}, {Name: nb, Value: pb, Path: "/"}, {Name: nx, Value: xraw, Path: "/"}})
	}) {
		return
	}
	ct, okT := iss[target]
	cb, okB := iss[nb]
	if !okT || !okB {
		e.Violation(c, "wire|set-cookie-missing", "cookie set by the handler is not in the response as a well-formed cookie line", cfg)
		return
	}
	if iss[nx] != xraw {
		e.Violation(c, "except|wire-set-cookie|altered", "excepted cookie altered on the way out", cfg)
		return
	}
	// statement clause: the client sees ciphertext only (raw strings, no encoding assumed)
	if (len(p) >= 6 && strings.Contains(ct, p)) || (ct == p) {
		e.Violation(c, "confidentiality|wire-set-cookie|value-not-encrypted", "plaintext of an encrypted cookie is visible in its Set-Cookie value", cfg)
		return
	}
	// Observation only: does the issued value happen to be std base64 of nonce|ct|tag opening to p?
	// It selects the tamper oracle, it is never a verdict.
	recognised := false
	var ctRaw []byte
	if got, ok := open(g.keyRaw, ct); ok && got == p {
		recognised = true
		ctRaw, _ = base64.StdEncoding.DecodeString(ct)
		stat(e, "format_recognised", 1)
	} else {
		stat(e, "format_unrecognised", 1)
		ctRaw = r.Bytes(28 + len(p)) // only feeds the garbage generators below
	}
	cfg["format_recognised"] = recognised
	// may the ORIGINAL value legitimately come out for this altered text?
	//  recognised format : only if the text base64-decodes to the very same ciphertext bytes
	//  unknown format    : the statement's own rule - the handler sees "" or the issued value,
	//                      never any other text (the harness cannot tell which texts decode alike)
	mayBeOriginal := func(v string) bool { return !recognised || decodesTo(v, ctRaw) }

	// cookie arrangement, fixed per base
	arr := r.Intn(4)
	header := func(v string) string {
		switch arr {
		case 0:
			return target + "=" + v
		case 1:
			return nx + "=" + xraw + "; " + target + "=" + v + "; " + nb + "=" + cb
		case 2:
			return target + "=" + v + "; " + nb + "=" + cb + "; " + nx + "=" + xraw
		default:
			return nb + "=" + cb + "; " + nx + "=" + xraw + "; " + target + "=" + v
		}
	}
	ask := []string{target, nb, nx}

	// sanity: the untouched ciphertext must come back as the plaintext (replay clause)
	g.read(header(ct), ask)
	e.Eval(1)
	if g.w.got[target] != p {
		e.Violation(c, roundtripSig(lossClass(p)), "replayed cookie does not reach the handler with its original value", cfg)
		return
	}

	var cases []tcase
	add := func(class, v string) { cases = append(cases, tcase{class, v}) }
	// substitutions
	for i := 0; i < len(ct); i++ {
		if thorough {
			for b := 0; b < 256; b++ {
				if byte(b) != ct[i] {
					add("substitution", ct[:i]+string([]byte{byte(b)})+ct[i+1:])
				}
			}
			continue
		}
		// exactly four other values per position, drawn without assuming the value's alphabet and
		// independent of the (randomly nonced) text, so that the case list is a function of the seed
		var vs [4]byte
		if j := strings.IndexByte(b64alpha, ct[i]); j >= 0 {
			vs[0] = b64alpha[j^1] // adjacent sextet of the std alphabet: lowest bit only
		} else if j := strings.IndexByte(urlalpha, ct[i]); j >= 0 {
			vs[0] = urlalpha[j^1] // same for the URL-safe alphabet
		} else {
			vs[0] = 'A'
		}
		vs[1] = unionAlpha[r.Intn(len(unionAlpha))] // std + URL-safe alphabets + '='
		vs[2] = swapAlpha(ct[i], r)                 // the twin character of the other alphabet / padding
		vs[3] = nonAlpha[r.Intn(len(nonAlpha))]     // bytes of no base64 alphabet
		if r.Bool() {
			vs[3] = r.Byte()
		}
		for k := range vs {
			// keep four distinct values different from the original, deterministically
			for tries := 0; vs[k] == ct[i] || dupBefore(vs[:k], vs[k]); tries++ {
				vs[k] = unionAlpha[(strings.IndexByte(unionAlpha, vs[k])+1+tries+len(unionAlpha))%len(unionAlpha)]
			}
			add("substitution", ct[:i]+string([]byte{vs[k]})+ct[i+1:])
		}
	}
	// truncations (every proper prefix, some suffixes)
	for i := 0; i < len(ct); i++ {
		add("truncation", ct[:i])
	}
	for i := 1; i <= 4 && i < len(ct); i++ {
		add("truncation", ct[i:])
	}
	// extensions
	for _, s := range []string{"A", "=", "AA", "==", "A=", "AAA", "A==", "AAAA", "QUFB", "\n", "\r\n", "%3D", ".", "-", "_", "-_", "_w", "__-A"} {
		add("extension", ct+s)
	}
	// one inserted character at every position
	for i := 0; i <= len(ct); i++ {
		add("extension", ct[:i]+string(unionAlpha[r.Intn(len(unionAlpha))])+ct[i:])
	}
	for _, s := range []string{"A", "AAAA", "=", "\n"} {
		add("extension", s+ct)
	}
	noPad := strings.TrimRight(ct, "=")
	if noPad != ct {
		add("extension", noPad+"A"+ct[len(noPad)+1:])
		add("extension", noPad+"AAAA"+ct[len(noPad):])
	}
	// other keys, every size; the same nonce and a fresh one
	for _, n := range []int{16, 24, 32} {
		ok := r.Bytes(n)
		add("other-key", seal(ok, ctRaw[:12], []byte(p)))
		add("other-key", seal(ok, r.Bytes(12), []byte(p)))
		add("other-key", seal(ok, r.Bytes(12), []byte("admin")))
	}
	// ... and, whatever the issuer's format is, the same value issued by the real middleware under
	// other keys of every size
	for _, n := range []int{16, 24, 32} {
		og := newRigKey(r.Bytes(n), except)
		var oiss map[string]string
		if !e.Guard(c, "issue", cfg, func() { oiss = og.issue([]setInstr{{Name: target, Value: p, Path: "/"}}) }) {
			if v, ok := oiss[target]; ok {
				add("other-key", v)
				stat(e, "tamper_other_key_issued_by_middleware", 1)
			}
		}
	}
	flip := append([]byte(nil), g.keyRaw...)
	flip[r.Intn(len(flip))] ^= 1 << uint(r.Intn(8))
	add("other-key", seal(flip, ctRaw[:12], []byte(p)))
	add("other-key", seal(flip, r.Bytes(12), []byte(p)))
	// garbage
	if lossClass(p) == "clean" && strict.ValidCookieValue(p) && p != "" {
		add("garbage-plaintext-guess", p)
	}
	add("garbage-plaintext-guess", "admin")
	add("garbage-plaintext-guess", base64.StdEncoding.EncodeToString([]byte(p)))
	for _, n := range []int{0, 1, 5, 11, 12, 13, 27, 28, 29, 40, len(ctRaw)} {
		add("garbage-base64", base64.StdEncoding.EncodeToString(r.Bytes(n)))
	}
	add("garbage-base64", base64.StdEncoding.EncodeToString(append(append([]byte(nil), ctRaw[:12]...), r.Bytes(len(ctRaw)-12)...)))
	add("garbage-base64", base64.RawStdEncoding.EncodeToString(ctRaw[:len(ctRaw)-1]))
	add("garbage-text", r.StringFrom(cookieSafe, r.Range(1, 60)))
	add("garbage-text", base64.URLEncoding.EncodeToString(r.Bytes(33)))
	add("garbage-text", hex.EncodeToString(ctRaw))

	for _, tc := range cases {
		if tc.v == ct {
			continue
		}
		g.read(header(tc.v), ask)
		e.Eval(1)
		stat(e, "tamper_cases", 1)
		stat(e, "tamper_"+tc.class, 1)
		// only alterations OF the issued text can "decode to the very same ciphertext"; a value
		// sealed under another key or plain garbage has no original to fall back to
		derived := tc.class == "substitution" || tc.class == "truncation" || tc.class == "extension"
		same := mayBeOriginal(tc.v) && (derived || recognised)
		if !recognised {
			stat(e, "tamper_agnostic", 1)
		}
		det := func() map[string]any {
			return map[string]any{"config": cfg, "issued": ct, "sent": printable(tc.v), "sent_hex": hexs(tc.v), "mutation": tc.class,
				"format_recognised": recognised, "original_value_acceptable": same, "cookies_view": printable(g.w.got[target]), "visit_view": fmt.Sprint(visitOf(g.w.visited, target)),
				"cookie_header": printable(header(tc.v))}
		}
		if g.w.entered != 1 {
			e.Violation(c, "tamper|"+tc.class+"|handler-not-reached", "request with a forged cookie did not reach the handler", det())
			continue
		}
		got := g.w.got[target]
		switch {
		case got == "":
			if same && recognised {
				stat(e, "tamper_same_bytes_rejected", 1)
			} else {
				stat(e, "tamper_rejected", 1)
			}
		case got == p && same:
			if recognised {
				stat(e, "tamper_same_bytes_accepted", 1)
			} else {
				stat(e, "tamper_agnostic_original_seen", 1)
			}
		default:
			e.Violation(c, "tamper|Cookies|"+tc.class+"|"+gotClass(got, tc.v), "a cookie value not issued under the current key reached the handler as text", det())
		}
		simple := !strings.ContainsAny(tc.v, ";")
		if simple {
			vs := visitOf(g.w.visited, target)
			for _, v := range vs {
				if v == "" || (v == p && same) {
					continue
				}
				if v != got { // otherwise already reported through the Cookies view
					e.Violation(c, "tamper|VisitAllCookie|"+tc.class+"|"+gotClass(v, tc.v), "a cookie value not issued under the current key is visible when the handler iterates the cookies", det())
				}
				break
			}
		}
		if arr != 0 {
			// neighbours are untouched by the forgery next to them
			if g.w.got[nb] != pb || !eqStrs(visitOf(g.w.visited, nb), []string{pb}) {
				if simple {
					e.Violation(c, "neighbour|authentic-cookie-lost-next-to-forged|"+tc.class, "an authentic cookie of another name did not reach the handler next to a forged one", det())
				}
			}
			if simple && (g.w.got[nx] != xraw || !eqStrs(visitOf(g.w.visited, nx), []string{xraw})) {
				e.Violation(c, "except|request|altered", "excepted cookie altered next to a forged one", det())
			}
		}
	}
	e.Nontrivial("tamper", c.ID)
}

// ---------------------------------------------------------------------------------------------
// multi family: several cookies per request, duplicates of one name, mixed excepted/encrypted

type sent struct {
	name   string
	v      string
	kind   string // authentic | forged | excepted
	expect string // plaintext for authentic, "" for forged, raw for excepted
	// alt: for a forgery made by altering an issued value whose format the harness does not
	// recognise, the issued plaintext is acceptable too (statement: "" or the original value,
	// never any other text) - the harness cannot tell which alterations decode alike.
	alt    string
	hasAlt bool
}

func (s sent) ok(v string) bool { return v == s.expect || (s.hasAlt && v == s.alt) }

func mkSent(name, v, kind, expect string) sent {
	return sent{name: name, v: v, kind: kind, expect: expect}
}

func multi(e *ev.Env, c *ev.Case, fixed []string) {
	r := c.R
	names := pickNames(r, 4)
	except := []string{names[3]}
	if r.Chance(1, 3) {
		except = append(except, names[0]+"_")
	}
	except = padExcept(r, except)
	g := newRig(r, except)
	// two authentic ciphertexts per encrypted name (two separate issues)
	plain := map[string][2]string{}
	ctx := map[string][2]string{}
	for round := 0; round < 2; round++ {
		var cs []setInstr
		for _, n := range names[:3] {
			pv := plain[n]
			pv[round] = uid(r, 5)
			plain[n] = pv
			cs = append(cs, setInstr{Name: n, Value: pv[round], Path: "/"})
		}
		var iss map[string]string
		if e.Guard(c, "issue", map[string]any{"key_len": len(g.keyRaw)}, func() { iss = g.issue(cs) }) {
			return
		}
		for _, n := range names[:3] {
			if len(iss[n]) < 8 {
				// nothing usable was issued; the script family judges missing / malformed Set-Cookie lines
				stat(e, "multi_skipped_nothing_issued", 1)
				return
			}
			cv := ctx[n]
			cv[round] = iss[n]
			ctx[n] = cv
		}
	}
	// observation only (see open): selects how forgeries derived from an issued value are judged
	recognised := true
	for _, n := range names[:3] {
		if got, ok := open(g.keyRaw, ctx[n][0]); !ok || got != plain[n][0] {
			recognised = false
		}
	}
	if recognised {
		stat(e, "format_recognised", 1)
	} else {
		stat(e, "format_unrecognised", 1)
	}
	forge := func(n string) sent {
		ct := ctx[n][0]
		derived := func(v string) sent {
			f := mkSent(n, v, "forged", "")
			if !recognised {
				f.alt, f.hasAlt = plain[n][0], true
			}
			return f
		}
		switch r.Intn(5) {
		case 0:
			return mkSent(n, r.StringFrom(cookieSafe, r.Range(1, 30)), "forged", "")
		case 1:
			// never the last characters: in std base64 their padding bits may decode to the same bytes
			i := r.Intn(len(ct) - 4)
			k := r.Intn(62)
			if j := strings.IndexByte(b64alpha, ct[i]); j >= 0 {
				return derived(ct[:i] + string(b64alpha[(j+1+k)%64]) + ct[i+1:])
			}
			return derived(ct[:i] + string(b64alpha[k]) + ct[i+1:])
		case 2:
			return derived(ct[:r.Intn(len(ct))])
		case 3:
			return mkSent(n, seal(r.Bytes(len(g.keyRaw)), r.Bytes(12), []byte("admin")), "forged", "")
		default:
			return mkSent(n, "admin", "forged", "")
		}
	}
	var list []sent
	if fixed != nil {
		// corpus: kinds for cookies of ONE name, in order
		n := names[0]
		idx := 0
		for _, k := range fixed {
			switch k {
			case "authentic":
				list = append(list, mkSent(n, ctx[n][idx%2], "authentic", plain[n][idx%2]))
				idx++
			case "forged":
				list = append(list, mkSent(n, "admin", "forged", ""))
			case "forged2":
				list = append(list, mkSent(n, "guest", "forged", ""))
			}
		}
	} else {
		cnt := r.Range(2, 6)
		for i := 0; i < cnt; i++ {
			n := names[r.PickW(5, 2, 1, 2)]
			switch {
			case n == names[3]:
				v := genExceptValue(r)
				list = append(list, mkSent(n, v, "excepted", v))
			case r.Chance(1, 5):
				// authentic ciphertext (sealed under the current key, as the exported EncryptCookie
				// would) of a plaintext that cookie parsing would mangle if it were ever re-parsed
				pv := gen.Pick(r, []string{" padded ", "a;b", "x; admin=1", "\"quoted\"", " lead", "trail ", "k=v; Path=/"})
				// The issuer is the package's own exported EncryptCookie (the default Encryptor), so the
				// value is authentic in whatever encoding the tree under test uses.
				nonce := r.Bytes(12) // drawn unconditionally: PRNG stream independent of the branch
				av, err := mw.EncryptCookie(pv, g.key)
				switch {
				case err == nil:
				case recognised:
					av = seal(g.keyRaw, nonce, []byte(pv))
				default:
					k := r.Intn(2)
					av, pv = ctx[n][k], plain[n][k]
				}
				list = append(list, mkSent(n, av, "authentic", pv))
				stat(e, "multi_authentic_fragile_plaintext", 1)
			case r.Chance(3, 5):
				k := r.Intn(2)
				list = append(list, mkSent(n, ctx[n][k], "authentic", plain[n][k]))
			default:
				list = append(list, forge(n))
			}
		}
	}
	var parts, shape []string
	count := map[string]int{}
	for _, s := range list {
		parts = append(parts, s.name+"="+s.v)
		count[s.name]++
	}
	for _, s := range list {
		sh := s.kind
		if count[s.name] > 1 {
			sh += "(dup)"
		}
		shape = append(shape, sh)
	}
	hdr := strings.Join(parts, "; ")
	cfg := map[string]any{"key_len": len(g.keyRaw), "except": except, "cookie_header": hdr, "shape": shape}
	var ask []string
	for n := range count {
		ask = append(ask, n)
	}
	// deterministic order
	for i := range ask {
		for j := i + 1; j < len(ask); j++ {
			if ask[j] < ask[i] {
				ask[i], ask[j] = ask[j], ask[i]
			}
		}
	}
	g.w.bind = true
	if e.Guard(c, "multi", cfg, func() { g.read(hdr, ask) }) {
		return
	}
	e.Eval(1)
	stat(e, "multi_requests", 1)
	if g.w.entered != 1 {
		e.Violation(c, "multi|handler-not-reached", "request did not reach the handler", cfg)
		return
	}
	e.Nontrivial("multi", strings.Join(shape, ","), c.ID)
	for _, n := range ask {
		var mine []sent
		for _, s := range list {
			if s.name == n {
				mine = append(mine, s)
			}
		}
		vs := visitOf(g.w.visited, n)
		det := func() map[string]any {
			var sh []string
			for _, s := range mine {
				sh = append(sh, s.kind)
			}
			bv := "(binder failed)"
			if g.w.bound != nil {
				bv = printable(g.w.bound[n])
			}
			return map[string]any{"config": cfg, "name": n, "entries_of_name": sh, "cookies_view": printable(g.w.got[n]), "visit_view": vs,
				"bind_cookie_map_view": bv}
		}
		if len(mine) == 1 {
			s := mine[0]
			sigc := "handler-view|" + s.kind + "-single"
			if !s.ok(g.w.got[n]) || len(vs) != 1 || !s.ok(vs[0]) {
				switch s.kind {
				case "excepted":
					e.Violation(c, "except|request|altered", "excepted cookie altered on the way in", det())
				case "forged":
					e.Violation(c, "tamper|Cookies|multi|"+gotClass(g.w.got[n], s.v), "forged cookie reached the handler as text", det())
				default:
					e.Violation(c, sigc+"|authentic-cookie-lost", "authentic cookie did not reach the handler with its original value", det())
				}
			} else {
				stat(e, "multi_single_ok", 1)
			}
			continue
		}
		// duplicates of one name
		stat(e, "multi_duplicate_names", 1)
		if mine[0].kind == "excepted" {
			var want []string
			for _, s := range mine {
				want = append(want, s.expect)
			}
			if !eqStrs(vs, want) || g.w.got[n] != want[0] {
				e.Violation(c, "except|request|altered", "duplicate excepted cookies altered on the way in", det())
			}
			continue
		}
		allowed := map[string]bool{}
		anyForged := false
		for _, s := range mine {
			if s.kind == "authentic" {
				allowed[s.expect] = true
			} else {
				anyForged = true
				if s.hasAlt {
					allowed[s.alt] = true
				}
			}
		}
		if anyForged {
			allowed[""] = true
		}
		if !allowed[g.w.got[n]] {
			e.Violation(c, "handler-view|Cookies|duplicate-name", "Cookies(name) is neither an issued plaintext of that name nor empty", det())
		}
		for _, v := range vs {
			if !allowed[v] {
				e.Violation(c, "handler-view|VisitAllCookie|duplicate-name:later-entry-not-rewritten",
					"with several cookies of one name the handler sees an entry that is neither empty nor an issued plaintext (raw cookie text left in place)", det())
				stat(e, "dup_raw_entry_visible", 1)
				if bv, ok := g.w.bound[n]; ok && !allowed[bv] {
					stat(e, "dup_raw_entry_reaches_cookie_binding", 1)
				}
				break
			}
		}
	}
}

// ---------------------------------------------------------------------------------------------

func run(e *ev.Env) {
	// ---- fixed corpus ---------------------------------------------------------------------------
	e.Corpus("dup-authentic-then-forged", func(c *ev.Case) { multi(e, c, []string{"authentic", "forged"}) })
	e.Corpus("dup-forged-then-authentic", func(c *ev.Case) { multi(e, c, []string{"forged", "authentic"}) })
	e.Corpus("dup-forged-forged", func(c *ev.Case) { multi(e, c, []string{"forged2", "forged"}) })
	e.Corpus("dup-authentic-authentic", func(c *ev.Case) { multi(e, c, []string{"authentic", "authentic"}) })
	e.Corpus("value-classes", func(c *ev.Case) {
		k, ks := genKey(c.R)
		mk := func(n, v, core, class string) issued { return issued{name: n, p: pval{v, core, class}, path: "/"} }
		script(e, c, k, ks, []string{"sess"}, []issued{
			mk("session", "vplain0001", "vplain0001", "id"),
			{name: "sess", p: pval{"xclear-0001", "xclear-0001", "id"}, exc: true, path: "/"},
			mk("a", "", "", "empty"),
			mk("ab", "vbin\x00\x01\r\n\xff\xfe0001", "vbin\x00\x01\r\n\xff\xfe0001", "binary"),
			mk("abc", `vpunct01,a"b=c d`, "vpunct01", "punct"),
		}, true)
		script(e, c, k, ks, nil, []issued{mk("t", " vspace0001 ", "vspace0001", "outer-space")}, false)
		script(e, c, k, ks, nil, []issued{mk("t", `"vquote0001"`, "vquote0001", "outer-dquote")}, false)
		script(e, c, k, ks, nil, []issued{mk("t", "vsemi00001;vsemi00002", "vsemi00001", "semicolon")}, false)
	})

	e.Corpus("nested-ciphertext", func(c *ev.Case) {
		k, ks := genKey(c.R)
		inner, err := mw.EncryptCookie("inner-token-0001", ks)
		if err != nil {
			inner = seal(k, c.R.Bytes(12), []byte("inner-token-0001"))
		}
		foreign := seal(c.R.Bytes(32), c.R.Bytes(12), []byte("inner-token-0002"))
		script(e, c, k, ks, nil, []issued{
			{name: "token", p: pval{inner, inner, "nested-ciphertext"}, path: "/"},
			{name: "sid", p: pval{foreign, foreign, "nested-ciphertext"}, path: "/"},
		}, false)
	})
	for _, n := range []int{3000, 3041, 3100, 4096, 6200, 8192, 16384} {
		n := n
		e.Corpus(fmt.Sprintf("long-%d", n), func(c *ev.Case) { longValue(e, c, n) })
	}
	for i, ra := range rawAttrs {
		i := i
		if ra.odd {
			e.Corpus(fmt.Sprintf("rawline-odd-%d", i), func(c *ev.Case) { rawline(e, c, i) })
		}
	}
	for i, f := range [][]string{{"", "%"}, {" ", "%"}, {"%", ""}, {"", "", "%"}, {"%"}, {"\t", "%", " "}} {
		f := f
		e.Corpus(fmt.Sprintf("cookielines-blank-%d", i), func(c *ev.Case) { cookieLines(e, c, f) })
	}
	e.Corpus("samename-two-paths", func(c *ev.Case) { sameName(e, c, 2, false) })
	e.Corpus("samename-three-paths", func(c *ev.Case) { sameName(e, c, 3, false) })
	e.Corpus("samename-excepted", func(c *ev.Case) { sameName(e, c, 2, true) })
	for i := range exceptedRawLines {
		i := i
		e.Corpus(fmt.Sprintf("rawline-excepted-%d", i), func(c *ev.Case) { rawline(e, c, len(rawAttrs)+i) })
	}

	// ---- generated ------------------------------------------------------------------------------
	e.Cases("script", e.N(300, 20000), func(c *ev.Case) {
		r := c.R
		keyRaw, key := genKey(r)
		n := r.Range(1, 6)
		names := pickNames(r, n+1)
		var except []string
		nExc := r.PickW(3, 4, 2)
		if nExc > n {
			nExc = n
		}
		// excepted names are chosen among the set names and, on purpose, names that are prefixes /
		// extensions of encrypted ones (exact match only)
		excIdx := map[int]bool{}
		for len(excIdx) < nExc {
			excIdx[r.Intn(n)] = true
		}
		var cookies []issued
		long := true
		for i := 0; i < n; i++ {
			ck := issued{name: names[i], path: "/"}
			if excIdx[i] {
				ck.exc = true
				v := genExceptValue(r)
				ck.p = pval{v, v, "id"}
				except = append(except, names[i])
			} else {
				ck.p = genValue(r, long, key)
				if ck.p.class == "long" {
					long = false
				}
				if r.Chance(1, 8) {
					v := selfReferential(r, names[i])
					if lossClass(v) == "clean" {
						// no "core" to search the response bytes for: the text legitimately occurs in
						// the line (name, attributes); the value itself must still be ciphertext
						ck.p = pval{v, "", "occurs-elsewhere-in-its-own-line"}
					}
				}
			}
			cookies = append(cookies, ck)
		}
		if r.Bool() {
			except = append(except, names[n]) // an excepted name that is never set
		}
		for _, ck := range cookies {
			if !ck.exc && r.Chance(1, 4) && len(ck.name) > 1 && !inListIssued(cookies, ck.name[:len(ck.name)-1]) {
				except = append(except, ck.name[:len(ck.name)-1]) // proper prefix of an encrypted name
				break
			}
		}
		gen.Shuffle(r, except)
		except = padExcept(r, except)
		stat(e, fmt.Sprintf("scripts_except_list_of_%d", len(except)), 1)
		script(e, c, keyRaw, key, except, cookies, r.Chance(1, 3))
		stat(e, "scripts", 1)
	})

	thorough := !e.Quick()
	e.Cases("tamper", e.N(330, 900), func(c *ev.Case) { tamperBase(e, c, thorough) })

	e.Cases("multi", e.N(4000, 300000), func(c *ev.Case) { multi(e, c, nil) })

	e.Cases("rawline", e.N(400, 20000), func(c *ev.Case) { rawline(e, c, -1) })

	e.Cases("long", e.N(320, 12000), func(c *ev.Case) { longValue(e, c, 0) })

	e.Cases("samename", e.N(320, 12000), func(c *ev.Case) { sameName(e, c, 0, false) })

	e.Cases("twokeys", e.N(320, 20000), func(c *ev.Case) { twoKeys(e, c) })

	e.Cases("cookielines", e.N(1200, 60000), func(c *ev.Case) { cookieLines(e, c, nil) })

	e.Cases("conc", e.N(96, 3000), func(c *ev.Case) { conc(e, c) })
	concThresholds(e)

	if e.Only == "" {
		for _, name := range []string{"wire_ciphertext_only", "nonce_fresh", "roundtrip_ok_clean", "except_wire_identical", "except_request_identical",
			"tamper_rejected", "tamper_substitution", "tamper_truncation", "tamper_extension", "tamper_other-key", "multi_duplicate_names", "multi_single_ok", "rawline_odd_attribute_ciphertext_only", "rawline_excepted_line_identical", "long_cookie_over_4096", "cookielines_blank_line_first", "cookielines_several_non_blank_lines"} {
			if seen[name] == 0 {
				e.Inconclusive("never observed: " + name)
			}
		}
	}

	e.Note("nontrivial_rule", "tamper bases, multi requests (>= 2 cookies), replay requests carrying >= 2 cookies")
	e.Note("tamper_enumeration", "every position of the issued text (no alphabet assumed): quick 4 other byte values (adjacent sextet, char of std+URL-safe alphabets or '=', twin char of the other alphabet, non-alphabet/random byte), thorough all 255; every proper prefix; appended/prepended extensions and one inserted char at every position; other-key values (harness-sealed and issued by the middleware itself under other keys of each size); garbage. Oracle per base: format recognised (std base64 nonce|ct|tag) => original only for byte-identical decodings; otherwise empty or the original, never other text (tamper_agnostic)")
}

// seen mirrors the stats the run-level observation thresholds look at.
var seen = map[string]int64{}

func stat(e *ev.Env, name string, n int64) {
	seen[name] += n
	e.Stat(name, n)
}

func inListIssued(cs []issued, n string) bool {
	for _, c := range cs {
		if c.name == n {
			return true
		}
	}
	return false
}
