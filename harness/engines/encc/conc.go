package encc

// Two families about state that outlives one request:
//
//	conc     several clients send their own issued cookies through ONE app at the same time; a
//	         Config.Decryptor that wraps the real DecryptCookie and yields widens the overlap of the
//	         pre-handler phase. Every handler must see exactly its own client's values.
//	         Also registered alone as engine "encc.conc" (for the race build).
//	twokeys  two middleware instances with different valid keys in one process: a value issued by
//	         one instance is presented to the right-key instance and to the other-key instance, in
//	         both orders; the other-key instance's handler must see "".

import (
	"fmt"
	"runtime"
	"sort"
	"strings"
	"sync"
	"sync/atomic"

	"github.com/gofiber/fiber/v3"
	mw "github.com/gofiber/fiber/v3/middleware/encryptcookie"

	"verifharness/internal/drive"
	"verifharness/internal/ev"
	"verifharness/internal/gen"
	"verifharness/internal/reg"
	"verifharness/internal/strict"
)

func init() { reg.Register("encc.conc", runConc) }

func runConc(e *ev.Env) {
	e.Cases("conc", e.N(240, 6000), func(c *ev.Case) { conc(e, c) })
	concThresholds(e)
}

func concThresholds(e *ev.Env) {
	if e.Only == "" {
		if seen["conc_requests_ok"] == 0 {
			e.Inconclusive("never observed: conc_requests_ok")
		}
		if seen["conc_cases_with_overlapping_decrypt_phase"] == 0 {
			e.Inconclusive("no two requests ever overlapped inside the decrypt phase")
		}
	}
}

// concApp: the handler is stateless (everything it observed goes into the response body), so it
// can serve many requests at once.
//
//	POST body "n1=v1&n2=v2"  -> sets these cookies
//	GET                      -> body "V:" + visited k=v pairs + "|C:" + Cookies(k) per visited k
func concApp(key string, except []string, dec func(v, k string) (string, error)) *fiber.App {
	app := fiber.New()
	app.Use(mw.New(mw.Config{Key: key, Except: except, Decryptor: dec}))
	app.All("/*", func(c fiber.Ctx) error {
		if c.Method() == "POST" {
			for _, p := range strings.Split(string(c.Body()), "&") {
				if n, v, ok := strings.Cut(p, "="); ok {
					c.Cookie(&fiber.Cookie{Name: n, Value: v, Path: "/"})
				}
			}
			return c.SendString("set")
		}
		var sb strings.Builder
		var names []string
		sb.WriteString("V:")
		c.Request().Header.VisitAllCookie(func(k, v []byte) {
			sb.Write(k)
			sb.WriteByte('=')
			sb.Write(v)
			sb.WriteByte(';')
			names = append(names, string(k))
		})
		sb.WriteString("|C:")
		for _, n := range names {
			sb.WriteString(n + "=" + c.Cookies(n) + ";")
		}
		return c.SendString(sb.String())
	})
	return app
}

type concClient struct {
	inst   int // which middleware instance (key) this client talks to
	names  []string
	plain  []string
	header string
	want   string
	bad    string // first observation that differed
	badSig string
	reqs   int
}

// concView renders what the handler reports for the cookies name=value in order.
func concView(names, vals []string) string {
	var sb strings.Builder
	for i, n := range names {
		sb.WriteString(n + "=" + vals[i] + ";")
	}
	return "V:" + sb.String() + "|C:" + sb.String()
}

func conc(e *ev.Env, c *ev.Case) {
	r := c.R
	pool := pickNames(r, 6) // few names: different clients use the same names
	exName := pool[5]
	var inFlight, overlaps int64
	yields := r.Range(1, 4)
	dec := func(v, k string) (string, error) {
		// the real decryptor, then give other requests room inside this one's decrypt phase
		if atomic.AddInt64(&inFlight, 1) > 1 {
			atomic.AddInt64(&overlaps, 1)
		}
		s, err := mw.DecryptCookie(v, k)
		for i := 0; i < yields; i++ {
			runtime.Gosched()
		}
		atomic.AddInt64(&inFlight, -1)
		return s, err
	}
	// one or two middleware instances with different valid keys, serving at the same time
	nInst := 1 + r.PickW(1, 2)
	var ds []*drive.Direct
	var keyLens []int
	for k := 0; k < nInst; k++ {
		kr, key := genKey(r)
		keyLens = append(keyLens, len(kr))
		d := dec
		if r.Chance(1, 3) {
			d = nil // the package's default decryptor, untouched
		}
		ds = append(ds, drive.NewDirect(concApp(key, []string{exName}, d)))
	}

	nClients := r.Range(2, 8)
	rounds := r.Range(8, 24)
	clients := make([]*concClient, nClients)
	for i := range clients {
		cl := &concClient{inst: i % nInst}
		n := r.Range(1, 8) // the middleware keeps up to 8 cookies in its fixed scratch space
		if r.Chance(1, 8) {
			n = r.Range(9, 11)
		}
		p := append([]string(nil), pool[:5]...)
		gen.Shuffle(r, p)
		tag := uid(r, 3)
		for j := 0; j < n; j++ {
			var name string
			switch {
			case j < 5:
				name = p[j]
			case j == 5:
				name = exName
			default:
				name = fmt.Sprintf("%s%d", p[j%5], j)
			}
			cl.names = append(cl.names, name)
			cl.plain = append(cl.plain, fmt.Sprintf("c%dn%d-%s", i, j, tag))
		}
		clients[i] = cl
	}
	cfg := map[string]any{"instances": nInst, "key_lens": keyLens, "clients": nClients, "rounds": rounds, "yields_in_decryptor": yields, "excepted": exName}

	// issue lets the client's own instance encrypt `vals` and returns the Cookie header to send back
	issue := func(cl *concClient, vals []string) (string, string) {
		var parts []string
		for j := range cl.names {
			parts = append(parts, cl.names[j]+"="+vals[j])
		}
		resp := ds[cl.inst].Do(&drive.Req{Method: "POST", URI: "/", Body: []byte(strings.Join(parts, "&"))})
		got := map[string]string{}
		for _, line := range resp.All("Set-Cookie") {
			if sc, bad := strict.ParseSetCookie(line); bad == "" {
				got[sc.Name] = sc.Value
			}
		}
		var hp []string
		for j, n := range cl.names {
			s, ok := got[n]
			if !ok {
				return "", "set-cookie-missing"
			}
			if n != exName && s == vals[j] {
				return "", "value-not-encrypted"
			}
			hp = append(hp, n+"="+s)
		}
		return strings.Join(hp, "; "), ""
	}
	read := func(inst int, hdr string) string {
		return string(ds[inst].Do(&drive.Req{Method: "GET", URI: "/read", Hdr: []drive.H{{K: "Cookie", V: hdr}}}).Body)
	}

	// a first issue, one client after the other
	for _, cl := range clients {
		var hdr, bad string
		if e.Guard(c, "issue-conc", cfg, func() { hdr, bad = issue(cl, cl.plain) }) {
			return
		}
		switch bad {
		case "set-cookie-missing":
			stat(e, "conc_skipped_nothing_issued", 1)
			return
		case "value-not-encrypted":
			e.Violation(c, "confidentiality|wire-set-cookie|value-not-encrypted", "plaintext of an encrypted cookie is visible in its Set-Cookie value", cfg)
			return
		}
		cl.header = hdr
		cl.want = concView(cl.names, cl.plain)
	}

	// all clients at once. Every round: replay the own cookies to the own instance; have the own
	// instance issue fresh values (encryption runs concurrently, too), replay those to the own
	// instance and present them to the instance with the other key, which must see "".
	var wg sync.WaitGroup
	var panics sync.Map
	start := make(chan struct{})
	for i, cl := range clients {
		wg.Add(1)
		go func(i int, cl *concClient) {
			defer wg.Done()
			defer func() {
				if p := recover(); p != nil {
					panics.Store(i, fmt.Sprint(p))
				}
			}()
			fail := func(sig, saw string) {
				if cl.bad == "" {
					cl.bad, cl.badSig = saw, sig
				}
			}
			<-start
			for k := 0; k < rounds; k++ {
				cl.reqs++
				if body := read(cl.inst, cl.header); body != cl.want {
					fail("own", body)
				}
				fresh := make([]string, len(cl.plain))
				for j := range fresh {
					fresh[j] = fmt.Sprintf("%sr%d", cl.plain[j], k)
				}
				hdr, bad := issue(cl, fresh)
				cl.reqs++
				if bad != "" {
					fail("issue:"+bad, "")
					continue
				}
				cl.reqs++
				if body := read(cl.inst, hdr); body != concView(cl.names, fresh) {
					fail("own", body)
				}
				if nInst > 1 {
					// the other-key instance: excepted names pass, everything else is empty
					other := make([]string, len(fresh))
					for j, n := range cl.names {
						if n == exName {
							other[j] = fresh[j]
						}
					}
					cl.reqs++
					if body := read((cl.inst+1)%nInst, hdr); body != concView(cl.names, other) {
						fail("other-key", body)
					}
				}
			}
		}(i, cl)
	}
	close(start)
	wg.Wait()

	total := 0
	for _, cl := range clients {
		total += cl.reqs
	}
	e.Eval(total)
	stat(e, "conc_cases", 1)
	if nInst > 1 {
		stat(e, "conc_cases_two_keys", 1)
	}
	stat(e, "conc_requests", int64(total))
	stat(e, "conc_decrypts_overlapping_another", atomic.LoadInt64(&overlaps))
	if overlaps > 0 {
		stat(e, "conc_cases_with_overlapping_decrypt_phase", 1)
		e.Nontrivial("conc", c.ID)
	}
	var pk []int
	panics.Range(func(k, _ any) bool { pk = append(pk, k.(int)); return true })
	sort.Ints(pk)
	for _, i := range pk {
		m, _ := panics.Load(i)
		e.Violation(c, "concurrency|panic", "panic while serving concurrent requests: "+fmt.Sprint(m), cfg)
		return
	}
	for i, cl := range clients {
		if cl.bad == "" && cl.badSig == "" {
			stat(e, "conc_requests_ok", int64(cl.reqs))
			continue
		}
		det := map[string]any{"config": cfg, "client": i, "instance": cl.inst, "cookie_header": cl.header, "handler_saw": printable(cl.bad),
			"cookies_of_this_client": len(cl.names), "client_values_start_with": fmt.Sprintf("c%dn", i)}
		switch {
		case strings.HasPrefix(cl.badSig, "issue:"):
			e.Violation(c, "concurrency|issue|"+strings.TrimPrefix(cl.badSig, "issue:"), "with requests in flight at the same time a cookie was not issued as ciphertext", det)
		case cl.badSig == "other-key":
			e.Violation(c, "concurrency|handler-view|other-key-instance-accepted-value", "with two instances serving at the same time the instance with another key did not see the foreign cookie as empty", det)
		default:
			// whose value did the handler see?
			foreign := -1
			for o := range clients {
				if o != i && strings.Contains(cl.bad, fmt.Sprintf("=c%dn", o)) {
					foreign = o
					break
				}
			}
			if foreign >= 0 {
				det["value_belongs_to_client"] = foreign
				e.Violation(c, "concurrency|handler-view|value-of-another-request", "with requests in flight at the same time a handler saw a cookie value that belongs to another client's request", det)
			} else {
				e.Violation(c, "concurrency|handler-view|own-value-not-delivered", "with requests in flight at the same time a handler did not see its own client's cookie values", det)
			}
		}
		return
	}
}

// ---------------------------------------------------------------------------------------------

// twoKeys: "encrypted under another key -> empty" must not depend on what another instance in
// the same process has seen before.
func twoKeys(e *ev.Env, c *ev.Case) {
	r := c.R
	names := pickNames(r, 3)
	target, nx := names[0], names[1]
	sizes := []int{16, 24, 32}
	ka, kb := r.Bytes(gen.Pick(r, sizes)), r.Bytes(gen.Pick(r, sizes))
	if r.Chance(1, 4) {
		// same length, one bit apart
		kb = append([]byte(nil), ka...)
		kb[r.Intn(len(kb))] ^= 1 << uint(r.Intn(8))
	}
	a, b := newRigKey(ka, []string{nx}), newRigKey(kb, []string{nx})
	cfg := map[string]any{"key_len_a": len(ka), "key_len_b": len(kb), "name": target}
	type step struct {
		to   string // which instance
		val  int    // which issued value
		want string
	}
	var pl [4]string
	var ct [4]string
	issuer := []*rig{a, a, b, b}
	for i := range pl {
		pl[i] = uid(r, r.Range(3, 10))
		var iss map[string]string
		if e.Guard(c, "issue-twokeys", cfg, func() { iss = issuer[i].issue([]setInstr{{Name: target, Value: pl[i], Path: "/"}}) }) {
			return
		}
		v, ok := iss[target]
		if !ok {
			stat(e, "twokeys_skipped_nothing_issued", 1)
			return
		}
		ct[i] = v
	}
	// value 0 (A's): right key first, then the other key, then right key again
	// value 1 (A's): other key first, then the right key, then the other key again
	// values 2, 3 (B's): the same with the roles swapped
	steps := []step{
		{"a", 0, pl[0]}, {"b", 0, ""}, {"a", 0, pl[0]}, {"b", 0, ""},
		{"b", 1, ""}, {"a", 1, pl[1]}, {"b", 1, ""},
		{"b", 2, pl[2]}, {"a", 2, ""}, {"b", 2, pl[2]},
		{"a", 3, ""}, {"b", 3, pl[3]}, {"a", 3, ""},
	}
	if r.Bool() {
		gen.Shuffle(r, steps[4:])
	}
	presented := map[string]bool{}
	for si, st := range steps {
		g := a
		if st.to == "b" {
			g = b
		}
		hdr := target + "=" + ct[st.val]
		if e.Guard(c, "twokeys", cfg, func() { g.read(hdr, []string{target}) }) {
			return
		}
		e.Eval(1)
		rightKey := st.want != ""
		history := "before-the-right-key-instance-saw-it"
		if presented[fmt.Sprint(st.val, true)] {
			history = "after-the-right-key-instance-saw-it"
		}
		got := g.w.got[target]
		vs := visitOf(g.w.visited, target)
		det := func() map[string]any {
			return map[string]any{"config": cfg, "step": si, "presented_to": st.to, "issued_by": map[bool]string{true: "a", false: "b"}[st.val < 2],
				"cookies_view": printable(got), "visit_view": fmt.Sprint(vs), "plaintext": pl[st.val]}
		}
		switch {
		case rightKey && (got != st.want || !eqStrs(vs, []string{st.want})):
			e.Violation(c, roundtripSig("clean"), "replayed cookie does not reach the handler of the issuing instance with its original value", det())
			return
		case !rightKey && (got != "" || !eqStrs(vs, []string{""})):
			e.Violation(c, "tamper|Cookies|other-key-instance|"+history, "a value issued under another key reached the handler of an instance with a different key as text", det())
			return
		}
		if !rightKey {
			stat(e, "twokeys_other_key_rejected|"+history, 1)
		}
		presented[fmt.Sprint(st.val, rightKey)] = true
	}
	stat(e, "twokeys_cases", 1)
	e.Nontrivial("twokeys", c.ID)
}

// ---------------------------------------------------------------------------------------------

// cookieLines: requests parsed from the wire whose cookies arrive in SEVERAL `Cookie` header lines
// (a proxy or an HTTP/2 front end splits and joins them freely): an empty or whitespace-only line
// first / in the middle / last, one cookie per line, several per line, the same name in two
// lines, other headers in between - next to the single-line form. The handler's view follows
// the usual clauses: an issued value arrives as its plaintext, anything else as "", an excepted
// cookie as sent; never other text.
func cookieLines(e *ev.Env, c *ev.Case, fixed []string) {
	r := c.R
	names := pickNames(r, 5)
	exName := names[4]
	g := newRig(r, []string{exName})
	other := newRigKey(r.Bytes(len(g.keyRaw)), []string{exName})
	wire := drive.NewWire(g.d.App)
	cfg := map[string]any{"key_len": len(g.keyRaw), "except": []string{exName}}

	plain := map[string]string{}
	var set []setInstr
	for _, n := range names[:4] {
		plain[n] = uid(r, r.Range(4, 9))
		set = append(set, setInstr{Name: n, Value: plain[n], Path: "/"})
	}
	var iss, foreign map[string]string
	if e.Guard(c, "issue-cookielines", cfg, func() { iss = g.issue(set); foreign = other.issue(set) }) {
		return
	}
	for _, n := range names[:4] {
		if len(iss[n]) < 8 || len(foreign[n]) < 8 {
			stat(e, "cookielines_skipped_nothing_issued", 1)
			return
		}
	}
	// the cookies of this request
	var list []sent
	cnt := r.Range(1, 6)
	for i := 0; i < cnt; i++ {
		n := names[r.PickW(4, 3, 2, 1, 2)]
		switch {
		case n == exName:
			v := genExceptValue(r)
			list = append(list, mkSent(n, v, "excepted", v))
		case r.Chance(1, 2):
			list = append(list, mkSent(n, iss[n], "authentic", plain[n]))
		case r.Bool():
			list = append(list, mkSent(n, gen.Pick(r, []string{"admin", "guest", "1", plain[n]}), "forged", ""))
		default:
			list = append(list, mkSent(n, foreign[n], "forged", ""))
		}
	}
	// ... spread over header lines
	var lines []string
	if fixed != nil {
		pairs := ""
		for i, s := range list {
			if i > 0 {
				pairs += "; "
			}
			pairs += s.name + "=" + s.v
		}
		for _, f := range fixed {
			lines = append(lines, strings.ReplaceAll(f, "%", pairs))
		}
	} else {
		blank := func() string { return gen.Pick(r, []string{"", "", " ", "  ", "\t"}) }
		cur := ""
		for i, s := range list {
			p := s.name + "=" + s.v
			if cur != "" && r.Chance(1, 2) {
				cur += gen.Pick(r, []string{"; ", "; ", ";"}) + p
			} else {
				if cur != "" {
					lines = append(lines, cur)
				}
				cur = p
			}
			if i == len(list)-1 {
				lines = append(lines, cur)
			}
		}
		// blank lines: first / middle / last
		for k := r.PickW(2, 3, 2, 1); k > 0; k-- {
			at := r.PickW(3, 2, 2)
			switch at {
			case 0:
				lines = append([]string{blank()}, lines...)
			case 1:
				i := r.Intn(len(lines) + 1)
				lines = append(lines[:i:i], append([]string{blank()}, lines[i:]...)...)
			default:
				lines = append(lines, blank())
			}
		}
	}
	var req strings.Builder
	req.WriteString("GET /read HTTP/1.1\r\nHost: h.example\r\n")
	for i, l := range lines {
		if fixed == nil && i > 0 && r.Chance(1, 4) {
			req.WriteString("X-Between: " + uid(r, 2) + "\r\n")
		}
		req.WriteString("Cookie:")
		if l != "" || (fixed == nil && r.Bool()) {
			req.WriteString(" ")
		}
		req.WriteString(l + "\r\n")
	}
	req.WriteString("\r\n")
	cfg["cookie_header_lines"] = lines

	count := map[string]int{}
	var ask []string
	for _, s := range list {
		if count[s.name] == 0 {
			ask = append(ask, s.name)
		}
		count[s.name]++
	}
	sort.Strings(ask)
	g.w.reset()
	g.w.ask = ask
	var out []byte
	if e.Guard(c, "cookielines", cfg, func() { out, _ = wire.Serve([]byte(req.String()), nil) }) {
		return
	}
	e.Eval(1)
	stat(e, "cookielines_requests", 1)
	blanks, nonBlank := 0, 0
	for _, l := range lines {
		if strings.TrimSpace(l) == "" {
			blanks++
		} else {
			nonBlank++
		}
	}
	if blanks > 0 {
		stat(e, "cookielines_with_blank_line", 1)
		if strings.TrimSpace(lines[0]) == "" {
			stat(e, "cookielines_blank_line_first", 1)
		}
	}
	if nonBlank > 1 {
		stat(e, "cookielines_several_non_blank_lines", 1)
	}
	rs, perr := strict.ParseAll(out, nil)
	if perr != nil || len(rs) != 1 || rs[0].Status != 200 || g.w.entered != 1 {
		// a server may refuse such a request; then nothing reached a handler
		stat(e, "cookielines_request_not_served", 1)
		return
	}
	e.Nontrivial("cookielines", c.ID)
	for _, n := range ask {
		var mine []sent
		for _, s := range list {
			if s.name == n {
				mine = append(mine, s)
			}
		}
		vs := visitOf(g.w.visited, n)
		got := g.w.got[n]
		det := func() map[string]any {
			var sh []string
			for _, s := range mine {
				sh = append(sh, s.kind)
			}
			return map[string]any{"config": cfg, "name": n, "entries_of_name": sh, "cookies_view": printable(got), "visit_view": vs}
		}
		if len(mine) == 1 {
			s := mine[0]
			if got == s.expect && eqStrs(vs, []string{s.expect}) {
				stat(e, "cookielines_single_ok", 1)
				continue
			}
			switch s.kind {
			case "excepted":
				e.Violation(c, "except|request|altered", "excepted cookie altered on the way in (several Cookie header lines)", det())
			case "forged":
				e.Violation(c, "tamper|Cookies|several-cookie-header-lines|"+gotClass(got, s.v), "a cookie value not issued under the current key reached the handler as text (several Cookie header lines)", det())
			default:
				e.Violation(c, "handler-view|authentic-single|authentic-cookie-lost|several-cookie-header-lines", "authentic cookie did not reach the handler with its original value (several Cookie header lines)", det())
			}
			return
		}
		if mine[0].kind == "excepted" {
			continue // duplicates of an excepted name: the multi family judges them
		}
		allowed := map[string]bool{}
		for _, s := range mine {
			if s.kind == "authentic" {
				allowed[s.expect] = true
			} else {
				allowed[""] = true
			}
		}
		bad := !allowed[got]
		for _, v := range vs {
			if !allowed[v] {
				bad = true
			}
		}
		if bad {
			e.Violation(c, "handler-view|duplicate-name|several-cookie-header-lines", "with one name in several cookies the handler sees a value that is neither an issued plaintext of that name nor empty", det())
			return
		}
		stat(e, "cookielines_duplicate_ok", 1)
	}
}
