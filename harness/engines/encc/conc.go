package encc

// Two families about state that outlives one request:
//
//	conc     several clients send their own issued cookies through ONE app at the same time; a
//	         Config.Decryptor that wraps the real DecryptCookie and yields widens the overlap of the
//	         pre-handler phase. Every handler must see exactly its own client's values.
//	         Also registered alone as engine "encc.conc" (for the race build).
//	twokeys  two middleware instances with different valid keys in one process: a value issued by
//	         one instance is presented to the right-key instance and to the other-key instance, in
//	         both orders; the other-key instance's handler must see "".

import (
	"fmt"
	"runtime"
	"sort"
	"strings"
	"sync"
	"sync/atomic"

	"github.com/gofiber/fiber/v3"
	mw "github.com/gofiber/fiber/v3/middleware/encryptcookie"

	"verifharness/internal/drive"
	"verifharness/internal/ev"
	"verifharness/internal/gen"
	"verifharness/internal/reg"
	"verifharness/internal/strict"
)

func init() { reg.Register("encc.conc", runConc) }

func runConc(e *ev.Env) {
	e.Cases("conc", e.N(240, 6000), func(c *ev.Case) { conc(e, c) })
	concThresholds(e)
}

func concThresholds(e *ev.Env) {
	if e.Only == "" {
		if seen["conc_requests_ok"] == 0 {
			e.Inconclusive("never observed: conc_requests_ok")
		}
		if seen["conc_cases_with_overlapping_decrypt_phase"] == 0 {
			e.Inconclusive("no two requests ever overlapped inside the decrypt phase")
		}
	}
}

// concApp: the handler is stateless (everything it observed goes into the response body), so it
// can serve many requests at once.
//
//	POST body "n1=v1&n2=v2"  -> sets these cookies
//	GET                      -> body "V:" + visited k=v pairs + "|C:" + Cookies(k) per visited k
func concApp(key string, except []string, dec func(v, k string) (string, error)) *fiber.App {
	app := fiber.New()
	app.Use(mw.New(mw.Config{Key: key, Except: except, Decryptor: dec}))
	app.All("/*", func(c fiber.Ctx) error {
		if c.Method() == "POST" {
			for _, p := range strings.Split(string(c.Body()), "&") {
				if n, v, ok := strings.Cut(p, "="); ok {
					c.Cookie(&fiber.Cookie{Name: n, Value: v, Path: "/"})
				}
			}
			return c.SendString("set")
		}
		var sb strings.Builder
		var names []string
		sb.WriteString("V:")
		c.Request().Header.VisitAllCookie(func(k, v []byte) {
			sb.Write(k)
			sb.WriteByte('=')
			sb.Write(v)
			sb.WriteByte(';')
			names = append(names, string(k))
		})
		sb.WriteString("|C:")
		for _, n := range names {
			sb.WriteString(n + "=" + c.Cookies(n) + ";")
		}
		return c.SendString(sb.String())
	})
	return app
}

type concClient struct {
	names  []string
	plain  []string
	sent   []string // cookie values as sent (ciphertext, or raw for the excepted name)
	header string
	want   string
	bad    string // first response that differed
	reqs   int
}

func conc(e *ev.Env, c *ev.Case) {
	r := c.R
	_, key := genKey(r)
	pool := pickNames(r, 6) // few names: different clients use the same names
	exName := pool[5]
	var inFlight, overlaps int64
	yields := r.Range(1, 4)
	dec := func(v, k string) (string, error) {
		// the real decryptor, then give other requests room inside this one's decrypt phase
		if atomic.AddInt64(&inFlight, 1) > 1 {
			atomic.AddInt64(&overlaps, 1)
		}
		s, err := mw.DecryptCookie(v, k)
		for i := 0; i < yields; i++ {
			runtime.Gosched()
		}
		atomic.AddInt64(&inFlight, -1)
		return s, err
	}
	app := concApp(key, []string{exName}, dec)
	d := drive.NewDirect(app)

	nClients := r.Range(2, 8)
	rounds := r.Range(8, 24)
	clients := make([]*concClient, nClients)
	owner := map[string]int{} // plaintext -> client
	for i := range clients {
		cl := &concClient{}
		n := r.Range(1, 8) // the middleware keeps up to 8 cookies in its fixed scratch space
		if r.Chance(1, 8) {
			n = r.Range(9, 11)
		}
		p := append([]string(nil), pool[:5]...)
		gen.Shuffle(r, p)
		for j := 0; j < n; j++ {
			var name string
			switch {
			case j < 5:
				name = p[j]
			case j == 5:
				name = exName
			default:
				name = fmt.Sprintf("%s%d", p[j%5], j)
			}
			cl.names = append(cl.names, name)
			v := fmt.Sprintf("c%dn%d-%s", i, j, uid(r, 4))
			cl.plain = append(cl.plain, v)
			owner[v] = i
		}
		clients[i] = cl
	}
	cfg := map[string]any{"clients": nClients, "rounds": rounds, "yields_in_decryptor": yields, "excepted": exName}

	// issue, one client after the other
	for i, cl := range clients {
		var parts []string
		for j := range cl.names {
			parts = append(parts, cl.names[j]+"="+cl.plain[j])
		}
		var resp *drive.Resp
		if e.Guard(c, "issue-conc", cfg, func() {
			resp = d.Do(&drive.Req{Method: "POST", URI: "/", Body: []byte(strings.Join(parts, "&"))})
		}) {
			return
		}
		got := map[string]string{}
		for _, line := range resp.All("Set-Cookie") {
			if sc, bad := strict.ParseSetCookie(line); bad == "" {
				got[sc.Name] = sc.Value
			}
		}
		var hp []string
		var v, cv strings.Builder
		for j, n := range cl.names {
			s, ok := got[n]
			if !ok {
				stat(e, "conc_skipped_nothing_issued", 1)
				return
			}
			if n != exName && s == cl.plain[j] {
				e.Violation(c, "confidentiality|wire-set-cookie|value-not-encrypted", "plaintext of an encrypted cookie is visible in its Set-Cookie value", cfg)
				return
			}
			cl.sent = append(cl.sent, s)
			hp = append(hp, n+"="+s)
			v.WriteString(n + "=" + cl.plain[j] + ";")
			cv.WriteString(n + "=" + cl.plain[j] + ";")
		}
		cl.header = strings.Join(hp, "; ")
		cl.want = "V:" + v.String() + "|C:" + cv.String()
		_ = i
	}

	// all clients at once, every one with its own cookies
	var wg sync.WaitGroup
	var panics sync.Map
	start := make(chan struct{})
	for i, cl := range clients {
		wg.Add(1)
		go func(i int, cl *concClient) {
			defer wg.Done()
			defer func() {
				if p := recover(); p != nil {
					panics.Store(i, fmt.Sprint(p))
				}
			}()
			<-start
			for k := 0; k < rounds; k++ {
				resp := d.Do(&drive.Req{Method: "GET", URI: "/read", Hdr: []drive.H{{K: "Cookie", V: cl.header}}})
				cl.reqs++
				if body := string(resp.Body); body != cl.want && cl.bad == "" {
					cl.bad = body
				}
			}
		}(i, cl)
	}
	close(start)
	wg.Wait()

	total := 0
	for _, cl := range clients {
		total += cl.reqs
	}
	e.Eval(total)
	stat(e, "conc_cases", 1)
	stat(e, "conc_requests", int64(total))
	stat(e, "conc_decrypts_overlapping_another", atomic.LoadInt64(&overlaps))
	if overlaps > 0 {
		stat(e, "conc_cases_with_overlapping_decrypt_phase", 1)
		e.Nontrivial("conc", c.ID)
	}
	var pk []int
	panics.Range(func(k, _ any) bool { pk = append(pk, k.(int)); return true })
	sort.Ints(pk)
	for _, i := range pk {
		m, _ := panics.Load(i)
		e.Violation(c, "concurrency|panic", "panic while serving concurrent requests: "+fmt.Sprint(m), cfg)
		return
	}
	for i, cl := range clients {
		if cl.bad == "" {
			stat(e, "conc_requests_ok", int64(cl.reqs))
			continue
		}
		// whose value did the handler see?
		foreign := -1
		for v, o := range owner {
			if o != i && strings.Contains(cl.bad, "="+v+";") {
				if foreign == -1 || o < foreign {
					foreign = o
				}
			}
		}
		det := map[string]any{"config": cfg, "client": i, "cookie_header": cl.header, "handler_saw": printable(cl.bad), "expected": printable(cl.want),
			"cookies_of_this_client": len(cl.names)}
		if foreign >= 0 {
			det["value_belongs_to_client"] = foreign
			e.Violation(c, "concurrency|handler-view|value-of-another-request", "with requests in flight at the same time a handler saw a cookie value that belongs to another client's request", det)
		} else {
			e.Violation(c, "concurrency|handler-view|own-value-not-delivered", "with requests in flight at the same time a handler did not see its own client's cookie values", det)
		}
		return
	}
}

// ---------------------------------------------------------------------------------------------

// twoKeys: "encrypted under another key -> empty" must not depend on what another instance in
// the same process has seen before.
func twoKeys(e *ev.Env, c *ev.Case) {
	r := c.R
	names := pickNames(r, 3)
	target, nx := names[0], names[1]
	sizes := []int{16, 24, 32}
	ka, kb := r.Bytes(gen.Pick(r, sizes)), r.Bytes(gen.Pick(r, sizes))
	if r.Chance(1, 4) {
		// same length, one bit apart
		kb = append([]byte(nil), ka...)
		kb[r.Intn(len(kb))] ^= 1 << uint(r.Intn(8))
	}
	a, b := newRigKey(ka, []string{nx}), newRigKey(kb, []string{nx})
	cfg := map[string]any{"key_len_a": len(ka), "key_len_b": len(kb), "name": target}
	type step struct {
		to   string // which instance
		val  int    // which issued value
		want string
	}
	var pl [4]string
	var ct [4]string
	issuer := []*rig{a, a, b, b}
	for i := range pl {
		pl[i] = uid(r, r.Range(3, 10))
		var iss map[string]string
		if e.Guard(c, "issue-twokeys", cfg, func() { iss = issuer[i].issue([]setInstr{{Name: target, Value: pl[i], Path: "/"}}) }) {
			return
		}
		v, ok := iss[target]
		if !ok {
			stat(e, "twokeys_skipped_nothing_issued", 1)
			return
		}
		ct[i] = v
	}
	// value 0 (A's): right key first, then the other key, then right key again
	// value 1 (A's): other key first, then the right key, then the other key again
	// values 2, 3 (B's): the same with the roles swapped
	steps := []step{
		{"a", 0, pl[0]}, {"b", 0, ""}, {"a", 0, pl[0]}, {"b", 0, ""},
		{"b", 1, ""}, {"a", 1, pl[1]}, {"b", 1, ""},
		{"b", 2, pl[2]}, {"a", 2, ""}, {"b", 2, pl[2]},
		{"a", 3, ""}, {"b", 3, pl[3]}, {"a", 3, ""},
	}
	if r.Bool() {
		gen.Shuffle(r, steps[4:])
	}
	presented := map[string]bool{}
	for si, st := range steps {
		g := a
		if st.to == "b" {
			g = b
		}
		hdr := target + "=" + ct[st.val]
		if e.Guard(c, "twokeys", cfg, func() { g.read(hdr, []string{target}) }) {
			return
		}
		e.Eval(1)
		rightKey := st.want != ""
		history := "before-the-right-key-instance-saw-it"
		if presented[fmt.Sprint(st.val, true)] {
			history = "after-the-right-key-instance-saw-it"
		}
		got := g.w.got[target]
		vs := visitOf(g.w.visited, target)
		det := func() map[string]any {
			return map[string]any{"config": cfg, "step": si, "presented_to": st.to, "issued_by": map[bool]string{true: "a", false: "b"}[st.val < 2],
				"cookies_view": printable(got), "visit_view": fmt.Sprint(vs), "plaintext": pl[st.val]}
		}
		switch {
		case rightKey && (got != st.want || !eqStrs(vs, []string{st.want})):
			e.Violation(c, roundtripSig("clean"), "replayed cookie does not reach the handler of the issuing instance with its original value", det())
			return
		case !rightKey && (got != "" || !eqStrs(vs, []string{""})):
			e.Violation(c, "tamper|Cookies|other-key-instance|"+history, "a value issued under another key reached the handler of an instance with a different key as text", det())
			return
		}
		if !rightKey {
			stat(e, "twokeys_other_key_rejected|"+history, 1)
		}
		presented[fmt.Sprint(st.val, rightKey)] = true
	}
	stat(e, "twokeys_cases", 1)
	e.Nontrivial("twokeys", c.ID)
}
