package idem

import (
	"fmt"
	"time"

	"verifharness/internal/ev"
	"verifharness/internal/gen"
	"verifharness/internal/vt"
)

// The `lifetime` family: one client at a time, virtual clock. All instants are whole seconds
// apart at k s + 501 ms, so both backends (vstore: TTL on the virtual clock; default memory
// storage: whole-second coarse clock) agree on what is live.
//
// Judged only at unambiguous instants: a duplicate sent at most Lifetime-1s after the last
// successful execution for its key must be a replay of it (no handler entry, no error, same
// status/body/kept headers). From Lifetime+1s on it may execute again (counted, not demanded);
// exactly at Lifetime nothing is asserted.

func runLifetime(e *ev.Env, w *witnesses) {
	e.Cases("lifetime", e.N(160, 6000), func(c *ev.Case) { lifetimeCase(e, w, c, nil) })
	e.Note("lifetime", "sequential histories of 3-9 requests over 1-2 keys with whole-second advances chosen around Lifetime (1s, L/2, L-1s, L+1s, 2L); backends: vstore and the default memory storage; a third of the histories use one key whose handler answers identically every time (ConstResp) on the default memory storage; asserts only at elapsed <= L-1s since the last successful execution (must replay)")
}

type lifeFixed struct {
	sc   scenario
	advs []time.Duration
}

func lifetimeCase(e *ev.Env, w *witnesses, c *ev.Case, fixed *lifeFixed) {
	var sc *scenario
	var advs []time.Duration
	if fixed != nil {
		sc, advs = &fixed.sc, fixed.advs
	} else {
		r := c.R
		L := gen.Pick(r, []time.Duration{time.Second, 2 * time.Second, 3 * time.Second, 5 * time.Second, 8 * time.Second, 30 * time.Second, 0, 90 * time.Minute})
		eff := L
		if eff == 0 {
			eff = 30 * time.Minute
		}
		sc = &scenario{Lifetime: L, MemStore: r.Chance(1, 4), ShapeBase: r.Intn(len(shapes))}
		switch r.Intn(5) {
		case 0, 1:
			sc.Keep = keepList
		case 2:
			sc.Keep = gen.Pick(r, [][]string{keepNone, keepCT, keepEvery})
		}
		// a third of the histories: one key whose handler always answers identically (so a
		// re-execution after expiry writes the very bytes that are stored already), recorded
		// with at most one header, mostly on the default memory storage
		constant := r.Chance(1, 3)
		if constant {
			sc.ConstResp, sc.MemStore = true, r.Chance(3, 4)
			sc.Keep = gen.Pick(r, [][]string{keepNone, keepCT})
		}
		n := r.Range(3, 9)
		for i := 0; i < n; i++ {
			kind := r.PickW(60, 15, 13, 12)
			if constant {
				kind = 0
			}
			switch kind {
			case 0:
				sc.Reqs = append(sc.Reqs, dup(gen.Pick(r, []string{"POST", "PUT", "PATCH", "DELETE"})))
			case 1:
				sc.Reqs = append(sc.Reqs, keyedReq("POST", gen.Pick(r, nearKeys)))
			case 2:
				sc.Reqs = append(sc.Reqs, keyless(gen.Pick(r, []string{"POST", "GET"})))
			default:
				switch r.Intn(4) {
				case 0:
					sc.Reqs = append(sc.Reqs, keyedReq(gen.Pick(r, []string{"GET", "OPTIONS", "HEAD"}), gen.Pick(r, malformedKeys)))
				case 1:
					sc.Reqs = append(sc.Reqs, reqSpec{Method: "POST", Key: gen.Pick(r, append([]string{keyPool[0]}, malformedKeys...)), Skip: true})
				default:
					sc.Reqs = append(sc.Reqs, safeKeyed(gen.Pick(r, []string{"GET", "OPTIONS"})))
				}
			}
			menu := []time.Duration{0, time.Second, eff / 2, eff - time.Second, eff - time.Second, eff + time.Second, eff + time.Second, 2 * eff}
			if constant {
				menu = []time.Duration{0, 0, time.Second, eff - time.Second, eff + time.Second, eff + time.Second, eff + 2*time.Second}
			}
			advs = append(advs, gen.Pick(r, menu).Truncate(time.Second))
		}
	}
	eff := sc.Lifetime
	if eff == 0 {
		eff = 30 * time.Minute
	}
	vt.AlignHalf(0)
	r := newRun(sc, faultPlan{}, nil)
	last := map[string]*execRec{} // key -> most recent successful execution
	var fs []finding
	seen := map[string]bool{}
	add := func(sig, what string) {
		if !seen[sig] {
			seen[sig] = true
			fs = append(fs, finding{sig, what})
		}
	}
	var trace []string
	panicked := e.Guard(c, "panic", sc.desc(), func() {
		for i := range sc.Reqs {
			if advs[i] > 0 {
				time.Sleep(advs[i])
			}
			now := time.Now()
			r.send(-1, i)
			rq := r.reqs[i]
			e.Eval(1)
			if !rq.keyed() {
				trace = append(trace, fmt.Sprintf("+%v %s %s", advs[i], rq.Method, rq.class()))
				switch {
				case len(rq.Entries) != 1:
					add(unaffectedSig(rq.reqSpec, sc)+"|executions", fmt.Sprintf("request %d (%s) entered the handler %d times", i, rq.class(), len(rq.Entries)))
				case rq.Errored:
					add(unaffectedSig(rq.reqSpec, sc)+"|error", fmt.Sprintf("request %d (%s) answered with error %s", i, rq.class(), rq.ErrMsg))
				default:
					r.checkOwn(rq, r.execs[rq.Entries[0]], unaffectedSig(rq.reqSpec, sc), add)
				}
				continue
			}
			ref := last[rq.Key]
			class := "first"
			var elapsed time.Duration
			if ref != nil {
				elapsed = now.Sub(ref.At)
				switch {
				case elapsed <= eff-time.Second:
					class = "inside"
				case elapsed >= eff+time.Second:
					class = "outside"
				default:
					class = "edge"
				}
			}
			entered := len(rq.Entries) > 0
			trace = append(trace, fmt.Sprintf("+%v %s key=%s elapsed=%v %s entered=%v", advs[i], rq.Method, rq.Key[len(rq.Key)-1:], elapsed, class, entered))
			e.Stat("lifetime."+class, 1)
			switch class {
			case "inside":
				switch {
				case entered && r.execs[rq.Entries[0]].Exited && !r.execs[rq.Entries[0]].Fail:
					add("double-execution|sequential-within-lifetime", fmt.Sprintf("request %d, %v after the successful execution %d for its key (Lifetime %v), executed the handler again", i, elapsed, ref.N, eff))
				case rq.Errored:
					add("spurious-error|"+errClass(rq.ErrMsg), fmt.Sprintf("request %d within lifetime answered with error %s", i, rq.ErrMsg))
				default:
					r.compareAnswer(rq, ref, add)
					e.Nontrivial("lifetime", sc.desc(), fmt.Sprint(advs[:i+1]))
				}
			case "outside", "edge":
				if entered {
					e.Stat("lifetime."+class+".executed_again", 1)
				} else {
					e.Stat("lifetime."+class+".replayed", 1)
				}
			}
			if entered {
				if rq.Errored {
					add("spurious-error|"+errClass(rq.ErrMsg), fmt.Sprintf("request %d ran its handler successfully and was answered with error %s", i, rq.ErrMsg))
				} else {
					r.checkOwn(rq, r.execs[rq.Entries[0]], "executor-response-altered", add)
				}
				if ex := r.execs[rq.Entries[0]]; ex.Exited && !ex.Fail {
					last[rq.Key] = ex
				}
			} else if ex := r.foreign(rq); ex != nil && !rq.Errored && (ref == nil || rq.Resp.Get("X-Exec") != fmt.Sprint(ref.N)) {
				add("other-key-affected|answered-from-record-of-another-key|"+keyRelation(rq.Key, ex.Key),
					fmt.Sprintf("request %d with key %q was answered %d with the response of execution %d, which belongs to the DIFFERENT key %q", i, rq.Key, rq.Resp.Status, ex.N, ex.Key))
			} else if ref == nil && !rq.Errored {
				add("answer-without-execution", fmt.Sprintf("request %d answered %d without any execution for its key", i, rq.Resp.Status))
			}
		}
	})
	e.Stat("lifetime.cases", 1)
	if sc.MemStore {
		e.Stat("lifetime.cases_memory_storage", 1)
	}
	e.Sample("lifetime-history", map[string]any{"lifetime": eff.String(), "mem_store": sc.MemStore, "steps": trace})
	if panicked || len(fs) == 0 {
		return
	}
	for i := range fs {
		fs[i].What += " | history: " + fmt.Sprint(trace)
	}
	w.report(c, r, fs)
}
