// Package idem is the runtime monitor for property C17 (idempotency middleware: the protected
// handler completes successfully at most once per key and lifetime, every answered duplicate
// gets that execution's status / body / kept headers, other requests are unaffected, a failing
// lock acquisition or lookup yields an error without the handler being run). See DESIGN.md 3.C17.
//
// "idem"       vt build, GOMAXPROCS=1. Families
//
//	dfs2, dfs3   exhaustive schedules (sched.DFS, dfs3 sharded by the first three choices) of
//	             2 / 3 concurrent requests at every storage / lock / handler boundary
//	walk3, walk4 seeded random walks over 3 / 4 concurrent requests
//	reuse        workers as keep-alive connections: one RequestCtx re-used per worker
//	faults       every single fault (get#n, lock#n, set#n, unlock#n) x every schedule of two
//	             requests, and the sequential retry case
//	lifetime     sequential histories with time advance on the virtual clock
//	memlock      the real MemoryLock through its public API under the scheduler
//
// "idem.race"  -race build, real time: 64 goroutines x 8 keys on one middleware instance with
//
//	the default memory storage and MemoryLock.
package idem

import (
	"io"

	fiberlog "github.com/gofiber/fiber/v3/log"

	"verifharness/internal/ev"
	"verifharness/internal/reg"
	"verifharness/internal/vt"
)

func init() {
	reg.Register("idem", runVT)
	reg.Register("idem.race", runRace)
}

func runVT(e *ev.Env) {
	vt.Require()
	vt.Start()
	// the middleware logs a failed Unlock; keep the framed stderr of the vt child clean
	fiberlog.SetOutput(io.Discard)
	w := newWitnesses(e)
	corpus(e, w)
	runDFS2(e, w)
	runDFS3(e, w)
	runWalks(e, w)
	runReuse(e, w)
	runFaults(e, w)
	runLifetime(e, w)
	runMemlock(e, w)
	w.flush()
}
