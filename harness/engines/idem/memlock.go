package idem

import (
	"fmt"
	"strings"
	"time"

	"github.com/gofiber/fiber/v3/middleware/idempotency"

	"verifharness/internal/ev"
	"verifharness/internal/sched"
)

// The `memlock` family: the real idempotency.MemoryLock through its public API. Harness workers
// run rounds of Lock(k…) / critical section / Unlock(…k) with a scheduler boundary before every
// Lock, inside the critical section and before every Unlock. Monitors: at most one worker inside
// the critical section of a key; a Lock of a key nobody holds returns without any other worker
// running in between (different keys do not block each other, no lost hand-over); no deadlock;
// no panic. Emptiness of the internal map at quiescence is not observable through the public
// API (MemoryLock.keys is unexported, no accessor) and is not judged.

type mlRound []string // keys locked in this order (nested), unlocked in reverse

type mlScenario struct {
	Name    string      `json:"name"`
	Workers [][]mlRound `json:"workers"`
}

var mlScenarios = []mlScenario{
	{"2w-same-key", [][]mlRound{{{"A"}}, {{"A"}}}},
	{"2w-same-key-2rounds", [][]mlRound{{{"A"}, {"A"}}, {{"A"}, {"A"}}}},
	{"2w-different-keys", [][]mlRound{{{"A"}}, {{"B"}}}},
	{"2w-crossing-rounds", [][]mlRound{{{"A"}, {"B"}}, {{"B"}, {"A"}}}},
	{"2w-nested", [][]mlRound{{{"A", "B"}}, {{"B"}, {"A"}}}},
	{"3w-same-key", [][]mlRound{{{"A"}}, {{"A"}}, {{"A"}}}},
	{"3w-two-keys", [][]mlRound{{{"A"}}, {{"A"}}, {{"B"}}}},
	{"3w-same-key-relock", [][]mlRound{{{"A"}, {"A"}}, {{"A"}}, {{"A"}}}},
	{"3w-nested", [][]mlRound{{{"A", "B"}}, {{"B"}}, {{"A"}, {"B"}}}},
}

type mlRun struct {
	s      *sched.Sched
	lk     *idempotency.MemoryLock
	clock  int64
	inCS   map[string]int
	holder map[string]int
	flags  []finding
	abort  bool
	maxCS  int
	waited bool // some Lock call had to wait for a holder
}

func (m *mlRun) yield(p string) {
	m.clock++
	m.s.Yield(p)
	m.clock++
}

func (m *mlRun) flag(sig, what string) {
	m.flags = append(m.flags, finding{sig, what})
	m.abort = true // stop before an Unlock of a mutex in an impossible state kills the process
}

func (m *mlRun) worker(wi int, rounds []mlRound) func() {
	return func() {
		for _, keys := range rounds {
			for _, k := range keys {
				m.yield("ml.lock")
				if m.abort {
					return
				}
				_, held := m.holder[k]
				t0 := m.clock
				if err := m.lk.Lock(k); err != nil {
					m.flag("memlock|lock-error", "MemoryLock.Lock returned "+err.Error())
					return
				}
				if m.abort {
					return
				}
				if held && m.clock != t0 {
					m.waited = true
				}
				if !held && m.clock != t0 {
					m.flag("memlock|blocked-without-holder", fmt.Sprintf("worker %d: Lock(%s) blocked although nobody held %s", wi, k, k))
					return
				}
				m.holder[k] = wi
				m.inCS[k]++
				if m.inCS[k] > m.maxCS {
					m.maxCS = m.inCS[k]
				}
				if m.inCS[k] > 1 {
					m.flag("memlock|mutual-exclusion", fmt.Sprintf("worker %d entered the critical section of %s while another worker is inside", wi, k))
					return
				}
			}
			m.yield("ml.cs")
			if m.abort {
				return
			}
			for i := len(keys) - 1; i >= 0; i-- {
				k := keys[i]
				m.yield("ml.unlock")
				if m.abort {
					return
				}
				m.inCS[k]--
				delete(m.holder, k)
				if err := m.lk.Unlock(k); err != nil {
					m.flag("memlock|unlock-error", "MemoryLock.Unlock returned "+err.Error())
					return
				}
			}
		}
	}
}

func runMemlock(e *ev.Env, w *witnesses) {
	e.Cases("memlock", len(mlScenarios), func(c *ev.Case) {
		ms := mlScenarios[mustIndex(c.ID)]
		max := 0
		if len(ms.Workers) >= 3 {
			max = e.N(400, 0)
		}
		var schedules, blockedSeen int64
		one := func(ch sched.Chooser) *sched.Outcome {
			m := &mlRun{s: sched.New(), lk: idempotency.NewMemoryLock(), inCS: map[string]int{}, holder: map[string]int{}}
			m.s.DeadlockCap = time.Second // MemoryLock has no timers: idling cannot release anybody
			for wi, rounds := range ms.Workers {
				m.s.Go(fmt.Sprintf("w%d", wi), m.worker(wi, rounds))
			}
			out := m.s.Run(ch)
			schedules++
			e.Eval(1)
			for _, ev := range out.Released {
				w.bounds[ev.Point]++
			}
			if m.waited {
				blockedSeen++
				e.Nontrivial("memlock", ms.Name, out.Key())
			}
			fs := m.flags
			for n, p := range out.Panics {
				fs = append(fs, finding{"memlock|panic|" + ev.PanicSite(p), "worker " + n + ": " + firstLine(p)})
			}
			if out.Deadlock && !m.abort {
				fs = append(fs, finding{"memlock|deadlock", "workers " + strings.Join(out.Blocked, ",") + " never returned from MemoryLock"})
			}
			if len(fs) > 0 {
				det := map[string]any{"scenario": ms, "interleaving": out.Key(), "blocked": out.Blocked}
				seen := map[string]bool{}
				for _, f := range fs {
					if seen[f.Sig] {
						continue
					}
					seen[f.Sig] = true
					size := [3]int{len(ms.Workers), len(ms.Workers), out.Steps}
					if b := w.best[f.Sig]; b == nil || less(size, b.size) {
						w.best[f.Sig] = &witness{size: size, caseID: c.ID, detail: det, what: f.What}
					}
					e.Violation(c, f.Sig, f.What, det)
				}
			}
			return out
		}
		n, exhausted := sched.DFS(max, one)
		if !exhausted {
			// capped (quick tier, 3 workers): add seeded random walks
			for k := 0; k < 300; k++ {
				cr := c.R.Split()
				one(sched.RandomChooser(cr.Intn))
			}
		}
		e.Stat("schedules", schedules)
		e.Stat("schedules.memlock", schedules)
		e.Stat("memlock.schedules_with_waiting", blockedSeen)
		e.Stat("memlock.cases", 1)
		if exhausted {
			e.Stat("memlock.cases_exhausted", 1)
		}
		e.StatMax("memlock.max_schedules_per_case", int64(n))
	})
	e.Note("memlock", "real MemoryLock under the scheduler, boundaries before Lock, inside the critical section, before Unlock; 2-worker scenarios always exhaustive, 3-worker scenarios exhaustive in the thorough tier (quick: first 400 DFS schedules + 300 random walks); map emptiness at quiescence is not observable through the public API and not judged")
}
