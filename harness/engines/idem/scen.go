package idem

import (
	"bytes"
	"fmt"
	"strconv"
	"strings"
	"time"

	"github.com/gofiber/fiber/v3"
	"github.com/gofiber/fiber/v3/middleware/idempotency"
	"github.com/valyala/fasthttp"

	"verifharness/internal/drive"
	"verifharness/internal/sched"
	"verifharness/internal/vstore"
)

// ---------------------------------------------------------------------------------------------
// scenario: what is sent, how the app is configured. Everything the oracle needs is kept here
// or recorded at the boundaries; nothing is inferred from fiber's behaviour.

const (
	errStatus = 599 // status written by the harness' ErrorHandler; no response shape uses it
	keyHeader = "X-Idempotency-Key"
	reqHeader = "X-Req"
)

// Idempotency keys are opaque strings: two different strings are two keys, however close.
// keyPool: 36 characters, as the default KeyHeaderValidate demands; A, B, C differ in the last
// character only.
var keyPool = []string{
	"abcdef00-0000-4000-8000-00c0ffee000a",
	"abcdef00-0000-4000-8000-00c0ffee000b",
	"abcdef00-0000-4000-8000-00c0ffee000c",
}

// nearKeys are other keys that are as close to A as a different string can be (still 36
// characters). anyKeys need a KeyHeaderValidate that accepts every non-empty key (scenario.AnyKey).
var nearKeys = []string{
	"ABCDEF00-0000-4000-8000-00C0FFEE000A", // A in upper case
	"abcdef00-0000-4000-8000-00c0ffee000A", // one letter of A in the other case
	"bbcdef00-0000-4000-8000-00c0ffee000a", // first character differs
	"abcdef00-0000-4000-8000-01c0ffee000a", // a middle character differs
	"abcdef00-0000-4000-8000-00c0ffee000b", // last character differs (= B)
	"Abcdef00-0000-4000-8000-00c0ffee000a", // first letter in the other case
}

var anyKeys = []string{
	"abcdef00-0000-4000-8000-00c0ffee000",   // proper prefix of A
	"abcdef00-0000-4000-8000-00c0ffee000a0", // extension of A
	"abcdef00-0000-4000-8000-00c0ffee000aa", // extension by its own last character
	"k", "K", "k1", "tok_AbC", "tok_aBc",
}

// keyRelation names how two different key strings are related (signature input class).
func keyRelation(a, b string) string {
	switch {
	case a == b:
		return "same"
	case strings.EqualFold(a, b):
		return "case-variant"
	case strings.HasPrefix(a, b) || strings.HasPrefix(b, a):
		return "prefix"
	case strings.TrimSpace(a) == strings.TrimSpace(b):
		return "surrounding-whitespace"
	case len(a) == len(b):
		diff, at := 0, 0
		for i := range a {
			if a[i] != b[i] {
				diff++
				at = i
			}
		}
		if diff == 1 {
			switch at {
			case 0:
				return "one-char-first"
			case len(a) - 1:
				return "one-char-last"
			}
			return "one-char-middle"
		}
	}
	return "unrelated"
}

func keyLabel(k string) string {
	for j, p := range keyPool {
		if k == p {
			return string(rune('A' + j))
		}
	}
	for j, p := range nearKeys {
		if k == p {
			return "near" + strconv.Itoa(j)
		}
	}
	for j, p := range anyKeys {
		if k == p {
			return "any" + strconv.Itoa(j)
		}
	}
	for j, p := range malformedKeys {
		if k == p {
			return "bad" + strconv.Itoa(j)
		}
	}
	if k == "" {
		return "-"
	}
	return "?"
}

type reqSpec struct {
	Method string `json:"method"`
	Key    string `json:"key,omitempty"`
	// Skip: the request carries X-Skip: 1 and the scenario's custom Config.Next exempts it.
	Skip bool `json:"skip,omitempty"`
}

const skipHeader = "X-Skip"

// malformedKeys are rejected by the default KeyHeaderValidate (exactly 36 characters). A request
// that the middleware must not touch (safe method, exempted by Next) is unaffected by what its
// key header contains.
var malformedKeys = []string{
	"abc",
	"abcdef00-0000-4000-8000-00c0ffee000",   // 35
	"abcdef00-0000-4000-8000-00c0ffee000a0", // 37
	"not a key at all, just some text that happens to be in the header, longer than a UUID ................",
	"0",
}

func wellFormed(k string) bool { return len(k) == 36 }

func safeMethod(m string) bool {
	switch m {
	case "GET", "HEAD", "OPTIONS", "TRACE":
		return true
	}
	return false
}

// keyed: the request is subject to the middleware (unsafe method and a key).
func (r reqSpec) keyed() bool { return r.Key != "" && !safeMethod(r.Method) && !r.Skip }

func (r reqSpec) class() string {
	switch {
	case r.keyed():
		return "keyed"
	case r.Skip:
		return "next-exempted"
	case r.Key == "":
		return "keyless"
	default:
		return "safe-method"
	}
}

type scenario struct {
	Reqs []reqSpec `json:"reqs"`
	// Workers lists the request indices each worker sends in sequence. nil = one worker per request.
	Workers   [][]int       `json:"workers,omitempty"`
	Keep      []string      `json:"keep"` // nil = keep all
	ShapeBase int           `json:"shape_base"`
	FailFirst bool          `json:"fail_first,omitempty"` // first execution for every key returns an error
	Upstream  bool          `json:"upstream,omitempty"`   // a middleware in front sets constant response headers
	Split     bool          `json:"split,omitempty"`      // fiber.Config.EnableSplittingOnParsers
	Lifetime  time.Duration `json:"lifetime,omitempty"`
	MemStore  bool          `json:"mem_store,omitempty"` // nil Storage: the default in-memory storage
	AnyKey    bool          `json:"any_key,omitempty"`   // KeyHeaderValidate accepts every non-empty key
	// ReuseCtx: every worker is one keep-alive connection: its requests are served one after the
	// other on ONE fasthttp.RequestCtx, whose header buffers the next request overwrites (what
	// fasthttp does per connection; fiber's default Immutable=false hands out strings into them).
	ReuseCtx bool `json:"reuse_ctx,omitempty"`
	// ConstResp: every execution answers identically (same shape, values of execution 0), as a
	// handler does that gives the same answer to the same request. Executions are still told
	// apart by their handler-entry events; answers no longer identify their execution.
	ConstResp bool `json:"const_resp,omitempty"`
}

func (sc *scenario) workers() [][]int {
	if sc.Workers != nil {
		return sc.Workers
	}
	w := make([][]int, len(sc.Reqs))
	for i := range sc.Reqs {
		w[i] = []int{i}
	}
	return w
}

func (sc *scenario) desc() string {
	var sb strings.Builder
	for i, r := range sc.Reqs {
		if i > 0 {
			sb.WriteByte(' ')
		}
		sb.WriteString(r.Method + ":" + keyLabel(r.Key))
		if r.Skip {
			sb.WriteString("/skip")
		}
	}
	fmt.Fprintf(&sb, " keep=%v base=%d", sc.Keep != nil, sc.ShapeBase)
	if sc.FailFirst {
		sb.WriteString(" failfirst")
	}
	if sc.Upstream {
		sb.WriteString(" upstream")
	}
	if sc.Split {
		sb.WriteString(" split")
	}
	if sc.MemStore {
		sb.WriteString(" memstore")
	}
	if sc.AnyKey {
		sb.WriteString(" anykey")
	}
	if sc.ReuseCtx {
		sb.WriteString(" reusectx")
	}
	if sc.ConstResp {
		sb.WriteString(" constresp")
	}
	if sc.Keep != nil {
		fmt.Fprintf(&sb, " keep%d", len(sc.Keep))
	}
	if sc.Workers != nil {
		fmt.Fprintf(&sb, " workers=%v", sc.Workers)
	}
	return sb.String()
}

// keepList is the configured KeepResponseHeaders variant (mixed case on purpose: the middleware
// documents a list of header names, header names are case-insensitive). X-Drop is not kept.
var keepList = []string{"x-exec", "X-MULTI", "Set-Cookie", "Content-Type", "X-Comma", "Location"}

// keepNone lists only names no response of this harness carries: the record of an execution is
// its status and body alone. keepCT keeps the one header every response has. keepEvery lists
// every name the handlers write.
var (
	keepNone  = []string{"X-Absent", "x-never-set"}
	keepCT    = []string{"content-type"}
	keepEvery = []string{"X-Exec", "X-Drop", "X-Multi", "Set-Cookie", "Content-Type", "X-Comma", "Location"}
)

// ---------------------------------------------------------------------------------------------
// response shapes: every execution n produces values that embed n, so a response identifies
// the execution it came from.

type shape struct {
	name   string
	status int
	body   func(n int) []byte
	hdr    func(n int) []drive.H
	send   bool // call c.Send even for an empty body
	stream bool // body through c.SendStream
	cookie bool // additionally c.Cookie(...) (serialised by fiber; not part of the planned list)
}

func h(k, v string) drive.H { return drive.H{K: k, V: v} }

var shapes = []shape{
	{name: "plain", status: 200,
		body: func(n int) []byte { return []byte("body-" + strconv.Itoa(n)) },
		hdr: func(n int) []drive.H {
			return []drive.H{h("X-Exec", strconv.Itoa(n)), h("X-Drop", "d"+strconv.Itoa(n))}
		}},
	{name: "multi", status: 201,
		body: func(n int) []byte { return []byte("created-" + strconv.Itoa(n)) },
		hdr: func(n int) []drive.H {
			s := strconv.Itoa(n)
			return []drive.H{h("X-Exec", s), h("X-Multi", "a"+s), h("X-Multi", "b"+s), h("X-Multi", "a"+s)}
		}},
	{name: "nocontent", status: 204,
		body: func(int) []byte { return nil },
		hdr:  func(n int) []drive.H { return []drive.H{h("X-Exec", strconv.Itoa(n))} }},
	{name: "cookies-empty-body", status: 200, send: true,
		body: func(int) []byte { return nil },
		hdr: func(n int) []drive.H {
			s := strconv.Itoa(n)
			return []drive.H{h("X-Exec", s),
				h("Set-Cookie", "sid=e"+s+"; Path=/; HttpOnly"),
				h("Set-Cookie", "pref=p"+s+"; Expires=Wed, 21 Oct 2015 07:28:00 GMT"),
				h("Set-Cookie", "sid=f"+s+"; Path=/x")}
		}},
	{name: "json", status: 202,
		body: func(n int) []byte { return []byte(`{"exec":` + strconv.Itoa(n) + `}`) },
		hdr: func(n int) []drive.H {
			return []drive.H{h("Content-Type", "application/json"), h("X-Exec", strconv.Itoa(n))}
		}},
	{name: "handled-500", status: 500,
		body: func(n int) []byte { return []byte("handled-failure-" + strconv.Itoa(n)) },
		hdr:  func(n int) []drive.H { return []drive.H{h("X-Exec", strconv.Itoa(n))} }},
	{name: "binary-comma", status: 200,
		body: func(n int) []byte { return []byte("\x00\xffbin\r\n-" + strconv.Itoa(n)) },
		hdr: func(n int) []drive.H {
			s := strconv.Itoa(n)
			return []drive.H{h("X-Exec", s), h("X-Comma", "a, b,c-"+s), h("X-Multi", "x,y-"+s), h("X-Multi", "")}
		}},
	{name: "stream", status: 200, stream: true,
		body: func(n int) []byte { return []byte("streamed-" + strconv.Itoa(n)) },
		hdr:  func(n int) []drive.H { return []drive.H{h("X-Exec", strconv.Itoa(n))} }},
	{name: "api-cookie", status: 200, cookie: true,
		body: func(n int) []byte { return []byte("cookie-" + strconv.Itoa(n)) },
		hdr:  func(n int) []drive.H { return []drive.H{h("X-Exec", strconv.Itoa(n))} }},
	{name: "bare-201", status: 201,
		body: func(int) []byte { return nil },
		hdr:  func(n int) []drive.H { return []drive.H{h("X-Exec", strconv.Itoa(n))} }},
	{name: "empty-404", status: 404,
		body: func(int) []byte { return nil },
		hdr:  func(n int) []drive.H { return []drive.H{h("X-Exec", strconv.Itoa(n)), h("X-Drop", "gone")} }},
	{name: "redirect", status: 303,
		body: func(int) []byte { return nil },
		hdr: func(n int) []drive.H {
			s := strconv.Itoa(n)
			return []drive.H{h("X-Exec", s), h("Location", "/done/"+s)}
		}},
}

func shapeIndex(name string) int {
	for i, sh := range shapes {
		if sh.name == name {
			return i
		}
	}
	panic("harness: unknown shape " + name)
}

// upstream middleware's constant contribution
var upstreamHdr = []drive.H{h("X-Upstream", "u1"), h("Set-Cookie", "up=1; Path=/")}

// ---------------------------------------------------------------------------------------------
// the record of one execution of the scenario (one schedule, one fault plan)

type execRec struct {
	N      int       `json:"n"`
	Req    int       `json:"req"`
	Key    string    `json:"-"`
	Shape  string    `json:"shape"`
	Fail   bool      `json:"fail,omitempty"`
	Exited bool      `json:"exited"`
	Entry  int64     `json:"entry"`
	Exit   int64     `json:"exit"`
	At     time.Time `json:"-"` // virtual instant of the exit
	status int
	body   []byte
	hdr    []drive.H
	cookie bool
}

type opRec struct {
	Kind  string `json:"k"`
	Found bool   `json:"found,omitempty"`
	Err   bool   `json:"err,omitempty"`
}

type reqRec struct {
	reqSpec
	Idx     int         `json:"idx"`
	Entries []int       `json:"entries,omitempty"` // executions (indices into run.execs) run for this request
	Errored bool        `json:"errored,omitempty"`
	ErrMsg  string      `json:"err,omitempty"`
	Ops     []opRec     `json:"ops,omitempty"`
	Call    int64       `json:"call"`
	Ret     int64       `json:"ret"`
	Resp    *drive.Resp `json:"-"`
	// fault injected into a call made by this request: "get1" (fast path), "get2" (re-check),
	// "lock", "set", "unlock"
	Faulted string `json:"faulted,omitempty"`
	gets    int
}

type faultPlan struct {
	Kind string `json:"kind"` // get lock set unlock unlockerr getdata ("" = none)
	N    int    `json:"n"`
	// getdata: the Get calls number N .. N+Span-1 succeed but, when a record is stored under the
	// key, return it damaged in the way Data says (a miss stays a miss).
	Data string `json:"data,omitempty"`
	Span int    `json:"span,omitempty"`
}

func (p faultPlan) String() string {
	if p.Kind == "" {
		return "none"
	}
	s := p.Kind + "#" + strconv.Itoa(p.N)
	if p.Kind == "getdata" {
		s += "/" + p.Data
		if p.Span > 1 {
			s += "x" + strconv.Itoa(p.Span)
		}
	}
	return s
}

// dataModes: how a stored record is damaged. Every mode but "garbage" yields bytes that are not
// a complete record (any proper prefix of the encoding lacks part of its last field; 0xc1 is the
// one byte MessagePack never uses); trailing garbage leaves a record that still decodes to the
// same response, i.e. no fault at all for the reader. Damage that decodes to a DIFFERENT valid
// response (a flipped body byte, another key's record) is indistinguishable from a genuine
// record without a checksum and is not injected.
var dataModes = []string{"trunc-half", "badfirst", "trunc-1", "trunc-last", "trunc-head", "garbage"}

func damage(mode string, rec []byte) []byte {
	cut := func(n int) []byte {
		if n < 1 {
			n = 1
		}
		if n >= len(rec) {
			n = len(rec) - 1
		}
		return append([]byte(nil), rec[:n]...)
	}
	switch mode {
	case "trunc-1":
		return cut(1)
	case "trunc-head":
		return cut(5)
	case "trunc-half":
		return cut(len(rec) / 2)
	case "trunc-last":
		return cut(len(rec) - 1)
	case "badfirst":
		out := append([]byte(nil), rec...)
		out[0] = 0xc1
		return out
	default: // garbage
		return append(append([]byte(nil), rec...), 0xc1, 0xff, 0x00, 'x')
	}
}

type run struct {
	sc       *scenario
	plan     faultPlan
	s        *sched.Sched
	vs       *vstore.Store
	lk       *vstore.Locker
	probe    *probeLock
	d        *drive.Direct
	clock    int64
	execs    []*execRec
	reqs     []*reqRec
	keyExecs map[string]int
	cur      map[int]int // worker index (-1 without scheduler) -> request it is sending
	flags    []finding   // monitor findings raised while running (lock probe)
	out      *sched.Outcome
	ctxs     map[int]*fasthttp.RequestCtx
	fired    bool // the planned fault hit a call
	damaged  int  // Get calls that returned a damaged record
}

func (r *run) curReq() int {
	wi := -1
	if r.s != nil {
		wi = r.s.WorkerIndex()
	}
	return r.cur[wi]
}

func (r *run) yield(p string) {
	if r.s != nil {
		r.s.Yield(p)
	}
}

// boundary wraps a storage / lock call site: logical clock on arrival and on release.
func (r *run) boundary(kind, point string) {
	r.clock++
	r.yield(point)
	r.clock++
	// Exactly one worker runs between two boundaries, so the order of releases is the order in
	// which the fault counters of vstore are incremented: this call is number r.nth(kind).
	rq := r.reqs[r.curReq()]
	n := 0
	for _, q := range r.reqs {
		for _, o := range q.Ops {
			if o.Kind == kind {
				n++
			}
		}
	}
	n++ // this call
	hit := (r.plan.Kind == kind || r.plan.Kind == "unlockerr" && kind == "unlock") && r.plan.N == n
	rq.Ops = append(rq.Ops, opRec{Kind: kind, Err: hit})
	if kind == "get" {
		rq.gets++
	}
	if hit {
		r.fired = true
		switch kind {
		case "get":
			rq.Faulted = "get" + strconv.Itoa(rq.gets)
		default:
			rq.Faulted = kind
		}
	}
	if kind == "get" && r.plan.Kind == "getdata" && r.vs != nil {
		span := r.plan.Span
		if span < 1 {
			span = 1
		}
		if n >= r.plan.N && n < r.plan.N+span {
			// the middleware stores under the key string itself; damage what is there right now
			if rec, ok := r.vs.Peek(rq.Key); ok && len(rec) > 1 {
				r.vs.Faults = []vstore.Fault{{Kind: "get", N: n, Corrupt: damage(r.plan.Data, rec)}}
				r.fired = true
				rq.Faulted = "getdata" + strconv.Itoa(rq.gets)
				r.damaged++
			}
		}
	}
}

func newRun(sc *scenario, plan faultPlan, s *sched.Sched) *run {
	r := &run{sc: sc, plan: plan, s: s, keyExecs: map[string]int{}, cur: map[int]int{}, ctxs: map[int]*fasthttp.RequestCtx{}}
	for i, q := range sc.Reqs {
		r.reqs = append(r.reqs, &reqRec{reqSpec: q, Idx: i})
	}
	cfg := idempotency.Config{Lifetime: sc.Lifetime}
	if sc.Keep != nil {
		cfg.KeepResponseHeaders = sc.Keep
	}
	if sc.AnyKey {
		cfg.KeyHeaderValidate = func(string) error { return nil }
	}
	for _, q := range sc.Reqs {
		if q.Skip {
			// custom Next: exempts marked requests in addition to the default rule
			cfg.Next = func(c fiber.Ctx) bool { return c.Get(skipHeader) == "1" || fiber.IsMethodSafe(c.Method()) }
			break
		}
	}
	if !sc.MemStore {
		r.vs = vstore.New()
		r.vs.Yield = func(p string) { r.boundary(strings.TrimPrefix(p, "storage."), p) }
		r.vs.AfterOp = func(op vstore.Op) {
			rq := r.reqs[r.curReq()]
			if n := len(rq.Ops); n > 0 && rq.Ops[n-1].Kind == op.Kind {
				if rq.Ops[n-1].Err != op.Err {
					panic("harness: fault attribution out of step with vstore's call counter")
				}
				rq.Ops[n-1].Found = op.Found
			}
		}
		if plan.Kind == "get" || plan.Kind == "set" {
			r.vs.Faults = []vstore.Fault{{Kind: plan.Kind, N: plan.N}}
		}
		cfg.Storage = r.vs
	}
	r.probe = &probeLock{r: r, inner: idempotency.NewMemoryLock(), holder: map[string]int{}}
	r.lk = vstore.NewLocker(r.probe)
	r.lk.Yield = func(p string) { r.boundary(p, p) }
	if plan.Kind == "lock" || plan.Kind == "unlock" {
		r.lk.Faults = []vstore.Fault{{Kind: plan.Kind, N: plan.N}}
	}
	cfg.Lock = r.lk

	app := fiber.New(fiber.Config{
		EnableSplittingOnParsers: sc.Split,
		ErrorHandler: func(c fiber.Ctx, err error) error {
			if ri, e2 := strconv.Atoi(c.Get(reqHeader)); e2 == nil && ri >= 0 && ri < len(r.reqs) {
				r.reqs[ri].Errored = true
				r.reqs[ri].ErrMsg = err.Error()
			}
			return c.Status(errStatus).SendString("ERR")
		},
	})
	if sc.Upstream {
		app.Use(func(c fiber.Ctx) error {
			for _, x := range upstreamHdr {
				c.RequestCtx().Response.Header.Add(x.K, x.V)
			}
			return c.Next()
		})
	}
	app.Use(idempotency.New(cfg))
	app.All("/", r.handler)
	r.d = drive.NewDirect(app)
	return r
}

// handler is the protected downstream handler.
func (r *run) handler(c fiber.Ctx) error {
	ri, err := strconv.Atoi(c.Get(reqHeader))
	if err != nil || ri < 0 || ri >= len(r.reqs) {
		panic("harness: request without index reached the handler")
	}
	rq := r.reqs[ri]
	n := len(r.execs)
	ex := &execRec{N: n, Req: ri}
	if rq.keyed() {
		ex.Key = rq.Key
		ord := r.keyExecs[rq.Key]
		r.keyExecs[rq.Key]++
		ex.Fail = r.sc.FailFirst && ord == 0
	}
	sh := shapes[(r.sc.ShapeBase+n)%len(shapes)]
	val := n
	if r.sc.ConstResp {
		sh, val = shapes[r.sc.ShapeBase%len(shapes)], 0
	}
	ex.Shape = sh.name
	r.clock++
	ex.Entry = r.clock
	r.execs = append(r.execs, ex)
	rq.Entries = append(rq.Entries, n)
	r.yield("handler.entry")
	if !ex.Fail {
		ex.status, ex.body, ex.hdr = sh.status, sh.body(val), sh.hdr(val)
		c.Status(ex.status)
		for _, x := range ex.hdr {
			c.RequestCtx().Response.Header.Add(x.K, x.V)
		}
		if sh.cookie {
			ex.cookie = true
			c.Cookie(&fiber.Cookie{Name: "tok", Value: "v" + strconv.Itoa(val), Path: "/p", Expires: time.Unix(2000000000, 0), HTTPOnly: true})
			c.Cookie(&fiber.Cookie{Name: "tok2", Value: "w" + strconv.Itoa(val), SameSite: "Strict"})
		}
		switch {
		case sh.stream:
			if err := c.SendStream(bytes.NewReader(ex.body)); err != nil {
				panic("harness: SendStream failed: " + err.Error())
			}
		case len(ex.body) > 0 || sh.send:
			if err := c.Send(ex.body); err != nil {
				panic("harness: Send failed: " + err.Error())
			}
		}
	}
	r.clock++
	ex.Exit = r.clock
	ex.Exited = true
	ex.At = time.Now()
	r.yield("handler.exit")
	if ex.Fail {
		return fiber.NewError(fiber.StatusServiceUnavailable, "planned handler failure")
	}
	return nil
}

// send performs request ri on the calling goroutine.
func (r *run) send(wi, ri int) {
	r.cur[wi] = ri
	rq := r.reqs[ri]
	r.clock++
	rq.Call = r.clock
	hdr := []drive.H{{K: reqHeader, V: strconv.Itoa(ri)}}
	if rq.Key != "" {
		hdr = append(hdr, drive.H{K: keyHeader, V: rq.Key})
	}
	if rq.Skip {
		hdr = append(hdr, drive.H{K: skipHeader, V: "1"})
	}
	var resp *drive.Resp
	if r.sc.ReuseCtx {
		fctx := r.ctxs[wi]
		if fctx == nil {
			fctx = &fasthttp.RequestCtx{}
			r.ctxs[wi] = fctx
		}
		// what fasthttp's connection loop does between two requests of a connection
		fctx.Response.Reset()
		fctx.ResetUserValues()
		resp = r.d.DoCtx(fctx, &drive.Req{Method: rq.Method, URI: "/", Hdr: hdr})
	} else {
		resp = r.d.Do(&drive.Req{Method: rq.Method, URI: "/", Hdr: hdr})
	}
	r.clock++
	rq.Ret = r.clock
	rq.Resp = resp
}

// play runs all workers under the scheduler with the given chooser.
func (r *run) play(ch sched.Chooser) *sched.Outcome {
	for wi, list := range r.sc.workers() {
		wi, list := wi, list
		r.s.Go("w"+strconv.Itoa(wi), func() {
			for _, ri := range list {
				r.send(wi, ri)
			}
		})
	}
	r.out = r.s.Run(ch)
	return r.out
}

// ---------------------------------------------------------------------------------------------
// lock probe: sits between vstore.Locker and the real MemoryLock.

type probeLock struct {
	r       *run
	inner   idempotency.Locker
	holder  map[string]int
	unlocks int
}

func (p *probeLock) Lock(key string) error {
	own := strings.Clone(key) // the probe's bookkeeping never shares memory with the request
	_, held := p.holder[own]
	t0 := p.r.clock
	err := p.inner.Lock(key)
	if err != nil {
		return err
	}
	if !held && p.r.clock != t0 {
		// nobody held this key when the call was made, yet other workers ran before it returned
		p.r.flags = append(p.r.flags, finding{"lock|blocked-without-holder", "MemoryLock.Lock(" + own + ") blocked although no request held that key"})
	}
	if _, two := p.holder[own]; two {
		p.r.flags = append(p.r.flags, finding{"mutual-exclusion|middleware-lock", "MemoryLock.Lock(" + own + ") returned while another request holds the key"})
	}
	p.holder[own] = p.r.curReq()
	return nil
}

func (p *probeLock) Unlock(key string) error {
	delete(p.holder, key)
	err := p.inner.Unlock(key)
	p.unlocks++
	if p.r.plan.Kind == "unlockerr" && p.r.plan.N == p.unlocks {
		return vstore.ErrInjected // released, but the caller is told it failed
	}
	return err
}
