package idem

import (
	"time"

	"verifharness/internal/ev"
	"verifharness/internal/sched"
)

// Fixed regression corpus: the canonical (smallest) witnesses of everything this engine is
// aimed at, independent of the seed.
func corpus(e *ev.Env, w *witnesses) {
	seq := func(reqs ...reqSpec) scenario {
		idx := make([]int, len(reqs))
		for i := range idx {
			idx[i] = i
		}
		return scenario{Reqs: reqs, Workers: [][]int{idx}}
	}
	all := func(name string, sc scenario, plan faultPlan) {
		e.Corpus(name, func(c *ev.Case) {
			var t tally
			ctx := "concurrent-duplicates"
			if len(sc.workers()) == 1 {
				ctx = "sequential-duplicates"
			}
			sched.DFS(0, func(ch sched.Chooser) *sched.Outcome {
				return w.one(c, &sc, plan, judgeOpts{doubleCtx: ctx, linz: plan.Kind == ""}, ch, &t)
			})
			t.flush(e, "corpus")
		})
	}
	// sanity: a sequential duplicate is replayed, for every response shape and both keep configs
	for b := 0; b < len(shapes); b++ {
		sc := seq(dup("POST"), dup("POST"), dup("PUT"))
		sc.ShapeBase = b
		all("seq-replay-shape-"+shapes[b].name, sc, faultPlan{})
		sc.Keep = keepList
		all("seq-replay-keep-shape-"+shapes[b].name, sc, faultPlan{})
		// KeepResponseHeaders matching none of the response's headers: the record is status + body
		sc.Keep = keepNone
		all("seq-replay-keepnone-shape-"+shapes[b].name, sc, faultPlan{})
		sc.Keep = keepEvery
		all("seq-replay-keepevery-shape-"+shapes[b].name, sc, faultPlan{})
	}
	// H1 of DESIGN 3.C17: Storage.Set fails after the handler completed; the retry executes again
	all("set-fault-then-retry", seq(dup("POST"), dup("POST")), faultPlan{Kind: "set", N: 1})
	// fault clause
	all("lock-fault-then-retry", seq(dup("POST"), dup("POST")), faultPlan{Kind: "lock", N: 1})
	all("get-fault-then-retry", seq(dup("POST"), dup("POST")), faultPlan{Kind: "get", N: 1})
	all("recheck-get-fault-then-retry", seq(dup("POST"), dup("POST")), faultPlan{Kind: "get", N: 2})
	all("unlock-fault-then-retry", seq(dup("POST"), dup("POST")), faultPlan{Kind: "unlock", N: 1})
	// the record comes back undecodable for the second request (both of its lookups), healthy
	// again for the third; and damaged only at the re-check of a concurrent duplicate
	for _, m := range dataModes {
		all("undecodable-record-then-retry-"+m, seq(dup("POST"), dup("POST"), dup("PUT")), faultPlan{Kind: "getdata", N: 2, Data: m, Span: 2})
	}
	all("undecodable-record-at-recheck", scenario{Reqs: pairs[0], ShapeBase: 1}, faultPlan{Kind: "getdata", N: 4, Data: "trunc-half", Span: 1})
	all("undecodable-record-at-recheck-3", scenario{Reqs: pairs[0], ShapeBase: 2}, faultPlan{Kind: "getdata", N: 3, Data: "badfirst", Span: 1})
	// H2: replay adds recorded headers on top of what is already on the response
	up := seq(dup("POST"), dup("POST"))
	up.Upstream = true
	all("upstream-headers-then-replay", up, faultPlan{})
	up.Keep = keepList
	all("upstream-headers-then-replay-keep", up, faultPlan{})
	// two concurrent duplicates, all schedules; first execution failing
	all("two-duplicates", scenario{Reqs: pairs[0]}, faultPlan{})
	all("two-duplicates-first-fails", scenario{Reqs: pairs[0], FailFirst: true}, faultPlan{})
	// near keys: different strings are different keys, each gets its own execution and its own
	// replay, sequentially (each key twice, interleaved) and with all schedules of two requests
	{
		var reqs []reqSpec
		for _, k := range append([]string{keyPool[0]}, nearKeys...) {
			reqs = append(reqs, keyedReq("POST", k))
		}
		for _, k := range append([]string{keyPool[0]}, nearKeys...) {
			reqs = append(reqs, keyedReq("PUT", k))
		}
		all("near-keys-sequential", seq(reqs...), faultPlan{})
		reqs = nil
		for _, k := range append([]string{keyPool[0]}, anyKeys...) {
			reqs = append(reqs, keyedReq("POST", k))
		}
		for _, k := range append([]string{keyPool[0]}, anyKeys...) {
			reqs = append(reqs, keyedReq("PATCH", k))
		}
		sc := seq(reqs...)
		sc.AnyKey = true
		all("near-keys-sequential-custom-validator", sc, faultPlan{})
		sc.Keep, sc.ShapeBase = keepList, 3
		all("near-keys-sequential-custom-validator-keep", sc, faultPlan{})
		mem := seq(keyedReq("POST", keyPool[0]), keyedReq("POST", nearKeys[0]), keyedReq("POST", nearKeys[1]), keyedReq("POST", keyPool[0]), keyedReq("POST", nearKeys[0]))
		mem.MemStore = true
		all("near-keys-sequential-memory-storage", mem, faultPlan{})
	}
	// requests the middleware must leave alone: safe methods and requests exempted by a custom
	// Next, with no key, a valid key (recorded or not) and malformed key headers
	{
		reqs := []reqSpec{dup("POST"), dup("POST")}
		for i, k := range malformedKeys {
			reqs = append(reqs, keyedReq([]string{"GET", "OPTIONS", "HEAD"}[i%3], k))
		}
		reqs = append(reqs, safeKeyed("GET"), keyedReq("GET", keyPool[1]))
		all("safe-methods-with-any-key-header", seq(reqs...), faultPlan{})
		reqs = []reqSpec{dup("POST"), {Method: "POST", Key: keyPool[0], Skip: true}, dup("PUT")}
		for _, k := range malformedKeys {
			reqs = append(reqs, reqSpec{Method: "POST", Key: k, Skip: true})
		}
		reqs = append(reqs, reqSpec{Method: "DELETE", Skip: true}, reqSpec{Method: "PATCH", Key: keyPool[1], Skip: true}, keyedReq("GET", malformedKeys[0]))
		sk := seq(reqs...)
		all("next-exempted-with-any-key-header", sk, faultPlan{})
		sk.Keep, sk.ShapeBase, sk.MemStore = keepList, 4, true
		all("next-exempted-with-any-key-header-memory-storage", sk, faultPlan{})
	}
	// keep-alive: the connection that carried the first request of key A goes on with another
	// key while a duplicate of A is still pending (all schedules of the small scenario)
	all("connection-goes-on-with-another-key", scenario{Reqs: []reqSpec{dup("POST"), dup("POST"), other("POST")}, Workers: [][]int{{0, 2}, {1}}, ReuseCtx: true}, faultPlan{})
	// harness self-check: sharding a schedule tree by a prefix of choices neither loses nor
	// duplicates schedules (same set of interleavings as the unsharded DFS)
	e.Corpus("selfcheck-prefix-sharding", func(c *ev.Case) {
		sc := scenario{Reqs: pairs[0], FailFirst: true}
		var t tally
		full := map[string]int{}
		sched.DFS(0, func(ch sched.Chooser) *sched.Outcome {
			out := w.one(c, &sc, faultPlan{}, judgeOpts{doubleCtx: "concurrent-duplicates", linz: true}, ch, &t)
			full[out.Key()]++
			return out
		})
		parts := map[string]int{}
		for p := 0; p < 8; p++ {
			dfsPrefix([]int{p / 4, (p / 2) % 2, p % 2}, 0, func(ch sched.Chooser) *sched.Outcome {
				out := w.one(c, &sc, faultPlan{}, judgeOpts{doubleCtx: "concurrent-duplicates", linz: true}, ch, &t)
				parts[out.Key()]++
				return out
			})
		}
		ok := len(full) == len(parts)
		for k, n := range full {
			if n != 1 || parts[k] != 1 {
				ok = false
			}
		}
		t.flush(e, "corpus")
		e.Stat("selfcheck.prefix_sharding_schedules", int64(len(full)))
		if !ok {
			e.Inconclusive("harness self-check failed: prefix-sharded DFS does not enumerate exactly the schedules of the full DFS")
		}
	})
	// the key comes back after its lifetime with the SAME answer (bytes already stored), then
	// duplicates inside the new lifetime; default memory storage and vstore
	for _, mem := range []bool{true, false} {
		for _, L := range []time.Duration{time.Second, 3 * time.Second, 8 * time.Second} {
			mem, L := mem, L
			name := "lifetime-same-answer-after-expiry-" + L.String()
			if mem {
				name += "-memory"
			}
			e.Corpus(name, func(c *ev.Case) {
				lifetimeCase(e, w, c, &lifeFixed{
					sc: scenario{Reqs: []reqSpec{dup("POST"), dup("POST"), dup("POST"), dup("PUT"), dup("POST"), dup("POST")},
						Lifetime: L, MemStore: mem, ConstResp: true, Keep: keepNone},
					advs: []time.Duration{0, 0, L + time.Second, 0, L - time.Second, L + time.Second},
				})
			})
		}
	}
	// lifetime: replay inside, re-execution allowed outside, both backends
	for _, mem := range []bool{false, true} {
		name := "lifetime-vstore"
		if mem {
			name = "lifetime-memory"
		}
		mem := mem
		e.Corpus(name, func(c *ev.Case) {
			lifetimeCase(e, w, c, &lifeFixed{
				sc:   scenario{Reqs: []reqSpec{dup("POST"), dup("POST"), dup("PUT"), dup("POST"), dup("POST")}, Lifetime: 3 * time.Second, MemStore: mem},
				advs: []time.Duration{0, time.Second, time.Second, 2 * time.Second, 2 * time.Second},
			})
		})
	}
}
