package idem

import (
	"fmt"

	"verifharness/internal/ev"
	"verifharness/internal/sched"
)

// The `faults` family (level fault_enumeration): every single fault — the n-th Storage.Get,
// Locker.Lock, Storage.Set or Locker.Unlock call fails — combined with every schedule of two
// concurrent requests, and with sequential retries. Which request a fault hits follows from the
// schedule and is recorded at the boundary (run.boundary).
//
// Judged: a request whose Lock, fast-path Get or re-check Get failed is answered with an error
// and the handler is never entered for it; at-most-once and answer equality hold as in the
// fault-free families (a double execution after a fault gets the fault kind in its signature);
// no deadlock except behind an injected Unlock failure (the wrapper keeps the inner lock held).

type faultScenario struct {
	name  string
	sc    scenario
	quick bool
}

var faultScenarios = []faultScenario{
	{"seq2", scenario{Reqs: []reqSpec{dup("POST"), dup("POST")}, Workers: [][]int{{0, 1}}}, true},
	{"seq3", scenario{Reqs: []reqSpec{dup("POST"), dup("POST"), dup("PUT")}, Workers: [][]int{{0, 1, 2}}, ShapeBase: 1}, true},
	{"conc-dup-dup", scenario{Reqs: []reqSpec{dup("POST"), dup("POST")}, ShapeBase: 3}, true},
	{"conc-dup-other", scenario{Reqs: []reqSpec{dup("POST"), other("POST")}, ShapeBase: 6}, false},
	{"conc-dup-keyless", scenario{Reqs: []reqSpec{dup("POST"), keyless("POST")}, ShapeBase: 4}, true},
	{"conc-dup-dup-keep", scenario{Reqs: []reqSpec{dup("PATCH"), dup("DELETE")}, ShapeBase: 1, Keep: keepList}, false},
	{"conc-dup-dup-failfirst", scenario{Reqs: []reqSpec{dup("POST"), dup("POST")}, ShapeBase: 2, FailFirst: true}, true},
	{"seq2+conc", scenario{Reqs: []reqSpec{dup("POST"), dup("POST"), dup("POST")}, Workers: [][]int{{0, 1}, {2}}, ShapeBase: 5}, true},
	// thorough only
	{"conc-dup-dup-dup", scenario{Reqs: []reqSpec{dup("POST"), dup("POST"), dup("POST")}, ShapeBase: 7}, false},
}

func faultPlans() []faultPlan {
	ps := []faultPlan{{}}
	for n := 1; n <= 6; n++ {
		ps = append(ps, faultPlan{Kind: "get", N: n})
	}
	for _, k := range []string{"lock", "set", "unlock", "unlockerr"} {
		for n := 1; n <= 3; n++ {
			ps = append(ps, faultPlan{Kind: k, N: n})
		}
	}
	// data faults: the call succeeds, the record comes back damaged
	for n := 1; n <= 4; n++ {
		for _, m := range dataModes[:2] {
			ps = append(ps, faultPlan{Kind: "getdata", N: n, Data: m, Span: 1})
		}
	}
	for n := 2; n <= 3; n++ {
		for _, m := range dataModes[2:] {
			ps = append(ps, faultPlan{Kind: "getdata", N: n, Data: m, Span: 1})
		}
		for _, m := range []string{"trunc-half", "trunc-last", "badfirst"} {
			ps = append(ps, faultPlan{Kind: "getdata", N: n, Data: m, Span: 2})
		}
	}
	return ps
}

func runFaults(e *ev.Env, w *witnesses) {
	plans := faultPlans()
	var scs []faultScenario
	for _, fs := range faultScenarios {
		if fs.quick || !e.Quick() {
			scs = append(scs, fs)
		}
	}
	nsc := len(scs)
	cap3 := 20000
	e.Cases("faults", nsc*len(plans), func(c *ev.Case) {
		i := mustIndex(c.ID)
		fs, plan := scs[i/len(plans)], plans[i%len(plans)]
		sc := fs.sc
		var t tally
		max := 0
		if len(sc.workers()) >= 3 {
			max = cap3
		}
		doubleCtx := "concurrent-duplicates"
		if len(sc.workers()) == 1 {
			doubleCtx = "sequential-duplicates"
		}
		n, exhausted := sched.DFS(max, func(ch sched.Chooser) *sched.Outcome {
			return w.one(c, &sc, plan, judgeOpts{doubleCtx: doubleCtx}, ch, &t)
		})
		t.flush(e, "faults")
		e.Stat("fault_plans", 1)
		e.Stat("fault_plan_schedules", int64(n))
		if plan.Kind != "" {
			e.Stat("fault_plan_schedules_fault_fired", t.fired)
			if plan.Kind == "getdata" {
				e.Stat("fault_plan_schedules_record_damaged", t.fired)
			}
			if t.fired == 0 {
				e.Stat("fault_plans_never_fired", 1) // the call index does not exist in this scenario
			} else {
				e.Stat("fault_plans_fired."+plan.Kind, 1)
			}
		}
		if exhausted {
			e.Stat("fault_plans_exhausted", 1)
		}
		e.Sample("fault-plan", map[string]any{"scenario": fs.name, "plan": plan.String(), "schedules": n, "fired_in": t.fired, "exhausted": exhausted})
	})
	e.Note("faults", fmt.Sprintf("fault plan = (scenario, call kind, call index): %d scenarios (sequential retries, 2 concurrent requests, sequential pair + concurrent third; thorough adds two different keys, KeepResponseHeaders and 3 concurrent duplicates, the latter capped at 20000 schedules per plan) x %d plans (none, get#1-6, lock#1-3, set#1-3, unlock#1-3 = lock stays held, unlockerr#1-3 = released but error returned, getdata#n/mode[x2] = Get number n (and n+1) succeeds but returns the stored record truncated (1 byte, 5 bytes, half, all but the last byte), with its first byte replaced by 0xc1, or with trailing garbage (still decodable: no fault for the reader)); for every plan ALL schedules of the scenario are enumerated (exhaustive iff fault_plans_exhausted == fault_plans); plans whose call index never occurs are counted in fault_plans_never_fired", nsc, len(plans)))
}

var _ = ev.PanicSite
