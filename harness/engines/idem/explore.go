package idem

import (
	"fmt"
	"sort"
	"time"

	"verifharness/internal/drive"
	"verifharness/internal/ev"
	"verifharness/internal/gen"
	"verifharness/internal/sched"
)

// ---------------------------------------------------------------------------------------------
// witnesses: full records for the first violations per signature go through e.Violation; the
// smallest witness seen per signature (fewest requests, then fewest scheduling steps) is kept
// and emitted as a sample at the end.

type witness struct {
	size   [3]int
	caseID string
	detail map[string]any
	what   string
}

type witnesses struct {
	e      *ev.Env
	best   map[string]*witness
	bounds map[string]int64
}

func newWitnesses(e *ev.Env) *witnesses {
	linzInconclusive = e.Inconclusive
	return &witnesses{e: e, best: map[string]*witness{}, bounds: map[string]int64{}}
}

func less(a, b [3]int) bool {
	for i := range a {
		if a[i] != b[i] {
			return a[i] < b[i]
		}
	}
	return false
}

func answerOf(resp *drive.Resp) any {
	if resp == nil {
		return "never answered"
	}
	var hs []string
	for _, x := range resp.Hdr {
		hs = append(hs, x.K+": "+x.V)
	}
	return map[string]any{"status": resp.Status, "body": fmt.Sprintf("%q", resp.Body), "headers": hs}
}

func (r *run) detail() map[string]any {
	d := map[string]any{
		"scenario":   r.sc,
		"desc":       r.sc.desc(),
		"fault_plan": r.plan.String(),
		"requests":   r.reqs,
		"executions": r.execs,
	}
	var ans []any
	for _, rq := range r.reqs {
		ans = append(ans, answerOf(rq.Resp))
	}
	d["answers"] = ans
	if r.out != nil {
		var taken []int
		for i, o := range r.out.Options {
			if o > 1 {
				taken = append(taken, r.out.Schedule[i])
			}
		}
		d["choices"] = taken
		d["interleaving"] = r.out.Key()
		if r.out.Deadlock {
			d["blocked"] = r.out.Blocked
		}
	}
	return d
}

func (w *witnesses) report(c *ev.Case, r *run, fs []finding) {
	if len(fs) == 0 {
		return
	}
	steps := 0
	if r.out != nil {
		steps = r.out.Steps
	}
	size := [3]int{len(r.sc.Reqs), len(r.sc.workers()), steps}
	var det map[string]any
	for _, f := range fs {
		b := w.best[f.Sig]
		if b == nil || less(size, b.size) {
			if det == nil {
				det = r.detail()
			}
			w.best[f.Sig] = &witness{size: size, caseID: c.ID, detail: det, what: f.What}
		}
		if det == nil {
			det = r.detail()
		}
		w.e.Violation(c, f.Sig, f.What, det)
	}
}

func (w *witnesses) flush() {
	var sigs []string
	for s := range w.best {
		sigs = append(sigs, s)
	}
	sort.Strings(sigs)
	for _, s := range sigs {
		b := w.best[s]
		w.e.Sample("smallest-witness|"+s, map[string]any{"sig": s, "case": b.caseID, "what": b.what, "witness": b.detail})
	}
	var ps []string
	for p := range w.bounds {
		ps = append(ps, p)
	}
	sort.Strings(ps)
	for _, p := range ps {
		w.e.Stat("boundary."+p, w.bounds[p])
	}
	w.e.Stat("linearizability_checks", linzChecked)
	w.e.Stat("replay_extra_framework_header", extraFrameworkHeaders)
}

// ---------------------------------------------------------------------------------------------
// one schedule

type tally struct {
	schedules, overlap, fired, violating int64
	stuck, skipped                       int64
}

func (w *witnesses) one(c *ev.Case, sc *scenario, plan faultPlan, o judgeOpts, ch sched.Chooser, t *tally) *sched.Outcome {
	if t.stuck >= 25 {
		// Workers that stay blocked although nothing is held by the harness cannot be released;
		// after enough such schedules of one case the exploration of that case stops instead of
		// piling up blocked goroutines (an Outcome without choices ends the DFS).
		t.skipped++
		return &sched.Outcome{Panics: map[string]string{}}
	}
	s := sched.New()
	// The middleware and MemoryLock have no timers of their own: nothing can release a worker
	// that is blocked with nobody parked, so one virtual second of idling decides a deadlock.
	s.DeadlockCap = time.Second
	r := newRun(sc, plan, s)
	out := r.play(ch)
	fs := r.judge(o)
	defer r.drain()
	w.e.Eval(len(sc.Reqs))
	t.schedules++
	for _, ev := range out.Released {
		w.bounds[ev.Point]++
	}
	if r.fired {
		t.fired++
	}
	if r.overlap() {
		t.overlap++
		w.e.Nontrivial(sc.desc(), plan.String(), out.Key())
	}
	if len(fs) > 0 {
		t.violating++
		w.report(c, r, fs)
	}
	if out.Deadlock && len(r.probe.holder) == 0 {
		t.stuck++
	}
	return out
}

// drain runs after the verdict: workers left blocked behind an injected Unlock failure (the
// key stays locked) are released by unlocking the real lock and run to completion, so that no
// goroutine outlives its schedule. Nothing that happens here is judged.
func (r *run) drain() {
	for i := 0; r.out != nil && r.out.Deadlock && i <= len(r.reqs); i++ {
		var keys []string
		for k := range r.probe.holder {
			keys = append(keys, k)
		}
		if len(keys) == 0 {
			return
		}
		sort.Strings(keys)
		for _, k := range keys {
			delete(r.probe.holder, k)
			_ = r.probe.inner.Unlock(k)
		}
		out := r.s.Run(func(int, []sched.Parked) int { return 0 })
		if !out.Deadlock {
			return
		}
	}
}

func (t *tally) flush(e *ev.Env, family string) {
	e.Stat("schedules", t.schedules)
	e.Stat("schedules."+family, t.schedules)
	e.Stat("overlap_schedules", t.overlap)
	e.Stat("violating_schedules", t.violating)
	if t.skipped > 0 {
		e.Stat("schedules_skipped_after_repeated_unreleasable_deadlock", t.skipped)
	}
}

// dfsPrefix is sched.DFS restricted to the subtree below a fixed prefix of multi-option choices
// (used to shard one exhaustive exploration over cases). valid=false: the prefix names no node.
func dfsPrefix(fixed []int, max int, f func(ch sched.Chooser) *sched.Outcome) (n int, exhausted, valid bool) {
	prefix := append([]int(nil), fixed...)
	for {
		pos := 0
		cur := prefix
		bad := false
		ch := func(step int, parked []sched.Parked) int {
			k := 0
			if pos < len(cur) {
				k = cur[pos]
			}
			if k >= len(parked) {
				bad = true
				k = 0
			}
			pos++
			return k
		}
		out := f(ch)
		var taken, opts []int
		for i, o := range out.Options {
			if o > 1 {
				taken = append(taken, out.Schedule[i])
				opts = append(opts, o)
			}
		}
		if bad {
			return n, true, false
		}
		if len(taken) < len(fixed) {
			for _, k := range fixed[len(taken):] {
				if k != 0 {
					return n, true, false
				}
			}
			return n + 1, true, true
		}
		n++
		i := len(taken) - 1
		for i >= len(fixed) && taken[i]+1 >= opts[i] {
			i--
		}
		if i < len(fixed) {
			return n, true, true
		}
		prefix = append(append([]int(nil), taken[:i]...), taken[i]+1)
		if max > 0 && n >= max {
			return n, false, true
		}
	}
}

// ---------------------------------------------------------------------------------------------
// scenario tables

func dup(m string) reqSpec           { return reqSpec{Method: m, Key: keyPool[0]} }
func other(m string) reqSpec         { return reqSpec{Method: m, Key: keyPool[1]} }
func keyless(m string) reqSpec       { return reqSpec{Method: m} }
func safeKeyed(m string) reqSpec     { return reqSpec{Method: m, Key: keyPool[0]} }
func keyedReq(m, key string) reqSpec { return reqSpec{Method: m, Key: key} }

// nearPairs: a request with key A next to a request whose key is a different string very close
// to A (other case, one character, prefix, extension). Different keys are independent.
var nearPairs = []struct {
	key    string
	anyKey bool
}{
	{nearKeys[0], false}, {nearKeys[2], false}, {anyKeys[0], true}, {anyKeys[1], true},
	{nearKeys[1], false}, {nearKeys[3], false}, {nearKeys[5], false}, {anyKeys[2], true},
}

var pairs = [][]reqSpec{
	{dup("POST"), dup("POST")},
	{dup("POST"), dup("PUT")},
	{dup("POST"), other("POST")},
	{dup("POST"), keyless("POST")},
	{dup("POST"), safeKeyed("GET")},
	{dup("DELETE"), dup("PATCH")},
}

// dfs2 cases come in blocks of 36: 24 base variants (6 pairs x keep x failfirst), 8 with an
// upstream middleware writing constant headers, 4 on the default memory storage (nil Storage:
// only lock / handler boundaries), 4 with a near key (see nearPairs; the second half of nearPairs
// in odd blocks), 4 with a request the middleware must leave alone although its key header is
// malformed or names a recorded key (safe method; exempted by a custom Next), 4 duplicate pairs
// whose KeepResponseHeaders list matches none / only Content-Type / all of the handler's headers
// with empty-body and body-carrying first executions. The block number shifts the response shapes.
const dfs2Block = 48

func dfs2Scenario(i int) *scenario {
	blk, j := i/dfs2Block, i%dfs2Block
	switch {
	case j < 24:
		sc := &scenario{Reqs: pairs[j%6], ShapeBase: (j*3 + j/6 + blk) % len(shapes)}
		if (j/6)%2 == 1 {
			sc.Keep = keepList
		}
		sc.FailFirst = (j/12)%2 == 1
		sc.Split = blk%2 == 1
		return sc
	case j < 32:
		j -= 24
		sc := &scenario{Reqs: pairs[[]int{0, 1, 0, 3, 0, 2, 5, 4}[j]], Upstream: true, ShapeBase: (j*3 + blk) % len(shapes)}
		if j%2 == 1 {
			sc.Keep = keepList
		}
		sc.FailFirst = j >= 4 && j < 6
		return sc
	case j < 36:
		j -= 32
		sc := &scenario{Reqs: pairs[[]int{0, 1, 5, 0}[j]], MemStore: true, ShapeBase: (j*2 + blk) % len(shapes)}
		if j%2 == 1 {
			sc.Keep = keepList
		}
		sc.FailFirst = j == 3
		return sc
	case j >= 44:
		j -= 44
		// what is recorded is the status alone, status + body, status + one header, everything
		first := [][]string{
			{"nocontent", "bare-201", "empty-404", "cookies-empty-body", "redirect"},
			{"plain", "handled-500", "json", "stream", "binary-comma"},
			{"bare-201", "nocontent", "redirect", "empty-404", "api-cookie"},
			{"multi", "cookies-empty-body", "empty-404", "redirect", "api-cookie"},
		}[j]
		sc := &scenario{Reqs: pairs[[]int{0, 1, 5, 0}[j]], ShapeBase: shapeIndex(first[blk%5]), Keep: [][]string{keepNone, keepNone, keepCT, keepEvery}[j]}
		sc.FailFirst = blk%4 == 3 && j == 0
		return sc
	case j >= 40:
		j -= 40
		by := []reqSpec{
			keyedReq("GET", malformedKeys[blk%len(malformedKeys)]),
			{Method: "POST", Key: malformedKeys[(blk+1)%len(malformedKeys)], Skip: true},
			{Method: "PUT", Key: keyPool[0], Skip: true},
			keyedReq([]string{"OPTIONS", "HEAD", "GET"}[blk%3], malformedKeys[(blk+2)%len(malformedKeys)]),
		}[j]
		sc := &scenario{Reqs: []reqSpec{dup("POST"), by}, ShapeBase: (2*j + blk) % len(shapes)}
		if j%2 == 1 {
			sc.Keep = keepList
		}
		return sc
	default:
		j -= 36
		np := nearPairs[(j+4*blk)%len(nearPairs)]
		sc := &scenario{Reqs: []reqSpec{dup("POST"), keyedReq("POST", np.key)}, AnyKey: np.anyKey, ShapeBase: (j + blk) % len(shapes)}
		if j%2 == 1 {
			sc.Keep = keepList
		}
		return sc
	}
}

func runDFS2(e *ev.Env, w *witnesses) {
	e.Cases("dfs2", e.N(dfs2Block, 8*dfs2Block), func(c *ev.Case) {
		i := mustIndex(c.ID)
		sc := dfs2Scenario(i)
		// Two requests with different keys never wait for each other: their 12870 interleavings
		// are enumerated completely only for the first variants (thorough), otherwise capped.
		max := 0
		if len(sc.Reqs) == 2 && sc.Reqs[0].keyed() && sc.Reqs[1].keyed() && sc.Reqs[0].Key != sc.Reqs[1].Key && (e.Quick() || i >= dfs2Block) {
			max = 1000
		}
		var t tally
		n, exhausted := sched.DFS(max, func(ch sched.Chooser) *sched.Outcome {
			return w.one(c, sc, faultPlan{}, judgeOpts{doubleCtx: "concurrent-duplicates", linz: true}, ch, &t)
		})
		t.flush(e, "dfs2")
		e.Stat("dfs2.cases", 1)
		if exhausted {
			e.Stat("dfs2.cases_exhausted", 1)
		} else {
			e.Stat("dfs2.cases_capped_distinct_keys", 1)
		}
		e.StatMax("dfs2.max_schedules_per_case", int64(n))
	})
	e.Note("dfs2", "every schedule of 2 concurrent requests at the boundaries start, storage.get (fast path), lock, storage.get (re-check), handler.entry, handler.exit, storage.set, unlock is enumerated per case (sched.DFS, no bound) for duplicates, duplicate+keyless, duplicate+safe-method; pairs with two DIFFERENT keys (12870 schedules, no interaction) are capped at 1000 schedules except in the first block of the thorough tier; 4 cases per block run on the default memory storage (lock and handler boundaries only); exhaustive cases = dfs2.cases_exhausted")
}

var triples = [][]reqSpec{
	{dup("POST"), dup("POST"), dup("POST")},
	{dup("POST"), dup("POST"), other("POST")},
	{dup("POST"), dup("PUT"), keyless("POST")},
	{dup("POST"), dup("POST"), safeKeyed("GET")},
	{dup("POST"), other("POST"), keyless("GET")},
}

const prefixDepth = 3

type dfs3Variant struct {
	sc  scenario
	cap int // 0 = exhaustive
}

// Measured sizes (schedules per scenario): three duplicates 342k, three duplicates with the first
// execution failing 724k, two duplicates + keyless / safe-method 345k. A third request with its
// own key multiplies instead of interacting (two duplicates + other key: > 30M) and is only
// sampled (capped subtrees here, random walks in walk3/walk4).
func dfs3Variants(quick bool) []dfs3Variant {
	if quick {
		return []dfs3Variant{
			{scenario{Reqs: triples[0]}, 120},
			{scenario{Reqs: triples[0], ShapeBase: 1, FailFirst: true}, 120},
		}
	}
	return []dfs3Variant{
		{scenario{Reqs: triples[0]}, 0},
		{scenario{Reqs: triples[0], ShapeBase: 1, FailFirst: true}, 0},
		{scenario{Reqs: triples[0], ShapeBase: 3, Keep: keepList}, 0},
		{scenario{Reqs: triples[2], ShapeBase: 2}, 0},
		{scenario{Reqs: triples[3], ShapeBase: 4}, 0},
		{scenario{Reqs: triples[1], ShapeBase: 5}, 4000},
		{scenario{Reqs: triples[1], ShapeBase: 6, FailFirst: true, Keep: keepList}, 4000},
		{scenario{Reqs: triples[4], ShapeBase: 7}, 1500},
	}
}

func runDFS3(e *ev.Env, w *witnesses) {
	nprefix := 27
	vs := dfs3Variants(e.Quick())
	e.Cases("dfs3", len(vs)*nprefix, func(c *ev.Case) {
		i := mustIndex(c.ID)
		v, p := vs[i/nprefix], i%nprefix
		sc := v.sc
		fixed := []int{p / 9, (p / 3) % 3, p % 3}
		var t tally
		n, exhausted, valid := dfsPrefix(fixed, v.cap, func(ch sched.Chooser) *sched.Outcome {
			return w.one(c, &sc, faultPlan{}, judgeOpts{doubleCtx: "concurrent-duplicates", linz: true}, ch, &t)
		})
		t.flush(e, "dfs3")
		e.Stat("dfs3.subtrees", 1)
		if !valid {
			e.Stat("dfs3.subtrees_invalid_prefix", 1)
		}
		if exhausted && valid {
			e.Stat("dfs3.subtrees_exhausted", 1)
		}
		if v.cap > 0 {
			e.Stat("dfs3.subtrees_capped_by_design", 1)
		}
		e.StatMax("dfs3.max_schedules_per_subtree", int64(n))
	})
	e.Note("dfs3", fmt.Sprintf("3 concurrent requests; each scenario's schedule tree is split into 27 subtrees by its first %d choices (always 3 options each), one case per subtree. quick: 2 scenarios, every subtree capped at 120 schedules (NOT exhaustive). thorough: 5 scenarios exhaustive (three duplicates; three duplicates, first execution fails; three duplicates with KeepResponseHeaders; two duplicates + keyless; two duplicates + safe method with the key) and 3 scenarios with an independent other-key request capped at 4000/4000/1500 per subtree (their trees have > 30M schedules): exhaustive iff dfs3.subtrees_exhausted == dfs3.subtrees - dfs3.subtrees_capped_by_design", prefixDepth))
}

// genScenario draws a scenario with n concurrent requests, at least two duplicates of key A.
func genScenario(r *gen.Rand, n int) *scenario {
	unsafe := []string{"POST", "PUT", "PATCH", "DELETE"}
	safe := []string{"GET", "HEAD", "OPTIONS"}
	anyKey := r.Chance(1, 3)
	sc := &scenario{ShapeBase: r.Intn(len(shapes)), AnyKey: anyKey}
	for i := 0; i < n; i++ {
		switch {
		case i < 2:
			sc.Reqs = append(sc.Reqs, dup(gen.Pick(r, unsafe)))
		default:
			switch r.PickW(50, 20, 12, 12, 6) {
			case 0:
				sc.Reqs = append(sc.Reqs, dup(gen.Pick(r, unsafe)))
			case 1:
				// another key: as close to A as a different string can be
				if anyKey && r.Bool() {
					sc.Reqs = append(sc.Reqs, keyedReq(gen.Pick(r, unsafe), gen.Pick(r, anyKeys)))
				} else {
					sc.Reqs = append(sc.Reqs, keyedReq(gen.Pick(r, unsafe), gen.Pick(r, nearKeys)))
				}
			case 2:
				sc.Reqs = append(sc.Reqs, keyless(gen.Pick(r, append(unsafe, safe...))))
			case 3:
				// must be left alone by the middleware whatever the key header holds
				switch r.Intn(4) {
				case 0:
					sc.Reqs = append(sc.Reqs, keyedReq(gen.Pick(r, safe), gen.Pick(r, malformedKeys)))
				case 1:
					sc.Reqs = append(sc.Reqs, reqSpec{Method: gen.Pick(r, unsafe), Key: gen.Pick(r, append([]string{keyPool[0]}, malformedKeys...)), Skip: true})
				default:
					sc.Reqs = append(sc.Reqs, safeKeyed(gen.Pick(r, safe)))
				}
			default:
				sc.Reqs = append(sc.Reqs, reqSpec{Method: gen.Pick(r, unsafe), Key: keyPool[2]})
			}
		}
	}
	gen.Shuffle(r, sc.Reqs)
	switch r.Intn(6) {
	case 0, 1:
		sc.Keep = keepList
	case 2:
		sc.Keep = keepNone
	case 3:
		sc.Keep = gen.Pick(r, [][]string{keepCT, keepEvery})
	}
	sc.FailFirst = r.Chance(1, 3)
	sc.Split = r.Chance(1, 4)
	return sc
}

func runWalks(e *ev.Env, w *witnesses) {
	for _, n := range []int{3, 4} {
		n := n
		fam := fmt.Sprintf("walk%d", n)
		walks := e.N(20, 100)
		cases := map[int]int{3: e.N(48, 1000), 4: e.N(64, 2500)}[n]
		e.Cases(fam, cases, func(c *ev.Case) {
			sc := genScenario(c.R, n)
			var t tally
			distinct := map[string]bool{}
			for k := 0; k < walks; k++ {
				cr := c.R.Split()
				out := w.one(c, sc, faultPlan{}, judgeOpts{doubleCtx: "concurrent-duplicates", linz: true}, sched.RandomChooser(cr.Intn), &t)
				distinct[out.Key()] = true
			}
			t.flush(e, fam)
			e.Stat(fam+".distinct_schedules", int64(len(distinct)))
		})
	}
	e.Note("walks", "walk3 / walk4: seeded uniform random walks over schedules of 3 / 4 concurrent requests (not exhaustive)")
}

// The `reuse` family: every worker is a keep-alive connection (one RequestCtx re-used for its
// requests). Connection 0 sends a request with key A and then goes on with ANOTHER key (same
// length: near keys; other lengths: custom validator), a keyless or a safe request, while
// duplicates of A on other connections are still waiting for the lock or inside their critical
// section. Existing clauses: the other-key request executes exactly once and completes, no
// deadlock, the duplicates are replayed.
func reuseScenario(i int) *scenario {
	nexts := []reqSpec{
		other("POST"), keyedReq("PUT", nearKeys[0]), keyedReq("POST", nearKeys[3]),
		keyedReq("POST", anyKeys[0]), keyedReq("POST", anyKeys[1]), keyedReq("POST", anyKeys[3]),
		keyless("POST"), keyedReq("GET", keyPool[1]),
	}
	nx := nexts[i%len(nexts)]
	sc := &scenario{ReuseCtx: true, ShapeBase: i % len(shapes)}
	for _, k := range anyKeys {
		if nx.Key == k {
			sc.AnyKey = true
		}
	}
	switch (i / len(nexts)) % 3 {
	case 0: // A | A            then conn 0: next
		sc.Reqs = []reqSpec{dup("POST"), dup("POST"), nx}
		sc.Workers = [][]int{{0, 2}, {1}}
	case 1: // A | A | A        then conn 0: next
		sc.Reqs = []reqSpec{dup("POST"), dup("PUT"), dup("POST"), nx}
		sc.Workers = [][]int{{0, 3}, {1}, {2}}
	default: // both connections go on with another key
		sc.Reqs = []reqSpec{dup("POST"), dup("POST"), nx, keyedReq("POST", keyPool[2])}
		sc.Workers = [][]int{{0, 2}, {1, 3}}
	}
	sc.FailFirst = (i/(3*len(nexts)))%2 == 1
	if (i/(6*len(nexts)))%2 == 1 {
		sc.Keep = keepList
	}
	return sc
}

func runReuse(e *ev.Env, w *witnesses) {
	walks := e.N(40, 300)
	e.Cases("reuse", e.N(48, 480), func(c *ev.Case) {
		sc := reuseScenario(mustIndex(c.ID))
		var t tally
		o := judgeOpts{doubleCtx: "concurrent-duplicates", linz: true}
		sched.DFS(e.N(150, 1500), func(ch sched.Chooser) *sched.Outcome { return w.one(c, sc, faultPlan{}, o, ch, &t) })
		for k := 0; k < walks; k++ {
			cr := c.R.Split()
			w.one(c, sc, faultPlan{}, o, sched.RandomChooser(cr.Intn), &t)
		}
		t.flush(e, "reuse")
	})
	e.Note("reuse", "workers are keep-alive connections (one fasthttp.RequestCtx re-used per worker, header buffers overwritten by the next request); per case the first 150/1500 DFS schedules plus 40/300 random walks (not exhaustive)")
}

func mustIndex(id string) int {
	n := 0
	i := len(id) - 1
	for i >= 0 && id[i] >= '0' && id[i] <= '9' {
		i--
	}
	for _, ch := range id[i+1:] {
		n = n*10 + int(ch-'0')
	}
	return n
}
