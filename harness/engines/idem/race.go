package idem

import (
	"fmt"
	"io"
	"runtime"
	"sort"
	"strconv"
	"strings"
	"sync"
	"sync/atomic"
	"time"

	"github.com/gofiber/fiber/v3"
	fiberlog "github.com/gofiber/fiber/v3/log"
	"github.com/gofiber/fiber/v3/middleware/idempotency"
	"github.com/valyala/fasthttp"

	"verifharness/internal/drive"
	"verifharness/internal/ev"
)

// idem.race: real time, -race build, all Ps. 64 goroutines x 8 keys hammer ONE middleware
// instance built with the default memory storage and the default MemoryLock (Config.Storage and
// Config.Lock left nil). Every round uses 8 fresh keys, all goroutines are released together,
// 8 per key, so the first arrival for every key is contended. Before that, every case runs
// "pair rounds": exactly two requests per fresh key, lined up by a spin barrier so that both
// are inside the middleware (fast path, MemoryLock.Lock for a key without an entry) at the same
// instant. Oracle on the same executions the
// race detector watches: successes(key) <= 1, every answer for a key that is not the error
// answer of a failed execution is identical (status, body, X-Exec, X-Multi); keyless and
// safe-method requests always execute. Nothing depends on time (Lifetime 30 min).

const (
	raceGoroutines    = 64
	raceKeys          = 8
	raceRoundWatchdog = 60 * time.Second
	racePoll          = 250 * time.Millisecond
)

const idemPkg = "github.com/gofiber/fiber/v3/middleware/idempotency."

// raceRig knows the goroutines that currently run requests of one case.
type raceRig struct {
	mu   sync.Mutex
	gids map[string]bool
}

func raceGoid() string {
	var buf [64]byte
	n := runtime.Stack(buf[:], false)
	f := strings.Fields(string(buf[:n]))
	if len(f) < 2 {
		return ""
	}
	return f[1]
}

func (g *raceRig) enter() string {
	id := raceGoid()
	g.mu.Lock()
	g.gids[id] = true
	g.mu.Unlock()
	return id
}

func (g *raceRig) leave(id string) {
	g.mu.Lock()
	delete(g.gids, id)
	g.mu.Unlock()
}

// lockWaiters evaluates the clock-free wedge predicate on one full goroutine dump: the ids of
// this rig's request goroutines that are blocked on a mutex inside (*MemoryLock).Lock, and how
// many other request goroutines of the rig are alive (anywhere else: in the handler, in storage,
// in Unlock, runnable ...). Only goroutines of this rig ever touch its MemoryLock, so when every
// live one of them waits inside Lock nobody is left who could release any of those mutexes.
func (g *raceRig) lockWaiters() (waiters []string, others int) {
	g.mu.Lock()
	mine := make(map[string]bool, len(g.gids))
	for id := range g.gids {
		mine[id] = true
	}
	g.mu.Unlock()
	buf := make([]byte, 1<<20)
	for {
		n := runtime.Stack(buf, true)
		if n < len(buf) {
			buf = buf[:n]
			break
		}
		if len(buf) >= 64<<20 {
			return nil, 1 // cannot see everything: never confirm
		}
		buf = make([]byte, 2*len(buf))
	}
	seen := 0
	for _, gr := range strings.Split(string(buf), "\n\n") {
		lines := strings.SplitN(gr, "\n", 2)
		f := strings.Fields(lines[0])
		if len(f) < 3 || f[0] != "goroutine" || !mine[f[1]] {
			continue
		}
		seen++
		state := lines[0]
		blocked := strings.Contains(state, "Mutex.Lock") || strings.Contains(state, "semacquire")
		if blocked && strings.Contains(gr, idemPkg+"(*MemoryLock).Lock") {
			waiters = append(waiters, f[1])
		} else {
			others++
		}
	}
	if seen != len(mine) {
		others++ // a registered goroutine is missing from the dump (just finished): not quiescent
	}
	sort.Strings(waiters)
	return waiters, others
}

// wait waits for done. "done"; "deadlock": the predicate held, with the same waiters, in two
// consecutive dumps (no clock involved in the verdict); "timeout": the generous wall-clock guard
// fired without such a confirmation (inconclusive, DESIGN R2).
func (g *raceRig) wait(done <-chan struct{}) string {
	start := time.Now()
	prev := ""
	tk := time.NewTicker(racePoll)
	defer tk.Stop()
	for {
		select {
		case <-done:
			return "done"
		case <-tk.C:
		}
		if w, o := g.lockWaiters(); len(w) > 0 && o == 0 {
			cur := strings.Join(w, ",")
			if cur == prev {
				return "deadlock"
			}
			prev = cur
		} else {
			prev = ""
		}
		if time.Since(start) > raceRoundWatchdog {
			return "timeout"
		}
	}
}

type raceAnswer struct {
	key     string
	status  int
	body    string
	exec    string
	multi   string
	errored bool
}

func runRace(e *ev.Env) {
	fiberlog.SetOutput(io.Discard)
	skip := false
	e.Cases("hammer", e.N(6, 40), func(c *ev.Case) {
		if skip {
			e.Stat("race.cases_skipped_after_wedge", 1)
			return
		}
		r := c.R
		failFirst := r.Chance(1, 3)
		keep := r.Bool()
		rounds := e.N(40, 150)
		pairRounds := e.N(150, 600)
		tag := "ab" + r.StringFrom("0123456789abcdef", 6)
		rig := &raceRig{gids: map[string]bool{}}
		var hammering atomic.Bool // planned handler failures only in the hammer rounds

		var execCtr atomic.Int64
		type keyState struct {
			entries atomic.Int64
			succ    atomic.Int64
		}
		var keys sync.Map // key -> *keyState
		var keylessRuns atomic.Int64
		var execKey sync.Map // X-Exec value -> key of the request whose handler run produced it

		cfg := idempotency.Config{}
		if keep {
			cfg.KeepResponseHeaders = []string{"X-Exec", "x-multi", "Content-Type"}
		}
		app := fiber.New(fiber.Config{ErrorHandler: func(c fiber.Ctx, err error) error {
			c.Set("X-Errored", "1")
			return c.Status(errStatus).SendString("ERR " + err.Error())
		}})
		app.Use(idempotency.New(cfg))
		app.All("/", func(c fiber.Ctx) error {
			n := execCtr.Add(1)
			key := strings.Clone(c.Get(keyHeader))
			c.Set("X-Ran", "1")
			if key == "" || fiber.IsMethodSafe(c.Method()) {
				keylessRuns.Add(1)
				return c.SendString("free-" + strconv.FormatInt(n, 10))
			}
			v, _ := keys.LoadOrStore(key, &keyState{})
			ks := v.(*keyState)
			ord := ks.entries.Add(1)
			for i := 0; i < int(n%4); i++ {
				runtime.Gosched() // widen the window between re-check and store
			}
			if failFirst && ord == 1 && hammering.Load() {
				return fiber.NewError(fiber.StatusServiceUnavailable, "planned handler failure")
			}
			s := strconv.FormatInt(n, 10)
			execKey.Store(s, key)
			c.Set("X-Exec", s)
			c.RequestCtx().Response.Header.Add("X-Multi", "a"+s)
			c.RequestCtx().Response.Header.Add("X-Multi", "b"+s)
			c.Status(201)
			ks.succ.Add(1)
			if n%5 == 0 {
				return nil // empty body shape
			}
			return c.SendString("exec-" + s)
		})
		d := drive.NewDirect(app)
		handle := app.Handler()

		var mu sync.Mutex
		var answers []raceAnswer
		var freeBad atomic.Int64
		wedged := false
		record := func(key string, resp *drive.Resp) {
			a := raceAnswer{key: key, status: resp.Status, body: string(resp.Body), exec: resp.Get("X-Exec"),
				multi: strings.Join(resp.All("X-Multi"), "|"), errored: resp.Get("X-Errored") == "1"}
			mu.Lock()
			answers = append(answers, a)
			mu.Unlock()
		}
		keyOf := func(round, k int) string {
			// 8 different keys per round; keys 2j and 2j+1 are the same text in lower and in
			// upper case (the tag starts with letters): different strings, different keys
			key := fmt.Sprintf("%s-%04d-4000-8000-%012d", tag, round, k/2)
			if k%2 == 1 {
				key = strings.ToUpper(key)
			}
			return key
		}
		// finish waits for the goroutines of one round; false = the case ends here
		finish := func(wg *sync.WaitGroup, what string) bool {
			done := make(chan struct{})
			go func() { wg.Wait(); close(done) }()
			switch rig.wait(done) {
			case "done":
				return true
			case "deadlock":
				w, _ := rig.lockWaiters()
				e.Violation(c, "deadlock|duplicates-wedged-in-lock|race-stress",
					fmt.Sprintf("%s: %d request goroutines wait inside MemoryLock.Lock and no other request goroutine of the instance is alive (two consecutive goroutine dumps, same waiters): nobody can release them", what, len(w)),
					map[string]any{"waiting_goroutines": len(w), "fail_first": failFirst, "keep": keep})
			default:
				// Generous real-time watchdog (a round takes milliseconds): not a verdict (DESIGN R2).
				e.Inconclusive(fmt.Sprintf("idem.race: %s of %s did not finish within %v of real time and no wedge in MemoryLock.Lock was confirmed from goroutine dumps", what, c.ID, raceRoundWatchdog))
			}
			e.Stat("race.rounds_wedged", 1)
			wedged, skip = true, true // the stuck goroutines are abandoned
			return false
		}
		doubleSeen := func() bool {
			found := false
			keys.Range(func(_, v any) bool {
				if v.(*keyState).succ.Load() > 1 {
					found = true
				}
				return !found
			})
			return found
		}

		// pair rounds: two requests per fresh key meet at a spin barrier and enter the middleware
		// at the same instant (first use of the key: no record, no lock entry yet)
		for round := 0; round < pairRounds && !wedged; round++ {
			var wg sync.WaitGroup
			var arrived [raceKeys]atomic.Int32
			for g := 0; g < 2*raceKeys; g++ {
				g := g
				wg.Add(1)
				id := make(chan struct{})
				go func() {
					defer wg.Done()
					gid := rig.enter()
					defer rig.leave(gid)
					close(id)
					k := g % raceKeys
					key := keyOf(round, k)
					// everything that can be done before the barrier is done before it: the two
					// requests of a key are handed to the app within nanoseconds of each other
					var req fasthttp.Request
					req.Header.SetMethod([]string{"POST", "PUT"}[g/raceKeys])
					req.SetRequestURI("/")
					req.Header.SetHost("example.com")
					req.Header.Set(keyHeader, key)
					var fctx fasthttp.RequestCtx
					fctx.Init(&req, drive.DefaultRemote, nil)
					arrived[k].Add(1)
					for spins := 0; arrived[k].Load() < 2; spins++ {
						if spins%2048 == 2047 {
							runtime.Gosched()
						}
					}
					handle(&fctx)
					record(key, drive.CopyResp(&fctx.Response))
				}()
				<-id // registered before anybody waits for the round
			}
			if !finish(&wg, fmt.Sprintf("pair round %d", round)) {
				break
			}
			e.Stat("race.pair_keys", raceKeys)
		}
		// a refuted instance is not hammered further: follow-up damage of a broken lock (fatal
		// "unlock of unlocked mutex") would only take the verdict down with the process
		refuted := !wedged && doubleSeen()
		hammering.Store(true)
		for round := pairRounds; round < pairRounds+rounds && !wedged && !refuted; round++ {
			start := make(chan struct{})
			var wg sync.WaitGroup
			for g := 0; g < raceGoroutines; g++ {
				g := g
				wg.Add(1)
				id := make(chan struct{})
				go func() {
					defer wg.Done()
					gid := rig.enter()
					defer rig.leave(gid)
					close(id)
					<-start
					key := keyOf(round, g%raceKeys)
					method := []string{"POST", "PUT", "PATCH", "DELETE"}[g%4]
					reps := 1 + g%2
					// every goroutine is a keep-alive connection: ONE RequestCtx serves its requests
					// one after the other, the next request overwrites the header buffers of the last
					var fctx fasthttp.RequestCtx
					conn := func(rq *drive.Req) *drive.Resp {
						fctx.Response.Reset()
						fctx.ResetUserValues()
						return d.DoCtx(&fctx, rq)
					}
					for k := 0; k < reps; k++ {
						record(key, conn(&drive.Req{Method: method, URI: "/", Hdr: []drive.H{{K: keyHeader, V: key}}}))
					}
					if g%4 != 3 {
						// the connection goes on with ANOTHER key of the round while duplicates of
						// its first key may still be waiting for or holding that key's lock
						key2 := keyOf(round, (g+3)%raceKeys)
						record(key2, conn(&drive.Req{Method: method, URI: "/", Hdr: []drive.H{{K: keyHeader, V: key2}}}))
					}
					if g%16 == 0 {
						// unaffected traffic in between: keyless unsafe, safe with the same key, safe
						// with a key header the validator would reject
						for _, rq := range []*drive.Req{{Method: "POST", URI: "/"},
							{Method: "GET", URI: "/", Hdr: []drive.H{{K: keyHeader, V: key}}},
							{Method: "GET", URI: "/", Hdr: []drive.H{{K: keyHeader, V: "abc"}}}} {
							resp := conn(rq)
							if resp.Get("X-Ran") != "1" || resp.Status != 200 || !strings.HasPrefix(string(resp.Body), "free-") {
								freeBad.Add(1)
							}
						}
					}
				}()
				<-id
			}
			close(start)
			if !finish(&wg, fmt.Sprintf("hammer round %d", round-pairRounds)) {
				break
			}
			e.Stat("race.rounds", 1)
		}
		if refuted {
			e.Stat("race.cases_not_hammered_after_refutation", 1)
		}
		// Judge what was answered. After a wedge the blocked goroutines stay blocked; a snapshot
		// of the complete answers recorded so far is judged all the same.
		mu.Lock()
		snap := append([]raceAnswer(nil), answers...)
		mu.Unlock()
		e.Eval(len(snap))
		e.Stat("race.requests", int64(len(snap)))
		e.Stat("race.handler_executions", execCtr.Load())
		e.Stat("race.keyless_or_safe_runs", keylessRuns.Load())
		e.Nontrivial("race", c.ID)

		if n := freeBad.Load(); n > 0 {
			e.Violation(c, "keyless-affected|race-stress", fmt.Sprintf("%d keyless / safe-method requests were not answered by their own handler run", n), nil)
		}
		// per key
		by := map[string][]raceAnswer{}
		for _, a := range snap {
			by[a.key] = append(by[a.key], a)
		}
		var ks []string
		for k := range by {
			ks = append(ks, k)
		}
		sort.Strings(ks)
		contended := 0
		for _, k := range ks {
			foreign := false
			for _, a := range by[k] {
				if a.errored || a.exec == "" {
					continue
				}
				if owner, ok := execKey.Load(a.exec); ok && owner.(string) != k {
					foreign = true
					e.Violation(c, "other-key-affected|answered-from-record-of-another-key|race-stress|"+keyRelation(k, owner.(string)),
						"a request was answered with the response of an execution that belongs to a different key",
						map[string]any{"key": k, "owner_key": owner.(string), "exec": a.exec})
					break
				}
			}
			if foreign {
				continue
			}
			v, ok := keys.Load(k)
			if !ok {
				e.Violation(c, "answer-without-execution|race-stress", "key "+k+" answered but the handler never ran for it", nil)
				continue
			}
			st := v.(*keyState)
			if st.succ.Load() > 1 {
				e.Violation(c, "double-execution|race-stress", fmt.Sprintf("the handler completed successfully %d times for one key", st.succ.Load()),
					map[string]any{"key": k, "entries": st.entries.Load(), "fail_first": failFirst, "keep": keep})
			}
			distinct := map[string]int{}
			errs := 0
			for _, a := range by[k] {
				if a.errored {
					errs++
					continue
				}
				distinct[fmt.Sprintf("%d|%q|%s|%s", a.status, a.body, a.exec, a.multi)]++
			}
			// error answers: only the requests whose own execution failed (at most one per key here)
			maxErr := 0
			if failFirst {
				maxErr = 1
			}
			if errs > maxErr {
				e.Violation(c, "spurious-error|race-stress", fmt.Sprintf("%d error answers for one key, %d planned handler failures", errs, maxErr), map[string]any{"key": k})
			}
			if len(distinct) > 1 {
				var ds []string
				for s, n := range distinct {
					ds = append(ds, fmt.Sprintf("%dx %s", n, s))
				}
				sort.Strings(ds)
				e.Violation(c, "replay-differs|race-stress", "answers for one key are not identical", map[string]any{"key": k, "answers": ds, "keep": keep})
			}
			if len(by[k]) > 1 {
				contended++
			}
		}
		e.Stat("race.keys", int64(len(ks)))
		e.Stat("race.keys_with_duplicates", int64(contended))
	})
}
