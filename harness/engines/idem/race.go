package idem

import (
	"fmt"
	"io"
	"runtime"
	"sort"
	"strconv"
	"strings"
	"sync"
	"sync/atomic"
	"time"

	"github.com/gofiber/fiber/v3"
	fiberlog "github.com/gofiber/fiber/v3/log"
	"github.com/gofiber/fiber/v3/middleware/idempotency"

	"verifharness/internal/drive"
	"verifharness/internal/ev"
)

// idem.race: real time, -race build, all Ps. 64 goroutines x 8 keys hammer ONE middleware
// instance built with the default memory storage and the default MemoryLock (Config.Storage and
// Config.Lock left nil). Every round uses 8 fresh keys, all goroutines are released together,
// 8 per key, so the first arrival for every key is contended. Oracle on the same executions the
// race detector watches: successes(key) <= 1, every answer for a key that is not the error
// answer of a failed execution is identical (status, body, X-Exec, X-Multi); keyless and
// safe-method requests always execute. Nothing depends on time (Lifetime 30 min).

const (
	raceGoroutines    = 64
	raceKeys          = 8
	raceRoundWatchdog = 60 * time.Second
)

type raceAnswer struct {
	key     string
	status  int
	body    string
	exec    string
	multi   string
	errored bool
}

func runRace(e *ev.Env) {
	fiberlog.SetOutput(io.Discard)
	skip := false
	e.Cases("hammer", e.N(6, 40), func(c *ev.Case) {
		if skip {
			e.Stat("race.cases_skipped_after_wedge", 1)
			return
		}
		r := c.R
		failFirst := r.Chance(1, 3)
		keep := r.Bool()
		rounds := e.N(40, 150)
		tag := "ab" + r.StringFrom("0123456789abcdef", 6)

		var execCtr atomic.Int64
		type keyState struct {
			entries atomic.Int64
			succ    atomic.Int64
		}
		var keys sync.Map // key -> *keyState
		var keylessRuns atomic.Int64
		var execKey sync.Map // X-Exec value -> key of the request whose handler run produced it

		cfg := idempotency.Config{}
		if keep {
			cfg.KeepResponseHeaders = []string{"X-Exec", "x-multi", "Content-Type"}
		}
		app := fiber.New(fiber.Config{ErrorHandler: func(c fiber.Ctx, err error) error {
			c.Set("X-Errored", "1")
			return c.Status(errStatus).SendString("ERR " + err.Error())
		}})
		app.Use(idempotency.New(cfg))
		app.All("/", func(c fiber.Ctx) error {
			n := execCtr.Add(1)
			key := strings.Clone(c.Get(keyHeader))
			c.Set("X-Ran", "1")
			if key == "" || fiber.IsMethodSafe(c.Method()) {
				keylessRuns.Add(1)
				return c.SendString("free-" + strconv.FormatInt(n, 10))
			}
			v, _ := keys.LoadOrStore(key, &keyState{})
			ks := v.(*keyState)
			ord := ks.entries.Add(1)
			for i := 0; i < int(n%4); i++ {
				runtime.Gosched() // widen the window between re-check and store
			}
			if failFirst && ord == 1 {
				return fiber.NewError(fiber.StatusServiceUnavailable, "planned handler failure")
			}
			s := strconv.FormatInt(n, 10)
			execKey.Store(s, key)
			c.Set("X-Exec", s)
			c.RequestCtx().Response.Header.Add("X-Multi", "a"+s)
			c.RequestCtx().Response.Header.Add("X-Multi", "b"+s)
			c.Status(201)
			ks.succ.Add(1)
			if n%5 == 0 {
				return nil // empty body shape
			}
			return c.SendString("exec-" + s)
		})
		d := drive.NewDirect(app)

		var mu sync.Mutex
		var answers []raceAnswer
		var freeBad atomic.Int64
		wedged := false
		for round := 0; round < rounds; round++ {
			start := make(chan struct{})
			var wg sync.WaitGroup
			for g := 0; g < raceGoroutines; g++ {
				g := g
				wg.Add(1)
				go func() {
					defer wg.Done()
					<-start
					// 8 different keys per round; keys 2j and 2j+1 are the same text in lower and
					// in upper case (the tag starts with letters): different strings, different keys
					key := fmt.Sprintf("%s-%04d-4000-8000-%012d", tag, round, (g%raceKeys)/2)
					if (g%raceKeys)%2 == 1 {
						key = strings.ToUpper(key)
					}
					method := []string{"POST", "PUT", "PATCH", "DELETE"}[g%4]
					reps := 1 + g%2
					for k := 0; k < reps; k++ {
						resp := d.Do(&drive.Req{Method: method, URI: "/", Hdr: []drive.H{{K: keyHeader, V: key}}})
						a := raceAnswer{key: key, status: resp.Status, body: string(resp.Body), exec: resp.Get("X-Exec"),
							multi: strings.Join(resp.All("X-Multi"), "|"), errored: resp.Get("X-Errored") == "1"}
						mu.Lock()
						answers = append(answers, a)
						mu.Unlock()
					}
					if g%16 == 0 {
						// unaffected traffic in between: keyless unsafe, and safe with the same key
						for _, rq := range []*drive.Req{{Method: "POST", URI: "/"}, {Method: "GET", URI: "/", Hdr: []drive.H{{K: keyHeader, V: key}}}} {
							resp := d.Do(rq)
							if resp.Get("X-Ran") != "1" || resp.Status != 200 || !strings.HasPrefix(string(resp.Body), "free-") {
								freeBad.Add(1)
							}
						}
					}
				}()
			}
			close(start)
			done := make(chan struct{})
			go func() { wg.Wait(); close(done) }()
			select {
			case <-done:
			case <-time.After(raceRoundWatchdog):
				// Generous real-time watchdog (a round takes milliseconds): not a verdict (DESIGN R2);
				// the exact deadlock verdict is the vt scheduler's. The stuck goroutines are abandoned.
				e.Inconclusive(fmt.Sprintf("idem.race: round %d of %s did not finish within %v of real time (goroutines wedged in the middleware?)", round, c.ID, raceRoundWatchdog))
				e.Stat("race.rounds_wedged", 1)
				wedged, skip = true, true
			}
			if wedged {
				break
			}
		}
		if wedged {
			return // answers are still being appended by abandoned goroutines
		}
		e.Eval(len(answers))
		e.Stat("race.requests", int64(len(answers)))
		e.Stat("race.rounds", int64(rounds))
		e.Stat("race.handler_executions", execCtr.Load())
		e.Stat("race.keyless_or_safe_runs", keylessRuns.Load())
		e.Nontrivial("race", c.ID)

		if n := freeBad.Load(); n > 0 {
			e.Violation(c, "keyless-affected|race-stress", fmt.Sprintf("%d keyless / safe-method requests were not answered by their own handler run", n), nil)
		}
		// per key
		by := map[string][]raceAnswer{}
		for _, a := range answers {
			by[a.key] = append(by[a.key], a)
		}
		var ks []string
		for k := range by {
			ks = append(ks, k)
		}
		sort.Strings(ks)
		contended := 0
		for _, k := range ks {
			foreign := false
			for _, a := range by[k] {
				if a.errored || a.exec == "" {
					continue
				}
				if owner, ok := execKey.Load(a.exec); ok && owner.(string) != k {
					foreign = true
					e.Violation(c, "other-key-affected|answered-from-record-of-another-key|race-stress|"+keyRelation(k, owner.(string)),
						"a request was answered with the response of an execution that belongs to a different key",
						map[string]any{"key": k, "owner_key": owner.(string), "exec": a.exec})
					break
				}
			}
			if foreign {
				continue
			}
			v, ok := keys.Load(k)
			if !ok {
				e.Violation(c, "answer-without-execution|race-stress", "key "+k+" answered but the handler never ran for it", nil)
				continue
			}
			st := v.(*keyState)
			if st.succ.Load() > 1 {
				e.Violation(c, "double-execution|race-stress", fmt.Sprintf("the handler completed successfully %d times for one key", st.succ.Load()),
					map[string]any{"key": k, "entries": st.entries.Load(), "fail_first": failFirst, "keep": keep})
			}
			distinct := map[string]int{}
			errs := 0
			for _, a := range by[k] {
				if a.errored {
					errs++
					continue
				}
				distinct[fmt.Sprintf("%d|%q|%s|%s", a.status, a.body, a.exec, a.multi)]++
			}
			// error answers: only the requests whose own execution failed (at most one per key here)
			maxErr := 0
			if failFirst {
				maxErr = 1
			}
			if errs > maxErr {
				e.Violation(c, "spurious-error|race-stress", fmt.Sprintf("%d error answers for one key, %d planned handler failures", errs, maxErr), map[string]any{"key": k})
			}
			if len(distinct) > 1 {
				var ds []string
				for s, n := range distinct {
					ds = append(ds, fmt.Sprintf("%dx %s", n, s))
				}
				sort.Strings(ds)
				e.Violation(c, "replay-differs|race-stress", "answers for one key are not identical", map[string]any{"key": k, "answers": ds, "keep": keep})
			}
			if len(by[k]) > 1 {
				contended++
			}
		}
		e.Stat("race.keys", int64(len(ks)))
		e.Stat("race.keys_with_duplicates", int64(contended))
	})
}
