package idem

import (
	"fmt"
	"sort"
	"strconv"
	"strings"
	"time"

	"github.com/anishathalye/porcupine"

	"verifharness/internal/drive"
	"verifharness/internal/ev"
)

type finding struct {
	Sig  string `json:"sig"`
	What string `json:"what"`
}

// ---------------------------------------------------------------------------------------------
// header comparison (multisets of (lower-case name, value))

func lname(s string) string { return strings.ToLower(s) }

// framing describes how one message is transferred on one connection (fasthttp manages these
// fields itself per message); it is not part of the answer that the property compares.
var framing = map[string]bool{"transfer-encoding": true, "content-length": true, "connection": true, "keep-alive": true, "date": true}

func multiset(hs []drive.H, keep func(string) bool) map[string]map[string]int {
	m := map[string]map[string]int{}
	for _, x := range hs {
		n := lname(x.K)
		if framing[n] || (keep != nil && !keep(n)) {
			continue
		}
		if m[n] == nil {
			m[n] = map[string]int{}
		}
		m[n][x.V]++
	}
	return m
}

type hdrDiff struct {
	Name  string         `json:"name"`
	Class string         `json:"class"` // missing extra duplicated value
	Exec  map[string]int `json:"execution"`
	Got   map[string]int `json:"answer"`
}

func diffHeaders(ref, got map[string]map[string]int) []hdrDiff {
	names := map[string]bool{}
	for n := range ref {
		names[n] = true
	}
	for n := range got {
		names[n] = true
	}
	var sorted []string
	for n := range names {
		sorted = append(sorted, n)
	}
	sort.Strings(sorted)
	var out []hdrDiff
	for _, n := range sorted {
		a, b := ref[n], got[n]
		same := len(a) == len(b)
		if same {
			for v, c := range a {
				if b[v] != c {
					same = false
				}
			}
		}
		if same {
			continue
		}
		d := hdrDiff{Name: n, Exec: a, Got: b}
		switch {
		case len(b) == 0:
			d.Class = "missing"
		case len(a) == 0:
			d.Class = "extra"
		default:
			// same set of values, the answer only has some of them more often
			dup := len(a) == len(b)
			if dup {
				for v, c := range a {
					if b[v] < c {
						dup = false
					}
				}
			}
			if dup {
				d.Class = "duplicated"
			} else {
				d.Class = "value"
			}
		}
		out = append(out, d)
	}
	return out
}

// origin of a header name in this scenario: who put it on the response of the execution.
func (sc *scenario) origin(name string, d hdrDiff) string {
	if sc.Upstream {
		for _, x := range upstreamHdr {
			if lname(x.K) != name {
				continue
			}
			if name != "set-cookie" {
				return "upstream"
			}
			// set-cookie: upstream only if the differing value is the upstream cookie
			if d.Exec[x.V] != d.Got[x.V] {
				return "upstream"
			}
		}
	}
	for _, sh := range shapes {
		for _, x := range sh.hdr(0) {
			if lname(x.K) == name {
				return "handler"
			}
		}
	}
	return "default"
}

func (sc *scenario) keepFn() func(string) bool {
	if sc.Keep == nil {
		return nil
	}
	m := map[string]bool{}
	for _, k := range sc.Keep {
		m[lname(k)] = true
	}
	return func(n string) bool { return m[n] }
}

// errClass turns an error message into a stable class (text before the first ':').
func errClass(msg string) string {
	if i := strings.Index(msg, ":"); i > 0 {
		msg = msg[:i]
	}
	msg = strings.Map(func(r rune) rune {
		if r >= 'a' && r <= 'z' || r >= 'A' && r <= 'Z' {
			return r
		}
		return '-'
	}, msg)
	if len(msg) > 60 {
		msg = msg[:60]
	}
	return msg
}

// ---------------------------------------------------------------------------------------------
// the oracle for one recorded execution of a scenario

type judgeOpts struct {
	doubleCtx string // input class of a double execution: concurrent-duplicates, …
	linz      bool
}

// compareAnswer compares the answer of a request that did not run the handler with the
// execution it must be a replay of.
func (r *run) compareAnswer(rq *reqRec, ex *execRec, add func(sig, what string)) {
	resp := rq.Resp
	who := fmt.Sprintf("request %d (replay of execution %d, shape %s)", rq.Idx, ex.N, ex.Shape)
	if resp.Status != ex.status {
		add("replay-differs|status", fmt.Sprintf("%s: status %d, execution answered %d", who, resp.Status, ex.status))
	}
	if string(resp.Body) != string(ex.body) {
		add("replay-differs|body", fmt.Sprintf("%s: body %q, execution wrote %q", who, resp.Body, ex.body))
	}
	// kept headers: reference is what the executing request received (all kept headers); when
	// that request was answered with an error, what its handler wrote.
	keep := r.sc.keepFn()
	refH := ex.hdr
	exr := r.reqs[ex.Req]
	if exr.Resp != nil && !exr.Errored {
		refH = exr.Resp.Hdr
	} else if keep == nil {
		// no complete reference: compare the names the handler wrote only
		names := map[string]bool{}
		for _, x := range ex.hdr {
			names[lname(x.K)] = true
		}
		keep = func(n string) bool { return names[n] }
	}
	for _, d := range diffHeaders(multiset(refH, keep), multiset(resp.Hdr, keep)) {
		if d.Class == "extra" && !harnessHeaderNames()[d.Name] && !r.sc.keepNamed(d.Name) {
			// A header name that no handler or middleware of this harness ever writes cannot have
			// leaked from another execution, key or request: the framework added it to the replay
			// (e.g. a replay marker). The statement demands the execution's kept headers, it does
			// not forbid additions of the framework's own. Counted, not judged.
			extraFrameworkHeaders++
			continue
		}
		add("replay-differs|header|"+d.Class+"|"+r.sc.origin(d.Name, d),
			fmt.Sprintf("%s: kept header %q: execution %v, answer %v", who, d.Name, d.Exec, d.Got))
	}
}

var extraFrameworkHeaders int64

var harnessNames map[string]bool

// harnessHeaderNames: every response header name (lower case) that any protected handler, the
// upstream middleware or the error handler of this harness produces in any case of the run.
func harnessHeaderNames() map[string]bool {
	if harnessNames != nil {
		return harnessNames
	}
	m := map[string]bool{"set-cookie": true, "content-type": true}
	for _, sh := range shapes {
		for _, x := range sh.hdr(0) {
			m[lname(x.K)] = true
		}
	}
	for _, x := range upstreamHdr {
		m[lname(x.K)] = true
	}
	harnessNames = m
	return m
}

// keepNamed: the name is listed in the configured KeepResponseHeaders.
func (sc *scenario) keepNamed(name string) bool {
	for _, k := range sc.Keep {
		if lname(k) == name {
			return true
		}
	}
	return false
}

// checkOwn: a request that ran the handler itself and was answered without error must have
// received what its handler wrote (status, body, the headers the handler set).
func (r *run) checkOwn(rq *reqRec, ex *execRec, sigPrefix string, add func(sig, what string)) {
	resp := rq.Resp
	who := fmt.Sprintf("request %d (%s, ran execution %d, shape %s)", rq.Idx, rq.class(), ex.N, ex.Shape)
	if resp.Status != ex.status {
		add(sigPrefix+"|status", fmt.Sprintf("%s: status %d, handler set %d", who, resp.Status, ex.status))
	}
	if string(resp.Body) != string(ex.body) {
		add(sigPrefix+"|body", fmt.Sprintf("%s: body %q, handler wrote %q", who, resp.Body, ex.body))
	}
	names := map[string]bool{}
	for _, x := range ex.hdr {
		names[lname(x.K)] = true
	}
	ref := ex.hdr
	if r.sc.Upstream {
		ref = append(append([]drive.H(nil), upstreamHdr...), ex.hdr...)
		for _, x := range upstreamHdr {
			names[lname(x.K)] = true
		}
	}
	if ex.cookie {
		names["set-cookie"] = false // fiber serialised further cookies; their text is not planned
	}
	keep := func(n string) bool { return names[n] }
	for _, d := range diffHeaders(multiset(ref, keep), multiset(resp.Hdr, keep)) {
		add(sigPrefix+"|header|"+d.Class, fmt.Sprintf("%s: header %q: written %v, received %v", who, d.Name, d.Exec, d.Got))
	}
}

func (r *run) judge(o judgeOpts) []finding {
	var fs []finding
	seen := map[string]bool{}
	add := func(sig, what string) {
		if seen[sig] {
			return
		}
		seen[sig] = true
		fs = append(fs, finding{sig, what})
	}
	for _, f := range r.flags {
		add(f.Sig, f.What)
	}
	if r.out != nil {
		for n, p := range r.out.Panics {
			add("panic|"+ev.PanicSite(p), "worker "+n+" panicked: "+firstLine(p))
		}
		if len(r.out.Panics) > 0 {
			return fs
		}
		if r.out.Deadlock {
			// An injected Unlock fault leaves the key locked by construction (vstore.Locker does
			// not release the inner lock): waiters never return. Only that is excused.
			if !(r.fired && r.plan.Kind == "unlock") {
				sig := "deadlock"
				if r.sc.ReuseCtx {
					sig += "|reused-request-ctx"
				}
				add(sig, "workers "+strings.Join(r.out.Blocked, ",")+" never finished")
			}
		}
	}
	if r.lk.MaxHeld > 1 {
		add("mutual-exclusion|middleware-lock", fmt.Sprintf("%d requests held the lock of one key at once", r.lk.MaxHeld))
	}

	// per key
	byKey := map[string][]*reqRec{}
	var keys []string
	for _, rq := range r.reqs {
		if rq.keyed() {
			if byKey[rq.Key] == nil {
				keys = append(keys, rq.Key)
			}
			byKey[rq.Key] = append(byKey[rq.Key], rq)
		}
	}
	sort.Strings(keys)
	for _, key := range keys {
		var succ []*execRec
		for _, ex := range r.execs {
			if ex.Key == key && ex.Exited && !ex.Fail {
				succ = append(succ, ex)
			}
		}
		if len(succ) > 1 {
			// A double execution is attributed to an injected fault only where the fault explains
			// it: the Storage.Set of a successful execution for this key failed.
			ctx := o.doubleCtx
			for _, ex := range succ {
				if r.reqs[ex.Req].Faulted == "set" {
					ctx = "after-storage-set-fault"
				}
				if strings.HasPrefix(r.reqs[ex.Req].Faulted, "getdata") && r.plan.Data != "garbage" {
					ctx = "after-undecodable-record"
				}
			}
			var who []string
			for _, ex := range succ {
				who = append(who, fmt.Sprintf("execution %d by request %d", ex.N, ex.Req))
			}
			add("double-execution|"+ctx, fmt.Sprintf("the handler completed successfully %d times for one key: %s", len(succ), strings.Join(who, ", ")))
		}
		for _, rq := range byKey[key] {
			if len(rq.Entries) > 1 {
				add("handler-ran-twice-for-one-request", fmt.Sprintf("request %d entered the handler %d times", rq.Idx, len(rq.Entries)))
			}
			// fault clause: lock acquisition / lookup failed => error, handler not run for it
			switch rq.Faulted {
			case "lock", "get1", "get2":
				cls := map[string]string{"lock": "lock", "get1": "get", "get2": "recheck-get"}[rq.Faulted]
				if len(rq.Entries) > 0 {
					add("fault|"+cls+"-error-ran-handler", fmt.Sprintf("request %d: its %s call failed, yet the handler was entered for it", rq.Idx, rq.Faulted))
				}
				if rq.Resp != nil && !rq.Errored {
					add("fault|"+cls+"-error-no-error-response", fmt.Sprintf("request %d: its %s call failed, yet it was answered %d without error", rq.Idx, rq.Faulted, rq.Resp.Status))
				}
			}
			if rq.Resp == nil {
				continue // never answered (blocked); nothing to compare
			}
			var own *execRec
			if len(rq.Entries) > 0 {
				own = r.execs[rq.Entries[len(rq.Entries)-1]]
			}
			switch {
			case rq.Errored:
				ok := rq.Faulted == "lock" || rq.Faulted == "get1" || rq.Faulted == "get2" || rq.Faulted == "set" ||
					(strings.HasPrefix(rq.Faulted, "getdata") && r.plan.Data != "garbage") ||
					(own != nil && own.Fail)
				if !ok {
					add("spurious-error|"+errClass(rq.ErrMsg), fmt.Sprintf("request %d answered with an error (%s) although neither its handler nor any of its lock/storage calls failed", rq.Idx, rq.ErrMsg))
				}
			case own != nil:
				if !own.Fail { // (what becomes of a handler error is C08's business)
					r.checkOwn(rq, own, "executor-response-altered", add)
				}
			default:
				if len(succ) == 0 {
					if ex := r.foreign(rq); ex != nil {
						add("other-key-affected|answered-from-record-of-another-key|"+keyRelation(rq.Key, ex.Key),
							fmt.Sprintf("request %d with key %q did not run the handler and was answered %d with the response of execution %d, which belongs to the DIFFERENT key %q", rq.Idx, rq.Key, rq.Resp.Status, ex.N, ex.Key))
					} else {
						add("answer-without-execution", fmt.Sprintf("request %d answered %d without running the handler, and no execution for its key completed", rq.Idx, rq.Resp.Status))
					}
				} else if ex := r.foreign(rq); ex != nil && strconv.Itoa(succ[0].N) != rq.Resp.Get("X-Exec") {
					add("other-key-affected|answered-from-record-of-another-key|"+keyRelation(rq.Key, ex.Key),
						fmt.Sprintf("request %d with key %q was answered %d with the response of execution %d, which belongs to the DIFFERENT key %q", rq.Idx, rq.Key, rq.Resp.Status, ex.N, ex.Key))
				} else if len(succ) == 1 {
					r.compareAnswer(rq, succ[0], add)
				} else {
					// double execution already reported; the answer must still be one of them
					id := rq.Resp.Get("X-Exec")
					for _, ex := range succ {
						if strconv.Itoa(ex.N) == id {
							r.compareAnswer(rq, ex, add)
						}
					}
				}
			}
		}
		// answers taken from another key's record are reported as such, not once more as a
		// broken register
		foreignHit := false
		for _, rq := range byKey[key] {
			if rq.Resp != nil && !rq.Errored && len(rq.Entries) == 0 && r.foreign(rq) != nil {
				foreignHit = true
			}
		}
		if o.linz && len(succ) <= 1 && !foreignHit {
			r.linearizable(key, byKey[key], add)
		}
	}

	// keyless / safe-method requests: always execute, exactly once, unaffected
	for _, rq := range r.reqs {
		if rq.keyed() || rq.Resp == nil {
			continue
		}
		sig := unaffectedSig(rq.reqSpec, r.sc)
		switch {
		case len(rq.Entries) != 1:
			add(sig+"|executions", fmt.Sprintf("request %d (%s) entered the handler %d times", rq.Idx, rq.class(), len(rq.Entries)))
		case rq.Errored:
			add(sig+"|error", fmt.Sprintf("request %d (%s) answered with error %s", rq.Idx, rq.class(), rq.ErrMsg))
		default:
			r.checkOwn(rq, r.execs[rq.Entries[0]], sig, add)
		}
	}
	return fs
}

// unaffectedSig: signature prefix for a request the middleware must leave alone. The class of
// its key header is part of it when the header holds something the validator would reject.
func unaffectedSig(q reqSpec, sc *scenario) string {
	sig := q.class() + "-affected"
	if q.Key != "" && !wellFormed(q.Key) && !sc.AnyKey {
		sig += "|malformed-key"
	}
	return sig
}

// foreign: the successful execution of ANOTHER key that the answer of rq identifies (X-Exec).
func (r *run) foreign(rq *reqRec) *execRec {
	id := rq.Resp.Get("X-Exec")
	if id == "" || r.sc.ConstResp {
		return nil
	}
	for _, ex := range r.execs {
		if ex.Key != "" && ex.Key != rq.Key && ex.Exited && !ex.Fail && strconv.Itoa(ex.N) == id {
			return ex
		}
	}
	return nil
}

func firstLine(s string) string {
	if i := strings.IndexByte(s, '\n'); i >= 0 {
		return s[:i]
	}
	return s
}

// overlap: at least two requests of one key missed on the fast path and went on to Lock (they
// overlap between fast-path check and store) — the non-triviality rule of the design.
func (r *run) overlap() bool {
	miss := map[string]int{}
	for _, rq := range r.reqs {
		if !rq.keyed() {
			continue
		}
		for _, op := range rq.Ops {
			if op.Kind == "lock" {
				miss[rq.Key]++
				break
			}
		}
	}
	for _, n := range miss {
		if n >= 2 {
			return true
		}
	}
	return false
}

// ---------------------------------------------------------------------------------------------
// linearizability of the key's execute-or-replay register

const (
	oExecOK = iota
	oExecFail
	oReplay
	oReplayAny // a replay that does not say of which execution: legal once something is recorded
)

type regOut struct {
	Kind int
	ID   int
}

var regModel = porcupine.Model{
	Init: func() any { return -1 },
	Step: func(state, _ any, output any) (bool, any) {
		st := state.(int)
		o := output.(regOut)
		switch o.Kind {
		case oExecOK:
			if st != -1 {
				return false, st
			}
			return true, o.ID
		case oReplay:
			return st == o.ID, st
		case oReplayAny:
			return st != -1, st
		default: // a failed execution records nothing; the statement says nothing about when it may happen
			return true, st
		}
	},
	Equal: func(a, b any) bool { return a.(int) == b.(int) },
	DescribeOperation: func(_ any, output any) string {
		o := output.(regOut)
		return []string{"execute-ok", "execute-fail", "replay", "replay-of-whatever-is-recorded"}[o.Kind] + "(" + strconv.Itoa(o.ID) + ")"
	},
}

var linzInconclusive func(why string)
var linzChecked int64

func (r *run) linearizable(key string, reqs []*reqRec, add func(sig, what string)) {
	var ops []porcupine.Operation
	for _, rq := range reqs {
		if rq.Resp == nil || (rq.Errored && len(rq.Entries) == 0) {
			continue // an error answer without execution neither reads nor writes the register
		}
		var out regOut
		if len(rq.Entries) > 0 {
			ex := r.execs[rq.Entries[len(rq.Entries)-1]]
			out = regOut{oExecOK, ex.N}
			if ex.Fail {
				out.Kind = oExecFail
			}
		} else {
			id, err := strconv.Atoi(rq.Resp.Get("X-Exec"))
			switch {
			case r.sc.ConstResp || (err != nil && r.sc.Keep != nil && !r.sc.keepNamed("x-exec")):
				// the answer cannot name its execution (identical answers, or X-Exec not kept)
				out = regOut{oReplayAny, 0}
			case err != nil:
				out = regOut{oReplay, -2} // identifies no execution: illegal in every state
			default:
				out = regOut{oReplay, id}
			}
		}
		ops = append(ops, porcupine.Operation{ClientId: rq.Idx, Input: 0, Output: out, Call: rq.Call, Return: rq.Ret})
	}
	if len(ops) == 0 {
		return
	}
	linzChecked++
	switch porcupine.CheckOperationsTimeout(regModel, ops, 60*time.Second) {
	case porcupine.Unknown:
		if linzInconclusive != nil {
			linzInconclusive("porcupine timeout on " + r.sc.desc())
		}
	case porcupine.Illegal:
		var lines []string
		for _, op := range ops {
			lines = append(lines, fmt.Sprintf("req%d [%d,%d] %s", op.ClientId, op.Call, op.Return, regModel.DescribeOperation(nil, op.Output)))
		}
		add("not-linearizable", "execute-or-replay register of one key has no linearization: "+strings.Join(lines, "; "))
	}
}
