package bind

import (
	"encoding/xml"
	"math"
	"reflect"
	"strconv"
	"strings"

	"verifharness/internal/gen"
)

// ---------------------------------------------------------------------------------------------
// The fixed family of struct types.
//
// A type is a list of exported fields; every field is a scalar of one of the supported kinds, a
// slice of such a scalar, or (body sources only) a struct / slice of structs nested one level.
// The Go types are made with reflect.StructOf once per process; the family does not depend on
// the seed, so "type 17" is the same type in every run.

type kind uint8

const (
	kString kind = iota
	kInt
	kInt8
	kInt16
	kInt32
	kInt64
	kUint
	kUint8
	kUint16
	kUint32
	kUint64
	kFloat32
	kFloat64
	kBool
	nKinds
)

var kindName = [nKinds]string{"string", "int", "int8", "int16", "int32", "int64",
	"uint", "uint8", "uint16", "uint32", "uint64", "float32", "float64", "bool"}

var kindType = [nKinds]reflect.Type{
	reflect.TypeOf(""), reflect.TypeOf(int(0)), reflect.TypeOf(int8(0)), reflect.TypeOf(int16(0)),
	reflect.TypeOf(int32(0)), reflect.TypeOf(int64(0)), reflect.TypeOf(uint(0)), reflect.TypeOf(uint8(0)),
	reflect.TypeOf(uint16(0)), reflect.TypeOf(uint32(0)), reflect.TypeOf(uint64(0)),
	reflect.TypeOf(float32(0)), reflect.TypeOf(float64(0)), reflect.TypeOf(false),
}

func (k kind) isInt() bool   { return k >= kInt && k <= kInt64 }
func (k kind) isUint() bool  { return k >= kUint && k <= kUint64 }
func (k kind) isFloat() bool { return k == kFloat32 || k == kFloat64 }

func (k kind) bits() int {
	switch k {
	case kInt8, kUint8:
		return 8
	case kInt16, kUint16:
		return 16
	case kInt32, kUint32, kFloat32:
		return 32
	}
	return 64
}

type fieldSpec struct {
	Name     string // Go field name
	Key      string // base of the name on the wire; == Name unless keys are under test
	Verbatim bool   // Key is used as is in every tag (keys under test)
	K        kind
	Slice    bool
	Nested   *typeSpec // struct field (slice of structs when Slice)
}

// class names the shape of a field, e.g. "string", "slice-of-int8", "struct", "slice-of-struct".
func (f *fieldSpec) class() string {
	base := ""
	if f.Nested != nil {
		base = "struct"
	} else {
		base = kindName[f.K]
	}
	if f.Slice {
		return "slice-of-" + base
	}
	return base
}

type typeSpec struct {
	ID      string
	Fields  []fieldSpec
	RT      reflect.Type
	XMLName bool
}

var tagNames = []string{"query", "param", "form", "header", "respHeader", "cookie", "uri", "path", "json", "xml", "cbor"}

// Every source tag carries its own wire name (Zqa -> "Zqaq" for query, "Zqaf" for form, ...), so
// that a decoder working with the alias tag of another source (pooled decoders are per tag)
// cannot go unnoticed. Keys under test (family "keys") are used verbatim for every tag.
var tagSuffix = map[string]string{"respHeader": "r", "query": "q", "param": "q", "form": "f", "header": "h", "cookie": "c", "uri": "u", "path": "u",
	"json": "j", "xml": "x", "cbor": "b"}

var sourceTag = [nSources]string{"query", "form", "form", "header", "cookie", "json", "xml", "cbor"}

// wire is the field's name in the given source tag.
func (f *fieldSpec) wire(tag string) string {
	if f.Verbatim {
		return f.Key
	}
	return f.Key + tagSuffix[tag]
}

func tagFor(f *fieldSpec) reflect.StructTag {
	var sb strings.Builder
	for i, t := range tagNames {
		if i > 0 {
			sb.WriteByte(' ')
		}
		sb.WriteString(t)
		sb.WriteByte(':')
		sb.WriteString(strconv.Quote(f.wire(t)))
	}
	return reflect.StructTag(sb.String())
}

var xmlNameType = reflect.TypeOf(xml.Name{})

func buildType(id string, fields []fieldSpec, xmlName bool) *typeSpec {
	var sf []reflect.StructField
	if xmlName {
		sf = append(sf, reflect.StructField{Name: "XMLName", Type: xmlNameType,
			Tag: `xml:"root" json:"-" cbor:"-" query:"-" form:"-" header:"-" cookie:"-"`})
	}
	for i := range fields {
		f := &fields[i]
		if f.Key == "" {
			f.Key = f.Name
		}
		var t reflect.Type
		if f.Nested != nil {
			t = f.Nested.RT
		} else {
			t = kindType[f.K]
		}
		if f.Slice {
			t = reflect.SliceOf(t)
		}
		sf = append(sf, reflect.StructField{Name: f.Name, Type: t, Tag: tagFor(f)})
	}
	return &typeSpec{ID: id, Fields: fields, RT: reflect.StructOf(sf), XMLName: xmlName}
}

func fieldName(i int) string { return "Zq" + string(rune('a'+i)) }

const (
	nFlatTypes = 96
	nBodyTypes = 96
)

var (
	flatFamily []*typeSpec // query, form, multipart, header, cookie
	bodyFamily []*typeSpec // json, cbor (nested one level)
	xmlFamily  []*typeSpec // bodyFamily with an XMLName root and without []uint8
	single     = map[string]*typeSpec{}
)

// singleType is the one-field type used while shrinking a witness.
func singleType(k kind, slice bool, xmlName bool) *typeSpec {
	id := "one-" + kindName[k]
	if slice {
		id = "one-slice-" + kindName[k]
	}
	if xmlName {
		id += "-x"
	}
	if t, ok := single[id]; ok {
		return t
	}
	t := buildType(id, []fieldSpec{{Name: fieldName(0), K: k, Slice: slice}}, xmlName)
	single[id] = t
	return t
}

func init() {
	// The first 2*nKinds types of each family have one field: every kind and every slice kind.
	for i := 0; i < nFlatTypes; i++ {
		flatFamily = append(flatFamily, makeFamilyType("flat", i, false, false))
	}
	for i := 0; i < nBodyTypes; i++ {
		bodyFamily = append(bodyFamily, makeFamilyType("body", i, true, false))
		xmlFamily = append(xmlFamily, makeFamilyType("body", i, true, true))
	}
	for k := kind(0); k < nKinds; k++ {
		for _, x := range []bool{false, true} {
			singleType(k, false, x)
			singleType(k, true, x)
		}
	}
}

func makeFamilyType(fam string, i int, nested, forXML bool) *typeSpec {
	id := fam + strconv.Itoa(i)
	if forXML {
		id = "xml" + strconv.Itoa(i)
	}
	r := gen.Derive(0, "bind-type-family", fam, strconv.Itoa(i))
	var fields []fieldSpec
	pickScalar := func(r *gen.Rand) (kind, bool) {
		k := kind(r.Intn(int(nKinds)))
		if r.Chance(1, 3) {
			k = kString
		}
		return k, r.Chance(2, 5)
	}
	fix := func(k kind, slice bool) kind {
		// XML cannot carry []byte as anything but character data: not part of its domain.
		if forXML && slice && k == kUint8 {
			return kUint16
		}
		return k
	}
	if i < 2*int(nKinds) {
		k := kind(i % int(nKinds))
		slice := i >= int(nKinds)
		// draw from r anyway so that both variants (xml / non-xml) stay aligned
		fields = append(fields, fieldSpec{Name: fieldName(0), K: fix(k, slice), Slice: slice})
	} else {
		n := r.Range(2, 7)
		for j := 0; j < n; j++ {
			if nested && j == n-1 && r.Chance(2, 3) {
				// one nested struct (or slice of structs), one level deep
				m := r.Range(1, 4)
				var nf []fieldSpec
				rr := r.Split()
				for q := 0; q < m; q++ {
					k, s := pickScalar(rr)
					nf = append(nf, fieldSpec{Name: fieldName(q), K: fix(k, s), Slice: s})
				}
				nt := buildType(id+"n", nf, false)
				fields = append(fields, fieldSpec{Name: fieldName(j), Nested: nt, Slice: r.Chance(1, 3)})
				continue
			}
			k, s := pickScalar(r)
			fields = append(fields, fieldSpec{Name: fieldName(j), K: fix(k, s), Slice: s})
		}
	}
	return buildType(id, fields, forXML)
}

// ---------------------------------------------------------------------------------------------
// Equality (reflect.DeepEqual up to nil/empty slices; NaN equals NaN; XMLName ignored) that also
// says where the first difference is.

type diff struct {
	Top   int    // index into typeSpec.Fields of the top-level field that differs
	Path  string // e.g. "Zqc[2].Zqa"
	Leaf  *fieldSpec
	Sent  reflect.Value // the differing leaf values (scalars or slices of scalars)
	Got   reflect.Value
	Shape string // "len-fewer", "len-more", "value"
}

func equalStruct(t *typeSpec, a, b reflect.Value) *diff {
	for i := range t.Fields {
		f := &t.Fields[i]
		if d := equalField(f, a.FieldByName(f.Name), b.FieldByName(f.Name), f.Name); d != nil {
			d.Top = i
			return d
		}
	}
	return nil
}

func equalField(f *fieldSpec, a, b reflect.Value, path string) *diff {
	if f.Nested != nil {
		if f.Slice {
			if a.Len() != b.Len() {
				return &diff{Path: path, Leaf: f, Sent: a, Got: b, Shape: lenShape(a.Len(), b.Len())}
			}
			for i := 0; i < a.Len(); i++ {
				if d := equalStructPath(f.Nested, a.Index(i), b.Index(i), path+"["+strconv.Itoa(i)+"]"); d != nil {
					return d
				}
			}
			return nil
		}
		return equalStructPath(f.Nested, a, b, path)
	}
	if f.Slice {
		if a.Len() != b.Len() {
			return &diff{Path: path, Leaf: f, Sent: a, Got: b, Shape: lenShape(a.Len(), b.Len())}
		}
		for i := 0; i < a.Len(); i++ {
			if !scalarEqual(f.K, a.Index(i), b.Index(i)) {
				return &diff{Path: path + "[" + strconv.Itoa(i) + "]", Leaf: f, Sent: a, Got: b, Shape: "value"}
			}
		}
		return nil
	}
	if !scalarEqual(f.K, a, b) {
		return &diff{Path: path, Leaf: f, Sent: a, Got: b, Shape: "value"}
	}
	return nil
}

func equalStructPath(t *typeSpec, a, b reflect.Value, path string) *diff {
	for i := range t.Fields {
		f := &t.Fields[i]
		if d := equalField(f, a.FieldByName(f.Name), b.FieldByName(f.Name), path+"."+f.Name); d != nil {
			return d
		}
	}
	return nil
}

func lenShape(sent, got int) string {
	if got < sent {
		return "len-fewer"
	}
	return "len-more"
}

func scalarEqual(k kind, a, b reflect.Value) bool {
	switch {
	case k == kString:
		return a.String() == b.String()
	case k.isInt():
		return a.Int() == b.Int()
	case k.isUint():
		return a.Uint() == b.Uint()
	case k.isFloat():
		x, y := a.Float(), b.Float()
		return x == y || (math.IsNaN(x) && math.IsNaN(y)) // as DeepEqual: -0 == 0
	default:
		return a.Bool() == b.Bool()
	}
}

// ---------------------------------------------------------------------------------------------
// Rendering for evidence / violation details (JSON-serialisable, lossless for what matters).

func renderScalar(k kind, v reflect.Value) string {
	switch {
	case k == kString:
		s := v.String()
		if len(s) > 160 {
			return strconv.Quote(s[:160]) + "...(" + strconv.Itoa(len(s)) + " bytes)"
		}
		return strconv.Quote(s)
	case k.isInt():
		return strconv.FormatInt(v.Int(), 10)
	case k.isUint():
		return strconv.FormatUint(v.Uint(), 10)
	case k.isFloat():
		f := v.Float()
		if f == 0 && math.Signbit(f) {
			return "-0"
		}
		return strconv.FormatFloat(f, 'g', -1, k.bits())
	default:
		return strconv.FormatBool(v.Bool())
	}
}

func renderField(f *fieldSpec, v reflect.Value) any {
	if f.Nested != nil {
		if f.Slice {
			out := []any{}
			for i := 0; i < v.Len() && i < 6; i++ {
				out = append(out, renderStruct(f.Nested, v.Index(i)))
			}
			if v.Len() > 6 {
				out = append(out, "...("+strconv.Itoa(v.Len())+" elements)")
			}
			return out
		}
		return renderStruct(f.Nested, v)
	}
	if f.Slice {
		if v.IsNil() {
			return "nil"
		}
		out := []any{}
		for i := 0; i < v.Len() && i < 12; i++ {
			out = append(out, renderScalar(f.K, v.Index(i)))
		}
		if v.Len() > 12 {
			out = append(out, "...("+strconv.Itoa(v.Len())+" elements)")
		}
		return out
	}
	return renderScalar(f.K, v)
}

func renderStruct(t *typeSpec, v reflect.Value) map[string]any {
	m := map[string]any{}
	for i := range t.Fields {
		f := &t.Fields[i]
		m[f.Name+" "+f.class()] = renderField(f, v.FieldByName(f.Name))
	}
	return m
}
