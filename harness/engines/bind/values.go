package bind

import (
	"math"
	"reflect"
	"strings"
	"unicode/utf8"

	"verifharness/internal/gen"
	"verifharness/internal/strict"
)

// ---------------------------------------------------------------------------------------------
// Sources and their value domains.

type source uint8

const (
	sQuery source = iota
	sForm
	sMultipart
	sHeader
	sCookie
	sJSON
	sXML
	sCBOR
	nSources
)

var sourceName = [nSources]string{"query", "form", "multipart", "header", "cookie", "json", "xml", "cbor"}

func (s source) isBody() bool { return s == sJSON || s == sXML || s == sCBOR }
func (s source) isText() bool { return !s.isBody() }

// domainNote is recorded in the evidence (Note "domain").
const domainNote = "Value domain per source (values are restricted to what the source can carry in HTTP itself): " +
	"query/form/multipart/json/cbor: any valid UTF-8 string including NUL, C0 controls, CR/LF, every URL-reserved " +
	"character and the empty string; header: field-value octets only (VCHAR, SP, HTAB, UTF-8 bytes >= 0x80; no CR/LF/NUL/" +
	"other CTLs; no leading/trailing SP/HTAB); cookie: cookie-octets only (RFC 6265: no SP, DQUOTE, comma, semicolon, " +
	"backslash, CTLs, non-ASCII); xml: XML 1.0 Char only (TAB, LF, CR, >= 0x20 without U+FFFE/U+FFFF) and no []uint8 " +
	"(XML has no byte-string type); json: finite floats only (JSON has no NaN/Inf); all other sources include NaN, +Inf, " +
	"-Inf and -0 (-0 is accepted as equal to 0, as reflect.DeepEqual does; NaN is accepted as equal to NaN). Strings are valid " +
	"UTF-8 everywhere. With EnableSplittingOnParsers only comma-free values are generated and asserted. Integers cover the " +
	"full range of their width; slices have length 0..300 (nil and empty are identified). Field names / keys are plain " +
	"letters except in the 'keys' family."

type domain struct {
	src     source
	noComma bool
	budget  int // rough byte budget for the whole value (request line / header block limits)
}

func newDomain(src source, split bool) *domain {
	d := &domain{src: src, noComma: split}
	switch src {
	case sQuery, sHeader, sCookie:
		d.budget = 20000 // server ReadBufferSize is 64 KiB in the rig
	default:
		d.budget = 200000
	}
	return d
}

func (d *domain) allowNaN() bool { return d.src != sJSON }

// sanitize maps an arbitrary valid-UTF-8 candidate into the domain of the source.
func (d *domain) sanitize(s string) string {
	if !utf8.ValidString(s) {
		s = strings.ToValidUTF8(s, "")
	}
	if d.noComma && strings.Contains(s, ",") {
		s = strings.ReplaceAll(s, ",", "")
	}
	switch d.src {
	case sHeader:
		var sb strings.Builder
		for i := 0; i < len(s); i++ {
			c := s[i]
			if c >= 0x80 || c == ' ' || c == '\t' || (c >= 0x21 && c <= 0x7e) {
				sb.WriteByte(c)
			}
		}
		return strings.Trim(sb.String(), " \t")
	case sCookie:
		var sb strings.Builder
		for i := 0; i < len(s); i++ {
			if strict.IsCookieOctet(s[i]) {
				sb.WriteByte(s[i])
			}
		}
		return sb.String()
	case sXML:
		var sb strings.Builder
		for _, r := range s {
			if r == 0x9 || r == 0xA || r == 0xD || (r >= 0x20 && r <= 0xD7FF) || (r >= 0xE000 && r <= 0xFFFD) || r >= 0x10000 {
				sb.WriteRune(r)
			}
		}
		return sb.String()
	}
	return s
}

// ---------------------------------------------------------------------------------------------
// String material.

var reservedChars = []string{"+", "&", "=", "%", "#", ";", ",", "[", "]", ".", ":", "/", "?", "@", "!", "$", "'", "(", ")", "*"}
var otherPunct = []string{" ", "\"", "<", ">", "\\", "|", "{", "}", "^", "`", "~", "-", "_"}
var unicodeBits = []string{"\u00e9", "\u00df", "\u65e5\u672c", "\U0001F600", "\u00fc", "e\u0301", "\u2028", "\ufeff", "\ufffd", "\u03a9", "\u00f1", "\u00a0", "\u0085",
	"\U0001F468\u200D\U0001F469", "\u0130", "\u01c5", "\u202e", "\u00ff", "\u0100", "\ud7ff", "\ue000", "\U0010FFFF"}
var ctlBits = []string{"\t", "\n", "\r", "\r\n", "\x00", "\x01", "\x1f", "\x7f", "\x0b", "\x1b"}
var wordBits = []string{"null", "true", "false", "on", "0", "-1", "1e5", "NaN", "%20", "%2C", "%2c", "%zz", "%", "%u00e9", "%00",
	"a=b&c=d", "[0]", "[]", "a.b", "a[b]", "..", "+ +", "&&", "==", "<a>", "</root>", "<![CDATA[x]]>", "]]>", "&amp;", "&#x41;",
	"\\u0041", "\\n", "\"q\"", "'", "--", "\r\n\r\n", "; Path=/", "=?utf-8?b?YQ==?=", "undefined", "{}", "[1,2]", "a,b", ",", ",,"}

func genString(r *gen.Rand, d *domain, maxLen int) string {
	var s string
	switch r.PickW(8, 14, 16, 38, 8, 9, 3, 4) {
	case 0:
		s = ""
	case 1:
		s = r.StringFrom(gen.AlphaNum, r.Range(1, 10))
	case 2:
		s = gen.Pick(r, reservedChars)
		if r.Chance(1, 3) {
			s = gen.Pick(r, otherPunct)
		}
		if r.Chance(1, 2) {
			s = r.StringFrom(gen.Lower, r.Range(0, 2)) + s + r.StringFrom(gen.Lower, r.Range(0, 2))
		}
	case 3:
		var sb strings.Builder
		n := r.Range(1, 8)
		for i := 0; i < n; i++ {
			switch r.PickW(4, 5, 2, 2, 1, 3) {
			case 0:
				sb.WriteString(r.StringFrom(gen.AlphaNum, r.Range(1, 4)))
			case 1:
				sb.WriteString(gen.Pick(r, reservedChars))
			case 2:
				sb.WriteString(gen.Pick(r, otherPunct))
			case 3:
				sb.WriteString(gen.Pick(r, unicodeBits))
			case 4:
				sb.WriteString(gen.Pick(r, ctlBits))
			case 5:
				sb.WriteString(gen.Pick(r, wordBits))
			}
		}
		s = sb.String()
	case 4:
		core := r.StringFrom(gen.Lower, r.Range(0, 4))
		ws := []string{" ", "  ", "\t", " \t "}
		switch r.Intn(3) {
		case 0:
			s = gen.Pick(r, ws) + core
		case 1:
			s = core + gen.Pick(r, ws)
		default:
			s = gen.Pick(r, ws) + core + gen.Pick(r, ws)
		}
	case 5:
		var sb strings.Builder
		n := r.Range(1, 5)
		for i := 0; i < n; i++ {
			sb.WriteString(gen.Pick(r, unicodeBits))
			if r.Bool() {
				sb.WriteString(r.StringFrom(gen.Lower, 1))
			}
		}
		s = sb.String()
	case 6:
		n := r.Range(200, 3000)
		alpha := gen.AlphaNum
		if r.Bool() {
			alpha = gen.AlphaNum + "+&=%#;,[]. /?\u00e9"
		}
		s = strings.ToValidUTF8(r.StringFrom(alpha, n), "")
	case 7:
		s = r.StringFrom(gen.Lower, r.Range(0, 3)) + gen.Pick(r, ctlBits) + r.StringFrom(gen.Lower, r.Range(0, 3))
	}
	s = d.sanitize(s)
	if len(s) > maxLen {
		s = strings.ToValidUTF8(s[:maxLen], "")
		s = d.sanitize(s)
	}
	return s
}

// ---------------------------------------------------------------------------------------------
// Numbers.

func genInt(r *gen.Rand, bits int) int64 {
	minV := int64(-1) << (bits - 1)
	maxV := -(minV + 1)
	switch r.PickW(3, 3, 2, 2, 2, 6, 6) {
	case 0:
		return minV
	case 1:
		return maxV
	case 2:
		return 0
	case 3:
		return -1
	case 4:
		return minV + 1
	case 5:
		return int64(r.Range(-1000, 1000)) % (maxV + 1)
	}
	v := int64(r.Uint64())
	return v >> (64 - bits)
}

func genUint(r *gen.Rand, bits int) uint64 {
	maxV := ^uint64(0) >> (64 - bits)
	switch r.PickW(3, 3, 2, 6, 6) {
	case 0:
		return maxV
	case 1:
		return 0
	case 2:
		return maxV - 1
	case 3:
		return uint64(r.Intn(1000)) & maxV
	}
	return r.Uint64() >> (64 - bits)
}

var float64Specials = []float64{0, math.Copysign(0, -1), 1, -1, 0.1, 1.0 / 3, math.MaxFloat64, -math.MaxFloat64,
	math.SmallestNonzeroFloat64, -math.SmallestNonzeroFloat64, 2.2250738585072014e-308, 1e21, 1e-7, 123456.789012345,
	9007199254740993, 1e22, 5e-324, 0.000001, 1234567.125, math.Pi, 1e15 + 0.3, 4.35, 0.30000000000000004}
var float32Specials = []float32{0, float32(math.Copysign(0, -1)), 1, -1, 0.1, 1.0 / 3, math.MaxFloat32, -math.MaxFloat32,
	math.SmallestNonzeroFloat32, 1.17549435e-38, 1e21, 1e-7, 123456.79, 16777217, 3.4e38, 1e-45, 0.000001, math.Pi, 4.35}

func genFloat(r *gen.Rand, bits int, allowNaN bool) float64 {
	switch r.PickW(8, 3, 6, 5) {
	case 0:
		if bits == 32 {
			return float64(gen.Pick(r, float32Specials))
		}
		return gen.Pick(r, float64Specials)
	case 1:
		if allowNaN {
			return []float64{math.NaN(), math.Inf(1), math.Inf(-1)}[r.Intn(3)]
		}
		return float64(r.Range(-5, 5))
	case 2:
		// arbitrary finite bit pattern
		for {
			var f float64
			if bits == 32 {
				f = float64(math.Float32frombits(uint32(r.Uint64())))
			} else {
				f = math.Float64frombits(r.Uint64())
			}
			if !math.IsNaN(f) && !math.IsInf(f, 0) {
				return f
			}
		}
	}
	// decimal with a few fractional digits
	f := float64(r.Range(-100000000, 100000000)) / math.Pow(10, float64(r.Intn(9)))
	if bits == 32 {
		return float64(float32(f))
	}
	return f
}

func setScalar(r *gen.Rand, d *domain, k kind, v reflect.Value, maxStr int) int {
	switch {
	case k == kString:
		s := genString(r, d, maxStr)
		v.SetString(s)
		return len(s) + 8
	case k.isInt():
		v.SetInt(genInt(r, k.bits()))
		return 24
	case k.isUint():
		v.SetUint(genUint(r, k.bits()))
		return 24
	case k.isFloat():
		f := genFloat(r, k.bits(), d.allowNaN())
		v.SetFloat(f)
		// 'f' formatting of huge / tiny floats takes up to ~330 digits per element
		if a := math.Abs(f); a > 1e15 || (a != 0 && a < 1e-5) {
			return 350
		}
		return 32
	default:
		v.SetBool(r.Bool())
		return 8
	}
}

func genSliceLen(r *gen.Rand) int {
	switch r.PickW(15, 25, 45, 12, 3) {
	case 0:
		return 0
	case 1:
		return 1
	case 2:
		return r.Range(2, 5)
	case 3:
		return r.Range(6, 40)
	}
	return r.Range(41, 300)
}

// genStruct fills a fresh value of the type. budget is decremented by a rough wire-size estimate
// so that text sources stay inside the server's header limits.
func genStruct(r *gen.Rand, d *domain, t *typeSpec, budget *int) reflect.Value {
	v := reflect.New(t.RT).Elem()
	fillStruct(r, d, t, v, budget, true)
	return v
}

func fillStruct(r *gen.Rand, d *domain, t *typeSpec, v reflect.Value, budget *int, top bool) {
	for i := range t.Fields {
		f := &t.Fields[i]
		fv := v.FieldByName(f.Name)
		if f.Nested != nil {
			if f.Slice {
				n := genSliceLen(r)
				if n > 20 {
					n = 20
				}
				if n == 0 {
					if r.Bool() {
						fv.Set(reflect.MakeSlice(fv.Type(), 0, 0))
					}
					continue
				}
				sl := reflect.MakeSlice(fv.Type(), n, n)
				for j := 0; j < n; j++ {
					fillStruct(r, d, f.Nested, sl.Index(j), budget, false)
				}
				fv.Set(sl)
			} else {
				fillStruct(r, d, f.Nested, fv, budget, false)
			}
			continue
		}
		if !f.Slice {
			maxStr := *budget / 4
			if maxStr < 0 {
				maxStr = 0
			}
			*budget -= setScalar(r, d, f.K, fv, maxStr)
			continue
		}
		n := genSliceLen(r)
		if n == 0 {
			if r.Bool() {
				fv.Set(reflect.MakeSlice(fv.Type(), 0, 0)) // empty, non-nil
			}
			continue
		}
		sl := reflect.MakeSlice(fv.Type(), 0, n)
		for j := 0; j < n; j++ {
			if *budget < 400 {
				break
			}
			ev := reflect.New(kindType[f.K]).Elem()
			maxStr := 64
			if n <= 5 {
				maxStr = *budget / 8
			}
			*budget -= setScalar(r, d, f.K, ev, maxStr) + len(f.Key)
			sl = reflect.Append(sl, ev)
		}
		fv.Set(sl)
	}
}

// nontrivial implements the rule of DESIGN 3.C11: some string contains a character outside
// [A-Za-z0-9] (reserved / escaped somewhere on the way), or some slice has length != 1.
func nontrivial(t *typeSpec, v reflect.Value) bool {
	for i := range t.Fields {
		f := &t.Fields[i]
		fv := v.FieldByName(f.Name)
		if f.Nested != nil {
			if f.Slice {
				if fv.Len() != 1 {
					return true
				}
				if nontrivial(f.Nested, fv.Index(0)) {
					return true
				}
			} else if nontrivial(f.Nested, fv) {
				return true
			}
			continue
		}
		if f.Slice {
			if fv.Len() != 1 {
				return true
			}
			if f.K == kString && !plain(fv.Index(0).String()) {
				return true
			}
			continue
		}
		if f.K == kString && !plain(fv.String()) {
			return true
		}
	}
	return false
}

func plain(s string) bool {
	for i := 0; i < len(s); i++ {
		c := s[i]
		if !(c >= '0' && c <= '9' || c >= 'a' && c <= 'z' || c >= 'A' && c <= 'Z') {
			return false
		}
	}
	return true
}
