package bind

import (
	"errors"
	"fmt"
	"reflect"
	"runtime/debug"
	"strconv"
	"strings"

	"github.com/gofiber/fiber/v3"

	"verifharness/internal/drive"
	"verifharness/internal/ev"
	"verifharness/internal/gen"
)

// ---------------------------------------------------------------------------------------------
// several binds in one request: a handler binds 2-4 sources of the same request (query, header,
// cookie and a form or JSON body), the handling mode chosen ONCE: on the binder value that is then
// used for every bind (b := c.Bind().WithAutoHandling(); b.Query(..); b.Header(..)), or on the
// first c.Bind() of the handler with later binds through c.Bind() again, or in a middleware in
// front of the handler. At most one source carries input that cannot bind (letters for a number),
// at any position. Automatic handling: whichever bind fails, 400 and the automatic error;
// manual / default: the binder's own error, status untouched.
// Only the first way is a verdict. The other two depend on the mode persisting across separate
// c.Bind() calls of a request, which the statement does not fix (a maintainer could reset the
// mode per c.Bind() call): they are run, and what happened is counted
// (multibind_mode_across_cBind_calls|...|persisted / not-persisted), never reported.

type multiBind struct {
	op      string
	typ     *typeSpec
	bad     bool
	reached bool
	err     string
	hasErr  bool
	wrapped bool
}

func (p *probe) multiHandler(c fiber.Ctx) error {
	p.ran = true
	b := c.Bind()
	if !p.viaMW {
		switch {
		case p.defMode:
		case p.auto:
			b = b.WithAutoHandling()
		default:
			b = b.WithoutAutoHandling()
		}
	}
	for _, mb := range p.multi {
		bb := b
		if p.freshEach {
			bb = c.Bind()
		}
		mb.reached = true
		var err error
		func() {
			defer func() {
				if r := recover(); r != nil {
					p.panicVal = fmt.Sprint(r)
					p.stack = string(debug.Stack())
				}
			}()
			q := &probe{op: bopOf(mb.op)}
			err = q.call(bb, reflect.New(mb.typ.RT).Interface())
		}()
		if p.panicVal != "" {
			return c.Status(599).SendString("panic")
		}
		if err != nil {
			mb.hasErr, mb.err = true, err.Error()
			var fe *fiber.Error
			mb.wrapped = errors.As(err, &fe) && fe.Code == fiber.StatusBadRequest && strings.HasPrefix(fe.Message, "Bad request: ")
			p.hasErr, p.bindErr, p.wrapped = true, mb.err, mb.wrapped
			if p.swallow {
				return c.SendString("handled by the handler")
			}
			return err
		}
	}
	return c.SendString("ok")
}

// multiInput puts the arguments of every bind into one request.
func multiInput(binds []*multiBind) totalInput {
	in := totalInput{uri: "/t", meth: "GET"}
	for _, mb := range binds {
		tag := opTag[mb.op]
		var kvs [][2]string
		for j := range mb.typ.Fields {
			g := &mb.typ.Fields[j]
			if g.Nested == nil {
				kvs = append(kvs, [2]string{g.wire(tag), "1"})
			}
		}
		if mb.bad {
			kvs = append(kvs, [2]string{numericFields(mb.typ, 64)[0].wire(tag), "abc"}) // the last value wins for a scalar
		}
		var part totalInput
		if mb.op == "json" {
			var ps []string
			for _, kv := range kvs {
				if kv[1] == "abc" {
					ps = append(ps, "\""+kv[0]+"\":\"abc\"")
				}
			}
			part = totalInput{meth: "POST", hdr: []drive.H{{K: "Content-Type", V: "application/json"}}, body: []byte("{" + strings.Join(ps, ",") + "}")}
		} else {
			part = textInput(mb.op, kvs)
		}
		if mb.op == "query" {
			in.uri = part.uri
		}
		if part.meth == "POST" {
			in.meth, in.body = "POST", part.body
		}
		in.hdr = append(in.hdr, part.hdr...)
	}
	return in
}

type multiReq struct {
	binds   []*multiBind
	mode    string // auto | manual | default
	how     string // one-binder-value | c.Bind()-each-time | middleware
	swallow bool
}

func (en *engine) multiBindRun(c *ev.Case, split bool, reqs []multiReq) {
	e := en.e
	app := newSeqApp(split)
	var hist []string
	for ri, rq := range reqs {
		p := &probe{auto: rq.mode == "auto", defMode: rq.mode == "default", swallow: rq.swallow, multi: rq.binds,
			freshEach: rq.how != "one-binder-value", viaMW: rq.how == "middleware"}
		status := app.do(p, multiInput(rq.binds))
		e.Eval(1)
		e.Stat("multibind_requests", 1)
		badAt := -1
		var ops []string
		for i, mb := range rq.binds {
			o := mb.op
			if mb.bad {
				badAt = i
				o += "(bad)"
			}
			ops = append(ops, o)
		}
		hist = append(hist, fmt.Sprintf("%d: %s/%s binds %s -> %d", ri+1, rq.mode, rq.how, strings.Join(ops, ","), status))
		det := map[string]any{"requests_so_far": append([]string(nil), hist...), "mode": rq.mode, "mode_chosen": rq.how, "binds": ops,
			"handler_ignores_error": rq.swallow, "status": status, "bind_error": trim(p.bindErr, 200), "EnableSplittingOnParsers": split}
		if badAt > 0 {
			e.Nontrivial("multibind", c.ID, strconv.Itoa(ri))
			e.Stat("multibind_bad_input_in_later_bind", 1)
		}
		if p.panicVal != "" {
			det["stack"] = trim(p.stack, 2500)
			e.Violation(c, panicSig(p), "Bind() panicked: "+p.panicVal, det)
			return
		}
		if !p.ran {
			e.Stat("multibind_rejected_before_handler", 1)
			continue
		}
		mw := ""
		pos := func(i int) string {
			if i == 0 {
				return "first-bind-of-the-request"
			}
			return "later-bind-of-the-request"
		}
		judged := false
		for i, mb := range rq.binds {
			if !mb.reached {
				break
			}
			bop := bopOf(mb.op)
			switch {
			case !mb.bad && mb.hasErr:
				e.Violation(c, "totality|"+bop+"|valid-input-rejected-in-sequence", "well-formed input (\"1\" for every field) failed to bind", det)
				judged = true
			case mb.bad && !mb.hasErr:
				e.Violation(c, "totality|"+bop+"|silent-success|not-a-number|in-sequence", "letters for a number bound without an error", det)
				judged = true
			case mb.bad && rq.how != "one-binder-value":
				// The mode was chosen on an earlier c.Bind() call (handler or middleware) and this bind
				// went through c.Bind() again: whether the choice is still in force for a later
				// c.Bind() of the request is not fixed by the statement. Observed, never judged.
				if rq.mode != "default" {
					kept := mb.wrapped && status == 400
					if rq.mode == "manual" {
						kept = !mb.wrapped
					}
					e.Stat("multibind_mode_across_cBind_calls|"+rq.how+"|"+rq.mode+"|"+map[bool]string{true: "persisted", false: "not-persisted"}[kept], 1)
				}
				judged = true
			case mb.bad && rq.mode == "auto" && (!mb.wrapped || status != 400):
				e.Violation(c, "handling-mode|auto-mode|bind-error-not-handled-automatically|"+pos(i)+mw,
					fmt.Sprintf("automatic handling was switched on for this request, the %s bind (%s) failed, but the error is %q and the status %d instead of the automatic 400",
						map[bool]string{true: "first", false: "second or later"}[i == 0], mb.op, trim(mb.err, 80), status), det)
				judged = true
			case mb.bad && rq.mode != "auto" && mb.wrapped:
				e.Violation(c, "handling-mode|"+rq.mode+"-mode|binder-error-replaced-by-automatic-400", "no automatic handling was asked for, Bind() returned the automatic *fiber.Error{400}", det)
				judged = true
			case mb.bad && rq.mode != "auto" && rq.swallow && status != 200:
				e.Violation(c, "handling-mode|"+rq.mode+"-mode|status-changed-by-bind|status-"+strconv.Itoa(status), "manual handling: the handler answered itself, its status was changed", det)
				judged = true
			}
			if judged {
				break
			}
		}
		if !judged && badAt < 0 && status != 200 {
			e.Violation(c, "totality|multi|status-not-200-without-bind-error", fmt.Sprintf("every bind returned nil but the status is %d", status), det)
		}
	}
}

func (en *engine) multiBind() {
	e := en.e
	e.Note("several-binds-per-request", "2-4 sources (query, header, cookie, form or JSON body) bound in one request with the handling mode chosen once (judged: on one binder value reused for every bind; observed only: on an earlier c.Bind() call or in a middleware with later binds through c.Bind() again), bad input in at most one source at any position, 1-4 such requests per app: 400 + automatic error for whichever bind fails under automatic handling, the binder's own error otherwise")
	pickType := func(r *gen.Rand) *typeSpec {
		for {
			t := flatFamily[r.Intn(len(flatFamily))]
			if len(numericFields(t, 64)) > 0 {
				return t
			}
		}
	}
	mkReq := func(r *gen.Rand, n, badAt int, mode, how string, swallow bool) multiReq {
		ops := []string{"query", "header", "cookie"}
		gen.Shuffle(r, ops)
		body := gen.Pick(r, []string{"form", "json", "multipart"})
		ops = append(ops[:r.Range(1, 3)], body)
		gen.Shuffle(r, ops)
		if n > len(ops) {
			n = len(ops)
		}
		rq := multiReq{mode: mode, how: how, swallow: swallow}
		for i := 0; i < n; i++ {
			rq.binds = append(rq.binds, &multiBind{op: ops[i], typ: pickType(r), bad: i == badAt})
		}
		return rq
	}
	hows := []string{"one-binder-value", "c.Bind()-each-time", "middleware"}
	for _, how := range hows {
		how := how
		e.Corpus("multibind-auto-"+strings.NewReplacer("(", "", ")", "", ".", "").Replace(how), func(c *ev.Case) {
			for badAt := 0; badAt < 3; badAt++ {
				t := flatFamily[int(kInt)]
				rq := multiReq{mode: "auto", how: how}
				for i, op := range []string{"query", "header", "cookie"} {
					rq.binds = append(rq.binds, &multiBind{op: op, typ: t, bad: i == badAt})
				}
				en.multiBindRun(c, false, []multiReq{rq})
			}
		})
	}
	e.Cases("multibind", e.N(1000, 40000), func(c *ev.Case) {
		r := c.R
		var reqs []multiReq
		for i, n := 0, r.Range(1, 4); i < n; i++ {
			nb := r.Range(2, 4)
			badAt := r.Range(-1, nb-1)
			if r.Chance(1, 2) && nb > 1 {
				badAt = r.Range(1, nb-1) // the interesting half: not the first bind
			}
			mode := []string{"auto", "manual", "default"}[r.PickW(5, 2, 3)]
			how := gen.Pick(r, hows)
			if how == "middleware" {
				mode = "auto" // the middleware switches automatic handling on; the handler chooses nothing
			}
			reqs = append(reqs, mkReq(r, nb, badAt, mode, how, r.Chance(1, 3)))
		}
		en.multiBindRun(c, r.Chance(1, 3), reqs)
	})
}
