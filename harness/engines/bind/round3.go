package bind

import (
	"fmt"
	"strconv"
	"strings"

	"github.com/gofiber/fiber/v3"

	"verifharness/internal/drive"
	"verifharness/internal/ev"
	"verifharness/internal/gen"
)

// seqApp is one app serving a sequence of requests by direct drive on the calling goroutine, so
// that consecutive requests get the same pooled context.
type seqApp struct {
	app *fiber.App
	d   *drive.Direct
	cur *probe
}

func newSeqApp(split bool) *seqApp {
	s := &seqApp{}
	s.app = fiber.New(fiber.Config{EnableSplittingOnParsers: split, ReadBufferSize: 1 << 16})
	s.app.Use(func(c fiber.Ctx) error {
		if s.cur.viaMW {
			c.Bind().WithAutoHandling()
		}
		return c.Next()
	})
	s.app.All("/t", func(c fiber.Ctx) error {
		if s.cur.multi != nil {
			return s.cur.multiHandler(c)
		}
		return s.cur.handler(c)
	})
	s.d = drive.NewDirect(s.app)
	return s
}

func (s *seqApp) do(p *probe, in totalInput) (status int) {
	s.cur = p
	defer func() {
		if r := recover(); r != nil { // outside the Bind call (the handler recovers around it)
			p.panicVal = fmt.Sprint(r)
			p.stack = string(debugStack())
		}
	}()
	return s.d.Do(&drive.Req{Method: in.meth, URI: in.uri, Hdr: in.hdr, Body: in.body}).Status
}

func bopOf(op string) string {
	if op == "multipart" {
		return "form"
	}
	return op
}

// ---------------------------------------------------------------------------------------------
// masked failure: a pair the binder rejects when it is the only one (observed: the same binder,
// the pair alone, returns an error) must still be rejected when well-formed pairs stand before,
// after or around it. The oracle does not decide what "malformed" is; it only says that adding
// valid arguments cannot turn a failure into a success. Every binder that iterates over pairs:
// query, form (url-encoded and multipart), header, cookie, respHeader.

var maskOps = []string{"query", "form", "multipart", "header", "cookie", "respheader"}

func (en *engine) maskedRun(c *ev.Case, op string, t *typeSpec, elem [2]string, elemClass string, good [][2]string, pos int, auto, swallow, split bool) {
	e := en.e
	tagOp := op
	build := func(kvs [][2]string) (*probe, totalInput) {
		p := &probe{op: bopOf(op), auto: auto, swallow: swallow, typ: t}
		if op == "respheader" {
			p.respHdr = kvs
			return p, totalInput{uri: "/t", meth: "GET"}
		}
		return p, textInput(tagOp, kvs)
	}
	// the pair alone
	ps, ins := build([][2]string{elem})
	newSeqApp(split).do(ps, ins)
	e.Stat("masked_solo_runs", 1)
	if ps.panicVal != "" {
		e.Violation(c, panicSig(ps), "hostile input made Bind()."+opTitle(bopOf(op))+" panic: "+ps.panicVal, map[string]any{"pair": elem, "stack": trim(ps.stack, 2500)})
		return
	}
	if !ps.ran || !ps.hasErr {
		e.Stat("masked_pair_accepted_alone|"+op+"|"+elemClass, 1) // nothing to demand
		return
	}
	// the pair among valid ones
	if pos > len(good) {
		pos = len(good)
	}
	kvs := append(append(append([][2]string{}, good[:pos]...), elem), good[pos:]...)
	p, in := build(kvs)
	status := newSeqApp(split).do(p, in)
	e.Eval(1)
	e.Stat("masked_"+op, 1)
	e.Nontrivial("masked", c.ID)
	where := "failing-pair-followed-by-valid-pairs"
	switch {
	case op == "multipart":
		where = "multipart" // the server iterates a map: the position in the body is not the position in the binder
	case pos == len(good):
		where = "failing-pair-last"
	}
	det := map[string]any{"binder": bopOf(op), "source": op, "pairs": kvs, "failing_pair": elem, "alone_error": trim(ps.bindErr, 200), "auto_handling": auto,
		"handler_ignores_error": swallow, "EnableSplittingOnParsers": split, "status": status, "dest": destName(t, outStruct)}
	switch {
	case p.panicVal != "":
		det["stack"] = trim(p.stack, 2500)
		e.Violation(c, panicSig(p), "hostile input made Bind()."+opTitle(bopOf(op))+" panic: "+p.panicVal, det)
	case !p.ran:
		e.Stat("masked_rejected_before_handler", 1)
	case !p.hasErr:
		e.Violation(c, "totality|"+bopOf(op)+"|failure-masked-by-valid-arguments|"+elemClass+"|"+where,
			fmt.Sprintf("Bind().%s rejects the pair %q on its own (%s) but returns nil when valid pairs accompany it", opTitle(bopOf(op)), elem[0]+"="+elem[1], trim(ps.bindErr, 80)), det)
	case auto && status != 400:
		det["bind_error"] = trim(p.bindErr, 200)
		e.Violation(c, "totality|"+bopOf(op)+"|auto-handling-status-not-400|"+map[bool]string{true: "handler-ignores-error", false: "handler-returns-error"}[swallow]+"|status-"+strconv.Itoa(status),
			fmt.Sprintf("WithAutoHandling: binder error %q but status %d", trim(p.bindErr, 120), status), det)
	}
}

func (en *engine) masked() {
	e := en.e
	e.Note("masked-failure", "a key/value pair that Bind() rejects when sent alone (observed on the same binder) is placed first, in the middle and last among well-formed pairs of the same type, for query, url-encoded form, multipart, header, cookie and response-header binding: the bind must still fail (400 under WithAutoHandling)")
	fillSosTypes()
	one := func(c *ev.Case, r *gen.Rand, op string, cls int, pos int) {
		tag := opTag[op]
		if op == "respheader" {
			tag = "respHeader"
		}
		var t *typeSpec
		var elem [2]string
		elemClass := ""
		switch cls {
		case 0: // a key the bracket notation rejects
			t = flatFamily[2*int(nKinds)+r.Intn(len(flatFamily)-2*int(nKinds))]
			k := t.Fields[r.Intn(len(t.Fields))].wire(tag)
			elem = [2]string{gen.Pick(r, []string{"bad[", "a]", "x[y", k + "[", k + "]", "[[" + k + "]", k + "[0"}), "1"}
			elemClass = "unmatched-bracket-key"
		case 1: // letters for a number
			var fs []*fieldSpec
			for try := 0; try < 50 && len(fs) == 0; try++ {
				t = flatFamily[2*int(nKinds)+r.Intn(len(flatFamily)-2*int(nKinds))]
				fs = numericFields(t, 64)
			}
			if len(fs) == 0 {
				return
			}
			elem = [2]string{gen.Pick(r, fs).wire(tag), gen.Pick(r, []string{"x", "abc", "1x"})}
			elemClass = "not-a-number"
		default: // negative index into a slice of structs
			t = sosTypes[r.Intn(len(sosTypes))]
			var f *fieldSpec
			for i := range t.Fields {
				if t.Fields[i].Nested != nil && t.Fields[i].Slice {
					f = &t.Fields[i]
				}
			}
			sub := &f.Nested.Fields[r.Intn(len(f.Nested.Fields))]
			elem = [2]string{f.wire(tag) + ".-1." + sub.wire(tag), "1"}
			elemClass = "negative-slice-index"
		}
		// well-formed pairs: other scalar/slice fields of the type ("1" is valid for every kind) and an unknown key
		var good [][2]string
		for i := range t.Fields {
			g := &t.Fields[i]
			if g.Nested == nil && g.wire(tag) != elem[0] && len(good) < 4 {
				good = append(good, [2]string{g.wire(tag), "1"})
			}
		}
		for len(good) < 2 {
			good = append(good, [2]string{"other" + strconv.Itoa(len(good)), "1"})
		}
		gen.Shuffle(r, good)
		p := 0
		switch pos {
		case 1:
			p = 1 + r.Intn(len(good)-1)
		case 2:
			p = len(good)
		}
		en.maskedRun(c, op, t, elem, elemClass, good, p, r.Bool(), r.Chance(1, 4), r.Bool())
	}
	// corpus: every binder x every class x every position, fixed seed
	for _, op := range maskOps {
		for cls := 0; cls < 3; cls++ {
			op, cls := op, cls
			e.Corpus("masked-"+op+"-"+[]string{"unmatched-bracket-key", "not-a-number", "negative-slice-index"}[cls], func(c *ev.Case) {
				for pos := 0; pos < 3; pos++ {
					one(c, c.R, op, cls, pos)
				}
			})
		}
	}
	e.Cases("masked", e.N(1500, 60000), func(c *ev.Case) {
		r := c.R
		one(c, r, gen.Pick(r, maskOps), r.PickW(3, 2, 1), r.Intn(3))
	})
}

// ---------------------------------------------------------------------------------------------
// handling mode over a sequence: one app, several requests one after the other (so they are
// served by the same pooled context), each handler choosing WithAutoHandling, WithoutAutoHandling
// or nothing (documented default: manual), with input that binds or does not.
//   automatic: a bind error gives status 400;
//   manual / default: the handler gets the binder's own error (not the automatic handling's
//   *fiber.Error{400,"Bad request: ..."}) and, when it goes on and answers itself, its status (200)
//   is not touched.
// What a request's handler chose must not depend on what an earlier request's handler chose.

type seqStep struct {
	op      string
	mode    string // auto | manual | default
	bad     bool
	swallow bool
}

func (en *engine) modeSeqRun(c *ev.Case, split bool, steps []seqStep, types []*typeSpec) {
	e := en.e
	app := newSeqApp(split)
	var hist []string
	autoSeen := false
	for i, st := range steps {
		t := types[i]
		tag := opTag[st.op]
		fs := numericFields(t, 64)
		var in totalInput
		var kvs [][2]string
		for j := range t.Fields {
			g := &t.Fields[j]
			if g.Nested == nil {
				kvs = append(kvs, [2]string{g.wire(tag), "1"})
			}
		}
		if st.bad {
			kvs = append(kvs, [2]string{fs[0].wire(tag), "abc"}) // last value wins for a scalar
		}
		if st.op == "json" {
			var parts []string
			for _, kv := range kvs {
				if kv[1] == "abc" {
					parts = append(parts, "\""+kv[0]+"\":\"abc\"")
				}
			}
			in = totalInput{uri: "/t", meth: "POST", hdr: []drive.H{{K: "Content-Type", V: "application/json"}}, body: []byte("{" + strings.Join(parts, ",") + "}")}
		} else {
			in = textInput(st.op, kvs)
		}
		p := &probe{op: bopOf(st.op), auto: st.mode == "auto", defMode: st.mode == "default", swallow: st.swallow, typ: t}
		status := app.do(p, in)
		e.Eval(1)
		e.Stat("modeseq_steps", 1)
		hist = append(hist, fmt.Sprintf("%d:%s/%s/%s%s -> %d", i+1, st.op, st.mode, map[bool]string{true: "bad", false: "good"}[st.bad], map[bool]string{true: "/handler-goes-on", false: ""}[st.swallow], status))
		det := map[string]any{"sequence_so_far": append([]string(nil), hist...), "step": i + 1, "binder": bopOf(st.op), "mode": st.mode, "input_binds": !st.bad,
			"handler_ignores_error": st.swallow, "status": status, "bind_error": trim(p.bindErr, 200), "EnableSplittingOnParsers": split}
		if st.mode != "auto" && st.bad && autoSeen {
			e.Nontrivial("modeseq", c.ID, strconv.Itoa(i))
			e.Stat("modeseq_manual_bad_after_auto", 1)
		}
		if st.mode == "auto" {
			autoSeen = true
		}
		modeName := map[string]string{"auto": "auto-mode", "manual": "manual-mode", "default": "default-mode"}[st.mode]
		switch {
		case p.panicVal != "":
			det["stack"] = trim(p.stack, 2500)
			e.Violation(c, panicSig(p), "Bind()."+opTitle(bopOf(st.op))+" panicked: "+p.panicVal, det)
			return
		case !p.ran:
			e.Stat("modeseq_rejected_before_handler", 1)
		case !st.bad && p.hasErr:
			e.Violation(c, "totality|"+bopOf(st.op)+"|valid-input-rejected-in-sequence", "well-formed input (\"1\" for every field) failed to bind after earlier requests on the same app", det)
		case !st.bad && status != 200:
			e.Violation(c, "totality|"+bopOf(st.op)+"|status-not-200-without-bind-error", fmt.Sprintf("binder returned nil but the status is %d", status), det)
		case st.bad && !p.hasErr:
			e.Violation(c, "totality|"+bopOf(st.op)+"|silent-success|not-a-number|in-sequence", "letters for a number bound without an error", det)
		case st.bad && st.mode == "auto" && status != 400:
			e.Violation(c, "totality|"+bopOf(st.op)+"|auto-handling-status-not-400|"+map[bool]string{true: "handler-ignores-error", false: "handler-returns-error"}[st.swallow]+"|status-"+strconv.Itoa(status),
				fmt.Sprintf("WithAutoHandling: binder error %q but status %d", trim(p.bindErr, 120), status), det)
		case st.bad && st.mode != "auto" && p.wrapped:
			e.Violation(c, "handling-mode|"+modeName+"|binder-error-replaced-by-automatic-400",
				"the handler did not ask for automatic handling (manual is the default) but Bind() returned the automatic *fiber.Error{400, \"Bad request: ...\"} and set the status", det)
		case st.bad && st.mode != "auto" && st.swallow && status != 200:
			e.Violation(c, "handling-mode|"+modeName+"|status-changed-by-bind|status-"+strconv.Itoa(status),
				fmt.Sprintf("manual handling: the handler answered itself after a bind error, the status is %d instead of its own 200", status), det)
		}
	}
}

func (en *engine) modeSeq() {
	e := en.e
	e.Note("handling-mode", "sequences of 3-10 requests on one app (direct drive, same goroutine: the pooled context is reused) whose handlers choose WithAutoHandling, WithoutAutoHandling or no mode (default = manual), with binding and non-binding input for query/form/header/cookie/json: 400 only in automatic mode; in manual/default mode the binder's own error and the handler's own status")
	pickType := func(r *gen.Rand) *typeSpec {
		for {
			t := flatFamily[r.Intn(len(flatFamily))]
			if len(numericFields(t, 64)) > 0 {
				return t
			}
		}
	}
	e.Corpus("modeseq-auto-then-default", func(c *ev.Case) {
		t := flatFamily[int(kInt)] // one int field
		for _, op := range []string{"query", "form", "header", "cookie", "json"} {
			en.modeSeqRun(c, false, []seqStep{{op, "default", true, true}, {op, "auto", false, false}, {op, "default", true, true}, {op, "default", true, false},
				{op, "auto", true, true}, {op, "manual", true, true}, {op, "default", true, true}}, []*typeSpec{t, t, t, t, t, t, t})
		}
	})
	seqOps := []string{"query", "form", "multipart", "header", "cookie", "json"}
	e.Cases("modeseq", e.N(600, 30000), func(c *ev.Case) {
		r := c.R
		n := r.Range(3, 10)
		steps := make([]seqStep, n)
		types := make([]*typeSpec, n)
		same := r.Bool()
		t0, op0 := pickType(r), gen.Pick(r, seqOps)
		for i := range steps {
			steps[i] = seqStep{op: gen.Pick(r, seqOps), mode: []string{"auto", "manual", "default"}[r.PickW(3, 2, 4)], bad: r.Chance(3, 5), swallow: r.Bool()}
			types[i] = pickType(r)
			if same {
				steps[i].op, types[i] = op0, t0
			}
		}
		en.modeSeqRun(c, r.Chance(1, 3), steps, types)
	})
}
