package bind

import (
	"flag"
	"io"
	"os"
	"path/filepath"
	"reflect"
	"strings"

	"github.com/gofiber/fiber/v3/client"

	"verifharness/internal/ev"
	"verifharness/internal/gen"
)

// ---------------------------------------------------------------------------------------------
// How the value reaches the client. Besides the struct setters (SetParamsWithStruct, ...) the
// text sources are also filled through the incremental API, element by element:
//   adders  AddParam / AddFormData / AddHeader / SetCookie, one call per element, in an order that
//           interleaves the keys (a1,b1,a2,b2,a3 or a random merge) or keeps them together;
//   maps    AddParams / AddFormDataWithMap / AddHeaders / SetCookies.
// The elements are formatted by the harness exactly as client.SetValWithStruct formats them, so
// the expected value is the same struct: per key, what was added, in the order it was added.
// Multipart bodies get 1-2 files through AddFileWithReader, AddFiles(AcquireFile(...)) or
// AddFile(path), before or after the fields.

const (
	sendStruct = iota
	sendAdders
	sendMaps
	sendTwiceReq      // request-level struct setter called twice: a filler value of the same type, then the value
	sendTwiceClient   // client-level struct setter called twice (query, cookie), the request adds nothing
	sendClientThenReq // defaults under the same keys at client level, the value at request level: scalars judged (see genSend)
)

var sendName = [...]string{"struct-setter", "adders", "map-setters", "struct-setter-twice-on-request", "struct-setter-twice-on-client", "client-level-struct-then-request-level-struct"}

type sendSpec struct {
	mode        int
	sched       [][2]int // adders: (field index, element index) per call; element -1 = the scalar
	interleaved bool
	files       int
	fileAPI     int // 0 AddFileWithReader, 1 AddFiles(AcquireFile), 2 AddFile(path)
	fileFirst   bool
	filler      reflect.Value // the struct the setter is given first (twice modes)
}

// uploadFile writes a small file for AddFile(path); the rig removes it right after the request
// (a file that lives as long as the process would be left behind when the process is killed).
func (r *rig) uploadFile() string {
	f, err := os.CreateTemp(uploadDir(), "vh-bind-upload-*.txt")
	if err != nil {
		return ""
	}
	_, _ = f.WriteString("file-content")
	_ = f.Close()
	r.tmp = append(r.tmp, f.Name())
	return f.Name()
}

// uploadDir: next to the result file, i.e. in the driver's work directory of this run, which the
// driver clears; a process killed in mid-request then leaves nothing in the system temp directory.
func uploadDir() string {
	if f := flag.Lookup("out"); f != nil && f.Value.String() != "" {
		return filepath.Dir(f.Value.String())
	}
	return ""
}

func (r *rig) removeUploads() {
	for _, p := range r.tmp {
		_ = os.Remove(p)
	}
	r.tmp = r.tmp[:0]
}

func (r *rig) attachFiles(req *client.Request, s *sendSpec) {
	n, api := 1, 0
	if s != nil && s.files > 0 {
		n, api = s.files, s.fileAPI
	}
	for i := 0; i < n; i++ {
		name := "w" + string(rune('0'+i)) + ".txt"
		path := ""
		if api == 2 {
			path = r.uploadFile()
		}
		switch {
		case path != "":
			req.AddFile(path)
		case api == 1:
			req.AddFiles(client.AcquireFile(client.SetFileName(name), client.SetFileFieldName("upload"+string(rune('0'+i))),
				client.SetFileReader(io.NopCloser(strings.NewReader("file-content")))))
		default:
			req.AddFileWithReader(name, io.NopCloser(strings.NewReader("file-content")))
		}
	}
}

// genSend draws how a text-source value is handed to the client.
func genSend(r *gen.Rand, src source, t *typeSpec, val reflect.Value) *sendSpec {
	if !src.isText() {
		return nil
	}
	s := &sendSpec{files: r.Range(1, 2), fileAPI: r.PickW(5, 3, 1), fileFirst: r.Chance(1, 3)}
	s.mode = r.PickW(10, 8, 2, 4, 2, 3)
	if src == sHeader && s.mode >= sendTwiceReq && s.mode != sendClientThenReq {
		s.mode = sendAdders // the client has no struct setter for headers
	}
	if (src == sForm || src == sMultipart) && s.mode > sendTwiceReq {
		s.mode = sendTwiceReq // form data exists at request level only
	}
	if s.mode >= sendTwiceReq {
		// "sets ... from a struct, overriding previously set values": whatever the first struct
		// held, the server must bind the second one, empty slices and zero scalars included.
		// (sendClientThenReq is different: the client carries defaults under the same keys and the
		// request the value. Both are sent; for a multi-valued key nothing states what the server
		// should make of that, so slices are only counted. A scalar field has one value: the one
		// handed over at request level is the value sent - judged, non-slice fields only.)
		s.filler = genFiller(r, src, t)
	}
	if s.mode == sendAdders {
		s.interleaved = r.Chance(3, 4)
		s.sched = makeSchedule(r, t, val, s.interleaved)
		if len(s.sched) == 0 {
			// nothing to add (only empty slices): with no adder call at all the request is not
			// even a form, so there is no "sent with adders" here; the struct setter it is
			s.mode = sendStruct
		}
	}
	return s
}

// makeSchedule lists the adder calls. The order within a key is always the element order.
func makeSchedule(r *gen.Rand, t *typeSpec, val reflect.Value, interleave bool) [][2]int {
	var per [][][2]int
	for i := range t.Fields {
		f := &t.Fields[i]
		if f.Nested != nil {
			continue
		}
		var q [][2]int
		if f.Slice {
			for j := 0; j < val.FieldByName(f.Name).Len(); j++ {
				q = append(q, [2]int{i, j})
			}
		} else {
			q = append(q, [2]int{i, -1})
		}
		if len(q) > 0 {
			per = append(per, q)
		}
	}
	var out [][2]int
	if !interleave {
		for _, q := range per {
			out = append(out, q...)
		}
		return out
	}
	roundRobin := r == nil || r.Bool()
	for len(per) > 0 {
		if roundRobin {
			for k := 0; k < len(per); k++ {
				out = append(out, per[k][0])
				per[k] = per[k][1:]
			}
		} else {
			k := r.Intn(len(per))
			out = append(out, per[k][0])
			per[k] = per[k][1:]
		}
		kept := per[:0]
		for _, q := range per {
			if len(q) > 0 {
				kept = append(kept, q)
			}
		}
		per = kept
	}
	return out
}

func (s *sendSpec) element(p *probe, call [2]int) (key, text string) {
	f := &p.typ.Fields[call[0]]
	fv := p.want.FieldByName(f.Name)
	if call[1] >= 0 {
		fv = fv.Index(call[1])
	}
	return f.wire(sourceTag[p.src]), formatScalar(f.K, fv)
}

// calls renders the adder calls for a violation detail.
func (s *sendSpec) calls(p *probe) []string {
	var out []string
	for i, c := range s.sched {
		if i >= 24 {
			out = append(out, "...")
			break
		}
		k, v := s.element(p, c)
		out = append(out, trim(k+"="+v, 60))
	}
	return out
}

func (r *rig) sendPieces(req *client.Request, p *probe, own func() *client.Client) {
	s := p.send
	tag := sourceTag[p.src]
	real := p.want.Interface()
	fill := func() {
		switch s.mode {
		case sendTwiceReq:
			fl := s.filler.Interface()
			switch p.src {
			case sQuery:
				req.SetParamsWithStruct(fl).SetParamsWithStruct(real)
			case sForm, sMultipart:
				req.SetFormDataWithStruct(fl).SetFormDataWithStruct(real)
			case sCookie:
				req.SetCookiesWithStruct(fl).SetCookiesWithStruct(real)
			}
		case sendTwiceClient, sendClientThenReq:
			fl := s.filler.Interface()
			cl2 := own() // same transport, its own client-level parameters
			switch {
			case p.src == sQuery && s.mode == sendTwiceClient:
				cl2.SetParamsWithStruct(fl).SetParamsWithStruct(real)
			case p.src == sQuery:
				cl2.SetParamsWithStruct(fl)
				req.SetParamsWithStruct(real)
			case p.src == sCookie && s.mode == sendTwiceClient:
				cl2.SetCookiesWithStruct(fl).SetCookiesWithStruct(real)
			case p.src == sCookie:
				cl2.SetCookiesWithStruct(fl)
				req.SetCookiesWithStruct(real)
			case p.src == sHeader:
				eachHeaderOf(p.typ, s.filler, func(k, v string) { cl2.AddHeader(k, v) })
				eachHeader(p, func(k, v string) { req.AddHeader(k, v) })
			}
		case sendAdders:
			for _, c := range s.sched {
				k, v := s.element(p, c)
				switch p.src {
				case sQuery:
					req.AddParam(k, v)
				case sForm, sMultipart:
					req.AddFormData(k, v)
				case sHeader:
					req.AddHeader(k, v)
				case sCookie:
					req.SetCookie(k, v)
				}
			}
		case sendMaps:
			m := map[string][]string{}
			for i := range p.typ.Fields {
				f := &p.typ.Fields[i]
				if f.Nested != nil {
					continue
				}
				fv := p.want.FieldByName(f.Name)
				if f.Slice {
					for j := 0; j < fv.Len(); j++ {
						m[f.wire(tag)] = append(m[f.wire(tag)], formatScalar(f.K, fv.Index(j)))
					}
				} else {
					m[f.wire(tag)] = []string{formatScalar(f.K, fv)}
				}
			}
			switch p.src {
			case sQuery:
				req.AddParams(m)
			case sForm, sMultipart:
				req.AddFormDataWithMap(m)
			case sHeader:
				req.AddHeaders(m)
			case sCookie:
				cm := map[string]string{}
				for k, vs := range m {
					cm[k] = vs[len(vs)-1] // one value per name is all SetCookies can take
				}
				req.SetCookies(cm)
			}
		}
	}
	switch p.src {
	case sMultipart:
		if s.fileFirst {
			r.attachFiles(req, s)
			fill()
		} else {
			fill()
			r.attachFiles(req, s)
		}
	default:
		fill()
	}
}

// sendCorpus: the smallest interleaved witnesses, one per source and file API; and the struct
// setter called twice with a value of empty slices and zero scalars after a filler.
func (en *engine) sendCorpus() {
	for _, src := range []source{sQuery, sForm, sMultipart, sCookie} {
		for _, mode := range []int{sendTwiceReq, sendTwiceClient} {
			if mode == sendTwiceClient && src != sQuery && src != sCookie {
				continue
			}
			src, mode := src, mode
			en.e.Corpus("send-"+sourceName[src]+"-"+sendName[mode], func(c *ev.Case) {
				t := buildType("send-demo", []fieldSpec{{Name: fieldName(0), K: kString}, {Name: fieldName(1), K: kString, Slice: true}, {Name: fieldName(2), K: kInt, Slice: true}}, false)
				fl := reflect.New(t.RT).Elem()
				fl.Field(0).SetString("x")
				fl.Field(1).Set(reflect.ValueOf([]string{"a", "b"}))
				fl.Field(2).Set(reflect.ValueOf([]int{7}))
				v := reflect.New(t.RT).Elem() // "", nil, empty
				v.Field(2).Set(reflect.ValueOf([]int{}))
				s := &sendSpec{mode: mode, files: 1, filler: fl}
				en.judge(c, "roundtrip", plan{src: src, op: opFor(src), auto: true, typ: t, send: s}, v)
				en.e.Nontrivial("corpus", c.ID)
			})
		}
	}
	mk := func() (*typeSpec, reflect.Value) {
		t := buildType("send-demo", []fieldSpec{{Name: fieldName(0), K: kString}, {Name: fieldName(1), K: kString, Slice: true}, {Name: fieldName(2), K: kInt, Slice: true}}, false)
		v := reflect.New(t.RT).Elem()
		v.Field(0).SetString("holiday")
		v.Field(1).Set(reflect.ValueOf([]string{"sea", "sun", "sand"}))
		v.Field(2).Set(reflect.ValueOf([]int{1, 2}))
		return t, v
	}
	for _, src := range []source{sQuery, sForm, sMultipart, sHeader} {
		for api := 0; api < 3; api++ {
			if src != sMultipart && api > 0 {
				continue
			}
			for _, mode := range []int{sendAdders, sendMaps} {
				src, api, mode := src, api, mode
				name := "send-" + sourceName[src] + "-" + sendName[mode]
				if src == sMultipart {
					name += "-file-api" + string(rune('0'+api))
				}
				en.e.Corpus(name, func(c *ev.Case) {
					t, v := mk()
					s := &sendSpec{mode: mode, interleaved: true, files: 1, fileAPI: api, sched: makeSchedule(nil, t, v, true)}
					en.judge(c, "roundtrip", plan{src: src, op: opFor(src), auto: true, typ: t, send: s}, v)
					en.e.Nontrivial("corpus", c.ID)
				})
			}
		}
	}
}

// genFiller is the value the struct setter is given first: every slice has elements, so that an
// empty slice in the value that follows has something to override.
func genFiller(r *gen.Rand, src source, t *typeSpec) reflect.Value {
	d := newDomain(src, true)
	v := reflect.New(t.RT).Elem()
	for i := range t.Fields {
		f := &t.Fields[i]
		if f.Nested != nil {
			continue
		}
		fv := v.FieldByName(f.Name)
		if !f.Slice {
			setScalar(r, d, f.K, fv, 12)
			if f.K == kString && fv.String() == "" {
				fv.SetString("filler")
			}
			continue
		}
		n := r.Range(1, 3)
		sl := reflect.MakeSlice(fv.Type(), 0, n)
		for j := 0; j < n; j++ {
			sl = reflect.Append(sl, plainValue(f.K, 40+j))
		}
		fv.Set(sl)
	}
	return v
}
