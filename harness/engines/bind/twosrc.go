package bind

import (
	"reflect"
	"strconv"

	"verifharness/internal/ev"
	"verifharness/internal/gen"
)

// ---------------------------------------------------------------------------------------------
// one struct type, several sources: a type that no decoder has seen yet (made unique by an extra
// field) is bound from source A, then from source B, then from A again, on the same server.
// The wire names differ per source tag, so a decoder that kept what it learned about the type
// under another source's tag binds nothing. Same equality oracle; a failure on the 2nd / 3rd step
// whose value binds when a fresh type meets that source first is reported as
// roundtrip|<source>|type-bound-from-<other source>-before|not-bound-as-sent.

var twoSourcePairs = [][2]source{{sHeader, sCookie}, {sCookie, sHeader}, {sQuery, sForm}, {sForm, sQuery}, {sQuery, sHeader},
	{sCookie, sQuery}, {sMultipart, sQuery}, {sHeader, sForm}, {sForm, sMultipart}, {sCookie, sForm}}

func uniqueType(base *typeSpec, id string) *typeSpec {
	fields := append([]fieldSpec{}, base.Fields...)
	for i := range fields {
		fields[i].Key = "" // rebuilt by buildType
	}
	fields = append(fields, fieldSpec{Name: "Zz" + id, K: kBool})
	return buildType("two:"+base.ID+":"+id, fields, false)
}

func (en *engine) twoSourcesRun(c *ev.Case, base *typeSpec, pair [2]source, split bool, seeds [3]uint64, id string) {
	e := en.e
	t := uniqueType(base, id)
	steps := []source{pair[0], pair[1], pair[0]}
	for i, src := range steps {
		val := afterFailValue(gen.New(seeds[i]), src, split, t)
		p := &probe{src: src, op: opFor(src), auto: true, typ: t, want: val}
		o := en.g.get(split).roundTrip(p)
		e.Eval(1)
		e.Stat("twosources_trips", 1)
		m := o.manner()
		if m == "" {
			continue
		}
		if i > 0 && m != "panic" {
			// the same value, a type of the same shape that meets this source first
			t2 := uniqueType(base, id+"x"+strconv.Itoa(i))
			v2 := afterFailValue(gen.New(seeds[i]), src, split, t2)
			p2 := &probe{src: src, op: opFor(src), auto: true, typ: t2, want: v2}
			if en.g.get(split).roundTrip(p2).manner() == "" {
				other := steps[i-1]
				det := map[string]any{"type": t.ID, "bound_before_from": sourceName[other], "now_from": sourceName[src], "step": i + 1,
					"sent": renderStruct(t, val), "manner": m, "status": o.status, "EnableSplittingOnParsers": split,
					"note": "a fresh type of the same shape binds this value from this source"}
				if p.diff != nil {
					det["got"] = p.got
					det["first_difference_at"] = p.diff.Path
				}
				if p.hasErr {
					det["bind_error"] = p.bindErr
				}
				e.Violation(c, "roundtrip|"+sourceName[src]+"|type-bound-from-"+sourceName[other]+"-before|not-bound-as-sent",
					"a struct type that was bound from "+sourceName[other]+" before does not bind from "+sourceName[src]+" (wire names differ per source tag)", det)
				return
			}
		}
		en.report(c, "roundtrip", p, o, split)
		return
	}
	e.Nontrivial("twosources", c.ID)
}

func (en *engine) twoSources() {
	e := en.e
	e.Note("two-sources", "a struct type no decoder has seen is bound from source A, then B, then A again (header/cookie, query/form, ... 10 ordered pairs; the tag names differ per source): every step must bind the value sent")
	for _, pr := range twoSourcePairs {
		pr := pr
		e.Corpus("twosources-"+sourceName[pr[0]]+"-then-"+sourceName[pr[1]], func(c *ev.Case) {
			base := buildType("two-demo", []fieldSpec{{Name: fieldName(0), K: kString}, {Name: fieldName(1), K: kInt, Slice: true}, {Name: fieldName(2), K: kInt}}, false)
			en.twoSourcesRun(c, base, pr, false, [3]uint64{11, 12, 13}, "c"+sourceName[pr[0]]+sourceName[pr[1]])
		})
	}
	e.Cases("twosources", e.N(800, 30000), func(c *ev.Case) {
		r := c.R
		base := flatFamily[2*int(nKinds)+r.Intn(len(flatFamily)-2*int(nKinds))]
		en.twoSourcesRun(c, base, gen.Pick(r, twoSourcePairs), r.Chance(1, 3), [3]uint64{r.Uint64(), r.Uint64(), r.Uint64()}, "s"+strconv.FormatUint(e.Seed, 10)+"i"+c.ID[len("twosources:"):])
	})
}

var _ = reflect.Value{}
