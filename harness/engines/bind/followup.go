package bind

import (
	"io"
	"reflect"
	"strconv"
	"strings"

	"verifharness/internal/drive"
	"verifharness/internal/ev"
	"verifharness/internal/gen"

	"github.com/gofiber/fiber/v3/client"
)

// ---------------------------------------------------------------------------------------------
// must-fail: input the binder cannot possibly honour has to come back as an error (400 under
// automatic handling), never as a nil error with a zero / partial struct. Asserted only for
// classes where no reading of the input could succeed:
//   negative-slice-index  "items.-1.name=x" / "items[-1][name]=x" into a slice-of-structs field
//   not-a-number          letters into an int / uint / float field
//   integer-overflow      99999999999 into a field of at most 32 bits
//   wrong-type            JSON string / XML letters / CBOR text string into an integer field

var sosTypes []*typeSpec // body-family types with a slice-of-structs field (tags for every source)

// (filled on first use: the families are built in another file's init)
func fillSosTypes() {
	if len(sosTypes) > 0 {
		return
	}
	for _, t := range bodyFamily {
		for i := range t.Fields {
			if t.Fields[i].Nested != nil && t.Fields[i].Slice {
				sosTypes = append(sosTypes, t)
				break
			}
		}
	}
}

func numericFields(t *typeSpec, maxBits int) []*fieldSpec {
	var out []*fieldSpec
	for i := range t.Fields {
		f := &t.Fields[i]
		if f.Nested == nil && !f.Slice && (f.K.isInt() || f.K.isUint() || (f.K.isFloat() && maxBits == 64)) && f.K.bits() <= maxBits {
			out = append(out, f)
		}
	}
	return out
}

// textInput places key/value pairs into the source of the binder.
func textInput(op string, kvs [][2]string) totalInput {
	in := totalInput{uri: "/t", meth: "GET"}
	enc := func() string {
		var sb strings.Builder
		for i, kv := range kvs {
			if i > 0 {
				sb.WriteByte('&')
			}
			sb.WriteString(queryEscape(kv[0]) + "=" + queryEscape(kv[1]))
		}
		return sb.String()
	}
	switch op {
	case "query":
		in.uri = "/t?" + enc()
	case "form":
		in.meth = "POST"
		in.hdr = []drive.H{{K: "Content-Type", V: "application/x-www-form-urlencoded"}}
		in.body = []byte(enc())
	case "multipart":
		in.meth = "POST"
		in.hdr = []drive.H{{K: "Content-Type", V: "multipart/form-data; boundary=xyzzy"}}
		var sb strings.Builder
		for _, kv := range kvs {
			sb.WriteString("--xyzzy\r\nContent-Disposition: form-data; name=\"" + kv[0] + "\"\r\n\r\n" + kv[1] + "\r\n")
		}
		sb.WriteString("--xyzzy--\r\n")
		in.body = []byte(sb.String())
	case "header":
		for _, kv := range kvs {
			in.hdr = append(in.hdr, drive.H{K: kv[0], V: kv[1]})
		}
	case "cookie":
		var parts []string
		for _, kv := range kvs {
			parts = append(parts, kv[0]+"="+kv[1])
		}
		in.hdr = []drive.H{{K: "Cookie", V: strings.Join(parts, "; ")}}
	}
	return in
}

func queryEscape(s string) string {
	var sb strings.Builder
	for i := 0; i < len(s); i++ {
		c := s[i]
		if c >= 'a' && c <= 'z' || c >= 'A' && c <= 'Z' || c >= '0' && c <= '9' || c == '-' || c == '.' || c == '_' {
			sb.WriteByte(c)
		} else {
			sb.WriteString("%" + strconv.FormatUint(uint64(c)>>4, 16) + strconv.FormatUint(uint64(c)&15, 16))
		}
	}
	return sb.String()
}

var textOps = []string{"query", "form", "multipart", "header", "cookie"}

func (en *engine) mustFail() {
	e := en.e
	e.Note("must-fail", "input no binder could honour (negative index into a slice of structs, letters or an out-of-range number for an integer field, a JSON/XML/CBOR string for an integer field) must produce a bind error; a nil error is reported as totality|<binder>|silent-success|<class>")
	fillSosTypes()
	e.Cases("mustfail", e.N(1500, 60000), func(c *ev.Case) {
		r := c.R
		var in totalInput
		var t *typeSpec
		op := gen.Pick(r, textOps)
		switch cls := r.PickW(4, 3, 2, 3); cls {
		case 0: // negative index
			t = sosTypes[r.Intn(len(sosTypes))]
			tag := opTag[op]
			var f *fieldSpec
			for i := range t.Fields {
				if t.Fields[i].Nested != nil && t.Fields[i].Slice {
					f = &t.Fields[i]
				}
			}
			sub := &f.Nested.Fields[r.Intn(len(f.Nested.Fields))]
			idx := "-" + gen.Pick(r, []string{"1", "2", "7", "1000", "99999", "9223372036854775808"[:r.Range(1, 18)]})
			key := f.wire(tag) + "." + idx + "." + sub.wire(tag)
			if (op == "query" || op == "form" || op == "multipart") && r.Bool() {
				key = f.wire(tag) + "[" + idx + "][" + sub.wire(tag) + "]"
			}
			kvs := [][2]string{{key, "1"}}
			// other, well-formed arguments around it
			for i := range t.Fields {
				g := &t.Fields[i]
				if g.Nested == nil && r.Bool() {
					kv := [2]string{g.wire(tag), "1"}
					if r.Bool() {
						kvs = append(kvs, kv)
					} else {
						kvs = append([][2]string{kv}, kvs...)
					}
				}
			}
			in = textInput(op, kvs)
			in.mustFail = "negative-slice-index"
		case 1, 2: // not a number / overflow
			maxBits := 64
			if cls == 2 {
				maxBits = 32
			}
			var fs []*fieldSpec
			for try := 0; try < 50 && len(fs) == 0; try++ {
				t = flatFamily[r.Intn(len(flatFamily))]
				fs = numericFields(t, maxBits)
			}
			if len(fs) == 0 {
				return
			}
			f := gen.Pick(r, fs)
			if r.Chance(1, 5) {
				op = "uri"
			}
			v := gen.Pick(r, []string{"x", "abc", "1x", "one", "0x", "1-"})
			in.mustFail = "not-a-number"
			if cls == 2 {
				v = gen.Pick(r, []string{"99999999999", "4294967296", "-99999999999"})
				in.mustFail = "integer-overflow"
			}
			if op == "uri" {
				// route /u/:Zqau/:Zqbu? : only the first two field names are route parameters
				if f.Name != fieldName(0) && f.Name != fieldName(1) {
					f = &t.Fields[0]
					if !(f.Nested == nil && !f.Slice && (f.K.isInt() || f.K.isUint()) && f.K.bits() <= maxBits) {
						return
					}
				}
				mf := in.mustFail
				in = totalInput{uri: "/u/" + v, meth: "GET", mustFail: mf}
				if f.Name == fieldName(1) {
					in.uri = "/u/1/" + v
				}
			} else {
				mf := in.mustFail
				in = textInput(op, [][2]string{{f.wire(opTag[op]), v}})
				in.mustFail = mf
			}
		case 3: // wrong type in a body codec
			op = gen.Pick(r, []string{"json", "xml", "cbor"})
			var fs []*fieldSpec
			fam := bodyFamily
			if op == "xml" {
				fam = xmlFamily
			}
			for try := 0; try < 50 && len(fs) == 0; try++ {
				t = fam[r.Intn(len(fam))]
				fs = nil
				for _, f := range numericFields(t, 64) {
					if !f.K.isFloat() {
						fs = append(fs, f)
					}
				}
			}
			if len(fs) == 0 {
				return
			}
			f := gen.Pick(r, fs)
			k := f.wire(op)
			word := gen.Pick(r, []string{"x", "abc", "one"})
			in = totalInput{uri: "/t", meth: "POST", mustFail: "wrong-type"}
			switch op {
			case "json":
				in.hdr = []drive.H{{K: "Content-Type", V: "application/json"}}
				in.body = []byte("{\"" + k + "\":\"" + word + "\"}")
			case "xml":
				in.hdr = []drive.H{{K: "Content-Type", V: "application/xml"}}
				in.body = []byte("<root><" + k + ">" + word + "</" + k + "></root>")
			case "cbor":
				in.hdr = []drive.H{{K: "Content-Type", V: "application/cbor"}}
				b := []byte{0xa1, 0x60 + byte(len(k))}
				b = append(b, k...)
				b = append(b, 0x60+byte(len(word)))
				in.body = append(b, word...)
			}
			if r.Chance(1, 4) {
				en.totalRun(c, "body", t, outStruct, r.Bool(), r.Chance(1, 4), r.Bool(), false, in)
				e.Stat("mustfail_"+in.mustFail, 1)
				return
			}
		}
		wire := op != "multipart" && op != "json" && op != "xml" && op != "cbor" && r.Chance(1, 3)
		en.totalRun(c, op, t, outStruct, r.Bool(), r.Chance(1, 4), r.Bool(), wire, in)
		e.Stat("mustfail_"+in.mustFail, 1)
	})
}

// ---------------------------------------------------------------------------------------------
// after-failed-bind: a request whose bind FAILS (well-formed arguments under the wire names of
// the type first, then something the binder rejects) goes through the same server right before
// ordinary round trips of that type. Binders and decoders are pooled: whatever a failed bind
// leaves behind in them shows up as foreign values in the next bind, which the round-trip
// equality oracle sees. Two ways of failing: a key the binder rejects before decoding (unmatched
// bracket; query / form / multipart) and a value the decoder rejects (letters for a number).
// The poisoning request is sent a few times (sync.Pool is per P) and followed by several round
// trips, all judged; the family runs last so that leftovers cannot reach other families.

const poisonWord = "leftover"

func poisonText(k kind, i int) string {
	switch {
	case k == kString:
		return poisonWord + strconv.Itoa(i)
	case k.isFloat():
		return "77.5"
	case k == kBool:
		return "true"
	}
	return strconv.Itoa(70 + i%9)
}

// sendPoison sends key/value pairs through the rig's client as the given source and returns whether
// the handler's bind failed (it is supposed to).
func (rg *rig) sendPoison(src source, t *typeSpec, kvs [][2]string) (failed bool) {
	p := &probe{src: src, op: opFor(src), auto: true, typ: t}
	rg.cur.Store(p)
	req := rg.cl.R()
	var resp *client.Response
	var err error
	switch src {
	case sQuery:
		for _, kv := range kvs {
			req.AddParam(kv[0], kv[1])
		}
		resp, err = req.Get(rigURL)
	case sForm, sMultipart:
		for _, kv := range kvs {
			req.AddFormData(kv[0], kv[1])
		}
		if src == sMultipart {
			req.AddFileWithReader("w.txt", io.NopCloser(strings.NewReader("file-content")))
		}
		resp, err = req.Post(rigURL)
	case sHeader:
		for _, kv := range kvs {
			req.AddHeader(kv[0], kv[1])
		}
		resp, err = req.Get(rigURL)
	case sCookie:
		for _, kv := range kvs {
			req.SetCookie(kv[0], kv[1])
		}
		resp, err = req.Get(rigURL)
	}
	if err != nil {
		client.ReleaseRequest(req)
		return false
	}
	resp.Close()
	return p.ran && p.hasErr
}

type afterFailCase struct {
	src    source
	split  bool
	typ    *typeSpec
	reject string // "rejected-key" | "decode-error"
	val    reflect.Value
}

func (en *engine) afterFailRun(c *ev.Case, a afterFailCase) {
	e := en.e
	rg := en.g.get(a.split)
	tag := sourceTag[a.src]
	var kvs [][2]string
	var numeric *fieldSpec
	for i := range a.typ.Fields {
		f := &a.typ.Fields[i]
		n := 1
		if f.Slice {
			n = 2
		}
		for j := 0; j < n; j++ {
			kvs = append(kvs, [2]string{f.wire(tag), poisonText(f.K, i*2+j)})
		}
		if !f.Slice && f.K != kString && f.K != kBool && numeric == nil {
			numeric = f
		}
	}
	switch a.reject {
	case "rejected-key":
		kvs = append(kvs, [2]string{"zz[", "1"})
	default:
		if numeric == nil {
			return
		}
		kvs = append(kvs, [2]string{numeric.wire(tag), "notanumber"})
	}
	poisoned := 0
	for i := 0; i < 3; i++ {
		if rg.sendPoison(a.src, a.typ, kvs) {
			poisoned++
		}
	}
	e.Stat("afterfail_poison_requests", 3)
	e.Stat("afterfail_poison_failed_as_planned", int64(poisoned))
	if poisoned == 0 {
		e.Stat("afterfail_not_poisoned", 1)
		return
	}
	e.Nontrivial("afterfail", c.ID)
	for i := 0; i < 5; i++ {
		p := &probe{src: a.src, op: opFor(a.src), auto: true, typ: a.typ, want: a.val}
		o := rg.roundTrip(p)
		e.Eval(1)
		e.Stat("afterfail_trips", 1)
		m := o.manner()
		if m == "" {
			continue
		}
		if m == "panic" {
			en.report(c, "roundtrip", p, o, a.split)
			continue
		}
		// one root cause (state of the failed bind reached this one), two visible forms
		cls := "changed-values"
		if m == "len-more" {
			cls = "extra-values"
		}
		det := map[string]any{"source": sourceName[a.src], "failed_request_before": kvs, "how_it_failed": a.reject,
			"type": a.typ.ID, "sent": renderStruct(a.typ, a.val), "EnableSplittingOnParsers": a.split, "round_trip_no": i + 1, "status": o.status}
		if p.diff != nil {
			det["got"] = p.got
			det["first_difference_at"] = p.diff.Path
		}
		if p.hasErr {
			det["bind_error"] = p.bindErr
		}
		e.Violation(c, "roundtrip|"+sourceName[a.src]+"|after-failed-bind|"+cls,
			"a round trip that follows a request whose bind failed ("+a.reject+") does not return the value sent: state of the failed bind leaked into it", det)
	}
}

// afterFailValue: slices of length 0..2 (cookie: 0..1, longer ones are the known finding), so
// that leftovers are visible as extra elements or as values of keys this request does not send.
func afterFailValue(r *gen.Rand, src source, split bool, t *typeSpec) reflect.Value {
	d := newDomain(src, split)
	v := reflect.New(t.RT).Elem()
	for i := range t.Fields {
		f := &t.Fields[i]
		fv := v.FieldByName(f.Name)
		if !f.Slice {
			setScalar(r, d, f.K, fv, 24)
			continue
		}
		n := r.Range(0, 2)
		if src == sCookie && n > 1 {
			n = 1
		}
		sl := reflect.MakeSlice(fv.Type(), 0, n)
		for j := 0; j < n; j++ {
			el := reflect.New(kindType[f.K]).Elem()
			setScalar(r, d, f.K, el, 24)
			sl = reflect.Append(sl, el)
		}
		fv.Set(sl)
	}
	return v
}

func (en *engine) afterFail() {
	e := en.e
	e.Note("after-failed-bind", "a request whose Bind fails (valid arguments under the type's wire names, then a rejected key or an undecodable value) is sent 3 times through the same server, then 5 judged round trips of that type follow; leftovers of the failed bind in pooled binders/decoders break the round-trip equality (roundtrip|<source>|after-failed-bind|...)")
	demo := func() *typeSpec {
		return buildType("afterfail-demo", []fieldSpec{{Name: fieldName(0), K: kString}, {Name: fieldName(1), K: kString, Slice: true}, {Name: fieldName(2), K: kInt}}, false)
	}
	for _, src := range []source{sQuery, sForm, sMultipart, sHeader, sCookie} {
		for _, rej := range []string{"rejected-key", "decode-error"} {
			if rej == "rejected-key" && (src == sHeader || src == sCookie) {
				continue // these binders have no bracket notation, no key is rejected
			}
			src, rej := src, rej
			e.Corpus("afterfail-"+sourceName[src]+"-"+rej, func(c *ev.Case) {
				t := demo()
				v := reflect.New(t.RT).Elem()
				if src == sCookie {
					v.Field(1).Set(reflect.ValueOf([]string{"a"}))
				} else {
					v.Field(1).Set(reflect.ValueOf([]string{"a", "b"}))
				}
				en.afterFailRun(c, afterFailCase{src: src, typ: t, reject: rej, val: v})
			})
		}
	}
	e.Cases("afterfail", e.N(1200, 60000), func(c *ev.Case) {
		r := c.R
		a := afterFailCase{src: []source{sQuery, sForm, sMultipart, sHeader, sCookie}[r.Intn(5)], split: r.Chance(1, 3)}
		a.reject = "decode-error"
		if a.src != sHeader && a.src != sCookie && r.Chance(2, 3) {
			a.reject = "rejected-key"
		}
		// a type with at least one slice field (and a number when the decoder has to reject something)
		for try := 0; try < 60; try++ {
			t := flatFamily[2*int(nKinds)+r.Intn(len(flatFamily)-2*int(nKinds))]
			hasSlice, hasNum := false, false
			for i := range t.Fields {
				f := &t.Fields[i]
				hasSlice = hasSlice || f.Slice
				hasNum = hasNum || (!f.Slice && f.K != kString && f.K != kBool)
			}
			if hasSlice && (hasNum || a.reject == "rejected-key") {
				a.typ = t
				break
			}
		}
		if a.typ == nil {
			return
		}
		a.val = afterFailValue(r, a.src, a.split, a.typ)
		en.afterFailRun(c, a)
	})
}
