package bind

import (
	"errors"
	"fmt"
	"net"
	"reflect"
	"runtime/debug"
	"strconv"
	"strings"
	"sync/atomic"
	"time"

	"github.com/gofiber/fiber/v3"
	"github.com/gofiber/fiber/v3/client"
	"github.com/valyala/fasthttp"
	"github.com/valyala/fasthttp/fasthttputil"

	"verifharness/internal/ev"
)

// ---------------------------------------------------------------------------------------------
// probe: one execution of a binder inside a real handler. The handler compares the decoded value
// with the expected one *inside the handler* (decoded strings may alias request memory, which is
// another property's business) and leaves the verdict in the probe.

const (
	outStruct = iota
	outMapStr
	outMapSlice
)

type probe struct {
	src          source
	op           string      // binder method: query form header cookie json xml cbor body uri
	auto         bool        // WithAutoHandling / WithoutAutoHandling (set explicitly unless defMode)
	defMode      bool        // the handler does not choose a mode: the documented default is manual handling
	respHdr      [][2]string // op "respheader": response headers the handler sets before Bind().RespHeader
	swallow      bool        // totality: the handler ignores the bind error and answers normally
	typ          *typeSpec
	want         reflect.Value // struct value to compare with; invalid = no comparison
	outKind      int
	send         *sendSpec    // how the client is given the value (nil = the struct setters)
	multi        []*multiBind // several binds in this request (multibind.go); the fields above except the mode are unused then
	freshEach    bool         // multi: every bind goes through c.Bind() again
	viaMW        bool         // multi: a middleware switched automatic handling on
	hdrs         *presetHdrs  // headers set on the client / the request besides the value (nil = none)
	where        int          // where the application hands the value over: on the request, in a request hook, at client level
	scalarsOnly  bool         // compare the non-slice fields only
	slicesDiffer bool         // scalarsOnly: the scalars were equal, some slice was not
	pre          string       // what the handler does before the judged bind: "" | body-first | multipartform-first

	// results
	ran      bool
	hasErr   bool
	bindErr  string
	err422   bool // Bind().Body with an unsupported content type: documented 422
	wrapped  bool // the error is the automatic handling's *fiber.Error{400, "Bad request: ..."}
	diff     *diff
	got      map[string]any
	panicVal string
	stack    string
}

func (p *probe) call(b *fiber.Bind, out any) error {
	switch p.op {
	case "query":
		return b.Query(out)
	case "form":
		return b.Form(out)
	case "header":
		return b.Header(out)
	case "cookie":
		return b.Cookie(out)
	case "json":
		return b.JSON(out)
	case "xml":
		return b.XML(out)
	case "cbor":
		return b.CBOR(out)
	case "body":
		return b.Body(out)
	case "uri":
		return b.URI(out)
	case "respheader":
		return b.RespHeader(out)
	}
	panic("harness: unknown op " + p.op)
}

func (p *probe) handler(c fiber.Ctx) error {
	p.ran = true
	var out any
	var sv reflect.Value
	switch p.outKind {
	case outMapStr:
		out = map[string]string{} // maps are reference types: both forms are accepted by parse()
	case outMapSlice:
		m := map[string][]string{}
		out = &m
	default:
		sv = reflect.New(p.typ.RT)
		out = sv.Interface()
	}
	for _, kv := range p.respHdr {
		c.Response().Header.Add(kv[0], kv[1])
	}
	b := c.Bind()
	switch {
	case p.defMode:
	case p.auto:
		b = b.WithAutoHandling()
	default:
		b = b.WithoutAutoHandling()
	}
	var err error
	func() {
		defer func() {
			if r := recover(); r != nil {
				p.panicVal = fmt.Sprint(r)
				p.stack = string(debug.Stack())
			}
		}()
		switch p.pre {
		case "body-first":
			// an earlier Bind().Body() into another struct of the type (e.g. a middleware);
			// the judged bind that follows must see the same request
			_ = b.Body(reflect.New(p.typ.RT).Interface())
		case "multipartform-first":
			_, _ = c.MultipartForm()
		}
		err = p.call(b, out)
	}()
	if p.panicVal != "" {
		return c.Status(599).SendString("panic")
	}
	if err != nil {
		p.hasErr = true
		p.bindErr = err.Error()
		p.err422 = p.op == "body" && errors.Is(err, fiber.ErrUnprocessableEntity)
		var fe *fiber.Error
		p.wrapped = errors.As(err, &fe) && fe.Code == fiber.StatusBadRequest && strings.HasPrefix(fe.Message, "Bad request: ")
		if p.swallow {
			return c.SendString("swallowed")
		}
		return err
	}
	if p.want.IsValid() {
		d := equalStruct(p.typ, p.want, sv.Elem())
		if p.scalarsOnly {
			// only the non-slice fields are compared (see sendClientThenReq); what became of the
			// slices is kept for a counter
			p.slicesDiffer = d != nil
			d = nil
			for i := range p.typ.Fields {
				f := &p.typ.Fields[i]
				if f.Slice || f.Nested != nil {
					continue
				}
				if x := equalField(f, p.want.FieldByName(f.Name), sv.Elem().FieldByName(f.Name), f.Name); x != nil {
					x.Top, d = i, x
					p.slicesDiffer = false
					break
				}
			}
		}
		if d != nil {
			p.diff = d
			p.got = renderStruct(p.typ, sv.Elem())
			// the differing leaf may alias request memory: copy what we keep
			d.Got = cloneLeaf(d.Leaf, d.Got)
		}
	}
	return c.SendString("ok")
}

// cloneLeaf deep-copies a scalar / slice-of-scalars leaf (strings included).
func cloneLeaf(f *fieldSpec, v reflect.Value) reflect.Value {
	if f.Nested != nil {
		return reflect.Value{}
	}
	cp := func(dst, src reflect.Value) {
		if f.K == kString {
			dst.SetString(strings.Clone(src.String()))
		} else {
			dst.Set(src)
		}
	}
	if f.Slice {
		out := reflect.MakeSlice(reflect.SliceOf(kindType[f.K]), v.Len(), v.Len())
		for i := 0; i < v.Len(); i++ {
			cp(out.Index(i), v.Index(i))
		}
		return out
	}
	out := reflect.New(kindType[f.K]).Elem()
	cp(out, v)
	return out
}

// ---------------------------------------------------------------------------------------------
// rig: a fiber app served over an in-memory listener and a bundled client dialling it.

type rig struct {
	split bool
	app   *fiber.App
	ln    *fasthttputil.InmemoryListener
	fc    *fasthttp.Client
	cl    *client.Client
	cur   atomic.Pointer[probe]
	trips int64
	tmp   []string // files written for AddFile(path), removed after the request
}

func newRig(cfg srvCfg) *rig {
	r := &rig{split: cfg.split}
	r.app = fiber.New(fiber.Config{
		EnableSplittingOnParsers:     cfg.split,
		DisablePreParseMultipartForm: cfg.lazy,
		StreamRequestBody:            cfg.stream,
		ReadBufferSize:               1 << 16, // long slices in the query string / header block
	})
	r.app.All("/b", func(c fiber.Ctx) error { return r.cur.Load().handler(c) })
	r.ln = fasthttputil.NewInmemoryListener()
	go func() { _ = r.app.Listener(r.ln, fiber.ListenConfig{DisableStartupMessage: true}) }()
	r.fc = &fasthttp.Client{}
	r.cl = client.NewWithClient(r.fc)
	r.cl.SetDial(func(string) (net.Conn, error) { return r.ln.Dial() })
	return r
}

func (r *rig) close() {
	r.fc.CloseIdleConnections()
	_ = r.ln.Close()
}

const rigURL = "http://bind.test/b"

// formatScalar is the harness' own text form for the header source (the client has no struct API
// for headers); it is the same as client.SetValWithStruct uses for the other text sources.
func formatScalar(k kind, v reflect.Value) string {
	switch {
	case k == kString:
		return v.String()
	case k.isInt():
		return strconv.FormatInt(v.Int(), 10)
	case k.isUint():
		return strconv.FormatUint(v.Uint(), 10)
	case k.isFloat():
		return strconv.FormatFloat(v.Float(), 'f', -1, 64)
	default:
		return strconv.FormatBool(v.Bool())
	}
}

type outcome struct {
	sendErr string
	status  int
	p       *probe
}

// manner condenses how a round trip failed ("" = it held).
func (o *outcome) manner() string {
	p := o.p
	switch {
	case p.panicVal != "":
		return "panic"
	case o.sendErr != "":
		return "client-error"
	case !p.ran:
		return "not-delivered"
	case p.hasErr:
		return "bind-error"
	case p.diff != nil:
		return p.diff.Shape // len-fewer, len-more, value
	}
	return ""
}

// roundTrip sends the struct with the bundled client and lets the handler bind and compare.
func (r *rig) roundTrip(p *probe) *outcome {
	p.scalarsOnly = p.send != nil && p.send.mode == sendClientThenReq && p.src.isText()
	r.cur.Store(p)
	r.trips++
	defer r.removeUploads()
	o := &outcome{p: p}
	req := r.cl.R()
	// a second client (same transport) whenever something lives at client level: default headers,
	// the value itself, a request hook
	var cl2 *client.Client
	own := func() *client.Client {
		if cl2 == nil {
			cl2 = client.NewWithClient(r.fc)
			req.SetClient(cl2)
		}
		return cl2
	}
	if h := p.hdrs; h != nil && h.level == "client" {
		h.apply(func(k, v string) { own().SetHeader(k, v) })
	}
	switch p.where {
	case whereHook:
		// the application fills the request in a request hook ("modify the request before it is sent")
		own().AddRequestHook(func(_ *client.Client, hr *client.Request) error {
			r.prepare(hr, p, own)
			return nil
		})
	case whereClient:
		r.prepareClient(own(), p)
		r.presetRequest(req, p, "before")
		r.presetRequest(req, p, "after")
	default:
		r.prepare(req, p, own)
	}
	var resp *client.Response
	var err error
	// watchdog only (never decides a verdict on a healthy tree): a request the server cannot
	// answer must not hang the shard until the driver's timeout
	req.SetTimeout(60 * time.Second)
	if p.src == sQuery || p.src == sHeader || p.src == sCookie {
		resp, err = req.Get(rigURL)
	} else {
		resp, err = req.Post(rigURL)
	}
	if err != nil {
		o.sendErr = err.Error()
		client.ReleaseRequest(req)
		return o
	}
	o.status = resp.StatusCode()
	resp.Close()
	return o
}

// prepare hands the value (and the request-level headers around it) to the request.
func (r *rig) prepare(req *client.Request, p *probe, own func() *client.Client) {
	r.presetRequest(req, p, "before")
	defer r.presetRequest(req, p, "after")
	if p.send != nil && p.send.mode != sendStruct && p.src.isText() {
		r.sendPieces(req, p, own)
		return
	}
	val := p.want.Interface()
	switch p.src {
	case sQuery:
		req.SetParamsWithStruct(val)
	case sForm:
		req.SetFormDataWithStruct(val)
	case sMultipart:
		if p.send != nil && p.send.fileFirst {
			r.attachFiles(req, p.send)
			req.SetFormDataWithStruct(val)
		} else {
			req.SetFormDataWithStruct(val)
			r.attachFiles(req, p.send)
		}
	case sHeader:
		eachHeader(p, func(k, v string) { req.AddHeader(k, v) })
	case sCookie:
		req.SetCookiesWithStruct(val)
	case sJSON:
		req.SetJSON(val)
	case sXML:
		req.SetXML(val)
	case sCBOR:
		req.SetCBOR(val)
	}
}

// prepareClient hands the value to the client (defaults of every request); only the sources the
// client has a place for: query, cookie, header.
func (r *rig) prepareClient(cl *client.Client, p *probe) {
	val := p.want.Interface()
	switch p.src {
	case sQuery:
		cl.SetParamsWithStruct(val)
	case sCookie:
		cl.SetCookiesWithStruct(val)
	case sHeader:
		eachHeader(p, func(k, v string) { cl.AddHeader(k, v) })
	}
}

func eachHeader(p *probe, add func(k, v string)) { eachHeaderOf(p.typ, p.want, add) }

func eachHeaderOf(t *typeSpec, val reflect.Value, add func(k, v string)) {
	for i := range t.Fields {
		f := &t.Fields[i]
		fv := val.FieldByName(f.Name)
		if f.Slice {
			for j := 0; j < fv.Len(); j++ {
				add(f.wire("header"), formatScalar(f.K, fv.Index(j)))
			}
		} else {
			add(f.wire("header"), formatScalar(f.K, fv))
		}
	}
}

func opFor(src source) string {
	if src == sMultipart {
		return "form"
	}
	return sourceName[src]
}

func debugStack() []byte { return debug.Stack() }

// panicSite is ev.PanicSite on the handler's recovered stack.
func panicSite(stack string) string { return ev.PanicSite(stack) }

// panicSig names a panic by where it surfaced in fiber and by its message with the numbers
// removed: the same defect reached through Query, Form, Header or Cookie is one signature.
func panicSig(p *probe) string {
	msg := strings.Map(func(r rune) rune {
		if r >= '0' && r <= '9' {
			return -1
		}
		if r == ' ' || r == '|' {
			return '-'
		}
		return r
	}, p.panicVal)
	if len(msg) > 80 {
		msg = msg[:80]
	}
	return "panic|" + panicSite(p.stack) + "|" + msg
}
