package bind

import (
	"math"
	"reflect"
	"sort"
	"strconv"
	"strings"
	"unicode/utf8"
)

// ---------------------------------------------------------------------------------------------
// From a failed round trip to a signature.
//
// A signature must name the root cause, not the random value, and the same cause must give the
// same signature from any witness. So a failing case is reduced, by re-running the real round
// trip, to a one-field struct with as few elements / characters as still fail in the same manner;
// then it is generalised (does any value fail? any element kind? without splitting too? through
// the specific binder method too?) and the signature is read off the reduced witness.

type witness struct {
	src    source
	split  bool
	op     string
	auto   bool
	k      kind
	slice  bool
	vals   []reflect.Value // scalar values; exactly one when !slice
	manner string
}

// srvCfg is the server configuration a rig runs with.
type srvCfg struct {
	split  bool // EnableSplittingOnParsers
	lazy   bool // DisablePreParseMultipartForm: the multipart form is parsed on first use, not while reading
	stream bool // StreamRequestBody
}

func (c srvCfg) plain() bool { return !c.lazy && !c.stream }

// rigs holds one rig per server configuration, made on first use.
type rigs struct {
	m map[srvCfg]*rig
}

func newRigs() *rigs { return &rigs{m: map[srvCfg]*rig{}} }
func (g *rigs) getCfg(c srvCfg) *rig {
	r := g.m[c]
	if r == nil {
		r = newRig(c)
		g.m[c] = r
	}
	return r
}
func (g *rigs) get(split bool) *rig { return g.getCfg(srvCfg{split: split}) }
func (g *rigs) close() {
	for _, r := range g.m {
		r.close()
	}
}
func (g *rigs) trips() int64 {
	var n int64
	for _, r := range g.m {
		n += r.trips
	}
	return n
}

type shrinker struct {
	g      *rigs
	budget int
}

// run executes the witness as a one-field struct and returns the manner of failure ("" = holds).
func (s *shrinker) run(w *witness) (string, *outcome) {
	s.budget--
	t := singleType(w.k, w.slice, w.src == sXML)
	v := reflect.New(t.RT).Elem()
	fv := v.FieldByName(t.Fields[0].Name)
	if w.slice {
		sl := reflect.MakeSlice(fv.Type(), 0, len(w.vals))
		for _, e := range w.vals {
			sl = reflect.Append(sl, e)
		}
		fv.Set(sl)
	} else {
		fv.Set(w.vals[0])
	}
	p := &probe{src: w.src, op: w.op, auto: w.auto, typ: t, want: v}
	o := s.g.get(w.split).roundTrip(p)
	return o.manner(), o
}

func (s *shrinker) fails(w *witness) bool {
	if s.budget <= 0 {
		return false
	}
	// candidates must stay inside the value domain of the source (e.g. no header value that
	// begins with a space), or the reduction would slip to something HTTP cannot carry
	if w.k == kString {
		d := &domain{src: w.src}
		for _, v := range w.vals {
			if x := v.String(); d.sanitize(x) != x {
				return false
			}
		}
	}
	m, _ := s.run(w)
	return m == w.manner
}

func plainValue(k kind, i int) reflect.Value {
	v := reflect.New(kindType[k]).Elem()
	switch {
	case k == kString:
		v.SetString(string(rune('a' + i%26)))
	case k.isInt():
		v.SetInt(int64(1 + i%100))
	case k.isUint():
		v.SetUint(uint64(1 + i%100))
	case k.isFloat():
		v.SetFloat(float64(1 + i%100))
	default:
		v.SetBool(true)
	}
	return v
}

// leaves lists every scalar / slice-of-scalar leaf of a struct value with its sent values.
func leaves(t *typeSpec, v reflect.Value, out *[]leafVal) {
	for i := range t.Fields {
		f := &t.Fields[i]
		fv := v.FieldByName(f.Name)
		if f.Nested != nil {
			if f.Slice {
				for j := 0; j < fv.Len(); j++ {
					leaves(f.Nested, fv.Index(j), out)
				}
			} else {
				leaves(f.Nested, fv, out)
			}
			continue
		}
		*out = append(*out, leafVal{f, fv})
	}
}

type leafVal struct {
	f *fieldSpec
	v reflect.Value
}

func valsOf(f *fieldSpec, v reflect.Value) []reflect.Value {
	if !f.Slice {
		return []reflect.Value{v}
	}
	out := make([]reflect.Value, v.Len())
	for i := range out {
		out[i] = v.Index(i)
	}
	return out
}

type classification struct {
	sig     string
	witness map[string]any
	reduced bool
}

// classify reduces the failed probe and builds the signature.
func classify(g *rigs, clause string, p *probe, o *outcome, split bool) classification {
	s := &shrinker{g: g, budget: 400}
	manner := o.manner()
	base := witness{src: p.src, split: split, op: p.op, auto: p.auto, manner: manner}

	// 1. find a single leaf that reproduces the failure on its own
	var cands []leafVal
	if p.diff != nil && p.diff.Leaf != nil && p.diff.Leaf.Nested == nil {
		cands = append(cands, leafVal{p.diff.Leaf, p.diff.Sent})
	}
	leaves(p.typ, p.want, &cands)
	var w *witness
	for i, c := range cands {
		if i > 12 {
			break
		}
		if c.f.Slice && c.f.K == kUint8 && p.src == sXML {
			continue
		}
		x := base
		x.k, x.slice, x.vals = c.f.K, c.f.Slice, valsOf(c.f, c.v)
		if s.fails(&x) {
			w = &x
			break
		}
	}
	site := sourceName[p.src]
	if w == nil {
		// Only fails in the context of the whole struct: keep the struct as the witness.
		fc := "struct"
		if p.diff != nil && p.diff.Leaf != nil {
			fc = p.diff.Leaf.class()
		}
		if split {
			site += "+split-on"
		}
		if p.op == "body" {
			site += "+via-Body"
		}
		return classification{
			sig:     clause + "|" + site + "|" + fc + "|only-in-multi-field-struct|" + manner,
			witness: map[string]any{"type": p.typ.ID, "sent": renderStruct(p.typ, p.want)},
		}
	}

	// 2. fewest elements
	if w.slice && len(w.vals) > 1 {
		w.vals = ddmin(w.vals, func(sub []reflect.Value) bool {
			x := *w
			x.vals = sub
			return s.fails(&x)
		})
	}
	// 3. shortest strings
	if w.k == kString {
		for i := range w.vals {
			rs := []rune(w.vals[i].String())
			if len(rs) == 0 {
				continue
			}
			rs = ddmin(rs, func(sub []rune) bool {
				x := *w
				x.vals = append([]reflect.Value(nil), w.vals...)
				x.vals[i] = reflect.ValueOf(string(sub))
				return s.fails(&x)
			})
			// also try the empty string
			x := *w
			x.vals = append([]reflect.Value(nil), w.vals...)
			x.vals[i] = reflect.ValueOf("")
			if len(rs) > 0 && s.fails(&x) {
				rs = nil
			}
			w.vals[i] = reflect.ValueOf(string(rs))
		}
	}
	// 4. which elements matter? replace each by a plain value while it still fails
	culprit := make([]bool, len(w.vals))
	anyCulprit := false
	for i := range w.vals {
		x := *w
		x.vals = append([]reflect.Value(nil), w.vals...)
		x.vals[i] = plainValue(w.k, i)
		if scalarEqual(w.k, x.vals[i], w.vals[i]) && renderScalar(w.k, x.vals[i]) == renderScalar(w.k, w.vals[i]) {
			continue // already plain
		}
		if s.fails(&x) {
			w.vals = x.vals
		} else {
			culprit[i] = true
			anyCulprit = true
		}
	}
	// 5. any element kind?
	kindFree := false
	if !anyCulprit {
		all := true
		for _, k2 := range []kind{kString, kInt32, kBool} {
			if k2 == w.k {
				continue
			}
			x := *w
			x.k = k2
			x.vals = make([]reflect.Value, len(w.vals))
			for i := range x.vals {
				x.vals[i] = plainValue(k2, i)
			}
			if !s.fails(&x) {
				all = false
				break
			}
		}
		kindFree = all
	}
	// 6. does it need splitting / the Body() dispatcher?
	if w.split {
		x := *w
		x.split = false
		if s.fails(&x) {
			w.split = false
		}
	}
	if w.op == "body" {
		x := *w
		x.op = opFor(w.src)
		if s.fails(&x) {
			w.op = x.op
		}
	}

	// 7. a one-element slice that also fails as a plain scalar is a matter of the value
	if w.slice && len(w.vals) == 1 {
		x := *w
		x.slice = false
		if s.fails(&x) {
			w.slice = false
		}
	}
	// 8. both float widths?
	floatFree := false
	if w.k.isFloat() && anyCulprit {
		x := *w
		x.k = kFloat64
		if w.k == kFloat64 {
			x.k = kFloat32
		}
		x.vals = make([]reflect.Value, len(w.vals))
		same := true
		for i, v := range w.vals {
			nv := reflect.New(kindType[x.k]).Elem()
			nv.SetFloat(v.Float())
			x.vals[i] = nv
			if describe(x.k, nv) != describe(w.k, v) {
				same = false
			}
		}
		floatFree = same && s.fails(&x)
	}
	// 9. which text sources share the failure? (only sources whose domain contains the witness)
	if w.src.isText() {
		failing, tried := map[source]bool{w.src: true}, map[source]bool{w.src: true}
		for _, src := range []source{sQuery, sForm, sMultipart, sHeader, sCookie} {
			if src == w.src {
				continue
			}
			x := *w
			x.src = src
			x.op = opFor(src)
			if w.k == kString {
				d := &domain{src: src}
				in := true
				for _, v := range w.vals {
					if y := v.String(); d.sanitize(y) != y {
						in = false
					}
				}
				if !in {
					continue
				}
			}
			tried[src] = true
			if s.fails(&x) {
				failing[src] = true
			}
		}
		viaClient := []source{sQuery, sForm, sMultipart, sCookie}
		allOf := func(set []source) bool {
			n := 0
			for _, src := range set {
				if tried[src] {
					if !failing[src] {
						return false
					}
					n++
				}
			}
			return n >= 2
		}
		switch {
		case len(failing) == len(tried) && len(tried) >= 3:
			site = "all-text-sources"
		case allOf(viaClient) && !failing[sHeader] && (w.src != sHeader):
			site = "client-struct-sources" // query, form, multipart, cookie: encoded by client.SetValWithStruct
		}
	}
	if clause == "split-scalar" && !w.split {
		clause = "roundtrip" // found by the side family but it has nothing to do with splitting
	}

	// signature
	if w.split {
		site += "+split-on"
	}
	if w.op == "body" {
		site += "+via-Body"
	}
	fc := ""
	switch {
	case kindFree && w.slice:
		fc = "slice"
	case kindFree:
		fc = "scalar"
	case floatFree && w.slice:
		fc = "slice-of-float"
	case floatFree:
		fc = "float"
	case w.slice:
		fc = "slice-of-" + kindName[w.k]
	default:
		fc = kindName[w.k]
	}
	var parts []string
	if w.slice {
		switch n := len(w.vals); {
		case n <= 2:
			parts = append(parts, "len"+strconv.Itoa(n))
		default:
			parts = append(parts, "len>=3")
		}
	}
	if !anyCulprit {
		parts = append(parts, "any-value")
	} else {
		seen := map[string]bool{}
		var ds []string
		for i, v := range w.vals {
			if !culprit[i] {
				continue
			}
			d := describe(w.k, v)
			if !seen[d] {
				seen[d] = true
				ds = append(ds, d)
			}
		}
		sort.Strings(ds)
		if len(ds) > 3 {
			ds = ds[:3]
		}
		parts = append(parts, "value:"+strings.Join(ds, ","))
	}
	sig := clause + "|" + site + "|" + fc + "|" + strings.Join(parts, "|") + "|" + manner

	// witness
	_, o2 := s.run(w)
	sent := []any{}
	for _, v := range w.vals {
		sent = append(sent, renderScalar(w.k, v))
	}
	wm := map[string]any{
		"source": sourceName[w.src], "binder": w.op, "EnableSplittingOnParsers": w.split,
		"field_type": map[bool]string{true: "[]", false: ""}[w.slice] + kindName[w.k], "sent": sent,
	}
	if o2 != nil {
		if o2.p.diff != nil && o2.p.diff.Got.IsValid() {
			wm["got"] = renderField(&fieldSpec{K: w.k, Slice: w.slice}, o2.p.diff.Got)
		}
		if o2.p.hasErr {
			wm["bind_error"] = o2.p.bindErr
		}
		if o2.sendErr != "" {
			wm["client_error"] = o2.sendErr
		}
		wm["status"] = o2.status
	}
	return classification{sig: sig, witness: wm, reduced: true}
}

// ddmin: classic delta debugging over a list, keeping `fails` true.
func ddmin[T any](xs []T, fails func([]T) bool) []T {
	n := 2
	for len(xs) >= 2 {
		chunk := (len(xs) + n - 1) / n
		reduced := false
		// try each chunk alone, then each complement
		for i := 0; i < len(xs) && !reduced; i += chunk {
			j := i + chunk
			if j > len(xs) {
				j = len(xs)
			}
			sub := append([]T(nil), xs[i:j]...)
			if len(sub) < len(xs) && fails(sub) {
				xs, n, reduced = sub, 2, true
			}
		}
		for i := 0; i < len(xs) && !reduced && n > 2; i += chunk {
			j := i + chunk
			if j > len(xs) {
				j = len(xs)
			}
			sub := append(append([]T(nil), xs[:i]...), xs[j:]...)
			if len(sub) > 0 && fails(sub) {
				xs, reduced = sub, true
				if n > 2 {
					n--
				}
			}
		}
		if !reduced {
			if n >= len(xs) {
				break
			}
			n *= 2
			if n > len(xs) {
				n = len(xs)
			}
		}
	}
	return xs
}

// ---------------------------------------------------------------------------------------------
// Describing a (reduced) value by class.

func describe(k kind, v reflect.Value) string {
	switch {
	case k == kString:
		return describeString(v.String())
	case k.isFloat():
		f := v.Float()
		a := math.Abs(f)
		switch {
		case math.IsNaN(f):
			return "nan"
		case math.IsInf(f, 1):
			return "+inf"
		case math.IsInf(f, -1):
			return "-inf"
		case f == 0 && math.Signbit(f):
			return "neg-zero"
		case f == 0:
			return "zero"
		case a >= 1e21:
			return "float>=1e21"
		case a < 1e-6:
			return "float<1e-6"
		}
		s := strconv.FormatFloat(f, 'f', -1, 64)
		if i := strings.IndexByte(s, '.'); i >= 0 {
			if len(s)-i-1 > 6 {
				return "float-more-than-6-fraction-digits"
			}
			return "float-fraction"
		}
		if len(strings.TrimLeft(s, "-")) > 15 {
			return "float-integer-more-than-15-digits"
		}
		return "float-integer-valued"
	case k.isInt():
		n := v.Int()
		bits := k.bits()
		switch {
		case n == int64(-1)<<(bits-1):
			return "int-min"
		case n == -(int64(-1)<<(bits-1) + 1):
			return "int-max"
		case n == 0:
			return "zero"
		case n < 0:
			return "int-negative"
		}
		return "int-positive"
	case k.isUint():
		n := v.Uint()
		switch {
		case n == ^uint64(0)>>(64-k.bits()):
			return "uint-max"
		case n == 0:
			return "zero"
		case n > math.MaxInt64:
			return "uint-above-int64"
		}
		return "uint-positive"
	}
	return strconv.FormatBool(v.Bool())
}

var charNames = map[rune]string{
	',': "comma", ' ': "space", '\t': "tab", '+': "plus", '%': "percent", '&': "ampersand", '=': "equals", '#': "hash",
	';': "semicolon", '[': "open-bracket", ']': "close-bracket", '.': "dot", ':': "colon", '/': "slash", '?': "question",
	'@': "at", '!': "bang", '$': "dollar", '\'': "apostrophe", '(': "open-paren", ')': "close-paren", '*': "asterisk",
	'"': "dquote", '<': "lt", '>': "gt", '\\': "backslash", '|': "pipe", '{': "open-brace", '}': "close-brace", '^': "caret",
	'`': "backtick", '~': "tilde", '-': "dash", '_': "underscore", '\n': "lf", '\r': "cr", 0: "nul", 0x7f: "del",
}

func charClass(r rune) string {
	if n, ok := charNames[r]; ok {
		return n
	}
	switch {
	case r >= '0' && r <= '9':
		return "digit"
	case r >= 'a' && r <= 'z', r >= 'A' && r <= 'Z':
		return "letter"
	case r < 0x20:
		return "ctl"
	case r == utf8.RuneError:
		return "u+fffd"
	case r >= 0x80:
		return "non-ascii"
	}
	return "other"
}

func describeString(s string) string {
	if s == "" {
		return "empty-string"
	}
	var cls []string
	for _, r := range s {
		c := charClass(r)
		if len(cls) > 0 && cls[len(cls)-1] == c {
			continue
		}
		cls = append(cls, c)
		if len(cls) == 4 {
			break
		}
	}
	return "chars(" + strings.Join(cls, "+") + ")"
}
