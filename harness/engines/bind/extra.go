package bind

import (
	"fmt"
	"reflect"
	"strings"

	"verifharness/internal/ev"
	"verifharness/internal/gen"
)

// ---------------------------------------------------------------------------------------------
// keys: the wire name of a field (struct tag) deliberately contains a special character; values
// are plain. One signature per (source, key class). Header and cookie names are restricted to
// RFC 9110 tokens (anything else is not a header / cookie name in HTTP).

type keyClass struct {
	class string
	keys  []string
	token bool // usable as a header / cookie name
}

var keyClasses = []keyClass{
	{"dash", []string{"x-key", "a-b-c"}, true},
	{"underscore", []string{"a_b", "_a"}, true},
	{"upper-case", []string{"ABC", "aBc"}, true},
	{"digit", []string{"a1", "1a"}, true},
	{"dot", []string{"a.b", "a."}, true},
	{"bracket", []string{"a[b]", "a[]", "a[0]", "a[b][c]"}, false},
	{"unmatched-bracket", []string{"a[", "a]", "a[b"}, false},
	{"space", []string{"a b"}, false},
	{"plus", []string{"a+b"}, true},
	{"percent", []string{"a%b", "a%20b"}, true},
	{"ampersand", []string{"a&b"}, true},
	{"equals", []string{"a=b"}, false},
	{"non-ascii", []string{"cl\u00e9", "\u65e5\u672c"}, false},
	{"dquote", []string{"a\"b"}, false},
}

func (en *engine) keyCase(c *ev.Case, src source, split bool, kc keyClass, key string, slice bool) {
	e := en.e
	fields := []fieldSpec{{Name: fieldName(0), Key: key, Verbatim: true, K: kString, Slice: slice}}
	t := buildType("key:"+key, fields, false)
	v := reflect.New(t.RT).Elem()
	fv := v.FieldByName(fields[0].Name)
	if slice {
		fv.Set(reflect.ValueOf([]string{"v1", "v2"}))
	} else {
		fv.SetString("v1")
	}
	p := &probe{src: src, op: opFor(src), auto: true, typ: t, want: v}
	o := en.g.get(split).roundTrip(p)
	e.Eval(1)
	e.Stat("key_trips", 1)
	e.Nontrivial("key", sourceName[src], key, fmt.Sprint(slice, split))
	m := o.manner()
	if m == "" {
		return
	}
	if m == "panic" {
		en.report(c, "roundtrip-key", p, o, split)
		return
	}
	det := map[string]any{"source": sourceName[src], "key": key, "field_type": t.Fields[0].class(),
		"sent": renderStruct(t, v), "manner": m, "status": o.status, "EnableSplittingOnParsers": split}
	if p.diff != nil {
		det["got"] = p.got
	}
	if p.hasErr {
		det["bind_error"] = p.bindErr
	}
	if o.sendErr != "" {
		det["client_error"] = o.sendErr
	}
	// The statement quantifies over field VALUES; tag names using the bracket / dot path notation
	// are outside it. Observed and counted, not judged.
	_ = det
	e.Stat("keyname_not_roundtripped|"+sourceName[src]+"|key-with-"+kc.class, 1)
}

func (en *engine) keys() {
	e := en.e
	// smallest witnesses first, as fixed corpus
	for _, src := range []source{sQuery, sForm, sMultipart, sHeader, sCookie} {
		for _, kc := range keyClasses {
			if (src == sHeader || src == sCookie) && !kc.token {
				continue
			}
			src, kc := src, kc
			e.Corpus("key-"+sourceName[src]+"-"+kc.class, func(c *ev.Case) {
				en.keyCase(c, src, false, kc, kc.keys[0], false)
			})
		}
	}
	e.Cases("keys", e.N(800, 20000), func(c *ev.Case) {
		r := c.R
		src := []source{sQuery, sForm, sMultipart, sHeader, sCookie}[r.Intn(5)]
		kc := gen.Pick(r, keyClasses)
		for (src == sHeader || src == sCookie) && !kc.token {
			kc = gen.Pick(r, keyClasses)
		}
		key := gen.Pick(r, kc.keys)
		slice := r.Chance(1, 3) && src != sCookie
		en.keyCase(c, src, r.Chance(1, 3), kc, key, slice)
	})
}

// ---------------------------------------------------------------------------------------------
// split-scalar: with EnableSplittingOnParsers, a comma inside the value of a field that is NOT a
// slice stays part of the value. The property statement only speaks about comma-free values under
// splitting; this side family asserts what binder/mapping.go's equalFieldType exists for ("split
// only when the destination field is a slice") and is reported under its own clause so it can be
// triaged separately. Slice fields in these cases carry comma-free values.

func (en *engine) splitScalar() {
	e := en.e
	e.Note("split-scalar", "side family beyond the literal statement: under EnableSplittingOnParsers a comma in a non-slice string field must survive (slices in the same struct are comma-free); clause 'split-scalar'")
	mk := func(r *gen.Rand, src source, t *typeSpec) reflect.Value {
		d := newDomain(src, true)
		budget := d.budget
		v := genStruct(r, d, t, &budget)
		dc := newDomain(src, false)
		n := 0
		for i := range t.Fields {
			f := &t.Fields[i]
			if f.K == kString && !f.Slice {
				s := genString(r, d, 40)
				parts := []string{s, dc.sanitize(gen.Pick(r, []string{",", "a,b", "1,2,3", ",x", "x,", ",,", "a, b"}))}
				if r.Bool() {
					parts[0], parts[1] = parts[1], parts[0]
				}
				v.FieldByName(f.Name).SetString(dc.sanitize(strings.Join(parts, "")))
				n++
			}
		}
		if n == 0 {
			return reflect.Value{}
		}
		return v
	}
	for _, src := range []source{sQuery, sForm, sMultipart, sHeader} {
		src := src
		e.Corpus("split-scalar-"+sourceName[src], func(c *ev.Case) {
			// a scalar with a comma next to a slice field
			t := buildType("splitscalar", []fieldSpec{{Name: fieldName(0), K: kString}, {Name: fieldName(1), K: kString, Slice: true}}, false)
			v := reflect.New(t.RT).Elem()
			v.Field(0).SetString("a,b")
			v.Field(1).Set(reflect.ValueOf([]string{"x", "y"}))
			en.judge(c, "split-scalar", plan{src: src, split: true, op: opFor(src), auto: true, typ: t}, v)
			en.e.Nontrivial("corpus", c.ID)
		})
	}
	e.Cases("splitscalar", e.N(800, 40000), func(c *ev.Case) {
		r := c.R
		src := []source{sQuery, sForm, sMultipart, sHeader}[r.Intn(4)]
		var t *typeSpec
		var v reflect.Value
		for try := 0; try < 20 && !v.IsValid(); try++ {
			t = flatFamily[r.Intn(len(flatFamily))]
			v = mk(r, src, t)
		}
		if !v.IsValid() {
			return
		}
		op := opFor(src)
		if (src == sForm || src == sMultipart) && r.Chance(1, 4) {
			op = "body"
		}
		en.judge(c, "split-scalar", plan{src: src, split: true, op: op, auto: r.Bool(), typ: t}, v)
		e.Stat("split_scalar_trips", 1)
		e.Nontrivial("split-scalar", sourceName[src], fmt.Sprint(v.Interface()))
	})
}
