package bind

import (
	"bytes"
	"encoding/hex"
	"fmt"
	"strconv"
	"strings"

	"github.com/gofiber/fiber/v3"

	"verifharness/internal/drive"
	"verifharness/internal/ev"
	"verifharness/internal/gen"
	"verifharness/internal/strict"
)

// ---------------------------------------------------------------------------------------------
// Totality: hostile input into every binder, with and without automatic error handling.
//   * never a panic (the handler recovers around the Bind call; the drive is guarded as well);
//   * WithAutoHandling and the binder reported an error  =>  the response status is 400
//     (whether the handler returns the error or, against the documentation's advice, goes on);
//     exception, documented in bind.md: Bind().Body() with an unsupported content type returns
//     ErrUnprocessableEntity (422).
// Inputs go in by direct drive (any bytes reach the binder) and by wire drive (what survives
// fasthttp's parser).

var totalOps = []string{"query", "form", "multipart", "header", "cookie", "json", "xml", "cbor", "body", "uri"}

// tgt is a destination type seen through the tag of the binder under attack.
type tgt struct {
	t   *typeSpec
	tag string
}

var opTag = map[string]string{"query": "query", "form": "form", "multipart": "form", "header": "header", "cookie": "cookie",
	"json": "json", "xml": "xml", "cbor": "cbor", "body": "json", "uri": "uri"}

func fieldKeys(g tgt) (scalar, slices, structs []string) {
	for i := range g.t.Fields {
		f := &g.t.Fields[i]
		switch {
		case f.Nested != nil:
			structs = append(structs, f.wire(g.tag))
		case f.Slice:
			slices = append(slices, f.wire(g.tag))
		default:
			scalar = append(scalar, f.wire(g.tag))
		}
	}
	return
}

var hostileValues = []string{"", " ", "0", "-1", "1", "true", "false", "on", "off", "yes", "T", "99999999999999999999", "-99999999999999999999",
	"128", "-129", "256", "65536", "4294967296", "1e999", "-1e999", "1e-999", "0x10", "0b1", "1_000", "+1", "-", "+", ".", "1.", ".5", "1.5", "NaN", "nan",
	"Inf", "-Inf", "+Inf", "infinity", "1,2", "1,2,x", ",", ",,,,", "a,b", "\u0661\u0662\u0663", "1 ", " 1", "1\x00", "\x00", "\xff\xfe", "\xc3\x28", "%", "%zz", "%00",
	"[", "]", "[]", "[0]", "null", "{}", "[1]", "\"", "'", "<x>", "\r\n", "\n", "x\r\nX-Injected: 1", strings.Repeat("9", 400), strings.Repeat("a", 5000)}

func hostileValue(r *gen.Rand) string {
	switch r.PickW(10, 2, 2, 1) {
	case 0:
		return gen.Pick(r, hostileValues)
	case 1:
		return string(r.Bytes(r.Range(1, 12)))
	case 2:
		return strconv.FormatInt(int64(r.Uint64()), 10)
	}
	return strings.Repeat(gen.Pick(r, []string{",", "1,", "a", "%", "["}), r.Range(2, 400))
}

func hostileKey(r *gen.Rand, t tgt) string {
	sc, sl, st := fieldKeys(t)
	all := append(append(append([]string{}, sc...), sl...), st...)
	if len(all) == 0 {
		all = []string{"Zqa" + tagSuffix[t.tag]}
	}
	k := gen.Pick(r, all)
	sub := "Zq" + string(rune('a'+r.Intn(4))) + tagSuffix[t.tag]
	idx := gen.Pick(r, []string{"0", "1", "2", "999", "1000", "1001", "99999999", "99999999999999999999", "-1", "+1", "01", "0x1", "", "a", " 1", "1e3", "\u0661"})
	switch r.PickW(10, 3, 3, 4, 4, 3, 2, 2, 2, 2, 2, 2, 2, 3) {
	case 0:
		return k
	case 1:
		return k + "[]"
	case 2:
		return k + "[" + idx + "]"
	case 3:
		return k + "[" + idx + "][" + sub + "]"
	case 4:
		return k + "." + idx + "." + sub
	case 5:
		return k + "[" + sub + "]"
	case 6:
		return k + "." + sub
	case 7:
		return k + gen.Pick(r, []string{"[", "]", "[[", "]]", "[]]", "[[]", "][", ".", "..", "[.]", "[]."})
	case 8:
		return strings.Repeat("[", r.Range(1, 300)) + k + strings.Repeat("]", r.Range(0, 300))
	case 9:
		return k + strings.Repeat("."+idx, r.Range(1, 50))
	case 10:
		return k + strings.Repeat("[0]", r.Range(1, 200))
	case 11:
		return strings.ToLower(k) + gen.Pick(r, []string{"", "[]", ".0"})
	case 12:
		return gen.Pick(r, []string{"", ".", "[", "]", "[]", "=", "&", "%", "\x00", "XMLName", "XMLName.Local", "xmlname.space", "-"})
	}
	return string(r.Bytes(r.Range(1, 10)))
}

func pctEncode(s string, r *gen.Rand) string {
	// hostile clients encode inconsistently: sometimes raw, sometimes fully escaped, sometimes broken
	mode := r.Intn(4)
	var sb strings.Builder
	for i := 0; i < len(s); i++ {
		c := s[i]
		safe := c > 0x20 && c < 0x7f && c != '&' && c != '=' && c != '#' && c != '%' && c != '+' && c != '?'
		switch {
		case mode == 0 && c > 0x20 && c < 0x7f && c != '#':
			sb.WriteByte(c) // raw
		case safe && mode != 3:
			sb.WriteByte(c)
		default:
			sb.WriteString("%" + hex.EncodeToString([]byte{c}))
		}
	}
	return sb.String()
}

func hostileKVs(r *gen.Rand, t tgt) string {
	var sb strings.Builder
	n := r.Range(0, 8)
	if r.Chance(1, 30) {
		n = r.Range(100, 1500)
	}
	for i := 0; i < n; i++ {
		if i > 0 {
			sb.WriteString(gen.Pick(r, []string{"&", "&", "&", "&", ";", "&&", "&amp;"}))
		}
		sb.WriteString(pctEncode(hostileKey(r, t), r))
		if r.Chance(9, 10) {
			sb.WriteByte('=')
			sb.WriteString(pctEncode(hostileValue(r), r))
		}
	}
	if r.Chance(1, 12) {
		sb.WriteString(gen.Pick(r, []string{"%", "%z", "&", "=", "&=", "=&=", "#frag", "?", "%u1234"}))
	}
	return sb.String()
}

func hostileJSON(r *gen.Rand, t tgt) []byte {
	sc, sl, st := fieldKeys(t)
	jval := func() string {
		return gen.Pick(r, []string{"null", "true", "1", "-1", "1.5", "1e400", "-0", "99999999999999999999999999", "\"x\"", "\"\"", "[]", "{}", "[1,2]",
			"[\"a\",null]", "[[1]]", "{\"Zqaj\":1}", "[{\"Zqaj\":[]}]", "\"\\ud800\"", "\"\\u0000\"", "\"\xff\"", "1.0000000000000000000000000001", "0x1", "NaN", "Infinity", "'x'", "tru", "\"unterminated", "1e", "-", "01"})
	}
	switch r.PickW(10, 2, 2, 2, 2, 2) {
	case 0:
		var sb strings.Builder
		sb.WriteByte('{')
		keys := append(append(append([]string{}, sc...), sl...), st...)
		n := r.Range(0, 6)
		for i := 0; i < n; i++ {
			if i > 0 {
				sb.WriteByte(',')
			}
			k := "Zqa" + tagSuffix[t.tag]
			if len(keys) > 0 {
				k = gen.Pick(r, keys)
			}
			if r.Chance(1, 6) {
				k = gen.Pick(r, []string{"", strings.ToUpper(k), strings.ToLower(k), "XMLName", "\\u005a" + k[1:], k + "\\u0000"})
			}
			sb.WriteString("\"" + k + "\":" + jval())
		}
		sb.WriteByte('}')
		if r.Chance(1, 8) {
			sb.WriteString(gen.Pick(r, []string{"}", "x", "{}", "\x00", " \n", ","}))
		}
		return []byte(sb.String())
	case 1:
		return []byte(strings.Repeat(gen.Pick(r, []string{"[", "{\"Zqaj\":", "[{\"Zqaj\":"}), r.Range(1, 20000)))
	case 2:
		return r.Bytes(r.Range(0, 64))
	case 3:
		return []byte(jval())
	case 4:
		b := []byte(`{"Zqaj":"abc","Zqbj":[1,2,3],"Zqcj":{"Zqaj":1.5},"Zqdj":true}`)
		for i := r.Range(1, 4); i > 0; i-- {
			b[r.Intn(len(b))] = r.Byte()
		}
		return b[:r.Range(0, len(b))]
	}
	return []byte("{\"Zqaj\":\"" + strings.Repeat(gen.Pick(r, []string{"a", "\\", "\\u00", "\xff", "\\ud83d"}), r.Range(1, 3000)) + "\"}")
}

func hostileXML(r *gen.Rand, t tgt) []byte {
	sc, sl, st := fieldKeys(t)
	keys := append(append(append([]string{}, sc...), sl...), st...)
	k := "Zqa" + tagSuffix[t.tag]
	if len(keys) > 0 {
		k = gen.Pick(r, keys)
	}
	v := gen.Pick(r, []string{"x", "", "1", "-1", "99999999999999999999", "1e999", "NaN", " 1 ", "true", "&amp;", "&lt;", "&#0;", "&#x110000;", "&bogus;", "&#xD800;",
		"<![CDATA[x]]>", "<![CDATA[", "]]>", "<Zqax>1</Zqax>", "<!-- c -->", "<?pi?>", "\x00", "\xff", "\x1b"})
	switch r.PickW(8, 2, 2, 2, 2, 2, 1) {
	case 0:
		root := gen.Pick(r, []string{"root", "Root", "x", "ns:root", "root xmlns=\"u\"", "root a=\"1\" a=\"2\"", "root " + k + "=\"1\""})
		end := strings.Fields(root)[0]
		if r.Chance(1, 8) {
			end = "other"
		}
		return []byte("<" + root + "><" + k + ">" + v + "</" + k + "><" + k + ">" + v + "</" + k + "></" + end + ">")
	case 1:
		return []byte(strings.Repeat("<"+k+">", r.Range(1, 20000)))
	case 2:
		return []byte("<?xml version=\"1.0\" encoding=\"" + gen.Pick(r, []string{"latin1", "utf-16", "UTF-8", "x", ""}) + "\"?><root><" + k + ">" + v + "</" + k + "></root>")
	case 3:
		return []byte("<!DOCTYPE lolz [<!ENTITY lol \"lol\"><!ENTITY lol2 \"&lol;&lol;&lol;&lol;\">]><root><" + k + ">&lol2;</" + k + "></root>")
	case 4:
		return r.Bytes(r.Range(0, 64))
	case 5:
		b := []byte("<root><Zqax>abc</Zqax><Zqbx>1</Zqbx><Zqbx>2</Zqbx><Zqcx><Zqax>1.5</Zqax></Zqcx></root>")
		for i := r.Range(1, 4); i > 0; i-- {
			b[r.Intn(len(b))] = r.Byte()
		}
		return b[:r.Range(0, len(b))]
	}
	return []byte("<root " + k + "=\"" + strings.Repeat("a", r.Range(1, 100000)) + "\"/>")
}

func hostileCBOR(r *gen.Rand, t tgt) []byte {
	sc, sl, st := fieldKeys(t)
	keys := append(append(append([]string{}, sc...), sl...), st...)
	k := "Zqa" + tagSuffix[t.tag]
	if len(keys) > 0 {
		k = gen.Pick(r, keys)
	}
	tstr := func(s string) []byte { return append([]byte{0x60 + byte(len(s))}, s...) }
	item := func() []byte {
		return gen.Pick(r, [][]byte{{0x00}, {0x20}, {0x18, 0xff}, {0x1b, 0xff, 0xff, 0xff, 0xff, 0xff, 0xff, 0xff, 0xff}, {0x3b, 0xff, 0xff, 0xff, 0xff, 0xff, 0xff, 0xff, 0xff},
			{0xf4}, {0xf5}, {0xf6}, {0xf7}, {0xf9, 0x7e, 0x00}, {0xf9, 0x7c, 0x00}, {0xfb, 0x7f, 0xf0, 0, 0, 0, 0, 0, 0}, {0xfa, 0x7f, 0xc0, 0, 1}, {0x60}, {0x61, 0xff}, {0x40}, {0x41, 0x00},
			{0x80}, {0x81, 0x01}, {0x82, 0x01, 0x61, 0x61}, {0xa0}, {0xa1, 0x61, 0x61, 0x01}, {0xc0, 0x60}, {0xc2, 0x41, 0x01}, {0xd8, 0x18, 0x41, 0x00}, {0x9f, 0x01, 0xff}, {0x9f}, {0xff},
			{0x5f, 0x41, 0x61, 0xff}, {0x7f, 0x61, 0x61, 0xff}, {0xbf, 0xff}, {0x5b, 0xff, 0xff, 0xff, 0xff, 0xff, 0xff, 0xff, 0xff}, {0x9b, 0x7f, 0xff, 0xff, 0xff, 0xff, 0xff, 0xff, 0xff},
			{0xbb, 0x00, 0x00, 0x00, 0x01, 0x00, 0x00, 0x00, 0x00}, {0x7a, 0x10, 0x00, 0x00, 0x00}, {0xf8, 0x10}, {0xf8, 0xff}, {0x1c}, {0xfe}})
	}
	switch r.PickW(10, 3, 3, 3, 2) {
	case 0:
		n := r.Range(0, 5)
		b := []byte{0xa0 + byte(n)}
		for i := 0; i < n; i++ {
			kk := k
			if len(keys) > 0 && r.Bool() {
				kk = gen.Pick(r, keys)
			}
			if r.Chance(1, 6) {
				b = append(b, item()...) // non-string key
			} else {
				b = append(b, tstr(kk)...)
			}
			b = append(b, item()...)
		}
		if r.Chance(1, 8) {
			b = b[:r.Range(0, len(b))]
		}
		return b
	case 1:
		return bytes.Repeat(gen.Pick(r, [][]byte{{0x81}, {0xa1, 0x61, 0x61}, {0xc1}, {0x9f}, {0xbf, 0x61, 0x61}, {0xd8, 0x18}}), r.Range(1, 20000))
	case 2:
		return r.Bytes(r.Range(0, 64))
	case 3:
		return item()
	}
	b := append([]byte{0xa1}, tstr(k)...)
	return append(b, bytes.Repeat(item(), r.Range(1, 2000))...)
}

func hostileMultipart(r *gen.Rand, t tgt) (ctype string, body []byte) {
	bnd := gen.Pick(r, []string{"xyz", "----WebKitFormBoundary7MA4YWxk", "a", strings.Repeat("b", 70), "\"q\"", "x y", ""})
	ctype = "multipart/form-data; boundary=" + bnd
	switch r.Intn(12) {
	case 0:
		ctype = "multipart/form-data"
	case 1:
		ctype = "multipart/form-data; boundary="
	case 2:
		ctype = "multipart/form-data; boundary=" + bnd + "; boundary=other"
	case 3:
		ctype = "multipart/form-data;boundary=\"" + bnd + "\""
	case 4:
		ctype = "Multipart/Form-Data; Boundary=" + bnd
	}
	var sb bytes.Buffer
	n := r.Range(0, 6)
	for i := 0; i < n; i++ {
		sb.WriteString("--" + bnd + "\r\n")
		name := hostileKey(r, t)
		switch r.Intn(10) {
		case 0:
			sb.WriteString("Content-Disposition: form-data\r\n")
		case 1:
			sb.WriteString("Content-Disposition: form-data; name=\"" + name + "\"; filename=\"" + hostileValue(r) + "\"\r\nContent-Type: text/plain\r\n")
		case 2:
			sb.WriteString("Content-Disposition: form-data; name=" + name + "\r\n")
		case 3:
			sb.WriteString("X: y\r\n")
		case 4:
			sb.WriteString("Content-Disposition: form-data; name=\"" + name + "\"\r\nContent-Transfer-Encoding: base64\r\n")
		default:
			sb.WriteString("Content-Disposition: form-data; name=\"" + strings.NewReplacer("\"", "%22", "\r", "", "\n", "").Replace(name) + "\"\r\n")
		}
		if r.Chance(1, 15) {
			sb.WriteString(strings.Repeat("X-H: v\r\n", r.Range(1, 300)))
		}
		sb.WriteString("\r\n")
		sb.WriteString(hostileValue(r))
		sb.WriteString("\r\n")
	}
	switch r.Intn(6) {
	case 0: // no terminator
	case 1:
		sb.WriteString("--" + bnd + "\r\n")
	default:
		sb.WriteString("--" + bnd + "--\r\n")
	}
	b := sb.Bytes()
	if r.Chance(1, 10) && len(b) > 0 {
		b = b[:r.Intn(len(b))]
	}
	return ctype, b
}

var hostileCTypes = []string{"application/json", "application/json; charset=utf-8", "APPLICATION/JSON", "application/vnd.api+json", "application/problem+json",
	"text/xml", "application/xml", "application/xml; charset=latin1", "application/cbor", "application/x-www-form-urlencoded", "application/x-www-form-urlencoded;",
	"multipart/form-data", "multipart/form-data; boundary=xyz", "", "text/plain", "application/", "/", ";", "application/json;", "application/json,text/xml", "a/b+json",
	"application/json\x00", " application/json", "application/jsonx", "application/vnd+.json"}

type totalInput struct {
	uri  string
	meth string
	hdr  []drive.H
	body []byte
	// mustFail names the class of an input the binder cannot possibly honour (struct destinations
	// only): the binder has to report an error, a nil error with a zero / partial struct is a
	// silent failure. Empty = nothing is demanded beyond "no panic".
	mustFail string
	site     string // signature site for mustFail violations ("" = derived from the binder)
}

func sanitizeLine(s string) string {
	// for wire drive: a header value / request target must stay on its line
	return strings.Map(func(r rune) rune {
		if r == '\r' || r == '\n' {
			return -1
		}
		return r
	}, s)
}

func (en *engine) totality() {
	e := en.e
	e.Note("totality", "hostile query strings / form bodies / multipart bodies / header values / Cookie headers / JSON / XML / CBOR / content types / route parameters into Bind().Query/Form/Header/Cookie/JSON/XML/CBOR/Body/URI with struct, map[string]string and map[string][]string destinations; no panic; under WithAutoHandling a binder error must give status 400 (Body() with unsupported content type: documented 422)")
	for _, cc := range totalCorpus {
		cc := cc
		e.Corpus("total-"+cc.name, func(c *ev.Case) {
			for _, auto := range []bool{true, false} {
				for _, split := range []bool{false, true} {
					en.totalRun(c, cc.op, cc.typ(), outStruct, auto, false, split, cc.wire, cc.in)
				}
			}
		})
	}
	e.Cases("total", e.N(6000, 400000), func(c *ev.Case) {
		r := c.R
		op := gen.Pick(r, totalOps)
		var t *typeSpec
		switch r.Intn(3) {
		case 0:
			t = flatFamily[r.Intn(len(flatFamily))]
		case 1:
			t = bodyFamily[r.Intn(len(bodyFamily))]
		default:
			t = xmlFamily[r.Intn(len(xmlFamily))]
		}
		outKind := outStruct
		if op != "json" && op != "xml" && op != "cbor" && op != "body" && r.Chance(1, 6) {
			outKind = r.Range(outMapStr, outMapSlice)
		}
		in := genTotalInput(r, op, tgt{t, opTag[op]})
		wire := (op == "query" || op == "header" || op == "cookie" || op == "uri") && r.Chance(1, 3)
		en.totalRun(c, op, t, outKind, r.Bool(), r.Chance(1, 4), r.Bool(), wire, in)
	})
}

func genTotalInput(r *gen.Rand, op string, t tgt) totalInput {
	in := totalInput{uri: "/t", meth: "POST"}
	switch op {
	case "query":
		in.meth = "GET"
		in.uri = "/t?" + hostileKVs(r, t)
	case "form":
		in.hdr = append(in.hdr, drive.H{K: "Content-Type", V: gen.Pick(r, []string{"application/x-www-form-urlencoded", "application/x-www-form-urlencoded; charset=utf-8", "text/plain", ""})})
		in.body = []byte(hostileKVs(r, t))
	case "multipart":
		ct, b := hostileMultipart(r, t)
		in.hdr = append(in.hdr, drive.H{K: "Content-Type", V: ct})
		in.body = b
	case "header":
		in.meth = "GET"
		n := r.Range(0, 8)
		sc, sl, _ := fieldKeys(t)
		keys := append(append([]string{}, sc...), sl...)
		for i := 0; i < n; i++ {
			k := "Zqa" + tagSuffix[t.tag]
			if len(keys) > 0 {
				k = gen.Pick(r, keys)
			}
			if r.Chance(1, 8) {
				k = gen.Pick(r, []string{"X-" + k, strings.ToLower(k), k + "[]", k + ".0", "Content-Type", "Cookie", "Host", "Content-Length"})
			}
			in.hdr = append(in.hdr, drive.H{K: k, V: hostileValue(r)})
		}
	case "cookie":
		in.meth = "GET"
		var sb strings.Builder
		n := r.Range(0, 8)
		for i := 0; i < n; i++ {
			if i > 0 {
				sb.WriteString(gen.Pick(r, []string{"; ", ";", ";  ", " ; ", ", ", ";;"}))
			}
			sb.WriteString(hostileKey(r, t))
			if r.Chance(9, 10) {
				sb.WriteByte('=')
				v := hostileValue(r)
				if r.Chance(1, 6) {
					v = "\"" + v + "\""
				}
				sb.WriteString(v)
			}
		}
		in.hdr = append(in.hdr, drive.H{K: "Cookie", V: sb.String()})
		if r.Chance(1, 6) {
			in.hdr = append(in.hdr, drive.H{K: "Cookie", V: "Zqac=" + hostileValue(r)})
		}
	case "json":
		in.hdr = append(in.hdr, drive.H{K: "Content-Type", V: "application/json"})
		in.body = hostileJSON(r, t)
	case "xml":
		in.hdr = append(in.hdr, drive.H{K: "Content-Type", V: "application/xml"})
		in.body = hostileXML(r, t)
	case "cbor":
		in.hdr = append(in.hdr, drive.H{K: "Content-Type", V: "application/cbor"})
		in.body = hostileCBOR(r, t)
	case "body":
		ct := gen.Pick(r, hostileCTypes)
		switch r.Intn(6) {
		case 0:
			in.body = hostileJSON(r, t)
		case 1:
			in.body = hostileXML(r, t)
		case 2:
			in.body = hostileCBOR(r, t)
		case 3:
			in.body = []byte(hostileKVs(r, t))
		case 4:
			var mct string
			mct, in.body = hostileMultipart(r, t)
			if r.Bool() {
				ct = mct
			}
		default:
			in.body = r.Bytes(r.Range(0, 40))
		}
		in.hdr = append(in.hdr, drive.H{K: "Content-Type", V: ct})
	case "uri":
		in.meth = "GET"
		seg := func() string {
			s := pctEncode(hostileValue(r), r)
			s = strings.ReplaceAll(s, "/", "%2F")
			if len(s) > 300 {
				s = s[:300]
			}
			if s == "" {
				s = "x"
			}
			return s
		}
		in.uri = "/u/" + seg()
		if r.Bool() {
			in.uri += "/" + seg()
		}
	}
	return in
}

type totalCorpusCase struct {
	name string
	op   string
	typ  func() *typeSpec
	wire bool
	in   totalInput
}

func flat(i int) func() *typeSpec { return func() *typeSpec { return flatFamily[i] } }
func body(i int) func() *typeSpec { return func() *typeSpec { return bodyFamily[i] } }

// sliceOfStructs is a destination with a slice-of-structs field (indexed paths "Zqb.0.Zqa").
func sliceOfStructs() *typeSpec {
	inner := buildType("sosn", []fieldSpec{{Name: fieldName(0), K: kString}}, false)
	return buildType("sos", []fieldSpec{{Name: fieldName(0), K: kString}, {Name: fieldName(1), Nested: inner, Slice: true}}, false)
}

var totalCorpus = []totalCorpusCase{
	{"query-negative-index", "query", sliceOfStructs, true, totalInput{uri: "/t?Zqbq.-1.Zqaq=x", meth: "GET", mustFail: "negative-slice-index"}},
	{"query-negative-index-brackets", "query", sliceOfStructs, false, totalInput{uri: "/t?Zqbq[-1][Zqaq]=x", meth: "GET", mustFail: "negative-slice-index"}},
	{"form-negative-index", "form", sliceOfStructs, false, totalInput{uri: "/t", meth: "POST", hdr: []drive.H{{K: "Content-Type", V: "application/x-www-form-urlencoded"}}, body: []byte("Zqbf.-1.Zqaf=x"), mustFail: "negative-slice-index"}},
	{"header-negative-index", "header", sliceOfStructs, true, totalInput{uri: "/t", meth: "GET", hdr: []drive.H{{K: "Zqbh.-1.Zqah", V: "x"}}, mustFail: "negative-slice-index"}},
	{"cookie-negative-index", "cookie", sliceOfStructs, true, totalInput{uri: "/t", meth: "GET", hdr: []drive.H{{K: "Cookie", V: "Zqbc.-1.Zqac=x"}}, mustFail: "negative-slice-index"}},
	{"query-index-1000", "query", sliceOfStructs, false, totalInput{uri: "/t?Zqbq.1000.Zqaq=x", meth: "GET"}},
	{"query-index-1001", "query", sliceOfStructs, false, totalInput{uri: "/t?Zqbq.1001.Zqaq=x", meth: "GET"}},
	{"query-index-huge", "query", sliceOfStructs, false, totalInput{uri: "/t?Zqbq.99999999999999999999.Zqaq=x", meth: "GET"}},
	{"query-unmatched-open", "query", flat(0), false, totalInput{uri: "/t?Zqaq[=1", meth: "GET"}},
	{"query-unmatched-close", "query", flat(0), true, totalInput{uri: "/t?Zqaq]=1", meth: "GET"}},
	{"query-deep-brackets", "query", flat(0), false, totalInput{uri: "/t?" + strings.Repeat("[", 2000) + "Zqaq" + strings.Repeat("]", 2000) + "=1", meth: "GET"}},
	{"query-int-overflow", "query", flat(2), false, totalInput{uri: "/t?Zqaq=128", meth: "GET", mustFail: "integer-overflow"}},
	{"query-not-a-number", "query", flat(1), true, totalInput{uri: "/t?Zqaq=x", meth: "GET", mustFail: "not-a-number"}},
	{"query-slice-bad-element", "query", flat(int(nKinds) + 1), false, totalInput{uri: "/t?Zqaq=1&Zqaq=x", meth: "GET"}},
	{"query-slice-bad-element-comma", "query", flat(int(nKinds) + 1), false, totalInput{uri: "/t?Zqaq=1,x", meth: "GET"}},
	{"form-not-a-bool", "form", flat(int(kBool)), false, totalInput{uri: "/t", meth: "POST", hdr: []drive.H{{K: "Content-Type", V: "application/x-www-form-urlencoded"}}, body: []byte("Zqaf=maybe")}},
	{"multipart-no-boundary", "multipart", flat(0), false, totalInput{uri: "/t", meth: "POST", hdr: []drive.H{{K: "Content-Type", V: "multipart/form-data"}}, body: []byte("--x\r\n\r\n")}},
	{"header-not-a-number", "header", flat(1), true, totalInput{uri: "/t", meth: "GET", hdr: []drive.H{{K: "Zqah", V: "x"}}, mustFail: "not-a-number"}},
	{"cookie-not-a-number", "cookie", flat(1), true, totalInput{uri: "/t", meth: "GET", hdr: []drive.H{{K: "Cookie", V: "Zqac=x"}}, mustFail: "not-a-number"}},
	{"json-truncated", "json", body(0), false, totalInput{uri: "/t", meth: "POST", hdr: []drive.H{{K: "Content-Type", V: "application/json"}}, body: []byte(`{"Zqaj":`)}},
	{"json-deep", "json", body(0), false, totalInput{uri: "/t", meth: "POST", hdr: []drive.H{{K: "Content-Type", V: "application/json"}}, body: []byte(strings.Repeat("[", 100000))}},
	{"xml-deep", "xml", body(0), false, totalInput{uri: "/t", meth: "POST", hdr: []drive.H{{K: "Content-Type", V: "application/xml"}}, body: []byte(strings.Repeat("<a>", 100000))}},
	{"xml-charset", "xml", body(0), false, totalInput{uri: "/t", meth: "POST", hdr: []drive.H{{K: "Content-Type", V: "application/xml"}}, body: []byte(`<?xml version="1.0" encoding="latin1"?><root><Zqax>x</Zqax></root>`)}},
	{"cbor-huge-length", "cbor", body(0), false, totalInput{uri: "/t", meth: "POST", hdr: []drive.H{{K: "Content-Type", V: "application/cbor"}}, body: []byte{0x9b, 0x7f, 0xff, 0xff, 0xff, 0xff, 0xff, 0xff, 0xff}}},
	{"cbor-deep", "cbor", body(0), false, totalInput{uri: "/t", meth: "POST", hdr: []drive.H{{K: "Content-Type", V: "application/cbor"}}, body: bytes.Repeat([]byte{0x81}, 100000)}},
	{"body-empty-ctype", "body", body(0), false, totalInput{uri: "/t", meth: "POST", body: []byte(`{}`)}},
	{"body-json-bad", "body", body(0), false, totalInput{uri: "/t", meth: "POST", hdr: []drive.H{{K: "Content-Type", V: "application/json; charset=utf-8"}}, body: []byte(`{`)}},
	{"body-vendor-json-bad", "body", body(0), false, totalInput{uri: "/t", meth: "POST", hdr: []drive.H{{K: "Content-Type", V: "application/vnd.api+json"}}, body: []byte(`{`)}},
	{"uri-not-a-number", "uri", flat(1), true, totalInput{uri: "/u/x", meth: "GET", mustFail: "not-a-number"}},
}

// totalRun executes one hostile input and applies the oracle.
func (en *engine) totalRun(c *ev.Case, op string, t *typeSpec, outKind int, auto, swallow, split, wire bool, in totalInput) {
	e := en.e
	bop := op
	if op == "multipart" {
		bop = "form"
	}
	p := &probe{op: bop, auto: auto, swallow: swallow, typ: t, outKind: outKind}
	en.lastTotal = p
	app := fiber.New(fiber.Config{EnableSplittingOnParsers: split, ReadBufferSize: 1 << 16})
	app.All("/t", p.handler)
	app.All("/u/:Zqau/:Zqbu?", p.handler)
	status := 0
	descr := map[string]any{"binder": bop, "auto_handling": auto, "handler_ignores_error": swallow, "EnableSplittingOnParsers": split,
		"drive": map[bool]string{true: "wire", false: "direct"}[wire], "method": in.meth, "uri": trim(strconv.Quote(in.uri), 600),
		"headers": fmt.Sprintf("%q", trimHdr(in.hdr)), "body": trim(strconv.Quote(string(in.body)), 600), "dest": destName(t, outKind)}
	e.Journal(fmt.Sprintf("total op=%s uri=%s", bop, trim(strconv.Quote(in.uri), 200)))
	var perr string
	func() {
		defer func() {
			if r := recover(); r != nil {
				p.panicVal = fmt.Sprint(r)
				p.stack = string(debugStack())
			}
		}()
		if wire {
			var sb bytes.Buffer
			sb.WriteString(in.meth + " " + sanitizeLine(strings.ReplaceAll(in.uri, " ", "%20")) + " HTTP/1.1\r\nHost: example.com\r\n")
			for _, h := range in.hdr {
				sb.WriteString(h.K + ": " + sanitizeLine(h.V) + "\r\n")
			}
			if in.body != nil || in.meth == "POST" {
				sb.WriteString("Content-Length: " + strconv.Itoa(len(in.body)) + "\r\n")
			}
			sb.WriteString("Connection: close\r\n\r\n")
			sb.Write(in.body)
			out, _ := drive.NewWire(app).Serve(sb.Bytes(), nil)
			rs, err := strict.ParseAll(out, nil)
			if err != nil || len(rs) == 0 {
				perr = fmt.Sprint(err)
			} else {
				status = rs[0].Status
			}
		} else {
			resp := drive.NewDirect(app).Do(&drive.Req{Method: in.meth, URI: in.uri, Hdr: in.hdr, Body: in.body})
			status = resp.Status
		}
	}()
	e.Eval(1)
	e.Stat("total_"+op, 1)
	switch {
	case p.panicVal != "":
		descr["stack"] = trim(p.stack, 2500)
		e.Violation(c, panicSig(p), "hostile input made Bind()."+opTitle(bop)+" panic: "+p.panicVal, descr)
		return
	case !p.ran:
		e.Stat("total_rejected_before_handler", 1) // fasthttp refused the request (or the route did not match)
		return
	case perr != "":
		e.Stat("total_unparsable_response", 1) // C07's business, not judged here
		return
	}
	if !p.hasErr && in.mustFail != "" && outKind == outStruct {
		descr["status"] = status
		site := bop
		switch bop {
		case "query", "form", "header", "cookie", "uri":
			site = "text-binders" // they share binder.parse / the schema decoder: one root cause, one signature
		}
		if in.site != "" {
			site = in.site
		}
		e.Violation(c, "totality|"+site+"|silent-success|"+in.mustFail,
			"the binder returned nil for input it cannot bind ("+in.mustFail+"): failure must be reported as an error", descr)
		return
	}
	if in.mustFail != "" {
		e.Stat("mustfail_reported_error", 1)
	}
	if !p.hasErr {
		e.Stat("total_accepted", 1)
		if status != 200 {
			descr["status"] = status
			e.Violation(c, "totality|"+bop+"|status-not-200-without-bind-error", fmt.Sprintf("binder returned nil but the status is %d", status), descr)
		}
		return
	}
	e.Stat("total_bind_errors", 1)
	e.Nontrivial("total", bop, c.ID, strconv.FormatBool(auto), strconv.FormatBool(split)) // error texts are not stable (map order in schema.MultiError)
	e.Sample("bind-error-"+bop, map[string]any{"error": trim(p.bindErr, 200), "auto": auto, "status": status})
	if !auto {
		return
	}
	e.Stat("total_bind_errors_auto", 1)
	if p.err422 {
		// Bind().Body() with a content type it has no binder for: documented to return
		// ErrUnprocessableEntity, which does not go through the automatic handling.
		e.Stat("total_body_unsupported_ctype_422", 1)
		return
	}
	if status != 400 {
		descr["status"] = status
		descr["bind_error"] = trim(p.bindErr, 300)
		how := "handler-returns-error"
		if swallow {
			how = "handler-ignores-error"
		}
		e.Violation(c, "totality|"+bop+"|auto-handling-status-not-400|"+how+"|status-"+strconv.Itoa(status),
			fmt.Sprintf("WithAutoHandling: binder error %q but status %d", trim(p.bindErr, 120), status), descr)
	}
}

func trimHdr(h []drive.H) []string {
	var out []string
	for i, x := range h {
		if i >= 10 {
			out = append(out, "...")
			break
		}
		out = append(out, trim(x.K+": "+x.V, 200))
	}
	return out
}

func destName(t *typeSpec, outKind int) string {
	switch outKind {
	case outMapStr:
		return "map[string]string"
	case outMapSlice:
		return "*map[string][]string"
	}
	var fs []string
	for i := range t.Fields {
		fs = append(fs, t.Fields[i].Key+" "+t.Fields[i].class())
	}
	return "struct " + t.ID + " {" + strings.Join(fs, "; ") + "}"
}
