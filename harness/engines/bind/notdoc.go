package bind

import (
	"strings"

	"verifharness/internal/drive"
	"verifharness/internal/ev"
	"verifharness/internal/gen"
)

// ---------------------------------------------------------------------------------------------
// not-a-document: a body that is not a document of the declared format at all (empty, white
// space, plain text, a document of another format, a lone XML prolog / comment, a truncated
// document) sent under each body format's content type, bound with the format's own method and
// through Bind().Body(). Such a body cannot encode the struct: the binder has to report an error
// (400 under automatic handling). Judged are the classes in notDocJudged: those for which every
// one of the three decoders (JSON, XML, CBOR) reports an error on the unchanged tree today, so the
// three sources are held to the same standard; the other classes (e.g. JSON `null`, which the
// decoders define as "leave the value alone") are only counted.

type notDocClass struct {
	name   string
	bodies func(r *gen.Rand, format string) [][]byte // candidates; nil = not applicable to the format
}

var cborSample = []byte{0xa1, 0x64, 0x6e, 0x61, 0x6d, 0x65, 0x64, 0x6a, 0x6f, 0x68, 0x6e} // {"name":"john"}

var notDocClasses = []notDocClass{
	{"empty-body", func(*gen.Rand, string) [][]byte { return [][]byte{{}} }},
	{"whitespace-only", func(*gen.Rand, string) [][]byte { return [][]byte{[]byte(" "), []byte("\n\n"), []byte(" \t\r\n ")} }},
	{"plain-text", func(_ *gen.Rand, f string) [][]byte {
		return [][]byte{[]byte("hello world"), []byte("name john"), []byte("lorem ipsum dolor sit amet")}
	}},
	{"other-format", func(_ *gen.Rand, f string) [][]byte {
		switch f {
		case "json":
			return [][]byte{[]byte("<root><name>john</name></root>"), []byte("name=john&age=3"), cborSample}
		case "xml":
			return [][]byte{[]byte(`{"name":"john"}`), []byte("name=john&age=3"), cborSample}
		}
		return [][]byte{[]byte(`{"name":"john"}`), []byte("<root><name>john</name></root>"), []byte("name=john&age=3")}
	}},
	{"prolog-or-comment-only", func(_ *gen.Rand, f string) [][]byte {
		if f != "xml" {
			return nil
		}
		return [][]byte{[]byte(`<?xml version="1.0"?>`), []byte(`<?xml version="1.0" encoding="UTF-8"?>` + "\n"), []byte("<!-- nothing -->"), []byte(`<?xml version="1.0"?><!-- c -->`)}
	}},
	{"null", func(_ *gen.Rand, f string) [][]byte {
		switch f {
		case "json":
			return [][]byte{[]byte("null")}
		case "cbor":
			return [][]byte{{0xf6}, {0xf7}}
		}
		return nil
	}},
	{"scalar-document", func(_ *gen.Rand, f string) [][]byte {
		switch f {
		case "json":
			return [][]byte{[]byte("1"), []byte(`"x"`), []byte("true"), []byte("[1,2]")}
		case "cbor":
			return [][]byte{{0x01}, {0x61, 0x78}, {0xf5}, {0x82, 0x01, 0x02}}
		}
		return nil
	}},
	{"truncated-document", func(_ *gen.Rand, f string) [][]byte {
		switch f {
		case "json":
			return [][]byte{[]byte(`{`), []byte(`{"name":`), []byte(`{"name":"jo`)}
		case "xml":
			return [][]byte{[]byte(`<`), []byte(`<root>`), []byte(`<root><name>jo`), []byte(`<root><name>john</name>`)}
		}
		return [][]byte{{0xa1}, {0xa1, 0x64, 0x6e, 0x61}, cborSample[:len(cborSample)-2]}
	}},
}

// notDocJudged: classes for which JSON, XML and CBOR all report an error on the unchanged tree.
// (observed 2026-10: every body of these classes is rejected by all three, also through Body();
// `null` is accepted by JSON and CBOR; scalar documents and a lone XML prolog / comment are
// rejected too but exist in one or two formats only, so they are counted, not judged.)
var notDocJudged = map[string]bool{"empty-body": true, "whitespace-only": true, "plain-text": true, "other-format": true, "truncated-document": true}

var notDocCType = map[string]string{"json": "application/json", "xml": "application/xml", "cbor": "application/cbor"}

func (en *engine) notDocRun(c *ev.Case, format string, cl notDocClass, body []byte, viaBody bool, t *typeSpec, auto, swallow, split, wire bool) {
	e := en.e
	in := totalInput{uri: "/t", meth: "POST", hdr: []drive.H{{K: "Content-Type", V: notDocCType[format]}}, body: body}
	if notDocJudged[cl.name] {
		in.mustFail = "not-a-document:" + cl.name
		in.site = format // the format's decoder, whether reached by Bind().XML() or by Bind().Body()
	}
	op := format
	if viaBody {
		op = "body"
	}
	en.totalRun(c, op, t, outStruct, auto, swallow, split, wire, in)
	if p := en.lastTotal; p != nil && p.ran {
		e.Stat("notdoc|"+format+"|"+cl.name+"|"+map[bool]string{true: "error", false: "accepted"}[p.hasErr], 1)
	}
}

func (en *engine) notDoc() {
	e := en.e
	e.Note("not-a-document", "JSON / XML / CBOR content types with bodies that are no document of that format (empty, white space, plain text, another format, lone XML prolog or comment, truncated), via Bind().JSON/XML/CBOR and Bind().Body(): must be reported as an error; judged classes = those all three decoders reject on the unchanged tree ("+strings.Join(judgedNames(), ", ")+"); JSON/CBOR null and scalar documents are only counted")
	formats := []string{"json", "xml", "cbor"}
	for _, f := range formats {
		for _, cl := range notDocClasses {
			f, cl := f, cl
			if cl.bodies(nil, f) == nil {
				continue
			}
			e.Corpus("notdoc-"+f+"-"+cl.name, func(c *ev.Case) {
				fam := bodyFamily
				if f == "xml" {
					fam = xmlFamily
				}
				for _, b := range cl.bodies(nil, f) {
					for _, via := range []bool{false, true} {
						for _, auto := range []bool{true, false} {
							en.notDocRun(c, f, cl, b, via, fam[0], auto, false, false, false)
						}
					}
				}
			})
		}
	}
	e.Cases("notdoc", e.N(1200, 40000), func(c *ev.Case) {
		r := c.R
		f := gen.Pick(r, formats)
		cl := gen.Pick(r, notDocClasses)
		bs := cl.bodies(r, f)
		if bs == nil {
			return
		}
		fam := bodyFamily
		if f == "xml" {
			fam = xmlFamily
		}
		en.notDocRun(c, f, cl, gen.Pick(r, bs), r.Bool(), fam[r.Intn(len(fam))], r.Bool(), r.Chance(1, 4), r.Bool(), r.Chance(1, 3))
	})
}

func judgedNames() []string {
	var out []string
	for _, cl := range notDocClasses {
		if notDocJudged[cl.name] {
			out = append(out, cl.name)
		}
	}
	return out
}
