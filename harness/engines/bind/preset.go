package bind

import (
	"github.com/gofiber/fiber/v3/client"

	"verifharness/internal/gen"
)

// ---------------------------------------------------------------------------------------------
// Headers the application has set besides the value: on the client (defaults for every request)
// or on the request, before or after the call that hands over the value. A Content-Type of
// another kind than the body (only on requests that carry a body), Accept, User-Agent, a custom
// header. The client encodes the body as it was asked and has to announce it as what it is: the
// server-side value is still the struct that was sent (same equality oracle).

type presetHdrs struct {
	level string // client | request
	when  string // before | after the value is handed over (request level)
	kvs   [][2]string
}

func (h *presetHdrs) apply(set func(k, v string)) {
	for _, kv := range h.kvs {
		set(kv[0], kv[1])
	}
}

func (h *presetHdrs) where() string {
	if h.level == "client" {
		return "client-level"
	}
	return "request-level-" + h.when + "-the-value"
}

func (h *presetHdrs) hasContentType() bool {
	for _, kv := range h.kvs {
		if kv[0] == "Content-Type" {
			return true
		}
	}
	return false
}

var presetCTypes = []string{"application/json", "application/xml", "text/xml", "application/cbor", "application/x-www-form-urlencoded",
	"multipart/form-data", "text/plain", "application/octet-stream", "application/vnd.api+json", "application/json; charset=utf-8"}

func genPreset(r *gen.Rand, src source) *presetHdrs {
	if !r.Chance(1, 3) {
		return nil
	}
	h := &presetHdrs{level: "request", when: "before"}
	if r.Chance(2, 5) {
		h.level = "client"
	} else if r.Bool() {
		h.when = "after"
	}
	carriesBody := src == sForm || src == sMultipart || src.isBody()
	if carriesBody && r.Chance(3, 4) {
		h.kvs = append(h.kvs, [2]string{"Content-Type", gen.Pick(r, presetCTypes)})
	}
	if r.Bool() {
		h.kvs = append(h.kvs, [2]string{"Accept", gen.Pick(r, []string{"text/html", "application/xml", "*/*"})})
	}
	if r.Chance(1, 3) {
		h.kvs = append(h.kvs, [2]string{"User-Agent", "vh-agent/1"})
	}
	if len(h.kvs) == 0 || r.Chance(1, 3) {
		h.kvs = append(h.kvs, [2]string{"X-Vh-Extra", "1"})
	}
	gen.Shuffle(r, h.kvs)
	return h
}

func (r *rig) presetBefore(req *client.Request, p *probe) {
	h := p.hdrs
	if h == nil {
		return
	}
	switch {
	case h.level == "client":
		cl2 := client.NewWithClient(r.fc) // same transport, its own defaults
		h.apply(func(k, v string) { cl2.SetHeader(k, v) })
		req.SetClient(cl2)
	case h.when == "before":
		h.apply(func(k, v string) { req.SetHeader(k, v) })
	}
}

// fire sends the prepared request (headers "after the value" go on first).
func (r *rig) fire(req *client.Request, p *probe, method string) (*client.Response, error) {
	if h := p.hdrs; h != nil && h.level == "request" && h.when == "after" {
		h.apply(func(k, v string) { req.SetHeader(k, v) })
	}
	if method == "Get" {
		return req.Get(rigURL)
	}
	return req.Post(rigURL)
}
