package bind

import (
	"github.com/gofiber/fiber/v3/client"

	"verifharness/internal/gen"
)

// ---------------------------------------------------------------------------------------------
// Headers the application has set besides the value: on the client (defaults for every request)
// or on the request, before or after the call that hands over the value. A Content-Type of
// another kind than the body (only on requests that carry a body), Accept, User-Agent, a custom
// header. The client encodes the body as it was asked and has to announce it as what it is: the
// server-side value is still the struct that was sent (same equality oracle).

type presetHdrs struct {
	level string // client | request
	when  string // before | after the value is handed over (request level)
	kvs   [][2]string
}

func (h *presetHdrs) apply(set func(k, v string)) {
	for _, kv := range h.kvs {
		set(kv[0], kv[1])
	}
}

func (h *presetHdrs) where() string {
	if h.level == "client" {
		return "client-level"
	}
	return "request-level-" + h.when + "-the-value"
}

func (h *presetHdrs) hasContentType() bool {
	for _, kv := range h.kvs {
		if kv[0] == "Content-Type" {
			return true
		}
	}
	return false
}

var presetCTypes = []string{"application/json", "application/xml", "text/xml", "application/cbor", "application/x-www-form-urlencoded",
	"multipart/form-data", "text/plain", "application/octet-stream", "application/vnd.api+json", "application/json; charset=utf-8"}

func genPreset(r *gen.Rand, src source) *presetHdrs {
	if !r.Chance(1, 3) {
		return nil
	}
	h := &presetHdrs{level: "request", when: "before"}
	if r.Chance(2, 5) {
		h.level = "client"
	} else if r.Bool() {
		h.when = "after"
	}
	carriesBody := src == sForm || src == sMultipart || src.isBody()
	if carriesBody && r.Chance(3, 4) {
		h.kvs = append(h.kvs, [2]string{"Content-Type", gen.Pick(r, presetCTypes)})
	}
	if r.Bool() {
		h.kvs = append(h.kvs, [2]string{"Accept", gen.Pick(r, []string{"text/html", "application/xml", "*/*"})})
	}
	if r.Chance(1, 3) {
		h.kvs = append(h.kvs, [2]string{"User-Agent", "vh-agent/1"})
	}
	if len(h.kvs) == 0 || r.Chance(1, 3) {
		h.kvs = append(h.kvs, [2]string{"X-Vh-Extra", "1"})
	}
	gen.Shuffle(r, h.kvs)
	return h
}

const (
	whereRequest = iota
	whereHook
	whereClient
)

var whereName = [...]string{"on-the-request", "in-a-request-hook", "at-client-level"}

// presetRequest applies the request-level headers that go before / after the value.
func (r *rig) presetRequest(req *client.Request, p *probe, when string) {
	if h := p.hdrs; h != nil && h.level == "request" && h.when == when {
		h.apply(func(k, v string) { req.SetHeader(k, v) })
	}
}

// genWhere draws where the application hands the value over.
func genWhere(r *gen.Rand, pl plan) int {
	w := r.PickW(6, 3, 2)
	clientMode := pl.send != nil && (pl.send.mode == sendTwiceClient || pl.send.mode == sendClientThenReq)
	switch {
	case w == whereHook && clientMode:
		return whereRequest // those sending modes are about the client level themselves
	case w == whereClient:
		plain := pl.send == nil || pl.send.mode == sendStruct
		if !(plain && (pl.src == sQuery || pl.src == sCookie || pl.src == sHeader)) {
			return whereRequest // the client has no place for form data or bodies
		}
	}
	return w
}
