// Package bind is the engine for property C11: what the bundled client encodes from a struct is
// what Bind() decodes into a struct of the same type, for every source; and no input makes a
// binder panic or fail silently (400 under automatic handling).
//
// Modes: "bind" (round trips, key / split-scalar side families, totality) and "bind.race"
// (16 goroutines with distinct struct types against the shared binder / decoder pools).
package bind

import (
	"fmt"
	"math"
	"reflect"
	"strconv"
	"strings"
	"sync"

	"verifharness/internal/ev"
	"verifharness/internal/gen"
	"verifharness/internal/reg"
)

func init() {
	reg.Register("bind", run)
	reg.Register("bind.race", runRace)
}

// plan is everything that defines one round trip except the value.
type plan struct {
	src   source
	split bool
	op    string
	auto  bool
	typ   *typeSpec
	send  *sendSpec
	lazy  bool   // server: DisablePreParseMultipartForm
	strm  bool   // server: StreamRequestBody
	pre   string // handler: something touches the body before the judged bind
	hdrs  *presetHdrs
	where int
}

func (pl plan) cfg() srvCfg { return srvCfg{split: pl.split, lazy: pl.lazy, stream: pl.strm} }

func familyFor(src source) []*typeSpec {
	switch src {
	case sJSON, sCBOR:
		return bodyFamily
	case sXML:
		return xmlFamily
	}
	return flatFamily
}

func genPlan(r *gen.Rand) plan {
	var p plan
	p.src = source(r.Intn(int(nSources)))
	p.split = r.Chance(1, 3)
	p.auto = r.Bool()
	p.op = opFor(p.src)
	if p.src != sQuery && p.src != sHeader && p.src != sCookie && r.Chance(1, 4) {
		p.op = "body" // Bind().Body(): selection by content type
	}
	// server-side dimensions that change when and how the body is parsed
	p.lazy = r.Chance(1, 3)
	p.strm = r.Chance(1, 4)
	if p.src != sQuery && p.src != sHeader && p.src != sCookie && r.Chance(1, 4) {
		p.pre = "body-first"
		if p.src == sMultipart && r.Bool() {
			p.pre = "multipartform-first"
		}
	}
	fam := familyFor(p.src)
	// half of the cases use the one-field types (one per kind / slice kind)
	if r.Bool() {
		p.typ = fam[r.Intn(2*int(nKinds))]
	} else {
		p.typ = fam[r.Intn(len(fam))]
	}
	return p
}

type engine struct {
	e         *ev.Env
	g         *rigs
	sampled   [nSources]int
	tripsBy   [nSources]int
	lastTotal *probe // the probe of the latest totalRun (families that also count what happened)
}

// judge runs one round trip and reports a violation if the law does not hold.
func (en *engine) judge(c *ev.Case, clause string, pl plan, val reflect.Value) string {
	e := en.e
	p := &probe{src: pl.src, op: pl.op, auto: pl.auto, typ: pl.typ, want: val, send: pl.send, pre: pl.pre, hdrs: pl.hdrs, where: pl.where}
	o := en.g.getCfg(pl.cfg()).roundTrip(p)
	e.Eval(1)
	e.Stat("value_handed_over_"+whereName[pl.where]+"|"+sourceName[pl.src], 1)
	if pl.hdrs != nil {
		e.Stat("preset_headers_"+pl.hdrs.where(), 1)
		if pl.hdrs.hasContentType() {
			e.Stat("preset_content_type_"+sourceName[pl.src], 1)
		}
	}
	if pl.lazy {
		e.Stat("server_lazy_multipart_"+sourceName[pl.src], 1)
	}
	if pl.strm {
		e.Stat("server_stream_body", 1)
	}
	if pl.pre != "" {
		e.Stat("handler_"+pl.pre, 1)
	}
	e.Stat("trips_"+sourceName[pl.src], 1)
	if pl.send != nil && pl.src.isText() {
		e.Stat("sent_with_"+sendName[pl.send.mode], 1)
		if pl.send.mode == sendAdders && pl.send.interleaved {
			e.Stat("sent_with_adders_interleaved", 1)
		}
	}
	en.tripsBy[pl.src]++
	m := o.manner()
	if p.scalarsOnly && m == "" {
		// what the server made of slices sent at both levels: not stated, only counted
		e.Stat("client_then_request_struct|"+sourceName[pl.src]+"|slices-"+map[bool]string{true: "differ-from-the-request-level-value", false: "equal-the-request-level-value"}[p.slicesDiffer], 1)
	}
	if m == "" {
		if o.status != 200 {
			e.Violation(c, clause+"|"+sourceName[pl.src]+"|status-not-200-after-successful-bind",
				fmt.Sprintf("handler bound and compared successfully but the client saw status %d", o.status), nil)
		}
		return ""
	}
	en.reportCfg(c, clause, p, o, pl.cfg())
	return m
}

func (en *engine) report(c *ev.Case, clause string, p *probe, o *outcome, split bool) {
	en.reportCfg(c, clause, p, o, srvCfg{split: split})
}

// rerun repeats a probe's round trip with another server configuration / handler prelude.
func (en *engine) rerun(p *probe, cfg srvCfg, pre string) (*probe, *outcome) {
	p2 := &probe{src: p.src, op: p.op, auto: p.auto, typ: p.typ, want: p.want, send: p.send, pre: pre}
	return p2, en.g.getCfg(cfg).roundTrip(p2)
}

func (en *engine) reportCfg(c *ev.Case, clause string, p *probe, o *outcome, cfg srvCfg) {
	e := en.e
	split := cfg.split
	m := o.manner()
	if m != "panic" && p.where != whereRequest {
		// Is it where the value was handed over? The same value set directly on the request:
		p0 := &probe{src: p.src, op: p.op, auto: p.auto, typ: p.typ, want: p.want, send: p.send, pre: p.pre, hdrs: p.hdrs}
		o0 := en.g.getCfg(cfg).roundTrip(p0)
		if o0.manner() == "" {
			det := map[string]any{"source": sourceName[p.src], "binder": p.op, "type": p.typ.ID, "value_handed_over": whereName[p.where],
				"sent": renderStruct(p.typ, p.want), "status": o.status, "manner": m, "note": "the same value set directly on the request round-trips"}
			if p.send != nil {
				det["sending_api"] = sendName[p.send.mode]
			}
			if p.diff != nil {
				det["first_difference_at"] = p.diff.Path
				det["got"] = p.got
			}
			if p.hasErr {
				det["bind_error"] = p.bindErr
			}
			if o.sendErr != "" {
				det["client_error"] = o.sendErr
			}
			e.Violation(c, clause+"|"+sourceName[p.src]+"|value-handed-over-"+whereName[p.where]+"|not-bound-as-sent",
				fmt.Sprintf("client -> %s -> Bind().%s: the value the application put %s does not arrive (%s)", sourceName[p.src], opTitle(p.op), strings.ReplaceAll(whereName[p.where], "-", " "), m), det)
			return
		}
		p, o = p0, o0
		m = o.manner()
	}
	if m != "panic" && p.hdrs != nil {
		// Is it the headers set besides the value? The same request without them:
		p0 := &probe{src: p.src, op: p.op, auto: p.auto, typ: p.typ, want: p.want, send: p.send, pre: p.pre}
		o0 := en.g.getCfg(cfg).roundTrip(p0)
		if o0.manner() == "" {
			which := "other-header"
			if p.hdrs.hasContentType() {
				which = "Content-Type"
			}
			site := sourceName[p.src]
			if p.op == "body" {
				site += "+via-Body"
			}
			cls := map[string]string{"len-more": "extra-values", "len-fewer": "missing-values", "value": "changed-values"}[m]
			if cls == "" {
				cls = m
			}
			det := map[string]any{"source": sourceName[p.src], "binder": p.op, "type": p.typ.ID, "headers_set_by_the_application": p.hdrs.kvs, "set_where": p.hdrs.where(),
				"sent": renderStruct(p.typ, p.want), "status": o.status, "note": "the same request without these headers round-trips"}
			if p.diff != nil {
				det["first_difference_at"] = p.diff.Path
				det["got"] = p.got
			}
			if p.hasErr {
				det["bind_error"] = p.bindErr
			}
			det["manner"] = cls
			det["binder_entry"] = site
			// one signature per source: where the header was set, the entry point and the way the
			// value came out wrong are details of the same cause
			e.Violation(c, clause+"|"+sourceName[p.src]+"|preset-"+which+"|not-bound-as-sent",
				fmt.Sprintf("client -> %s -> Bind().%s fails (%s) when the application has also set %s at %s", sourceName[p.src], opTitle(p.op), m, which, p.hdrs.where()), det)
			return
		}
		p, o = p0, o0
		m = o.manner()
	}
	if m != "panic" && (!cfg.plain() || p.pre != "") {
		// Does it take this server configuration / this handler prelude? The same request against the
		// default configuration with a handler that only binds:
		p0, o0 := en.rerun(p, srvCfg{split: split}, "")
		if o0.manner() == "" {
			var needs []string
			if cfg.lazy {
				if _, ox := en.rerun(p, srvCfg{split: split, lazy: true}, ""); ox.manner() != "" {
					needs = []string{"DisablePreParseMultipartForm"}
				}
			}
			if len(needs) == 0 && cfg.stream {
				if _, ox := en.rerun(p, srvCfg{split: split, stream: true}, ""); ox.manner() != "" {
					needs = []string{"StreamRequestBody"}
				}
			}
			if len(needs) == 0 && p.pre != "" {
				if _, ox := en.rerun(p, srvCfg{split: split}, p.pre); ox.manner() != "" {
					needs = []string{"handler-" + p.pre}
				}
			}
			if len(needs) == 0 {
				if cfg.lazy {
					needs = append(needs, "DisablePreParseMultipartForm")
				}
				if cfg.stream {
					needs = append(needs, "StreamRequestBody")
				}
				if p.pre != "" {
					needs = append(needs, "handler-"+p.pre)
				}
			}
			site := sourceName[p.src]
			if p.op == "body" {
				if _, ox := en.rerun(p, cfg, p.pre); ox.manner() != "" {
					px := &probe{src: p.src, op: opFor(p.src), auto: p.auto, typ: p.typ, want: p.want, send: p.send, pre: p.pre}
					if o1 := en.g.getCfg(cfg).roundTrip(px); o1.manner() == "" {
						site += "+via-Body"
					}
				}
			}
			det := map[string]any{"source": sourceName[p.src], "binder": p.op, "type": p.typ.ID, "EnableSplittingOnParsers": split,
				"DisablePreParseMultipartForm": cfg.lazy, "StreamRequestBody": cfg.stream, "handler_before_bind": p.pre,
				"sent": renderStruct(p.typ, p.want), "status": o.status, "note": "the same request binds correctly on a default-configured server with a handler that only binds"}
			if p.diff != nil {
				det["first_difference_at"] = p.diff.Path
				det["got"] = p.got
			}
			if p.hasErr {
				det["bind_error"] = p.bindErr
			}
			cls := map[string]string{"len-more": "extra-values", "len-fewer": "missing-values", "value": "changed-values"}[m]
			if cls == "" {
				cls = m
			}
			e.Violation(c, clause+"|"+site+"|needs:"+strings.Join(needs, "+")+"|"+cls,
				fmt.Sprintf("client -> %s -> Bind().%s fails (%s) only with %s", sourceName[p.src], opTitle(p.op), m, strings.Join(needs, ", ")), det)
			return
		}
		p, o = p0, o0 // the configuration is not what matters
		m = o.manner()
	}
	if m == "panic" {
		e.Violation(c, panicSig(p), "Bind()."+opTitle(p.op)+" panicked on a value sent by the bundled client: "+p.panicVal,
			map[string]any{"source": sourceName[p.src], "sent": renderStruct(p.typ, p.want), "stack": trim(p.stack, 2500)})
		return
	}
	if p.send != nil && p.send.mode != sendStruct && p.src.isText() {
		// Is it the way the client was given the value? The same value through the struct setter:
		p2 := &probe{src: p.src, op: p.op, auto: p.auto, typ: p.typ, want: p.want, send: &sendSpec{files: p.send.files, fileAPI: p.send.fileAPI, fileFirst: p.send.fileFirst}}
		o2 := en.g.get(split).roundTrip(p2)
		if o2.manner() == "" {
			how := sendName[p.send.mode]
			if p.send.mode == sendAdders && p.send.interleaved {
				// and with the same calls key by key?
				p3 := &probe{src: p.src, op: p.op, auto: p.auto, typ: p.typ, want: p.want, send: &sendSpec{mode: sendAdders, files: p.send.files, fileAPI: p.send.fileAPI, fileFirst: p.send.fileFirst,
					sched: makeSchedule(nil, p.typ, p.want, false)}}
				if en.g.get(split).roundTrip(p3).manner() == "" {
					how = "interleaved-adders"
				}
			}
			cls := map[string]string{"len-more": "extra-values", "len-fewer": "missing-values", "value": "changed-values"}[m]
			if cls == "" {
				cls = m
			}
			det := map[string]any{"source": sourceName[p.src], "binder": p.op, "type": p.typ.ID, "EnableSplittingOnParsers": split,
				"sent": renderStruct(p.typ, p.want), "status": o.status, "files_attached": p.send.files,
				"file_api": []string{"AddFileWithReader", "AddFiles(AcquireFile)", "AddFile(path)"}[p.send.fileAPI], "files_before_fields": p.send.fileFirst,
				"note": "the same value sent with the struct setter round-trips"}
			if p.src != sMultipart {
				delete(det, "files_attached")
				delete(det, "file_api")
				delete(det, "files_before_fields")
			}
			if p.send.mode == sendAdders {
				det["adder_calls"] = p.send.calls(p)
			}
			if p.send.filler.IsValid() {
				det["first_struct"] = renderStruct(p.typ, p.send.filler)
				det["note"] = "the setter was called with first_struct and then with sent; sent alone round-trips"
			}
			if p.diff != nil {
				det["first_difference_at"] = p.diff.Path
				det["got"] = p.got
			}
			if p.hasErr {
				det["bind_error"] = p.bindErr
			}
			if o.sendErr != "" {
				det["client_error"] = o.sendErr
			}
			e.Violation(c, clause+"|"+sourceName[p.src]+"|sent-with-"+how+"|"+cls,
				fmt.Sprintf("client (%s) -> %s -> Bind().%s: the server did not bind what the client was last told to send (%s)",
					how, sourceName[p.src], opTitle(p.op), m), det)
			return
		}
		p, o = p2, o2 // not a matter of the sending API: reduce as usual
		m = o.manner()
		if m == "panic" {
			e.Violation(c, panicSig(p), "Bind()."+opTitle(p.op)+" panicked on a value sent by the bundled client: "+p.panicVal,
				map[string]any{"source": sourceName[p.src], "sent": renderStruct(p.typ, p.want), "stack": trim(p.stack, 2500)})
			return
		}
	}
	cl := classify(en.g, clause, p, o, split)
	what := fmt.Sprintf("client -> %s -> Bind().%s: decoded value differs from the value given to the client (%s)",
		sourceName[p.src], opTitle(p.op), m)
	det := map[string]any{
		"reduced_witness": cl.witness,
		"case": map[string]any{"type": p.typ.ID, "source": sourceName[p.src], "binder": p.op, "auto_handling": p.auto,
			"EnableSplittingOnParsers": split, "sent": renderStruct(p.typ, p.want), "status": o.status},
	}
	cm := det["case"].(map[string]any)
	if p.diff != nil {
		cm["first_difference_at"] = p.diff.Path
		cm["got"] = p.got
	}
	if p.hasErr {
		cm["bind_error"] = p.bindErr
	}
	if o.sendErr != "" {
		cm["client_error"] = o.sendErr
	}
	e.Violation(c, cl.sig, what, det)
}

func opTitle(op string) string {
	switch op {
	case "json", "xml", "cbor", "uri", "respheader":
		return map[string]string{"json": "JSON", "xml": "XML", "cbor": "CBOR", "uri": "URI", "respheader": "RespHeader"}[op]
	}
	return string(op[0]-32) + op[1:]
}

func trim(s string, n int) string {
	if len(s) > n {
		return s[:n]
	}
	return s
}

func run(e *ev.Env) {
	en := &engine{e: e, g: newRigs()}
	defer en.g.close()
	e.Note("domain", domainNote)
	e.Note("where", "the value is handed to the client directly on the request, from inside a request hook (Client.AddRequestHook; every source) or at client level (query, cookie, header)")
	e.Note("preset-headers", "a third of the round trips also carry application-set headers (Content-Type of another kind on body-carrying requests, Accept, User-Agent, a custom one) at client level or at request level before / after the value is handed over")
	e.Note("sending", "text sources: the struct setters, or element-by-element AddParam/AddFormData/AddHeader/SetCookie calls (keys interleaved or together), or the map setters; multipart with 1-2 files via AddFileWithReader/AddFiles/AddFile, before or after the fields")
	e.Note("nontrivial", "a round trip whose value has a string with a character outside [A-Za-z0-9] or a slice of length != 1; distinct by (source, splitting, value)")
	e.Note("transport", "bundled client -> fasthttputil.InmemoryListener -> app.Listener; one app per EnableSplittingOnParsers setting per process (pooled contexts, binders and decoders are reused across cases, as in a real server)")

	en.corpus()
	en.sendCorpus()

	ran := 0
	e.Cases("rt", e.N(20000, 2000000), func(c *ev.Case) {
		r := c.R
		pl := genPlan(r)
		d := newDomain(pl.src, pl.split)
		budget := d.budget
		val := genStruct(r, d, pl.typ, &budget)
		pl.send = genSend(r, pl.src, pl.typ, val)
		pl.hdrs = genPreset(r, pl.src)
		pl.where = genWhere(r, pl)
		en.judge(c, "roundtrip", pl, val)
		if nontrivial(pl.typ, val) {
			e.Nontrivial(sourceName[pl.src], strconv.FormatBool(pl.split), fmt.Sprint(val.Interface()))
			e.Stat("nontrivial_"+sourceName[pl.src], 1)
		}
		if en.sampled[pl.src] < 3 && c.R.Chance(1, 40) {
			en.sampled[pl.src]++
			e.Sample("roundtrip-"+sourceName[pl.src], map[string]any{"type": pl.typ.ID, "split": pl.split, "binder": pl.op, "sent": renderStruct(pl.typ, val)})
		}
		ran++
	})
	if e.Only == "" && ran >= 400 {
		for s := source(0); s < nSources; s++ {
			if en.tripsBy[s] == 0 {
				e.Inconclusive("no round trip through source " + sourceName[s])
			}
		}
	}

	en.keys()
	en.twoSources()
	// en.splitScalar() is not run: the statement covers comma-free values only under splitting (see extra.go)
	en.totality()
	en.mustFail()
	en.masked()
	en.notDoc()
	en.modeSeq()
	en.multiBind()
	en.afterFail() // last: see followup.go

	e.Stat("trips_total", en.g.trips())
}

// ---------------------------------------------------------------------------------------------
// fixed corpus: canonical witnesses (hand-picked edge inputs and every known finding)

type corpusCase struct {
	name  string
	src   source
	split bool
	op    string
	k     kind
	slice bool
	vals  []any
}

func mkVals(k kind, xs []any) []reflect.Value {
	out := make([]reflect.Value, len(xs))
	for i, x := range xs {
		v := reflect.New(kindType[k]).Elem()
		v.Set(reflect.ValueOf(x).Convert(kindType[k]))
		out[i] = v
	}
	return out
}

func (en *engine) corpus() {
	cases := []corpusCase{
		// DESIGN 3.C11 H: the client's Cookie is a map, one value per name
		{"cookie-slice-of-two", sCookie, false, "cookie", kString, true, []any{"a", "b"}},
		{"cookie-slice-of-two-ints", sCookie, false, "cookie", kInt32, true, []any{1, 2}},
		{"query-slice-of-two", sQuery, false, "query", kString, true, []any{"a", "b"}},
		{"header-slice-of-two", sHeader, false, "header", kString, true, []any{"a", "b"}},
		{"form-slice-of-two", sForm, false, "form", kString, true, []any{"a", "b"}},
		{"multipart-slice-of-two", sMultipart, false, "form", kString, true, []any{"a", "b"}},
		// mutant witnesses
		{"query-float-many-digits", sQuery, false, "query", kFloat64, false, []any{123456.789012345}},
		{"cookie-float-many-digits", sCookie, false, "cookie", kFloat64, false, []any{0.1234567891}},
		{"form-float32", sForm, false, "form", kFloat32, false, []any{float32(16777217)}},
		{"query-empty-element", sQuery, false, "query", kString, true, []any{"", "x"}},
		{"form-empty-element", sForm, false, "form", kString, true, []any{"x", ""}},
		{"multipart-empty-element", sMultipart, false, "form", kString, true, []any{"", ""}},
		{"header-empty-element", sHeader, false, "header", kString, true, []any{"", "x"}},
		// commas
		{"query-comma-split-off", sQuery, false, "query", kString, true, []any{"a,b"}},
		{"query-comma-scalar-split-off", sQuery, false, "query", kString, false, []any{"a,b"}},
		{"header-comma-split-off", sHeader, false, "header", kString, true, []any{"a,b", "c"}},
		{"form-comma-split-off", sForm, false, "form", kString, true, []any{",", ",,"}},
		// reserved characters
		{"query-reserved", sQuery, true, "query", kString, false, []any{"+&=%#;[]. /?:@!$'()*"}},
		{"form-reserved", sForm, false, "form", kString, true, []any{"+", "&", "=", "%", "#", ";", ",", "[", "]", "."}},
		{"multipart-crlf", sMultipart, false, "form", kString, false, []any{"a\r\nb\r\n--x"}},
		{"query-nul", sQuery, false, "query", kString, false, []any{"a\x00b"}},
		{"query-leading-trailing-space", sQuery, false, "query", kString, true, []any{" a ", "  "}},
		{"form-via-body", sForm, false, "body", kString, true, []any{"x y", "\u00e9"}},
		{"multipart-via-body", sMultipart, true, "body", kString, true, []any{"x y", "\u00e9"}},
		// numbers
		{"query-int64-min", sQuery, false, "query", kInt64, false, []any{int64(-1 << 63)}},
		{"query-uint64-max", sQuery, false, "query", kUint64, false, []any{^uint64(0)}},
		{"header-float-max", sHeader, false, "header", kFloat64, false, []any{1.7976931348623157e308}},
		{"cookie-float-denormal", sCookie, false, "cookie", kFloat64, false, []any{5e-324}},
		{"query-uint8-slice", sQuery, false, "query", kUint8, true, []any{uint8(0), uint8(255), uint8(7)}},
		{"json-uint8-slice", sJSON, false, "json", kUint8, true, []any{uint8(0), uint8(255), uint8(7)}},
		{"cbor-uint8-slice", sCBOR, false, "cbor", kUint8, true, []any{uint8(0), uint8(255), uint8(7)}},
		{"json-controls", sJSON, false, "json", kString, false, []any{"\x00\x01\r\n\t <>&"}},
		{"xml-markup", sXML, false, "xml", kString, true, []any{"<a>&amp;]]>", " \r\n\t", ""}},
		{"cbor-unicode", sCBOR, true, "body", kString, true, []any{"\U0001F600", ""}},
	}
	for _, cc := range cases {
		cc := cc
		en.e.Corpus(cc.name, func(c *ev.Case) {
			t := singleType(cc.k, cc.slice, cc.src == sXML)
			v := reflect.New(t.RT).Elem()
			fv := v.FieldByName(t.Fields[0].Name)
			vals := mkVals(cc.k, cc.vals)
			if cc.slice {
				sl := reflect.MakeSlice(fv.Type(), 0, len(vals))
				for _, x := range vals {
					sl = reflect.Append(sl, x)
				}
				fv.Set(sl)
			} else {
				fv.Set(vals[0])
			}
			en.judge(c, "roundtrip", plan{src: cc.src, split: cc.split, op: cc.op, auto: true, typ: t}, v)
			en.e.Nontrivial("corpus", cc.name)
		})
	}
	// server-side body handling: lazy multipart parsing / streaming, both entry points, a handler
	// that touches the body before the judged bind
	for _, src := range []source{sMultipart, sForm, sJSON} {
		for _, op := range []string{"body", opFor(src)} {
			for _, pre := range []string{"", "body-first", "multipartform-first"} {
				if pre == "multipartform-first" && src != sMultipart {
					continue
				}
				src, op, pre := src, op, pre
				en.e.Corpus("server-"+sourceName[src]+"-via-"+op+"-"+map[string]string{"": "plain", "body-first": "body-first", "multipartform-first": "multipartform-first"}[pre], func(c *ev.Case) {
					t := singleType(kString, true, false)
					for _, cfg := range []srvCfg{{lazy: true}, {stream: true}, {lazy: true, stream: true}} {
						v := reflect.New(t.RT).Elem()
						v.FieldByName(t.Fields[0].Name).Set(reflect.ValueOf([]string{"x y", "\u00e9"}))
						en.judge(c, "roundtrip", plan{src: src, op: op, auto: true, typ: t, lazy: cfg.lazy, strm: cfg.stream, pre: pre}, v)
					}
					en.e.Nontrivial("corpus", c.ID)
				})
			}
		}
	}
	en.e.Corpus("float-specials-text", func(c *ev.Case) {
		for _, src := range []source{sQuery, sForm, sMultipart, sHeader, sCookie, sXML, sCBOR} {
			for _, k := range []kind{kFloat32, kFloat64} {
				t := singleType(k, true, src == sXML)
				v := reflect.New(t.RT).Elem()
				var xs []any
				for _, f := range []float64{math.NaN(), math.Inf(1), math.Inf(-1), math.Copysign(0, -1), 0} {
					xs = append(xs, f)
				}
				fv := v.FieldByName(t.Fields[0].Name)
				sl := reflect.MakeSlice(fv.Type(), 0, 5)
				for _, x := range mkVals(k, xs) {
					sl = reflect.Append(sl, x)
				}
				fv.Set(sl)
				en.judge(c, "roundtrip", plan{src: src, op: opFor(src), typ: t}, v)
			}
		}
	})
}

// ---------------------------------------------------------------------------------------------
// bind.race

func runRace(e *ev.Env) {
	en := &engine{e: e, g: newRigs()}
	defer en.g.close()
	e.Note("domain", domainNote)
	e.Note("mode", "16 goroutines, each with its own app+listener+client and its own struct type, share the process-wide binder pools, schema decoder pools and schema type cache; a mismatch is re-run alone: if it also fails alone it is reported under the sequential signature, otherwise as race|...|concurrent-only")
	const G = 16
	var rg [G]*rigs
	for i := range rg {
		rg[i] = newRigs()
	}
	defer func() {
		for _, x := range rg {
			x.close()
		}
	}()
	per := e.N(80, 400)
	type failure struct {
		pl  plan
		val reflect.Value
		m   string
	}
	e.Cases("race", e.N(48, 600), func(c *ev.Case) {
		var wg sync.WaitGroup
		var fails [G][]failure
		var trips [G]int
		base := c.R.Intn(1 << 20)
		rs := make([]*gen.Rand, G)
		for g := range rs {
			rs[g] = c.R.Split()
		}
		for g := 0; g < G; g++ {
			wg.Add(1)
			go func(g int) {
				defer wg.Done()
				r := rs[g]
				for i := 0; i < per; i++ {
					pl := genPlan(r)
					fam := familyFor(pl.src)
					// distinct types across goroutines at any moment: index = g (mod 16)
					pl.typ = fam[((base+i)%(len(fam)/G))*G+g]
					d := newDomain(pl.src, pl.split)
					budget := d.budget / 4
					val := genStruct(r, d, pl.typ, &budget)
					pl.send = genSend(r, pl.src, pl.typ, val)
					pl.hdrs = genPreset(r, pl.src)
					pl.where = genWhere(r, pl)
					p := &probe{src: pl.src, op: pl.op, auto: pl.auto, typ: pl.typ, want: val, send: pl.send, pre: pl.pre, hdrs: pl.hdrs, where: pl.where}
					o := rg[g].getCfg(pl.cfg()).roundTrip(p)
					trips[g]++
					if m := o.manner(); m != "" && len(fails[g]) < 3 {
						fails[g] = append(fails[g], failure{pl, val, m})
					}
				}
			}(g)
		}
		wg.Wait()
		n := 0
		for g := 0; g < G; g++ {
			n += trips[g]
		}
		e.Eval(n)
		e.Stat("race_trips", int64(n))
		e.Nontrivial("race", c.ID)
		for g := 0; g < G; g++ {
			for _, f := range fails[g] {
				// alone, on the sequential rigs
				if m := en.judge(c, "roundtrip", f.pl, f.val); m == "" {
					e.Violation(c, "race|roundtrip|"+sourceName[f.pl.src]+"|concurrent-only|"+f.m,
						"round trip failed while 16 goroutines were binding concurrently, and holds when repeated alone",
						map[string]any{"type": f.pl.typ.ID, "binder": f.pl.op, "sent": renderStruct(f.pl.typ, f.val)})
				}
			}
		}
	})
}
