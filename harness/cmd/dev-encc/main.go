// dev-encc links only the encc engine (development builds).
package main

import (
	_ "verifharness/engines/encc"
	"verifharness/internal/reg"
)

func main() { reg.Main() }
