// dev-wire links only the wire engines (development binary).
package main

import (
	_ "verifharness/engines/wire"
	"verifharness/internal/reg"
)

func main() { reg.Main() }
