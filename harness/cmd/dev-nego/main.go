// dev-nego links only the nego engine (development build, see ENGINE_GUIDE.md).
package main

import (
	_ "verifharness/engines/nego"
	"verifharness/internal/reg"
)

func main() { reg.Main() }
