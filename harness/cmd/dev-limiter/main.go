// dev-limiter links only the limiter engine (development binary).
package main

import (
	_ "verifharness/engines/limiter"
	"verifharness/internal/reg"
)

func main() { reg.Main() }
