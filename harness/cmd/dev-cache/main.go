// dev-cache links only the cache engine (development binary).
package main

import (
	_ "verifharness/engines/cache"
	"verifharness/internal/reg"
)

func main() { reg.Main() }
