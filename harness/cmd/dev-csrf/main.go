// dev-csrf links only the csrf engine (development builds).
package main

import (
	_ "verifharness/engines/csrf"
	"verifharness/internal/reg"
)

func main() { reg.Main() }
