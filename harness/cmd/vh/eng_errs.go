package main

import _ "verifharness/engines/errs"
