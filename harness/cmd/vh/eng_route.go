package main

import _ "verifharness/engines/route"
