package main

import _ "verifharness/engines/cors"
