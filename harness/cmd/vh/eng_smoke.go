package main

import _ "verifharness/engines/smoke"
