// vh is the single engine binary of the harness: vh -engine <name> -tier quick|thorough
// -seed N -shard k -shards K -out result.json -journal file [-only caseid].
// It is built in three modes (vt / race / plain), see DESIGN.md 2.1.
// Engines are linked in by the eng_*.go files next to this one.
package main

import "verifharness/internal/reg"

func main() { reg.Main() }
