// vh is the single engine binary of the harness: vh -engine <name> -tier quick|thorough
// -seed N -shard k -shards K -out result.json -journal file [-only caseid].
// It is built in three modes (vt / race / plain), see DESIGN.md 2.1.
package main

import (
	"fmt"
	"os"

	"verifharness/internal/ev"
	"verifharness/internal/reg"

	_ "verifharness/engines/smoke"
)

func main() {
	env := ev.NewEnvFromFlags()
	if env.Engine == "list" || env.Engine == "" {
		for _, n := range reg.Names() {
			fmt.Println(n)
		}
		return
	}
	e, ok := reg.Get(env.Engine)
	if !ok {
		fmt.Fprintln(os.Stderr, "unknown engine", env.Engine)
		os.Exit(3)
	}
	e.Run(env)
	env.Finish()
	// Background goroutines of the code under test (tickers) must not keep a vt process alive.
	os.Exit(0)
}
