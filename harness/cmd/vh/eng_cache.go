package main

import _ "verifharness/engines/cache"
