package main

import _ "verifharness/engines/ctxiso"
