package main

import _ "verifharness/engines/session"
