package main

import _ "verifharness/engines/bind"
