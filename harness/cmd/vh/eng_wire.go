package main

import _ "verifharness/engines/wire"
