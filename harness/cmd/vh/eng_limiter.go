package main

import _ "verifharness/engines/limiter"
