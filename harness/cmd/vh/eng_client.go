package main

import _ "verifharness/engines/client"
