package main

import _ "verifharness/engines/encc"
