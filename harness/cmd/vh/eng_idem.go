package main

import _ "verifharness/engines/idem"
