package main

import _ "verifharness/engines/nego"
