package main

import _ "verifharness/engines/csrf"
