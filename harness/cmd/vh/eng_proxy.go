package main

import _ "verifharness/engines/proxy"
