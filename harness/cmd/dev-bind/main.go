// dev-bind links only the bind engine (development builds).
package main

import (
	_ "verifharness/engines/bind"
	"verifharness/internal/reg"
)

func main() { reg.Main() }
