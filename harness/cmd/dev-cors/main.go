// dev-cors links only the cors engine (development builds).
package main

import (
	_ "verifharness/engines/cors"
	"verifharness/internal/reg"
)

func main() { reg.Main() }
