// dev-session links only the session engine (development binary).
package main

import (
	_ "verifharness/engines/session"
	"verifharness/internal/reg"
)

func main() { reg.Main() }
