// dev-idem links only the idem engine (development binary).
package main

import (
	_ "verifharness/engines/idem"
	"verifharness/internal/reg"
)

func main() { reg.Main() }
