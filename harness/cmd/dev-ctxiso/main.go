// dev-ctxiso links only the ctxiso engines (development binary, see ENGINE_GUIDE.md).
package main

import (
	_ "verifharness/engines/ctxiso"
	"verifharness/internal/reg"
)

func main() { reg.Main() }
