// dev-errs builds only the errs engine (development binary).
package main

import (
	_ "verifharness/engines/errs"
	"verifharness/internal/reg"
)

func main() { reg.Main() }
