// dev-proxy links only the proxy engine (development build, see ENGINE_GUIDE.md).
package main

import (
	_ "verifharness/engines/proxy"
	"verifharness/internal/reg"
)

func main() { reg.Main() }
