package main

import (
	_ "verifharness/engines/route"
	"verifharness/internal/reg"
)

func main() { reg.Main() }
