package main

import (
	"verifharness/internal/ev"
	"verifharness/internal/reg"
)

func regMainNoExit() {
	env := ev.NewEnvFromFlags()
	e, _ := reg.Get(env.Engine)
	e.Run(env)
	env.Finish()
}
