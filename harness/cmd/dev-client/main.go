// dev-client links only the client engine (development builds).
package main

import (
	"os"
	"runtime/pprof"

	_ "verifharness/engines/client"
	"verifharness/internal/reg"
)

func main() {
	if p := os.Getenv("DEV_CPUPROFILE"); p != "" {
		f, _ := os.Create(p)
		_ = pprof.StartCPUProfile(f)
		defer pprof.StopCPUProfile()
		regMainNoExit()
		return
	}
	reg.Main()
}
