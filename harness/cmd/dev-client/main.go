// dev-client links only the client engine (development builds).
package main

import (
	_ "verifharness/engines/client"
	"verifharness/internal/reg"
)

func main() { reg.Main() }
