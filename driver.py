#!/usr/bin/env python3
"""Driver of the runtime-monitoring harness (DESIGN.md 2.8).

  driver.py <PROP> <quick|thorough>     run every sub-check of a property, write evidence
  driver.py replay <file>               re-execute one recorded case
  driver.py build [modes...]            build the engine binary in the given modes

Exit codes: 0 held (possibly with KNOWN-FINDING lines), 1 violation, 2 inconclusive/broken check.
Stdlib only.
"""
import concurrent.futures as cf
import fcntl
import hashlib
import json
import os
import re
import shutil
import struct
import subprocess
import sys
import time

ROOT = os.path.dirname(os.path.abspath(__file__))
HARNESS = os.path.join(ROOT, "harness")
BIN = os.path.join(ROOT, ".bin")
WORK = os.path.join(ROOT, "work")
REPLAYS = os.environ.get("VERIF_REPLAYS") or os.path.join(ROOT, "replays")
EVID = os.path.join(ROOT, "evidence")
NCPU = os.cpu_count() or 4

sys.path.insert(0, ROOT)
from checks_table import PROPS  # noqa: E402

GOENV = {
    "GOFLAGS": "-mod=mod",
    "GOPROXY": "off",
    "GOSUMDB": "off",
    "GOTOOLCHAIN": "local",
}

BUILD = {
    "plain": {"env": {}, "args": ["-tags", "verif"]},
    "vt": {"env": {"CGO_ENABLED": "0"}, "args": ["-tags", "verif faketime"]},
    "race": {"env": {"CGO_ENABLED": "1"}, "args": ["-race", "-tags", "verif"]},
}


def log(*a):
    print(*a, flush=True)


def goenv(extra=None):
    e = dict(os.environ)
    e.update(GOENV)
    e.pop("GOMAXPROCS", None)
    if extra:
        e.update(extra)
    return e


def build(mode):
    """Build cmd/vh in one mode from /repo's current tree. Returns (path, error)."""
    bindir = BIN
    extra = []
    alt = os.environ.get("VERIF_REPO")
    if alt:
        # sensitivity runs: build against another copy of the repository (a scratch worktree with a
        # seeded change) without touching /repo. Registered checks never set this.
        alt = os.path.abspath(alt)
        bindir = os.path.join(BIN, "alt-" + hashlib.sha1(alt.encode()).hexdigest()[:8])
        os.makedirs(bindir, exist_ok=True)
        mf = os.path.join(bindir, "go.mod")
        txt = open(os.path.join(HARNESS, "go.mod")).read().replace("=> /repo", "=> " + alt)
        open(mf, "w").write(txt)
        shutil.copy(os.path.join(HARNESS, "go.sum"), os.path.join(bindir, "go.sum"))
        extra = ["-modfile=" + mf]
    os.makedirs(bindir, exist_ok=True)
    out = os.path.join(bindir, "vh-" + mode)
    lock = open(os.path.join(bindir, ".lock-" + mode), "w")
    fcntl.flock(lock, fcntl.LOCK_EX)
    try:
        # keep go.sum in step with the repo (offline: only hashes already present are needed)
        gs = os.path.join(HARNESS, "go.sum")
        if not os.path.exists(gs):
            shutil.copy("/repo/go.sum", gs)
        cmd = ["go", "build"] + extra + BUILD[mode]["args"] + ["-o", out + ".new", "./cmd/vh"]
        p = subprocess.run(cmd, cwd=HARNESS, env=goenv(BUILD[mode]["env"]),
                           stdout=subprocess.PIPE, stderr=subprocess.STDOUT, text=True)
        if p.returncode != 0:
            return None, p.stdout
        os.replace(out + ".new", out)
        return out, None
    finally:
        fcntl.flock(lock, fcntl.LOCK_UN)
        lock.close()


def decode_playback(b):
    """Strip faketime playback framing (\\0\\0PB + 8B time + 4B len) from captured output."""
    out = bytearray()
    i = 0
    magic = b"\x00\x00PB"
    while i < len(b):
        j = b.find(magic, i)
        if j < 0:
            out += b[i:]
            break
        out += b[i:j]
        if j + 16 > len(b):
            break
        n = struct.unpack(">I", b[j + 12:j + 16])[0]
        out += b[j + 16:j + 16 + n]
        i = j + 16 + n
    return bytes(out)


def run_child(binpath, mode, engine, tier, seed, shard, shards, wdir, sub, only=None, tag=""):
    """Run one engine process. Returns dict(exit, result|None, stderr, last_case, timed_out)."""
    base = os.path.join(wdir, "%s-%s-%d%s" % (engine.replace("/", "_"), mode, shard, tag))
    outp, jrn, errp = base + ".json", base + ".journal", base + ".stderr"
    for p in (outp, outp + ".nt", jrn, errp):
        if os.path.exists(p):
            os.remove(p)
    args = [binpath, "-engine", engine, "-tier", tier, "-seed", str(seed), "-shard", str(shard),
            "-shards", str(shards), "-out", outp, "-journal", jrn]
    if only:
        args += ["-only", only, "-v"]
    env = dict(os.environ)
    if mode == "vt":
        env["GOMAXPROCS"] = "1"
    elif sub.get("gomaxprocs"):
        env["GOMAXPROCS"] = str(sub["gomaxprocs"])
    else:
        env.pop("GOMAXPROCS", None)
    if mode == "race":
        env["GORACE"] = "halt_on_error=0 log_path=%s.race" % base
    env["GOTRACEBACK"] = "all" if sub.get("traceback_all") else "single"
    for k, v in (sub.get("env") or {}).items():
        env[k] = str(v)
    tmo = sub.get("timeout", {}).get(tier, 600 if tier == "quick" else 3600)
    if only:
        tmo = min(tmo, 120)
    ulim = sub.get("ulimit_kb", 6 * 1024 * 1024)
    if mode == "race":
        ulim = 0  # the race runtime reserves huge virtual ranges
    sh = ""
    if ulim:
        sh += "ulimit -v %d; " % ulim
    sh += "exec timeout -s QUIT -k 10 %d " % tmo + " ".join("'%s'" % a.replace("'", "'\\''") for a in args)
    with open(errp, "wb") as ef:
        p = subprocess.run(["bash", "-c", sh], env=env, stdout=ef, stderr=subprocess.STDOUT, cwd=wdir)
    raw = open(errp, "rb").read()
    if mode == "vt":
        raw = decode_playback(raw)
    res = None
    if os.path.exists(outp):
        try:
            res = json.load(open(outp))
        except Exception:
            res = None
    last = None
    if os.path.exists(jrn):
        for line in open(jrn, errors="replace"):
            if line and not line.startswith("#"):
                last = line.strip()
    races = []
    if mode == "race":
        d = os.path.dirname(base)
        pref = os.path.basename(base) + ".race."
        for fn in os.listdir(d):
            if fn.startswith(pref):
                races += parse_race_log(open(os.path.join(d, fn), errors="replace").read())
    return {"exit": p.returncode, "result": res, "stderr": raw.decode("utf-8", "replace"),
            "last_case": last, "timed_out": p.returncode in (124, 137), "nt_file": outp + ".nt",
            "races": races, "shard": shard}


FIBER_FRAME = re.compile(r"^\s*(github\.com/gofiber/fiber/v3[^\s(]*|github\.com/valyala/fasthttp[^\s(]*|github\.com/gofiber/utils/v2[^\s(]*)")


def parse_race_log(text):
    """Split a race log into reports; each -> dict(stacks=[[funcs]...], fiber=[first fiber frame per stack])."""
    reps = []
    for blk in text.split("WARNING: DATA RACE")[1:]:
        blk = blk.split("==================")[0]
        stacks = []
        cur = None
        for line in blk.splitlines():
            if re.match(r"^(Read|Write|Previous read|Previous write|Goroutine) ", line):
                cur = []
                stacks.append((line.split(" by ")[0].split(" at ")[0].strip(), cur))
                continue
            if cur is not None and line.startswith("  ") and not line.startswith("      "):
                # "  github.com/x/y.(*T).method(args)" -> function name without the argument list
                fn = re.sub(r"\([^()]*\)$", "", line.strip())
                if fn:
                    cur.append(fn)
        acc = [s for s in stacks if not s[0].startswith("Goroutine")][:2]
        fib = []
        for _, fr in acc:
            f = next((x for x in fr if FIBER_FRAME.match(x)), None)
            fib.append(f)
        reps.append({"access": [a for a, _ in acc], "fiber": fib,
                     "stacks": [fr[:8] for _, fr in acc], "text": blk[:2500]})
    return reps


def crash_class(stderr):
    """Classify an abnormal exit from its (decoded) stderr."""
    m = re.search(r"^(fatal error: [^\n]+)", stderr, re.M)
    if m:
        msg = m.group(1)
        if "out of memory" in msg or "cannot allocate" in msg:
            return "oom", msg
        return "fatal", msg
    m = re.search(r"^panic: ([^\n]+)", stderr, re.M)
    if m:
        return "panic", "panic: " + m.group(1)
    if "SIGQUIT" in stderr:
        return "timeout", "SIGQUIT (watchdog)"
    if "checkptr" in stderr:
        return "checkptr", "checkptr"
    return "unknown", stderr[-300:]


def crash_site(stderr):
    """Innermost frame inside fiber (else fasthttp) of a Go crash dump, without arguments / line numbers;
    the same naming as ev.PanicSite in the harness."""
    first_fasthttp = None
    for line in stderr.splitlines():
        if line.startswith("\t") or not FIBER_FRAME.match(line):
            continue
        f = line.strip()
        if "(" in f:
            f = f[:f.rfind("(")]          # "pkg.(*T).method(0xc000…)" -> "pkg.(*T).method"
        if f.startswith("github.com/gofiber/fiber/v3"):
            return f[len("github.com/gofiber/fiber/v3"):].lstrip("/.")
        if first_fasthttp is None and f.startswith("github.com/valyala/fasthttp."):
            first_fasthttp = "fasthttp:" + f[len("github.com/valyala/fasthttp."):]
    return first_fasthttp or "unknown"


def sig_hash(s):
    return hashlib.sha1(s.encode()).hexdigest()[:10]


def load_known():
    p = os.path.join(ROOT, "known_findings.json")
    if not os.path.exists(p):
        return []
    return json.load(open(p)).get("findings", [])


def main_check(prop, tier):
    t0 = time.time()
    if prop not in PROPS:
        log("unknown property", prop)
        return 2
    spec = PROPS[prop]
    seed = int(os.environ.get("VERIF_SEED", "1") or "1")
    wdir = os.path.join(WORK, "%s-%s-%d" % (prop, tier, os.getpid()))
    shutil.rmtree(wdir, ignore_errors=True)
    os.makedirs(wdir)
    os.makedirs(REPLAYS, exist_ok=True)
    os.makedirs(EVID, exist_ok=True)

    subs = [s for s in spec["subs"] if tier in s.get("tiers", ["quick", "thorough"])]
    modes = sorted({s["mode"] for s in subs})
    bins = {}
    for m in modes:
        b, err = build(m)
        if err:
            log("BUILD-FAILED mode=%s\n%s" % (m, err[-4000:]))
            log("INCONCLUSIVE property=%s reason=build-failed" % prop)
            return 2
        bins[m] = b

    jobs = []
    for si, s in enumerate(subs):
        shards = s.get("shards", {}).get(tier, 8)
        reps = s.get("reps", {}).get(tier, 1)
        for rep in range(reps):
            for k in range(shards):
                jobs.append((si, s, k, shards, rep))
    maxpar = NCPU
    results = {si: [] for si in range(len(subs))}

    def work(j):
        si, s, k, shards, rep = j
        sd = seed + 7919 * rep
        r = run_child(bins[s["mode"]], s["mode"], s["engine"], tier, sd, k, shards, wdir, s,
                      tag="-r%d" % rep)
        r["seed"] = sd
        return si, r

    with cf.ThreadPoolExecutor(max_workers=maxpar) as ex:
        for si, r in ex.map(work, jobs):
            results[si].append(r)

    violations = {}   # sig -> dict
    inconclusive = []
    cov_subs = []
    total_eval = 0
    total_nt = 0
    samples = []
    stats_all = {}

    def add_violation(sig, what, sub, case, seedv, detail, count=1):
        v = violations.get(sig)
        if v is None:
            violations[sig] = {"sig": sig, "what": what, "engine": sub["engine"], "mode": sub["mode"],
                               "case": case, "seed": seedv, "detail": detail, "count": count}
        else:
            v["count"] += count

    for si, s in enumerate(subs):
        ev_sum = 0
        nt = set()
        nt_capped = False
        stats = {}
        notes = {}
        for r in results[si]:
            res = r["result"]
            if res is None or not res.get("completed"):
                cls, msg = crash_class(r["stderr"])
                case = r["last_case"]
                if cls == "timeout" or r["timed_out"]:
                    hang_ok = s.get("hang_is_violation")
                    if hang_ok and case:
                        # two-step confirmation: the case alone must again fail to finish
                        rr = run_child(bins[s["mode"]], s["mode"], s["engine"], tier, r["seed"], 0, 1, wdir, s,
                                       only=case, tag="-confirm")
                        if rr["timed_out"] or crash_class(rr["stderr"])[0] == "timeout":
                            add_violation("hang|" + s["engine"], "case does not complete (confirmed alone)", s, case,
                                          r["seed"], {"stderr_tail": rr["stderr"][-1500:]})
                            continue
                    inconclusive.append("%s shard %d: watchdog fired at case %s" % (s["engine"], r["shard"], case))
                    continue
                if cls in ("panic", "fatal", "oom", "checkptr"):
                    site = crash_site(r["stderr"])
                    if site == "unknown" and cls != "oom" and "verifharness" in r["stderr"]:
                        inconclusive.append("%s shard %d: harness crash %s" % (s["engine"], r["shard"], msg))
                        log("HARNESS-CRASH", s["engine"], msg)
                        log(r["stderr"][-3000:])
                        continue
                    add_violation("crash|%s|%s" % (cls, site), "process died: " + msg, s, case, r["seed"],
                                  {"stderr_tail": r["stderr"][-2500:]})
                    continue
                inconclusive.append("%s shard %d: exit %s without result (%s)" % (s["engine"], r["shard"], r["exit"], msg[-200:]))
                log(r["stderr"][-2000:])
                continue
            ev_sum += res["evaluations"]
            nt_capped = nt_capped or res.get("nontrivial_capped", False)
            try:
                b = open(r["nt_file"], "rb").read()
                nt.update(struct.unpack("<%dQ" % (len(b) // 8), b))
            except Exception:
                pass
            for k, v in (res.get("stats") or {}).items():
                if k.startswith("max_"):
                    stats[k] = max(stats.get(k, 0), v)
                else:
                    stats[k] = stats.get(k, 0) + v
            notes.update(res.get("notes") or {})
            for smp in (res.get("samples") or []):
                if len(samples) < 12 and sum(1 for x in samples if x.get("kind") == smp.get("kind")) < 2:
                    smp = dict(smp)
                    smp["engine"] = s["engine"]
                    samples.append(smp)
            counts = res.get("violation_counts") or {}
            seen = set()
            for v in (res.get("violations") or []):
                c = counts.get(v["sig"], 1) if v["sig"] not in seen else 0
                seen.add(v["sig"])
                add_violation(v["sig"], v["what"], s, v["case"], r["seed"], v.get("detail"), count=max(c, 0) or 0)
            for inc in (res.get("inconclusive") or []):
                inconclusive.append("%s: %s" % (s["engine"], inc))
            for rep in r["races"]:
                fib = [f for f in rep["fiber"] if f]
                if not fib:
                    inconclusive.append("%s: race report without fiber frame (harness race?)" % s["engine"])
                    log("HARNESS-RACE\n" + rep["text"])
                    continue
                names = sorted(re.sub(r"^github\.com/(gofiber/fiber/v3|valyala/|gofiber/)", "", f).lstrip("/.") for f in fib)
                add_violation("race|" + "|".join(names), "data race reported by the race detector", s,
                              r["last_case"], r["seed"], {"report": rep["text"]})
        need = s.get("min_nontrivial", {}).get(tier, 2)
        if len(nt) < need:
            inconclusive.append("%s: only %d distinct non-trivial cases (< %d)" % (s["engine"], len(nt), need))
        for k, mn in (s.get("require_stats") or {}).items():
            if stats.get(k, 0) < mn:
                inconclusive.append("%s: stat %s=%d below required %d" % (s["engine"], k, stats.get(k, 0), mn))
        total_eval += ev_sum
        total_nt += len(nt)
        for k, v in stats.items():
            stats_all[s["engine"] + "." + k] = v
        cov_subs.append({"engine": s["engine"], "mode": s["mode"], "processes": len(results[si]),
                         "evaluations": ev_sum, "distinct_nontrivial": len(nt),
                         "nontrivial_capped": nt_capped, "stats": stats, "notes": notes})

    known = [k for k in load_known() if k.get("property") == prop and k.get("status") == "open"]
    known_sigs = {k["signature"]: k for k in known}
    rc = 0
    nviol = 0
    known_seen = []
    for sig in sorted(violations):
        v = violations[sig]
        if sig in known_sigs:
            k = known_sigs[sig]
            log("KNOWN-FINDING: property=%s %s [%s] (x%d)" % (prop, k.get("what", v["what"]), sig, v["count"]))
            known_seen.append(sig)
            continue
        nviol += 1
        rp = os.path.join(REPLAYS, "%s-%s.json" % (prop, sig_hash(sig)))
        json.dump({"property": prop, "signature": sig, "what": v["what"], "engine": v["engine"],
                   "mode": v["mode"], "tier": tier, "seed": v["seed"], "case": v["case"],
                   "detail": v["detail"], "count": v["count"]}, open(rp, "w"), indent=1, default=str)
        log("VIOLATION property=%s replay=%s" % (prop, rp))
        log("  signature: %s" % sig)
        log("  what: %s  (case %s, x%d)" % (v["what"], v["case"], v["count"]))
        rc = 1
    for k in known:
        if k["signature"] not in known_seen:
            log("NOTE: known finding not observed in this run: %s" % k["signature"])

    wall = time.time() - t0
    evidence = {
        "property_id": prop, "tier": tier, "seed": seed, "level": spec["level"],
        "coverage": {
            "evaluations": total_eval, "distinct_nontrivial": total_nt,
            "rule": spec["rule"], "samples": samples or [{"note": "no samples recorded"}],
            "sub_checks": cov_subs, "known_findings_seen": known_seen,
            "inconclusive": inconclusive[:20],
        },
        "assumptions": spec.get("assumptions", []),
        "wall_s": round(wall, 2), "violations": nviol,
    }
    if spec.get("exhaustive_stat") and stats_all.get(spec["exhaustive_stat"], 0) > 0:
        evidence["coverage"]["exhaustive"] = True
    json.dump(evidence, open(os.path.join(EVID, prop + ".json"), "w"), indent=1, default=str)

    if rc == 0 and inconclusive:
        hard = [i for i in inconclusive if not i.startswith("case:")]
        for i in inconclusive[:20]:
            log("INCONCLUSIVE-CASE " + i)
        if any(("distinct non-trivial" in i) or ("below required" in i) or ("watchdog" in i) or
               ("without result" in i) or ("harness" in i) for i in hard):
            log("INCONCLUSIVE property=%s reason=%s" % (prop, hard[0]))
            rc = 2
    log("%s %s: evaluations=%d distinct_nontrivial=%d violations=%d known=%d wall=%.1fs -> exit %d" %
        (prop, tier, total_eval, total_nt, nviol, len(known_seen), wall, rc))
    if rc == 0 and not os.environ.get("VERIF_KEEP_WORK"):
        shutil.rmtree(wdir, ignore_errors=True)
    return rc


def main_replay(path):
    rp = json.load(open(path))
    b, err = build(rp["mode"])
    if err:
        log(err)
        return 2
    prop = rp["property"]
    sub = next((s for s in PROPS[prop]["subs"] if s["engine"] == rp["engine"] and s["mode"] == rp["mode"]), {"engine": rp["engine"], "mode": rp["mode"]})
    wdir = os.path.join(WORK, "replay-%d" % os.getpid())
    os.makedirs(wdir, exist_ok=True)
    r = run_child(b, rp["mode"], rp["engine"], rp["tier"], rp["seed"], 0, 1, wdir, sub, only=rp["case"], tag="-replay")
    log(r["stderr"][-6000:])
    res = r["result"]
    rc = 0
    if res is None or not res.get("completed"):
        log("replay: process died: %s" % (crash_class(r["stderr"])[1]))
        rc = 1
    else:
        sigs = sorted((res.get("violation_counts") or {}).keys())
        log("replay: case %s -> violations %s" % (rp["case"], sigs))
        if sigs:
            rc = 1
    shutil.rmtree(wdir, ignore_errors=True)
    return rc


def main():
    if len(sys.argv) >= 3 and sys.argv[1] == "replay":
        sys.exit(main_replay(sys.argv[2]))
    if len(sys.argv) >= 2 and sys.argv[1] == "build":
        for m in (sys.argv[2:] or ["plain", "vt", "race"]):
            b, err = build(m)
            if err:
                log(err)
                sys.exit(2)
            log("built", b)
        sys.exit(0)
    if len(sys.argv) < 2:
        log(__doc__)
        sys.exit(2)
    prop = sys.argv[1]
    tier = sys.argv[2] if len(sys.argv) > 2 else os.environ.get("VERIF_TIER", "quick")
    sys.exit(main_check(prop, tier))


if __name__ == "__main__":
    main()
