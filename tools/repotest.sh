#!/bin/bash
# Run the repo's tests for the given packages (default: root package) with hooks OFF; exit code is go test's.
export GOFLAGS=-mod=mod GOPROXY=off GOSUMDB=off GOTOOLCHAIN=local
cd /repo || exit 2
pk="$@"; [ -z "$pk" ] && pk="."
go test -vet=off -count=1 $pk > /tmp/repotest.log 2>&1
rc=$?
grep -E "^(--- FAIL|FAIL|ok|panic)" /tmp/repotest.log | head -40
exit $rc
