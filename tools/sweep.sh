#!/bin/bash
# sweep.sh <tier> [seed ...] : run every registered check at the given tier and seeds; summary of exit codes.
tier=${1:-quick}; shift; seeds=${@:-1}
cd /verif
props=$(python3 -c "import json;print(' '.join(c['property_id'] for c in json.load(open('MANIFEST.json'))['checks']))")
for sd in $seeds; do
  for p in $props; do
    out=$(VERIF_SEED=$sd ./check $p $tier 2>&1); rc=$?
    line=$(echo "$out" | tail -1)
    echo "seed=$sd $line"
    if [ $rc -ne 0 ]; then echo "$out" | grep -E "^(VIOLATION|  signature|  what|INCONCLUSIVE|BUILD-FAILED)" | head -12; fi
  done
done
