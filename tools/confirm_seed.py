#!/usr/bin/env python3
"""confirm_seed.py <PROP> <k> <srcdir> <pkg-rel-dir> : confirm a seeded change in a scratch worktree and
store it under /verif/seeded/<PROP>-<k>/ (patch.diff, demo_test.go, meta.json).
Confirms: patch applies, go build ./..., existing tests of root + touched packages pass,
demo fails with the change and passes without it."""
import json, os, re, subprocess, sys, shutil
prop, k, src, pkg = sys.argv[1:5]
env = dict(os.environ, GOFLAGS="-mod=mod", GOPROXY="off", GOSUMDB="off", GOTOOLCHAIN="local")
wt = "/tmp/confirm-%s-%s" % (prop, k)
def sh(cmd, cwd=None):
    p = subprocess.run(cmd, shell=True, cwd=cwd, env=env, stdout=subprocess.PIPE, stderr=subprocess.STDOUT, text=True, errors="replace")
    return p.returncode, p.stdout
subprocess.run(["git", "-C", "/repo", "worktree", "remove", "--force", wt], stderr=subprocess.DEVNULL)
rc, out = sh("git -C /repo worktree add -q --detach %s HEAD" % wt)
assert rc == 0, out
meta = {"property": prop, "seed": k, "repo_head": sh("git -C /repo rev-parse --short HEAD")[1].strip()}
try:
    demo = open(os.path.join(src, "demo_test.go")).read()
    tests = re.findall(r"^func (Test\w+)\(", demo, re.M)
    run = "^(" + "|".join(tests) + ")$"
    pkgdir = os.path.join(wt, pkg)
    shutil.copy(os.path.join(src, "demo_test.go"), os.path.join(pkgdir, "zz_seed_demo_test.go"))
    rc0, out0 = sh("go test -vet=off -count=1 -run '%s' ." % run, cwd=pkgdir)
    meta["demo_without_change"] = "pass" if rc0 == 0 else "FAIL"
    rc, out = sh("git apply %s" % os.path.join(src, "patch.diff"), cwd=wt)
    meta["patch_applies"] = rc == 0
    touched = sorted({os.path.dirname(l[6:]) or "." for l in open(os.path.join(src, "patch.diff")) if l.startswith("+++ b/")})
    meta["touched_packages"] = touched
    rc, out = sh("go build ./...", cwd=wt)
    meta["builds"] = rc == 0
    rc1, out1 = sh("go test -vet=off -count=1 -run '%s' ." % run, cwd=pkgdir)
    meta["demo_with_change"] = "pass" if rc1 == 0 else "FAIL"
    meta["demo_output_with_change"] = out1[-1500:]
    os.remove(os.path.join(pkgdir, "zz_seed_demo_test.go"))
    pk = " ".join(sorted({"./" + t if t != "." else "." for t in touched} | {"."}))
    rc2, out2 = sh("go test -vet=off -count=1 %s" % pk, cwd=wt)
    fails = [l for l in out2.splitlines() if l.startswith("--- FAIL")]
    if rc2 != 0 and fails:
        # timing/port-sensitive tests of the repository fail sporadically on a loaded machine:
        # re-run the failed top-level tests alone, up to 3 times; only a persistent failure counts
        names = sorted({re.match(r"--- FAIL: (\w+)", l).group(1) for l in fails if re.match(r"--- FAIL: (\w+)", l)})
        meta["existing_tests_retried"] = names
        for _ in range(3):
            rc2, out2b = sh("go test -vet=off -count=1 -run '^(%s)$' %s" % ("|".join(names), pk), cwd=wt)
            if rc2 == 0:
                break
            fails = [l for l in out2b.splitlines() if l.startswith("--- FAIL")]
    meta["existing_tests_cmd"] = "go test -vet=off -count=1 " + pk
    meta["existing_tests"] = "pass" if rc2 == 0 else "FAIL: " + "; ".join(fails)[:500]
    meta["demo_tests"] = tests
    meta["demo_package_dir"] = pkg
    ok = meta["patch_applies"] and meta["builds"] and rc0 == 0 and rc1 != 0 and rc2 == 0
    meta["confirmed"] = ok
    notes = os.path.join(src, "notes.md")
    if os.path.exists(notes):
        meta["needs_to_manifest"] = open(notes).read()[:3000]
    dst = "/verif/seeded/%s-%s" % (prop, k)
    os.makedirs(dst, exist_ok=True)
    shutil.copy(os.path.join(src, "patch.diff"), dst)
    shutil.copy(os.path.join(src, "demo_test.go"), dst)
    json.dump(meta, open(os.path.join(dst, "meta.json"), "w"), indent=1)
    print(prop, k, "confirmed" if ok else "NOT CONFIRMED", {x: meta[x] for x in ("demo_without_change", "demo_with_change", "existing_tests", "builds")})
finally:
    subprocess.run(["git", "-C", "/repo", "worktree", "remove", "--force", wt])
