#!/bin/bash
# seedtest.sh <PROP> <patch.diff> [tier] : apply a seeded change to a scratch worktree of /repo, run the
# property's check against it (VERIF_REPO), print verdict lines, remove the worktree.
prop=$1; patch=$(readlink -f "$2"); tier=${3:-quick}
wt=/tmp/seedwt-$prop-$$
git -C /repo worktree add -q --detach "$wt" HEAD || exit 2
if ! git -C "$wt" apply "$patch"; then echo "PATCH-DOES-NOT-APPLY"; git -C /repo worktree remove --force "$wt"; exit 3; fi
cd /verif && VERIF_REPLAYS=/tmp/seedtest-replays-$$ VERIF_REPO="$wt" ./check "$prop" "$tier" > /tmp/seedtest-$prop-$$.log 2>&1; rc=$?
grep -E "^(VIOLATION|  signature|  what|KNOWN-FINDING|INCONCLUSIVE|BUILD-FAILED|$prop )" /tmp/seedtest-$prop-$$.log | cut -c1-300
echo "exit=$rc"
git -C /repo worktree remove --force "$wt"
alt=$(python3 -c "import hashlib,sys;print(hashlib.sha1(sys.argv[1].encode()).hexdigest()[:8])" "$wt"); rm -rf /tmp/seedtest-replays-$$ /verif/.bin/alt-$alt /tmp/seedtest-$prop-$$.log
exit $rc
