#!/usr/bin/env python3
"""sweep_summary.py <log> [<log> ...]: summarise sweep logs (lines 'seed=<n> <ID> <tier>: evaluations=… -> exit <rc>') into sweeps/SUMMARY.md."""
import re, sys, collections
rows = collections.OrderedDict()
for f in sys.argv[1:]:
    for l in open(f, errors="replace"):
        m = re.match(r"seed=(\d+) (C\d\d) (quick|thorough): evaluations=(\d+) distinct_nontrivial=(\d+) violations=(\d+) known=(\d+) wall=([\d.]+)s -> exit (\d+)", l)
        if m:
            sd, p, tier, ev, nt, v, k, w, rc = m.groups()
            rows[(p, tier, int(sd))] = (int(ev), int(nt), int(v), int(k), float(w), int(rc))   # a later log overrides an earlier one
out = ["Sweeps of every registered check on the unchanged tree (final `/repo` HEAD, engines frozen), each run a fresh",
       "process building from the working tree. `known` = KNOWN-FINDING lines printed (exit 0); a non-zero exit would be",
       "listed explicitly.", ""]
for tier in ("quick", "thorough"):
    seeds = sorted({k[2] for k in rows if k[1] == tier})
    if not seeds:
        continue
    out += ["**%s tier**, seeds %s:" % (tier, ", ".join(map(str, seeds))), "",
            "| prop | " + " | ".join("seed %d" % s for s in seeds) + " | evaluations (seed %d) | distinct non-trivial (seed %d) |" % (seeds[0], seeds[0]),
            "|---|" + "---|" * (len(seeds) + 2)]
    for p in sorted({k[0] for k in rows if k[1] == tier}):
        cells = []
        for s in seeds:
            r = rows.get((p, tier, s))
            cells.append("–" if r is None else ("exit %d%s, %.0f s" % (r[5], (" (known %d)" % r[3]) if r[3] else "", r[4])))
        r0 = rows.get((p, tier, seeds[0])) or (0, 0)
        out.append("| %s | %s | %d | %d |" % (p, " | ".join(cells), r0[0], r0[1]))
    bad = [(k, r) for k, r in rows.items() if k[1] == tier and r[5] != 0]
    out += ["", "Non-zero exits: %s." % (", ".join("%s seed %d (exit %d)" % (k[0], k[2], r[5]) for k, r in bad) if bad else "none"), ""]
open("/verif/sweeps/SUMMARY.md", "w").write("\n".join(out) + "\n")
print("\n".join(out)[:1500])
