#!/usr/bin/env python3
"""Runs the repository's pinned suite with the verif guard OFF and compares with BASELINE.json:stable_pass."""
import json, subprocess, sys, os
env = dict(os.environ, GOFLAGS="-mod=mod", GOPROXY="off", GOSUMDB="off", GOTOOLCHAIN="local")
p = subprocess.run("cd /repo && go test -mod=mod -json -vet=off -count=1 -timeout 25m ./...", shell=True, env=env,
                   stdout=subprocess.PIPE, stderr=subprocess.STDOUT, text=True)
passed, failed = set(), set()
for line in p.stdout.splitlines():
    try:
        e = json.loads(line)
    except Exception:
        continue
    if e.get("Test") and e.get("Action") in ("pass", "fail"):
        k = e["Package"] + "::" + e["Test"]
        (passed if e["Action"] == "pass" else failed).add(k)
base = json.load(open("/root/.vp/BASELINE.json"))
stable = set(base["stable_pass"])
missing = sorted(stable - passed)
print("stable_pass:", len(stable), "passed now:", len(passed), "failed now:", len(failed))
print("stable tests not passing now:", len(missing))
for m in missing[:40]:
    print("  ", m, "(FAILED)" if m in failed else "(not run)")
print("failing (not in stable set):", sorted(failed - stable)[:10])
sys.exit(1 if missing else 0)
