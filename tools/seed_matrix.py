#!/usr/bin/env python3
"""seed_matrix.py [-j N] [name ...]: run the quick check of each kept seeded change's property against a
scratch worktree with the change applied (tools/seedtest.sh, VERIF_REPO) and write
  seeded/RESULTS.md         breaking changes: which signatures fired (expected: DETECTED)
  seeded-benign/RESULTS.md  property-preserving changes: expected silent (exit 0)
Names select directories of either set (default: all)."""
import json, os, re, subprocess, sys
from concurrent.futures import ThreadPoolExecutor

args = sys.argv[1:]
jobs = 3
if args and args[0] == "-j":
    jobs = int(args[1]); args = args[2:]
SETS = [("/verif/seeded", False), ("/verif/seeded-benign", True)]


def run(root, n, benign):
    prop = n[:3]
    patch = os.path.join(root, n, "patch.diff")
    meta_p = os.path.join(root, n, "meta.json")
    meta = json.load(open(meta_p)) if os.path.exists(meta_p) else {}
    # a change its author filed under one property may break another one's statement instead
    # (meta "checked_by"): it is then run against that property's check, and says so in the verdict
    other = meta.get("checked_by")
    if other:
        prop = other
    p = subprocess.run(["/verif/tools/seedtest.sh", prop, patch], stdout=subprocess.PIPE, stderr=subprocess.STDOUT,
                       text=True, errors="replace")
    sigs = re.findall(r"signature: (.*)", p.stdout)
    m = re.search(r"exit=(\d+)", p.stdout)
    rc = m.group(1) if m else "?"
    if "PATCH-DOES-NOT-APPLY" in p.stdout:
        status = "patch does not apply"
    elif benign:
        status = "silent" if rc == "0" else ("ALARM" if rc == "1" else "inconclusive (exit %s)" % rc)
    else:
        status = "DETECTED" if rc == "1" else "missed (exit %s)" % rc
        if other:
            status += " by the %s check" % other
    meta["quick_check_verdict"] = status
    meta["quick_check_signatures"] = sigs[:8]
    meta["quick_check_repo_head"] = subprocess.run(["git", "-C", "/repo", "rev-parse", "--short", "HEAD"],
                                                    stdout=subprocess.PIPE, text=True).stdout.strip()
    json.dump(meta, open(meta_p, "w"), indent=1)
    print(n, status, sigs[:2], flush=True)
    return n, status, sigs[:4]


def title(root, n):
    try:
        m = json.load(open(os.path.join(root, n, "meta.json")))
    except Exception:
        m = {}
    t = m.get("title")
    if not t:
        txt = m.get("needs_to_manifest") or ""
        np = os.path.join(root, n, "notes.md")
        if not txt and os.path.exists(np):
            txt = open(np, errors="replace").read()
        t = next((l.strip("# ").strip() for l in txt.splitlines() if l.strip()), "")
        t = re.sub(r"^C\d\d\s*(/|seed|-)?\s*(change|seed)?\s*\d*\s*[—–-]+\s*", "", t)
    return t[:160].replace("|", "\\|")


for root, benign in SETS:
    if not os.path.isdir(root):
        continue
    allnames = sorted(d for d in os.listdir(root) if os.path.isdir(os.path.join(root, d)))
    names = [n for n in allnames if not args or n in args]
    if not names:
        continue
    with ThreadPoolExecutor(jobs) as ex:
        rows = list(ex.map(lambda n: run(root, n, benign), names))
    res = {}
    for n in allnames:
        try:
            m = json.load(open(os.path.join(root, n, "meta.json")))
            res[n] = (m.get("quick_check_verdict", "not run"), m.get("quick_check_signatures", [])[:4])
        except Exception:
            res[n] = ("not run", [])
    with open(os.path.join(root, "RESULTS.md"), "w") as f:
        if benign:
            f.write("# Property-preserving changes vs. quick checks (expected: silent)\n\n| change | what it changes | verdict of `./check <prop> quick` on the changed tree |\n|---|---|---|\n")
            for n in allnames:
                f.write("| %s | %s | %s |\n" % (n, title(root, n), res[n][0]))
        else:
            f.write("# Seeded breaking changes vs. quick checks (expected: DETECTED)\n\n| seed | change | verdict | first signatures |\n|---|---|---|---|\n")
            for n in allnames:
                f.write("| %s | %s | %s | %s |\n" % (n, title(root, n), res[n][0], "<br>".join("`%s`" % s.replace("|", "\\|") for s in res[n][1])))
