#!/usr/bin/env python3
"""seed_matrix.py [PROP-k ...]: run the quick check of each kept seeded change's property against a scratch
worktree with the change applied and write /verif/seeded/RESULTS.md (which signatures fired)."""
import json, os, re, subprocess, sys
root = "/verif/seeded"
names = sys.argv[1:] or sorted(d for d in os.listdir(root) if os.path.isdir(os.path.join(root, d)))
rows = []
for n in names:
    prop = n[:3]
    patch = os.path.join(root, n, "patch.diff")
    p = subprocess.run(["/verif/tools/seedtest.sh", prop, patch], stdout=subprocess.PIPE, stderr=subprocess.STDOUT, text=True)
    sigs = re.findall(r"signature: (.*)", p.stdout)
    m = re.search(r"exit=(\d+)", p.stdout)
    rc = m.group(1) if m else "?"
    status = "DETECTED" if rc == "1" else ("patch does not apply" if "PATCH-DOES-NOT-APPLY" in p.stdout else "missed (exit %s)" % rc)
    rows.append((n, status, sigs[:4]))
    meta_p = os.path.join(root, n, "meta.json")
    if os.path.exists(meta_p):
        meta = json.load(open(meta_p))
        meta["quick_check_verdict"] = status
        meta["quick_check_signatures"] = sigs[:8]
        json.dump(meta, open(meta_p, "w"), indent=1)
    print(n, status, sigs[:2], flush=True)
with open(os.path.join(root, "RESULTS.md"), "w") as f:
    f.write("# Seeded changes vs. quick checks\n\n| seed | verdict of `./check <prop> quick` on the changed tree | first signatures |\n|---|---|---|\n")
    for n, st, sg in rows:
        f.write("| %s | %s | %s |\n" % (n, st, "<br>".join("`%s`" % s for s in sg)))
