#!/usr/bin/env python3
"""fill_design.py: copy the seed / benign result tables (seeded/*/meta.json, seeded-benign/*/meta.json) and the
sweep summary (sweeps/SUMMARY.md) into the marked blocks of DESIGN.md."""
import json, os, re
ROOT = "/verif"

def title(d):
    try:
        m = json.load(open(os.path.join(d, "meta.json")))
    except Exception:
        m = {}
    txt = m.get("needs_to_manifest") or ""
    np = os.path.join(d, "notes.md")
    if not txt and os.path.exists(np):
        txt = open(np, errors="replace").read()
    t = next((l.strip("# ").strip() for l in txt.splitlines() if l.strip()), "")
    t = re.sub(r"^C\d\d\s*(/|seed|-)?\s*(change|seed)?\s*\d*\s*[—–-]+\s*", "", t)
    t = re.sub(r"^\*\*|\*\*$", "", t)
    return t[:150].replace("|", "\\|"), m

def block(s, name, body):
    a, b = "<!-- BEGIN:%s -->" % name, "<!-- END:%s -->" % name
    i, j = s.index(a) + len(a), s.index(b)
    return s[:i] + "\n" + body.rstrip("\n") + "\n" + s[j:]

s = open(os.path.join(ROOT, "DESIGN.md")).read()
rows = ["| seed | change (first line of the author's notes) | quick check on the changed tree | first signatures |", "|---|---|---|---|"]
det = miss = other = 0
for n in sorted(os.listdir(os.path.join(ROOT, "seeded"))):
    d = os.path.join(ROOT, "seeded", n)
    if not os.path.isdir(d):
        continue
    t, m = title(d)
    v = m.get("quick_check_verdict", "not run")
    det += v.startswith("DETECTED"); miss += v.startswith("missed"); other += not (v.startswith("DETECTED") or v.startswith("missed"))
    sg = "<br>".join("`%s`" % x.replace("|", "\\|") for x in (m.get("quick_check_signatures") or [])[:2])
    rows.append("| %s | %s | %s | %s |" % (n, t, v, sg))
rows.append("")
rows.append("Totals: %d detected, %d missed, %d other (patch no longer applies / not run)." % (det, miss, other))
s = block(s, "seed-table", "\n".join(rows))
rows = ["| change | what it changes (first line of the author's notes) | quick check on the changed tree |", "|---|---|---|"]
for n in sorted(os.listdir(os.path.join(ROOT, "seeded-benign"))):
    d = os.path.join(ROOT, "seeded-benign", n)
    if not os.path.isdir(d):
        continue
    t, m = title(d)
    rows.append("| %s | %s | %s |" % (n, t, m.get("quick_check_verdict", "not run")))
s = block(s, "benign-table", "\n".join(rows))
sp = os.path.join(ROOT, "sweeps", "SUMMARY.md")
if os.path.exists(sp):
    s = block(s, "sweeps", open(sp).read())
open(os.path.join(ROOT, "DESIGN.md"), "w").write(s)
print("seeds: %d detected, %d missed, %d other" % (det, miss, other))
